"""Parser for canopy's PEG syntax (the subset its meta-grammar defines that akn.peg may use), and the
grammar AST shared by gen_grammar.py and decompile_canopy.py.

AST (python tuples):
  ('lit', str) ('cls', class_text) ('ref', name) ('seq', [expr], [(label, index)]) ('alt', [expr])
  ('opt', e) ('star', e) ('plus', e) ('and', e) ('not', e) ('typed', e, typename)
"""
import re
from coqgen import TranslateError, ranges_of, coq_ranges, coq_str, MAXCP

IDENT = re.compile(r'[a-zA-Z_][a-zA-Z0-9_]*')


class PegParser:
    def __init__(self, text):
        self.s = text
        self.i = 0
        self.n = len(text)

    def err(self, msg):
        line = self.s.count('\n', 0, self.i) + 1
        raise TranslateError('akn.peg line %d: %s (at %r)' % (line, msg, self.s[self.i:self.i + 30]))

    def ws(self):
        """skip whitespace and comments; returns True if anything was skipped"""
        j = self.i
        while self.i < self.n:
            c = self.s[self.i]
            if c in ' \t\n\r':
                self.i += 1
            elif c == '#':
                while self.i < self.n and self.s[self.i] != '\n':
                    self.i += 1
            else:
                break
        return self.i > j

    def ident(self):
        m = IDENT.match(self.s, self.i)
        if not m:
            return None
        self.i = m.end()
        return m.group(0)

    def grammar(self):
        self.ws()
        if not self.s.startswith('grammar', self.i):
            self.err('expected "grammar"')
        self.i += len('grammar')
        if self.s[self.i] == ':':
            self.i += 1
        self.ws()
        name = self.ident()
        rules = []
        while True:
            self.ws()
            if self.i >= self.n:
                break
            rules.append(self.rule())
        if not rules:
            self.err('no rules')
        names = [r[0] for r in rules]
        if len(set(names)) != len(names):
            self.err('duplicate rule names')
        return name, rules

    def rule(self):
        name = self.ident()
        if not name:
            self.err('expected rule name')
        if not self.ws():
            self.err('expected whitespace before <-')
        if not self.s.startswith('<-', self.i):
            self.err('expected <-')
        self.i += 2
        if not self.ws():
            self.err('expected whitespace after <-')
        return name, self.parsing_expression()

    def parsing_expression(self):
        first = self.choice_part()
        alts = [first]
        while True:
            save = self.i
            self.ws()
            if self.i < self.n and self.s[self.i] == '/':
                self.i += 1
                self.ws()
                alts.append(self.choice_part())
            else:
                self.i = save
                break
        return alts[0] if len(alts) == 1 else ('alt', alts)

    def choice_part(self):
        parts = [self.sequence_part()]
        while True:
            save = self.i
            if not self.ws():
                break
            p = self.try_sequence_part()
            if p is None:
                self.i = save
                break
            parts.append(p)
        if len(parts) == 1 and parts[0][0] is None:
            e = parts[0][1]
        else:
            labels = []
            for idx, (lab, ex) in enumerate(parts):
                if lab is not None:
                    labels.append((lab, idx))
                if ex[0] == 'ref' and ex[1] != lab:
                    labels.append((ex[1], idx))
            names = [l for l, _ in labels]
            if len(set(names)) != len(names):
                # canopy: the first occurrence of a label wins
                seen, out = set(), []
                for l, ix in labels:
                    if l not in seen:
                        seen.add(l); out.append((l, ix))
                labels = out
            e = ('seq', [ex for _, ex in parts], sorted(labels, key=lambda x: (x[1], x[0])))
        # optional type tag
        save = self.i
        if self.ws() and self.i < self.n and self.s[self.i] == '<' and not self.s.startswith('<-', self.i):
            self.i += 1
            t = self.ident()
            while self.i < self.n and self.s[self.i] == '.':
                self.i += 1
                t += '.' + self.ident()
            if self.i >= self.n or self.s[self.i] != '>':
                self.err('expected > after type name')
            self.i += 1
            return ('typed', e, t)
        self.i = save
        return e

    def try_sequence_part(self):
        save = self.i
        if self.i >= self.n:
            return None
        c = self.s[self.i]
        if c in '/)<%':
            return None
        # a new rule starts here?  identifier followed by whitespace and <-
        m = IDENT.match(self.s, self.i)
        if m and re.match(r'\s+<-', self.s[m.end():m.end() + 200]):
            return None
        try:
            return self.sequence_part()
        except TranslateError:
            self.i = save
            raise

    def sequence_part(self):
        label = None
        m = IDENT.match(self.s, self.i)
        if m and self.s[m.end():m.end() + 1] == ':':
            label = m.group(0)
            self.i = m.end() + 1
        c = self.s[self.i] if self.i < self.n else ''
        if c in '&!':
            self.i += 1
            self.ws()
            a = self.atom()
            return (label, ('and' if c == '&' else 'not', a))
        a = self.atom()
        q = self.s[self.i] if self.i < self.n else ''
        if q == '?':
            self.i += 1; a = ('opt', a)
        elif q == '*':
            self.i += 1; a = ('star', a)
        elif q == '+':
            self.i += 1; a = ('plus', a)
        elif q == '{':
            self.err('{n,m} repetition is not supported by the model')
        return (label, a)

    def atom(self):
        if self.i >= self.n:
            self.err('unexpected end')
        c = self.s[self.i]
        if c == '(':
            self.i += 1
            self.ws()
            e = self.parsing_expression()
            self.ws()
            if self.i >= self.n or self.s[self.i] != ')':
                self.err('expected )')
            self.i += 1
            return e
        if c in '\'"':
            return ('lit', self.string(c))
        if c == '`':
            self.err('case-insensitive literals are not supported by the model')
        if c == '[':
            return ('cls', self.char_class())
        if c == '.':
            self.i += 1
            return ('cls', '[\\s\\S]')
        name = self.ident()
        if not name:
            self.err('expected an atom')
        return ('ref', name)

    def string(self, q):
        """canopy evaluates the literal like a JS/JSON string: backslash escapes \\n \\t \\r \\\\ \\' \\" \\xHH \\uHHHH"""
        self.i += 1
        out = []
        while True:
            if self.i >= self.n:
                self.err('unterminated string')
            c = self.s[self.i]
            if c == q:
                self.i += 1
                break
            if c == '\\':
                d = self.s[self.i + 1]
                if d == 'x':
                    out.append(chr(int(self.s[self.i + 2:self.i + 4], 16))); self.i += 4
                elif d == 'u':
                    out.append(chr(int(self.s[self.i + 2:self.i + 6], 16))); self.i += 6
                else:
                    out.append({'n': '\n', 't': '\t', 'r': '\r', 'b': '\b', 'f': '\f', 'v': '\v', '0': '\0'}.get(d, d))
                    self.i += 2
            else:
                out.append(c); self.i += 1
        return ''.join(out)

    def char_class(self):
        """returns the class text, brackets included, exactly as written (canopy hands it to the regex engine)"""
        j = self.i
        self.i += 1
        if self.s[self.i] == '^':
            self.i += 1
        while True:
            if self.i >= self.n:
                self.err('unterminated character class')
            c = self.s[self.i]
            if c == '\\':
                self.i += 2
            elif c == ']':
                self.i += 1
                break
            else:
                self.i += 1
        return self.s[j:self.i]


_CLS_CACHE = {}

def class_ranges(pattern):
    """Tabulate a one-character regex (given as a pattern string anchored with ^) over all scalar values."""
    if pattern not in _CLS_CACHE:
        rx = re.compile(pattern)
        _CLS_CACHE[pattern] = ranges_of(lambda c: not (0xD800 <= c <= 0xDFFF) and rx.search(chr(c)) is not None)
    return _CLS_CACHE[pattern]


def emit_expr(e, cls_ranges):
    k = e[0]
    if k == 'lit':
        return '(Lit %s)' % coq_str(e[1])
    if k == 'cls':
        return '(Cls %s)' % coq_ranges(cls_ranges(e[1]))
    if k == 'ref':
        return '(Ref %s)' % coq_str(e[1])
    if k == 'seq':
        return '(Seq [%s] [%s])' % ('; '.join(emit_expr(x, cls_ranges) for x in e[1]),
                                    '; '.join('(%s, %d%%nat)' % (coq_str(l), i) for l, i in e[2]))
    if k == 'alt':
        return '(Alt [%s])' % '; '.join(emit_expr(x, cls_ranges) for x in e[1])
    if k in ('opt', 'star', 'plus', 'and', 'not'):
        return '(%s %s)' % ({'opt': 'Opt', 'star': 'Star', 'plus': 'Plus', 'and': 'And', 'not': 'Not'}[k], emit_expr(e[1], cls_ranges))
    if k == 'typed':
        return '(Typed %s %s)' % (emit_expr(e[1], cls_ranges), coq_str(e[2]))
    raise TranslateError('unknown expr %r' % (k,))


def emit_grammar(name, rules, cls_ranges, source):
    txt = '(* GENERATED by /verif/tools/%s from /repo on every run. Do not edit. *)\n' % source
    txt += 'Require Import BB.Base.Str BB.Model.PegSyntax.\nOpen Scope N_scope.\n\n'
    txt += 'Definition %s : grammar :=\n  [' % name
    txt += ';\n   '.join('(%s,\n    %s)' % (coq_str(n), emit_expr(e, cls_ranges)) for n, e in rules)
    txt += '].\n'
    return txt
