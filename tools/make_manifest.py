#!/venv/bin/python
"""Writes MANIFEST.json from the property modules (tools/props/Cxx.py) and properties.jsonl."""
import json, os, sys, importlib
HERE = os.path.dirname(os.path.abspath(__file__))
VERIF = os.path.dirname(HERE)
sys.path.insert(0, HERE)

def main():
    props = [json.loads(l) for l in open(os.path.join(VERIF, 'properties.jsonl'))]
    checks, na = [], []
    for p in props:
        pid = p['id']
        path = os.path.join(HERE, 'props', pid + '.py')
        mod = None
        if os.path.exists(path):
            mod = importlib.import_module('props.' + pid)
        if mod is None or not getattr(mod, 'CLAIMED', True):
            na.append({'property_id': pid, 'reason': getattr(mod, 'NA_REASON', 'check not built yet in this development (see DESIGN.md section 5 for the order of work); not claimed until its theorem file and correspondence stage exist')})
            continue
        checks.append({
            'property_id': pid,
            'quick_cmd': './check %s --tier quick' % pid,
            'thorough_cmd': './check %s --tier thorough' % pid,
            'evidence_file': '/verif/evidence/%s.json' % pid,
            'replay_cmd_template': './check %s --replay {path}' % pid,
            'engine': 'rocq-model',
            'level_claimed': {'category': getattr(mod, 'LEVEL', 'proof'), 'text': mod.LEVEL_TEXT, 'design_ref': 'DESIGN.md section 4, ' + pid},
            'level_note': mod.LEVEL_NOTE,
            'technique': mod.TECHNIQUE,
        })
    m = {
        'version': 1,
        'setup_cmd': 'cd /verif && tools/setup.sh',
        'hooks': {
            'guard': 'BLUEBELL_VERIF',
            'enable': 'no hooks are needed: every observable used by the checks is public API of bluebell (DESIGN.md 2.11)',
            'baseline_off_cmd': 'cd /repo && /venv/bin/python -m pytest -ra -q -p no:cacheprovider --timeout=900 --continue-on-collection-errors',
            'source_commits': [],
            'add_only': True,
        },
        'engines': [{
            'name': 'rocq-model', 'path': '/verif/coq',
            'serves_properties': [c['property_id'] for c in checks],
            'kind_free_text': 'Coq 8.16 development: executable Gallina model of bluebell (tables regenerated from /repo on every run), theorems per property, OCaml extraction for the stage-by-stage correspondence run against the implementation, property oracles for the search that produces replays',
        }],
        'checks': checks,
        'not_applicable': na,
        'notes': 'Every check: regenerate Gen/*.v from /repo -> make (kernel re-checks theorems against regenerated tables) -> Print Assumptions gate -> correspondence (model vs implementation) -> oracle search on the implementation -> verdict. Known findings: /verif/known_findings.json.',
    }
    with open(os.path.join(VERIF, 'MANIFEST.json'), 'w') as f:
        json.dump(m, f, indent=1)
    print('claimed:', [c['property_id'] for c in checks]); print('not claimed:', [n['property_id'] for n in na])

main()
