"""C05 - XML to text to XML round trip is the identity on generated documents."""
import copy, random
from lxml import etree
from harness import core, impl, model, gen, xmlsx, stages, absdoc

TRANSLATORS = ['parser', 'grammar', 'types', 'xml', 'libs', 'xsl']
LEVEL = 'proof'
ROOTS = ['act', 'bill', 'doc', 'statement', 'debateReport', 'judgment', 'debate']
RULE = ('Oracle on the implementation: for each abstract document of the C04 specification generator (documented vocabulary, seven roots) x = parse_to_xml(text); '
        'parse_to_xml(unparse(x)) must equal x (elements, attributes, eIds, text; meta ignored, attribute order ignored); the second round trip must '
        'change neither the text nor the tree; and every hierarchical element, speech container/group, attachment, table, list, block container, quote, '
        'crossheading and paragraph without footnote of x, unparsed alone and parsed with its own grammar rule as root, must give the same element '
        '(eIds of fragments are C18\'s business and are ignored). The known-finding witnesses are replayed on every run, and so is every keyword of the vocabulary as the first word of a text line in every kind of text position (paragraph, list intro/wrap-up, quote, attachment, table cell, preface, bullet, footnote). The string templates of the '
        'stylesheet are run against Model/Unparse.v (xslstr stage). non-trivial = document with >= 4 element kinds; distinct by (seed, root).')
TRUSTED_BASE = [
    'Coq 8.16.1 kernel; vm_compute for the table theorems; no axioms',
    'translators gen_tables_xsl.py (keyword choose, template matches), gen_grammar.py, gen_tables_types.py',
    'hand model Model/UnparseDoc.v of every template of akn_text.xsl (one namespace, no comments/PIs), tied to libxslt running the stylesheet by the unp stage; the round trip itself is decided by running the implementation',
    'tools/harness/absdoc.py generates the documents; Python oracle',
]
ASSUMPTIONS = ['domain: documents the parser produces from texts over the documented vocabulary (C04 texts); documents from forgiving-mode input (C01 texts) '
               'are not claimed: they break the round trip in many ways (empty elements, footnote references in headings, odd attribute lists), of which the '
               'listed findings are representatives',
               'a paragraph that owns footnotes unparses to several blocks and is not re-parsed as a single-rule fragment; an element without any text has no text form of its own (F7a) and is skipped as a fragment']
NS = '{%s}' % xmlsx.NS

def canon(x, keep_eids=True, drop_by=False):
    x = copy.deepcopy(x)
    x.tail = None
    for m in list(x.iter(NS + 'meta')):
        m.getparent().remove(m)
    for el in x.iter():
        if isinstance(el.tag, str):
            if not keep_eids: el.attrib.pop('eId', None)
            if drop_by: el.attrib.pop('by', None)
            items = sorted(el.attrib.items())      # attribute order is not significant in XML
            el.attrib.clear()
            for k, v in items: el.set(k, v)
    etree.cleanup_namespaces(x)
    return etree.tostring(x, encoding='unicode')

def first_diff(a, b):
    i = next((i for i in range(min(len(a), len(b))) if a[i] != b[i]), min(len(a), len(b)))
    return a[max(0, i - 70):i + 50], b[max(0, i - 70):i + 50]

HIER = set(absdoc.HIER.values())
FRAG_RULE = {'table': 'table', 'blockList': 'block_list', 'ul': 'bullet_list', 'p': 'block_element', 'attachment': 'attachment',
             'blockContainer': 'block_element', 'block': 'block_element', 'crossHeading': 'hier_element'}
FRAG_RULE.update({t: 'speech_container' for t in absdoc.SPEECH_CONTAINERS.values()})
FRAG_RULE.update({t: 'speech_group' for t in absdoc.SPEECH_GROUPS.values()})
FRAG_RULE.update({t: 'hier_element' for t in HIER})

def _oracle(args, fragments=None):
    root, text = args
    p = impl.parser()
    try:
        x = p.parse_to_xml(text, root)
    except Exception:
        return ('raised', None)
    try:
        t2 = p.unparse(x)
        x2 = p.parse_to_xml(t2, root)
    except Exception as e:
        return ('bad', 'round trip raised %s' % impl.exc_kind(e), text, None)
    a, b = canon(x), canon(x2)
    if a != b:
        if canon(x, drop_by=True) == canon(x2, drop_by=True):
            return ('bad', 'first round trip changes only the by attribute of a speech group: %s | %s' % first_diff(a, b), text, t2)
        return ('bad', 'first round trip changes the document: %s | %s' % first_diff(a, b), text, t2)
    try:
        t3 = p.unparse(x2)
        x3 = p.parse_to_xml(t3, root)
    except Exception as e:
        return ('bad', 'second round trip raised %s' % impl.exc_kind(e), text, t2)
    if t3 != t2 or canon(x3) != b:
        return ('bad', 'second round trip changes the ' + ('text' if t3 != t2 else 'document'), text, t2)
    nfrag = 0
    if fragments is not None:
        rng = random.Random(fragments)
        for e in x.iter():
            if not isinstance(e.tag, str): continue
            tag = xmlsx.local(e.tag)
            rule = FRAG_RULE.get(tag)
            if not rule or rng.random() > 0.25: continue
            if tag == 'meta' or any(xmlsx.local(an.tag) == 'meta' for an in e.iterancestors()): continue
            if tag == 'p' and e.find('.//' + NS + 'authorialNote') is not None: continue
            if not ''.join(e.itertext()).strip() and e.find('.//' + NS + 'img') is None: continue     # an empty element has no text form (finding F7a)
            try:
                ft = p.unparse(e)
                y = p.parse_to_xml(ft, rule)
            except Exception as ex:
                return ('bad', 'fragment <%s> round trip raised %s' % (tag, impl.exc_kind(ex)), text, etree.tostring(e, encoding='unicode'))
            fa, fb = canon(e, False), canon(y, False)
            if fa != fb:
                return ('bad', 'fragment <%s> round trip changes it: %s | %s' % ((tag,) + first_diff(fa, fb)), text, etree.tostring(e, encoding='unicode'))
            nfrag += 1
    return ('ok', None, len({e.tag for e in x.iter()}), nfrag)

# representatives of the known findings (each is replayed on every run; a witness that passes is no longer reported)
WITNESSES = {
    'empty_element_lost': [('act', 'CROSSHEADING\n'), ('act', 'PREFACE\n  LONGTITLE\nBODY\nSEC 1\n  x\n'), ('debate', '\n')],
    'empty_attribute_value': [('act', 'ARTICLE{class}\n  x\n'), ('act', 'P{class} x\n'), ('act', 'ARTICLE.a{class}\n')],
    'footnote_ref_in_heading': [('act', 'BOOK - {{FOOTNOTE 1}}\n  SUBCHAP\n    x\n'), ('act', 'CROSSHEADING x {{FOOTNOTE 1}}\n')],
    'explicit_by': [('debate', 'DEBATESECTION\n  SPEECH{by #smith}\n    FROM Mr Smith\n    text\n'), ('debate', 'DEBATESECTION\n  SPEECH\n    FROM {{abbr x}} y\n    text\n')],
}

def keyword_text_docs():
    """every keyword of the vocabulary as the first word of a text line, in every kind of position a text line can take: the parser
    output holds it as text, so the unparser has to write it in a form that is read back as text"""
    ctxs = ['SEC 1 - h\n  \\%s\n  second\n', 'SEC 1\n  ITEMS\n    \\%s\n    ITEM (a)\n      x\n    \\%s\n',
            'SEC 1\n  QUOTE\n    \\%s\n', 'x\nSCHEDULE h\n  \\%s\n', 'SEC 1\n  TABLE\n    TR\n      TC\n        \\%s\n',
            'PREFACE\n  \\%s\nBODY\n  x\n', 'SEC 1\n  BULLETS\n    * \\%s\n', 'SEC 1\n  x {{FOOTNOTE 1}}\n  FOOTNOTE 1\n    \\%s\n']
    out = []
    for kw in gen.ALL_KEYWORDS:
        for c in ctxs:
            for line in (kw + ' B of this Part applies', kw, kw + '.', kw + ' 1. - h'):
                out.append(('act', c.replace('%s', line)))
    return out

# footnote shapes: nested notes, a paragraph that is nothing but a reference, several references in one paragraph, notes whose
# text equals their host's text, notes in list items / cells / headings of attachments (each must round-trip exactly)
FOOTNOTE_SHAPES = [
    'SEC 1 - Heading\n\n  {{FOOTNOTE 1}}\n\n  FOOTNOTE 1\n    see also {{FOOTNOTE 2}}\n\n    FOOTNOTE 2\n      the nested footnote\n\n  some other text\n',
    'SEC 1\n  {{FOOTNOTE a}}\n  FOOTNOTE a\n    {{FOOTNOTE b}}\n    FOOTNOTE b\n      {{FOOTNOTE c}}\n      FOOTNOTE c\n        deepest\n',
    'SEC 1\n  same text{{FOOTNOTE 1}}\n  FOOTNOTE 1\n    same text\n  same text\n',
    'SEC 1\n  a{{FOOTNOTE 1}} b{{FOOTNOTE 2}} c{{FOOTNOTE 3}}\n  FOOTNOTE 1\n    one\n  FOOTNOTE 2\n    two\n    more two\n  FOOTNOTE 3\n    ITEMS\n      ITEM (a)\n        in a note\n',
    'SEC 1\n  ITEMS\n    ITEM (a)\n      x{{FOOTNOTE 1}}\n      FOOTNOTE 1\n        {{FOOTNOTE 2}}\n        FOOTNOTE 2\n          y\n',
    'SEC 1\n  TABLE\n    TR\n      TC\n        {{FOOTNOTE *}}\n        FOOTNOTE *\n          {{FOOTNOTE **}}\n          FOOTNOTE **\n            cell\n',
    'x\nSCHEDULE h\n  {{FOOTNOTE 1}}\n  FOOTNOTE 1\n    {{FOOTNOTE 1}}\n    FOOTNOTE 1\n      same marker nested\n',
    'SEC 1\n  **{{FOOTNOTE 1}}**\n  FOOTNOTE 1\n    //{{FOOTNOTE 2}}//\n    FOOTNOTE 2\n      z\n',
]

# raw-valued slots: link targets, image sources and descriptions, attribute values - with backslashes (UNC paths, file: URLs), percent
# escapes, braces, pipes' neighbours and non-ASCII text; each document must round-trip exactly
RAW_SLOT_DOCS = [
    'SEC 1 - Records\n\n  The register is kept at {{>file:\\\\\\\\registry\\\\acts\\\\2009 the registry share}} and is open.\n',
    'SEC 1\n  see {{>C:\\\\temp\\\\a.txt a file}} and {{>http://x.y/a%20b?q=1&r=2#frag a link}}\n',
    'SEC 1\n  {{IMG media\\\\img\\\\1.png a \\\\ backslash in the description}} and {{IMG a%20b.png}}\n',
    'SEC 1\n  {{>#sec_2 \\\\ text with a backslash}} {{>https://example.com/\u00e9t\u00e9 \u00e9t\u00e9}}\n',
    'SEC 1\n  {{abbr{title a\\\\b} x}} {{term{refersTo #t\\\\u} y}} {{inline{name n\\\\m} z}}\n',
    'SEC{status a\\\\b} 1 - h\n  P{class c\\\\d} text\n',
]

def deep_docs():
    """size thresholds: 24 levels of nesting (hierarchical elements, then a list in a quote, then a table), a line of 5 000 characters,
    300 sibling paragraphs, an element with 12 attributes and 10 classes"""
    kws = ['CHAP', 'PART', 'SEC', 'SUBSEC', 'PARA', 'SUBPARA', 'ARTICLE', 'CLAUSE', 'SUBCLAUSE', 'DIVISION', 'SUBDIVISION', 'RULE', 'SUBRULE',
           'POINT', 'INDENT', 'ALINEA', 'LEVEL', 'LIST', 'SUBLIST', 'TITLE']
    lines = [('  ' * i) + kw + ' %d - h%d' % (i + 1, i) for i, kw in enumerate(kws)]
    d = len(kws)
    lines += ['  ' * d + 'ITEMS', '  ' * (d + 1) + 'ITEM (a)', '  ' * (d + 2) + 'TABLE', '  ' * (d + 3) + 'TR', '  ' * (d + 4) + 'TC', '  ' * (d + 5) + 'the innermost cell',
              '  ' * d + 'after the list']
    deep = '\n'.join(lines) + '\n'
    long_line = 'SEC 1\n  ' + ' '.join('word%d' % i for i in range(700)) + ' **bold** end\n'
    many = 'SEC 1\n' + ''.join('  paragraph %d\n' % i for i in range(300))
    attrs = 'SEC' + ''.join('.c%d' % i for i in range(10)) + '{' + '|'.join('%s v%d' % (a, i) for i, a in enumerate(
        ['status', 'title', 'period', 'refersTo', 'alternativeTo', 'wId', 'GUID', 'evolvingId', 'style', 'lang'])) + '} 1 - h\n  x\n'
    # a text node of more than 1 000 / 2 000 / 4 000 characters with an escaped marker pair at every offset around its middle (and its
    # quarters), followed by real markup of the same kind: however the unparser divides the work, a pair must not be split
    longs = []
    for pair in ('//', '**', '__', '{{'):
        close = '}}' if pair == '{{' else pair
        real = ' {{^it}} end' if pair == '{{' else ' %sit%s end' % (pair, close)
        for total in (1001, 1171, 2049, 4100):
            for frac in (2, 4):
                for k in range(3):
                    pos = total // frac - 1 + k
                    fill = 'lorem ipsum dolor sit amet ' * (total // 20 + 2)       # (no long run of one character: the run helpers recurse per character, finding F12)
                    body = (fill[:pos] + '\\' + pair[0] + '\\' + pair[1] + fill[pos:])[:total + 2].rstrip()
                    longs.append(('act', 'SEC 1 - h\n  ' + body + real + '\n'))
    return [('act', deep), ('act', long_line), ('act', many), ('act', attrs)] + longs

def num_docs():
    """nums as people type them: two spaces or a tab inside, several words, punctuation at either end, a dash that is not a separator,
    digits and letters of other scripts - on hierarchical elements, list items and speech containers; the num is kept character by
    character (only its edges are trimmed), so the round trip must give it back as it was"""
    nums = ['1.  Short title', '(a)  (i)', '2  bis', 'I\tA', '1 .', '12\u201314', '1 \u2013 2', '(1)(a)', '1.1.1.', 'IV', '\u0663', '1\u00a0bis', '\u00a7 4', '"A"', "1'", '1*', '2/3', 'A_1', '{1}', '1 -2', '3- 4']
    out = []
    for n in nums:
        out.append(('act', 'SEC %s\n  text\n' % n))
        out.append(('act', 'PART %s - General\n  SEC 1\n    text\n' % n))
        out.append(('statement', 'ITEMS\n  ITEM %s\n    x\n' % n))
        out.append(('debate', 'DEBATESECTION %s - Questions\n  SPEECH\n    FROM a\n    words\n' % n))
    # two blanks in a row (after a full stop, from a tab) wherever text or an attribute value is kept as written: image descriptions and
    # sources, link texts, headings, subheadings, crossheadings, cells, list items, remarks, attribute values
    for root in ('act', 'doc', 'statement'):
        out.append((root, 'SEC 1 - Maps.  And plans\n  SUBHEADING Two.  Blanks\n  The district.  See {{IMG /media/map.png Figure 1.  Map of the district}} and {{>#sec_2 section 2.  Below}}.\n'
                          '  CROSSHEADING Part.  One\n  TABLE\n    TR\n      TC\n        a.  b\n  ITEMS\n    ITEM (a) - h.  h\n      x.  y\n  {{*[note.  amended]}} {{abbr{title Full.  Name} FN}} **b.  b**\n'))
    return out

def empty_docs():
    """keyword lines with nothing after them (an empty CROSSHEADING, LONGTITLE, P, list, table, hierarchical element ...) next to a full sibling of
    the same kind, in five contexts and four orders: the empty one is dropped or kept as an empty element, and the siblings' eIds must
    come out the same after a round trip (they do on the unchanged tree: the numbering is done after the empty ones are removed)"""
    kinds = ['CROSSHEADING', 'LONGTITLE', 'SUBHEADING', 'P', 'ITEMS', 'BULLETS', 'TABLE', 'QUOTE', 'BLOCKS', 'SEC', 'PART', 'PARA (a)', 'FOOTNOTE 1', 'HEADING',
             'CROSSHEADING.cls', 'P.cls', 'LONGTITLE{class a}']
    full = {'CROSSHEADING': 'CROSSHEADING Real crossheading', 'LONGTITLE': 'LONGTITLE The real long title', 'SUBHEADING': 'SUBHEADING real', 'P': 'P real',
            'ITEMS': 'ITEMS\n  ITEM (a)\n    x', 'BULLETS': 'BULLETS\n  * x', 'TABLE': 'TABLE\n  TR\n    TC\n      cell', 'QUOTE': 'QUOTE\n  quoted', 'BLOCKS': 'BLOCKS\n  x',
            'SEC': 'SEC 1\n  x', 'PART': 'PART 1\n  SEC 2\n    y', 'PARA (a)': 'PARA (b)\n  z', 'FOOTNOTE 1': 'FOOTNOTE 2\n  n', 'HEADING': 'HEADING h',
            'CROSSHEADING.cls': 'CROSSHEADING.cls real', 'P.cls': 'P.cls real', 'LONGTITLE{class a}': 'LONGTITLE{class a} real'}
    def ind(t, n): return '\n'.join(' ' * n + l for l in t.split('\n'))
    out = []
    for k in kinds:
        f = full[k]
        for n, wrap in ((0, '%s'), (2, 'PART 1 - Heading\n%s\n  SEC 1\n    some text'), (2, 'PREFACE\n%s\nBODY\n  some text'), (2, 'SEC 9 - h\n%s'), (2, 'SCHEDULE s\n%s')):
            for order in ((k, f), (k, k, f), (f, k, f), (k, f, k)):
                body = '\n'.join(ind(x, n) for x in order)
                for root in ('act', 'statement'):
                    out.append((root, wrap % body + '\n'))
    return out

def make(seed, root, depth):
    rng = random.Random(seed)
    return absdoc.Gen(rng, footnotes=True, attrs=True, max_depth=depth).document(root)

def _job(args):
    seed, root, depth = args
    d = make(seed, root, depth)
    if d is None:
        return ('skip', None)
    return _oracle((root, d[0]), fragments=seed)

def _wjob(args):
    return _oracle(args, fragments=1)

def jobs(ctx, n):
    return [(ctx.rng.randrange(1 << 30), ctx.rng.choice(ROOTS), ctx.rng.choice([3, 4, 4, 5])) for _ in range(n)]

def xsl_cases(ctx, n):
    from props import C06
    return C06.xsl_cases(ctx, n)

def _trees(args):
    seed, root, depth = args
    d = make(seed, root, depth)
    if d is None: return []
    try:
        x = impl.parser().parse_to_xml(d[0], root)
    except Exception:
        return []
    rng = random.Random(seed)
    els = [e for e in x.iter() if isinstance(e.tag, str) and e.tag != NS + 'meta' and not any(a.tag == NS + 'meta' for a in e.iterancestors())]
    out = [x] + [copy.deepcopy(e) for e in rng.sample(els, min(3, len(els)))]
    return [xmlsx.norm_sx(xmlsx.to_sx(t)) for t in out]

def correspondence(ctx):
    from props import C06
    C06.stage_xslstr(ctx, C06.xsl_cases(ctx, ctx.n(600, 12000)))
    # the whole unparser: documents of the specification generator and random elements of them as fragments
    js = jobs(ctx, ctx.n(250, 8000))
    trees = [t for l in impl.pmap(_trees, js, chunk=8) for t in l]
    stages.stage_unp(ctx, trees)

def search(ctx, budget):
    js = jobs(ctx, ctx.n(500, 20000) * budget)
    for j, r in zip(js, impl.pmap(_job, js, chunk=8)):
        ctx.evaluations += 1; ctx.count('docs_' + r[0]); ctx.count('root_' + j[1])
        if r[0] == 'bad':
            ctx.failures.append(({'stage': 'roundtrip', 'seed': j[0], 'root': j[1], 'depth': j[2], 'text': r[2], 'unparsed': r[3]}, r[1]))
        elif r[0] == 'ok':
            ctx.count('fragments', r[3])
            if r[2] >= 4: ctx.nontrivial(j[:2])
    ws = [(fam, root, text) for fam, l in sorted(WITNESSES.items()) for root, text in l]
    for (fam, root, text), r in zip(ws, impl.pmap(_wjob, [(root, text) for _, root, text in ws], chunk=2)):
        ctx.evaluations += 1; ctx.count('witness_' + r[0])
        if r[0] == 'bad':
            ctx.failures.append(({'stage': 'witness', 'family': fam, 'root': root, 'text': text}, r[1]))
    kd = keyword_text_docs() + [(r, t) for t in FOOTNOTE_SHAPES + RAW_SLOT_DOCS for r in ('act', 'doc')] + deep_docs() + empty_docs() + num_docs()
    for (root, text), r in zip(kd, impl.pmap(_wjob, kd, chunk=16)):
        ctx.evaluations += 1; ctx.count('keyword_text_' + r[0])
        if r[0] == 'bad':
            ctx.failures.append(({'stage': 'keyword-text', 'root': root, 'text': text, 'unparsed': r[3]}, r[1]))
    from props import C06
    pj = [(ctx.rng.choice(stages.URIS), ctx.rng.choice(stages.PREFIXES), t) for t in C06.para_strings(ctx.rng, ctx.n(150, 4000) * budget)]
    sj = C06.section_cases(ctx.rng, ctx.n(150, 4000) * budget)
    for j, r in zip(sj, impl.pmap(C06._section, sj, chunk=16)):
        ctx.evaluations += 1; ctx.count('section_theorem_' + r[0])
        if r[0] == 'bad':
            ctx.failures.append(({'stage': 'section', 'args': list(j), 'unparsed': r[2]}, r[1]))
    ij = sj[:ctx.n(60, 2000)]
    for j, r in zip(ij, impl.pmap(C06._section_ids, ij, chunk=8)):
        ctx.evaluations += 1; ctx.count('section_any_eids_theorem_' + r[0])
        if r[0] == 'bad':
            ctx.failures.append(({'stage': 'section-ids', 'args': list(j), 'unparsed': r[2]}, r[1]))
    for j, r in zip(pj, impl.pmap(C06._crossheading, pj, chunk=16)):
        ctx.evaluations += 1; ctx.count('crossheading_theorem_' + r[0])
        if r[0] == 'bad':
            ctx.failures.append(({'stage': 'crossheading', 'uri': j[0], 'prefix': j[1], 'string': j[2], 'unparsed': r[2]}, r[1]))
    for j, r in zip(pj, impl.pmap(C06._para, pj, chunk=16)):
        ctx.evaluations += 1; ctx.count('paragraph_theorem_' + r[0])
        if r[0] == 'bad':
            ctx.failures.append(({'stage': 'paragraph', 'uri': j[0], 'prefix': j[1], 'string': j[2], 'unparsed': r[2]}, r[1]))
    d = make(*js[0])
    ctx.sample({'seed': js[0][0], 'root': js[0][1], 'text': (d[0] if d else '')[:600]})

def probe_disagreement(ctx, stage, case):
    pass

def _fam(name):
    return lambda case, desc: case.get('stage') == 'witness' and case.get('family') == name and (case['root'], case['text']) in WITNESSES[name]

CLASSIFIERS = {'c05_' + k: _fam(k) for k in WITNESSES}
CLASSIFIERS['c05_explicit_by'] = lambda case, desc: _fam('explicit_by')(case, desc) or 'changes only the by attribute of a speech group' in desc

def replay(obj):
    case = obj.get('case') or (obj.get('disagreements') or [{}])[0].get('case')
    if not case:
        print('nothing to replay:', obj.get('broken_obligations')); return 1
    if case.get('stage') == 'roundtrip':
        r = _job((case['seed'], case['root'], case['depth'])); print(r[:2]); return 1 if r[0] == 'bad' else 0
    if case.get('stage') in ('witness', 'keyword-text'):
        r = _wjob((case['root'], case['text'])); print(r[:2]); return 1 if r[0] == 'bad' else 0
    from props import C06
    if case.get('stage') == 'paragraph':
        r = C06._para((case['uri'], case['prefix'], case['string'])); print(r[:2]); return 1 if r[0] == 'bad' else 0
    if case.get('stage') == 'section-ids':
        r = C06._section_ids(tuple(case['args'])); print(r[:2]); return 1 if r[0] == 'bad' else 0
    if case.get('stage') == 'crossheading':
        r = C06._crossheading((case['uri'], case['prefix'], case['string'])); print(r[:2]); return 1 if r[0] == 'bad' else 0
    if case.get('stage') == 'section':
        r = C06._section(tuple(case['args'])); print(r[:2]); return 1 if r[0] == 'bad' else 0
    return 0 if C06.replay_xslstr(case) else 1

LEVEL_TEXT = ('Partial. Proved on the tables regenerated from akn_text.xsl, akn.peg and types.py: every element the hierarchical template of the stylesheet '
              'matches is printed with a keyword that the grammar reads and that the synonym table maps back to the same element, and every hierarchical '
              'or speech keyword of the grammar gives an element that template matches (C05_unparsed_keyword_parses_back, C05_keywords_have_templates); the Gallina model of the unparser has a branch for '
              'exactly the elements the stylesheet has templates for (C05_templates_are_modelled), and over that model: trees equal up to their eId attributes '
              'unparse to the same text in every context, so the unparsed text does not depend on eIds (C05_unparse_up_to_eids, C05_unparse_ignores_eids). '
              'The round trip is a theorem for two element kinds, through the whole pipeline model: for every known FRBR URI, every eId prefix and every text s without tab or line break, without blanks at its ends and of XML-legal characters - whatever it spells - convert(unparse(<p eId=prefix__p_1>s</p>)) is that very element, eId included (C05_paragraph_round_trip; instances run on the implementation on every run); and for the basic hierarchical element: for each of the 34 keywords\' elements, every num without blank, dash or backslash, every such heading and paragraph text, convert(unparse(<tag eId><num/><heading/><content><p eId/></content></tag>)) is that very element - the keyword the unparser prints names the same element, the blank line it writes after the keyword line is layout (C05_section_round_trip, and C05_section_round_trip_no_heading for the element without a heading; instances on every run), and for a crossheading with any such text (C05_crossheading_round_trip; instances on every run); wherever the round trip holds it does not depend on the ids the document carried - stale, scrambled or missing eIds come back as the generated ones (C05_round_trip_regenerates_eids, C05_section_round_trip_any_eids; instances on every run). For all other elements the round trip is not a theorem: it is decided by the oracle on the implementation: identity of parse(unparse(x)) with eIds, '
              'a no-op second round trip, and fragment round trips for every element kind, on sampled documents of the C04 specification generator x seven '
              'roots; the stylesheet is modelled in full (Model/Unparse.v, Model/UnparseDoc.v) and tied to libxslt by the xslstr and unp stages. Documents from forgiving-mode input are not '
              'claimed (listed findings).')
LEVEL_NOTE = 'Trusted: Coq kernel (vm_compute table checks); translators; hand model of the stylesheet tied by sampling (unp, xslstr stages).'
TECHNIQUE = 'Rocq proof (stylesheet/grammar/synonym table theorems; the unparser model is invariant under eId changes) + round-trip oracle on sampled generated documents and fragments + differential run of the stylesheet string templates against the Gallina model'
