"""C01 - Conversion is total: no input text is ever refused."""
import re, collections
from harness import core, impl, model, gen, xmlsx, stages

TRANSLATORS = ['parser', 'grammar', 'types', 'xml', 'libs']
LEVEL = 'proof'
RULE = ('pre, peg (six roots), dict and e2e stages: implementation vs extracted Gallina pipeline incl. the exception kind. Oracle: parse_to_xml '
        'returns a document for generated documents, mutations (re-indentation, truncated/extended keywords, inserted markers, backslashes, '
        'control and non-ASCII characters) and token soup x 6 documented roots x prefix {"", p_1}, nesting <= 40; a failure is identified by '
        'exception kind and the committed classifiers. non-trivial = converted document with >= 8 elements; distinct by (root, text).')
TRUSTED_BASE = [
    'Coq 8.16.1 kernel; no axioms',
    'hand models of every stage tied to the code by the stages (sampled); lxml legality tables tabulated (gen_tables_libs.py)',
    'translators; extraction + driver',
]
ASSUMPTIONS = ['totality of the grammar stage (every root accepts every normal-form text outside the F1 class) is not a theorem: decided by the search',
               'Python recursion limits are not modelled (nesting bounded at 40 by the property)']

ATT = ('ATTACHMENT', 'APPENDIX', 'SCHEDULE', 'ANNEXURE')
# attachment_marker block_attrs? (space ... | eol), written with possessive quantifiers so that it commits the way the PEG does:
#   block_attrs <- ('.' class_name?)* ('{' block_attr? space? ('|' space? block_attr?)* '}')?
#   block_attr  <- [^ \n|{}]+ (' '+ [^\n|}]*)?
_ATTR = r'[^ \n|{}]++(?: ++[^\n|}]*+)?+'
_ATT_OK = re.compile(r'(?:ATTACHMENT|APPENDIX|SCHEDULE|ANNEXURE)(?:\.[^ \n|{}.]*+)*+(?:\{(?:%s)?+ *+(?:\| *+(?:%s)?+)*+\})?+(?: |$)' % (_ATTR, _ATTR))

def legal_char(c):
    o = ord(c)
    return o in (9, 10, 13) or 32 <= o <= 0xD7FF or 0xE000 <= o <= 0xFFFD or o >= 0x10000

def depth0_attachment_junk(text):
    """some line at depth 0 of the pre-parsed text starts with an attachment keyword that the attachment rule cannot finish"""
    try:
        pre = impl.parser().pre_parse(text)
    except Exception:
        return False
    d = 0
    for l in pre.split('\n'):
        if l == '\x0e': d += 1
        elif l == '\x0f': d -= 1
        elif d == 0 and l.startswith(ATT) and not _ATT_OK.match(l):
            return True
    return False

def _oracle(args):
    uri, root, prefix, text = args
    r = impl.e2e_sx(args)
    if r[0] == 'E':
        return ('ok', None, sum(1 for _ in xmlsx.walk(r)))
    raw = impl.e2e((text, root, prefix))
    return ('bad', raw[1] if isinstance(raw, list) else r[1], 0)

def cases(ctx, n):
    out = []
    for _ in range(n):
        root = ctx.rng.choice(gen.ROOTS6)
        t = gen.any_text(ctx.rng, root)
        r = ctx.rng.random()
        if r < 0.03:
            k = ctx.rng.randrange(len(t) + 1); t = t[:k] + ctx.rng.choice(['\x01', '\x0b', '\x1f', '￾', '\x0e', '\x0f', '\x00']) + t[k:]
        elif r < 0.06:
            t = t.replace('{class', '{' + ctx.rng.choice(['1', 'a:b', '-x', 'é=']), 1)
        out.append((stages.URIS[0], root, ctx.rng.choice(['', 'p_1']), t))
    return out

def ns_cases(ctx, n):
    """attribute names that ARE XML names but mean something to XML or lxml (xmlns puts the element in another or in no namespace), with
    and without a value, on a block, a hierarchical element, a cell or an inline.  Oracle only: what an xmlns attribute does to the
    namespaces of the tree after the serialise/re-parse step is not part of the model."""
    out = []
    for _ in range(n):
        root = ctx.rng.choice(gen.ROOTS6)
        t = gen.gen_doc(ctx.rng, root)
        nm = ctx.rng.choice(['xmlns', 'xmlns', 'XMLNS', 'id', '_x', 'a.b', 'a-b', '\u03a9mega', 'xml', 'xmlnsx'])
        at = '{' + nm + ctx.rng.choice(['', ' ', ' foo', ' http://x.y/z']) + '}'
        if '{class' in t and ctx.rng.random() < 0.5:
            t = t.replace('{class', at[:-1] + '|class', 1)
        else:
            t += '\n' + ctx.rng.choice(['P%s text', 'SEC%s 1 - Heading\n  text', 'TABLE\n  TR\n    TC%s\n      cell', 'a line with {{abbr%s an abbreviation}}',
                                        'ITEMS\n  ITEM%s (a)\n    x', 'QUOTE%s\n  quoted']) % at + '\n'
        out.append((stages.URIS[0], root, ctx.rng.choice(['', 'p_1']), t))
    return out

INTERNAL_ATTRS = ['displaced', 'marker', 'placement', 'eId', 'name', 'id', 'href', 'src', 'by', 'status', 'refersTo', 'startQuote', 'colspan', 'rowspan']
INTERNAL_VALUES = ['', ' footnote', ' x', ' 1', ' a b', ' #ref', ' bottom']
INTERNAL_SHAPES = ['P%s text', 'P%s text {{FOOTNOTE 1}}\nFOOTNOTE 1\n  note', 'SEC%s 1 - Heading\n  text', 'PART%s\n  SEC 2\n    x', 'TABLE%s\n  TR%s\n    TC%s\n      cell',
                   'CROSSHEADING%s a heading', 'ITEMS%s\n  ITEM%s (a)\n    x', 'BULLETS%s\n  * x', 'QUOTE%s\n  quoted', 'BLOCKS%s\n  x', 'LONGTITLE%s a title',
                   'SCHEDULE%s heading\n  x', 'a line with {{abbr%s an abbreviation}} and {{inline%s y}} and {{+%s z}}', 'SPEECH%s\n  FROM someone\n  words',
                   'DEBATESECTION%s 1 - h\n  SPEECH\n    FROM x\n    y', 'PREFACE%s\n  x', 'INTRODUCTION%s\n  x', 'SUBHEADING%s s']
def internal_attr_cases(ctx, n):
    """attribute lists that name what the pipeline uses for its own bookkeeping (the displaced/marker/placement hints of footnotes, eId, name,
    href, by ...) - every name alone with every kind of value on every construct that takes attributes, then random pairs - x all roots:
    legal XML names, so conversion must complete; implementation and model must agree on the document"""
    out = []
    def one(shape, at):
        return shape.replace('%s', at, 1).replace('%s', '') if shape.count('%s') > 1 and ctx.rng.random() < 0.5 else shape.replace('%s', at)
    for nm in INTERNAL_ATTRS:
        for i, shape in enumerate(INTERNAL_SHAPES):
            v = INTERNAL_VALUES[(i + len(nm)) % len(INTERNAL_VALUES)]
            out.append((stages.URIS[0], gen.ROOTS6[(i + len(nm)) % 6], '', one(shape, '{%s%s}' % (nm, v)) + '\n'))
    for _ in range(n):
        root = ctx.rng.choice(gen.ROOTS6)
        at = '{' + '|'.join(ctx.rng.choice(INTERNAL_ATTRS) + ctx.rng.choice(INTERNAL_VALUES) for _ in range(ctx.rng.randint(1, 3))) + '}'
        body = '\n'.join(one(ctx.rng.choice(INTERNAL_SHAPES), at) for _ in range(ctx.rng.randint(1, 3)))
        out.append((stages.URIS[0], root, ctx.rng.choice(['', 'p_1']), (gen.gen_doc(ctx.rng, root) + '\n' if ctx.rng.random() < 0.3 else '') + body + '\n'))
    return out

HREFS = ['http://[2001:db8::1/page', '//[x', 'http://x]', 'http://[foo]/', 'http://example.com\u2100x', 'http://example.com\uff0fx', 'javascript:alert(1)', 'mailto:[x',
         'http://a:b:c/', 'http://user@[::1]:99999/', 'ftp://\u00e9.example/\u05d0', 'file:///c:/x', '#', '##x', '?', 'http://%zz', 'http://x/%', 'a\\b', '[', ']', ':', '//',
         'http://x/../../y', 'urn:lex:za:act:2009', 'data:,x', 'HTTP://X', 'http:///x', '\u202ehttp://x', 'http://x\u200b.y']
def href_cases(ctx, n):
    """link targets and image sources that URL libraries choke on (unbalanced brackets, bad ports, NFKC look-alikes, stray percent signs,
    odd schemes): to the converter they are strings, conversion must complete - in a paragraph, a heading, a cell, a list item, a remark"""
    shapes = ['see {{>%s the page}} for details', 'SEC 1 - {{>%s h}}\n  x', 'TABLE\n  TR\n    TC\n      {{>%s c}}', 'ITEMS\n  ITEM (a) - {{>%s i}}\n    x',
              'a {{*remark {{>%s r}}}}', 'an image {{IMG %s alt text}}', '{{>%s {{IMG %s}}}}', '**{{>%s b}}**']
    out = []
    for i, h in enumerate(HREFS):
        for j, sh in enumerate(shapes):
            out.append((stages.URIS[0], gen.ROOTS6[(i + j) % 6], ['', 'p_1'][(i + j) % 2], sh.replace('%s', h) + '\n'))
    return out

WITNESSES = [('act', 'SCHEDULES\n'), ('judgment', 'APPENDIXES x\n'), ('doc', 'a\x01b\n'), ('act', 'P{1 x} foo\n'), ('bill', 'P{a:b x} foo\n'),
             ('act', 'FOOTNOTE 1\n  x {{FOOTNOTE 1}}\n'), ('statement', 'ANNEXURE-A\n  x\n'), ('debateReport', 'x\n\x0e\ny\n')]

def plain_line_cases(ctx, n):
    """instances of C01_plain_line_converts: one plain line as a fragment, with a prefix - implementation and model must both give the
    single paragraph the theorem predicts (checked here on the implementation side too)"""
    out = [(stages.URIS[0], 'hier_block_element', 'chp_1', 'Partly * cloudy {x} SECtion 2/3\n')]
    words = ['the', 'Minister', 'may', '*', '/', '_', '{x}', '2/3', 'SECtion', 'part', '(a)', '\u00e9t\u00e9', '\u05d0\u05d1', '50%', 'a-b', 'x.', 'P1', 'item', '}', '{', 'it\'s']
    for _ in range(n):
        line = ' '.join(ctx.rng.choice(words) for _ in range(ctx.rng.randint(1, 8)))
        out.append((ctx.rng.choice(stages.URIS), 'hier_block_element', ctx.rng.choice(stages.PREFIXES), line + '\n'))
    return out

def keyword_line_cases():
    """keyword lines as people type them - the part after the keyword in every shape: typographic dashes with and without blanks
    around them, a trailing dash, only punctuation, two blanks, several ' - ', a lone backslash ... - on hierarchical elements, list items,
    speech containers and attachments, for the six roots"""
    tails = ['12\u201314', 'II\u2014III', '(a)\u2013(c)', '1 \u2013', '1 \u2013 Preliminary', '\u2013 Preliminary', '\u2014', '1 -', '- ', ' -', '1 - - x', '1 - a - b', '1  -  x', '1.  Short title',
             '\\', '1 \\', '\\- x', '...', '()', '1 -- x', '1 \u2212 x', '1\u00a0-\u00a0x', '1\t-\tx', '\u00a7 12', 'No. 1 of 2020', '1 - \u2013', '**1**', '{{>#x 1}}', '1 - {{^a}}']
    out = []
    for t in tails:
        for root in gen.ROOTS6:
            out.append((stages.URIS[0], root, '', 'SEC %s\n  Repealed.\n' % t))
        out.append((stages.URIS[0], 'act', 'p_1', 'PART %s\n  SEC 1\n    x\n' % t))
        out.append((stages.URIS[0], 'doc', '', 'ITEMS\n  ITEM %s\n    x\n' % t))
        out.append((stages.URIS[0], 'act', '', 'SCHEDULE %s\n  x\n' % t))
        out.append((stages.URIS[0], 'debateReport', '', 'DEBATESECTION %s\n  SPEECH\n    FROM a\n    x\n' % t))
        out.append((stages.URIS[0], 'act', '', 'CROSSHEADING %s\n' % t))
    return out

def attr_name_cases():
    """attribute names that ARE XML names although they do not look like the usual ones: letters of other scripts, underscore, dots and
    dashes inside - on the constructs that take attribute lists"""
    out = []
    for nm in ('t\u00edtulo', 'gr\u00f6\u00dfe', '\u5e45', '\u00e9tiquette', '_x', 'a.b', 'a-b', 'A1', '\u03b1\u03b2', 'data-x'):
        for shape in ('P{%s centrado} Some text.\n', 'TABLE\n  TR\n    TC{colspan 2|%s 3}\n      cell\n', 'SEC{%s 12} 1. - Heading\n  Text with {{inline{name x|%s y} an inline}}.\n',
                      'QUOTE{%s v}\n  q\n', 'x {{abbr{%s v} a}}\n'):
            for root in gen.ROOTS6[:3]:
                out.append((stages.URIS[0], root, '', shape.replace('%s', nm)))
    return out

def correspondence(ctx):
    pl = plain_line_cases(ctx, ctx.n(40, 2000))
    for uri, root, prefix, text in pl:
        r = impl.e2e_sx((uri, root, prefix, text))
        want = ['E', 'p', [['eId', (prefix + '__' if prefix else '') + 'p_1']], [['T', text[:-1]]]]
        ctx.evaluations += 1; ctx.count('plain_line_instances')
        if r != want and not text.startswith(('P ', 'P.', 'P{')):
            ctx.failures.append(({'stage': 'e2e', 'uri': uri, 'root': root, 'prefix': prefix, 'text': text, 'exception': None},
                                 'a plain line did not become the one paragraph C01_plain_line_converts predicts: %r' % (r,)))
    cs = cases(ctx, ctx.n(800, 60000)) + [(stages.URIS[0], r, '', t) for r, t in WITNESSES] + pl + internal_attr_cases(ctx, ctx.n(150, 5000)) + href_cases(ctx, 0) + keyword_line_cases() + attr_name_cases()
    ctx._docs = cs
    stages.stage_e2e(ctx, cs)

def search(ctx, budget):
    cs = list(getattr(ctx, '_docs', [])) + (cases(ctx, ctx.n(800, 60000) * (budget - 1)) if budget > 1 else []) + ns_cases(ctx, ctx.n(120, 4000) * budget)
    for c, r in zip(cs, impl.pmap(_oracle, cs, chunk=8)):
        ctx.evaluations += 1; ctx.count('oracle_' + r[0])
        if r[0] == 'bad':
            ctx.count('raised_' + str(r[1]))
            ctx.failures.append(({'stage': 'e2e', 'uri': c[0], 'root': c[1], 'prefix': c[2], 'text': c[3], 'exception': r[1]},
                                 'conversion raised %s' % r[1]))
        elif r[2] >= 8:
            ctx.nontrivial((c[1], c[3]))
    ctx.sample({'root': cs[0][1], 'prefix': cs[0][2], 'text': cs[0][3][:500]})

def probe_disagreement(ctx, stage, case):
    if stage == 'e2e' and case['root'] in gen.ROOTS6:
        r = _oracle((case['uri'], case['root'], case['prefix'], case['text']))
        if r[0] == 'bad': ctx.failures.append((dict(case, stage='e2e', exception=r[1]), 'conversion raised %s' % r[1]))

def _has_illegal_attr_name(case):
    """does the parser's own dict tree for this text carry an attribute (or class-derived) name that lxml itself refuses?"""
    from lxml import etree
    try:
        d = impl.parser().parse(case['text'], case['root']).to_dict()
    except Exception:
        # the dict stage itself refuses: read the names off the text - an attribute list directly follows a keyword, a class or an inline name
        import re
        for lst in re.findall(r'(?<=[A-Za-z0-9.\-_+])\{([^{}\n]*)\}', case['text']):
            for part in lst.split('|'):
                name = part.strip().split(' ')[0]
                if not name: continue
                try: etree.Element('x').set(name, 'v')
                except ValueError: return True
        return False
    def walk(n):
        for k in list(n.get('attribs') or {}) + list(n.get('att_attribs') or {}):
            try: etree.Element('x').set(k, 'v')
            except ValueError: return True
        # every place a node can sit in: lists (children, attachments, heading, ...) and single nodes (intro, wrapUp, content, ...)
        for key, v in n.items():
            if key in ('attribs', 'att_attribs'): continue
            for k in (v if isinstance(v, list) else [v]):
                if isinstance(k, dict) and walk(k): return True
        return False
    return walk(d)

CLASSIFIERS = {
    'illegal_xml_character': lambda c, d: c.get('exception') in ('XmlChar', 'ParseError', 'XmlName') and any(not legal_char(ch) for ch in c['text']),
    'illegal_attribute_name': lambda c, d: c.get('exception') == 'XmlName' and '{' in c['text'] and _has_illegal_attr_name(c),
    'attachment_keyword_with_junk': lambda c, d: c.get('exception') == 'ParseError' and depth0_attachment_junk(c['text']),
}

def replay(obj):
    case = obj.get('case') or (obj.get('disagreements') or [{}])[0].get('case')
    if not case:
        print('nothing to replay:', obj.get('broken_obligations')); return 1
    ok = stages.replay_stage(case)
    r = _oracle((case['uri'], case['root'], case['prefix'], case['text'])); print('oracle:', r[:2])
    return 1 if (r[0] == 'bad' or ok is False) else 0

LEVEL_TEXT = ('Partial. The full statement is false of the code as it stands: three refutation witnesses are theorems on the model (an attachment keyword at '
              'depth 0 followed by a character the attachment rule cannot take -> ParseError; a character lxml refuses -> ValueError; an attribute '
              'name that is not an XML name -> ValueError) and are listed as known findings F1-F3 with executable classifiers. Proved: the pre-parse '
              'stage is total on the property alphabet; the grammar\'s fallback rule `inline` never fails on a non-newline scalar value; a line that starts with none of the block keywords '
              '(the FIRST literals of every block rule of the regenerated grammar) and holds no backslash and no doubled inline marker is accepted by '
              'hier_block_element through the fallback rule `line`, and to_dict makes it one p spelling exactly the line '
              '(C01_unrecognised_line_is_a_paragraph); and the same through the WHOLE pipeline model - pre_parse, grammar, to_dict, XML builder, '
              'footnote resolution, normalisation, eId generation, attachment titles: converting such a line (no tab, no blank at its ends, XML-legal '
              'characters) as a fragment returns exactly <p eId="<prefix>__p_1">line</p>, for every known FRBR URI and every prefix '
              '(C01_plain_line_converts; its instances are also run on the implementation). The model of '
              'the whole pipeline, exception kinds included, is tied to the code by the e2e stage; totality of the grammar stage elsewhere is decided '
              'by the exception search on the implementation (6 roots x prefixes, mutations with control characters, odd attribute names, '
              'truncated/extended keywords), any failure outside the three classes being a violation.')
LEVEL_NOTE = ('Trusted: Coq kernel; hand models tied by sampling; lxml legality tabulated; translators; extraction+driver. A fourth refusal (self-referencing '
              'footnote) was repaired (fix: commit 768854b).')
TECHNIQUE = 'Rocq proofs of stage-level totality facts and refutation witnesses + differential run + exception search with committed classifiers'
