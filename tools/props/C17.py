"""C17 - The intermediate parse tree honours its published contract."""
import json, copy
from harness import core, impl, model, gen, xmlsx, stages

TRANSLATORS = ['parser', 'grammar', 'types', 'xml', 'libs']
LEVEL = 'proof'
RULE = ('dict stage: tree.to_dict() of the implementation, read through a fail-closed decoder (documented node types and keys only), vs the '
        'extracted Gallina to_dict on generated documents, mutations and token soup for all root rules and fragment rules; oracle: text '
        'nodes carry a string and nothing else, markers no children, block nodes no hier children, json.dumps/loads round trip equal, '
        'to_dict() twice gives equal dicts and leaves every class-level data attribute of bluebell.types untouched, one parser object parsing the same text under several roots gives each time the dict a new parser gives and leaves earlier trees alone, the dict tree is the same in fresh interpreters with different string-hash seeds (attribute-heavy documents), XML built from the reloaded dict equals XML built from '
        'the parse tree. non-trivial = dict with >= 5 nodes; distinct by (rule, text).')
TRUSTED_BASE = [
    'Coq 8.16.1 kernel; no axioms',
    'hand model coq/Model/Types.v tied to types.py by the dict stage; gen_tables_types.py (class-level data by reflection)',
    'translators gen_grammar.py etc.; extraction + driver; Python decoder/oracle',
]
ASSUMPTIONS = ['"block nodes never contain hierarchical children" depends on the shape of trees the grammar can produce: decided by the oracle, not a theorem']

FRAG_RULES = ['hier_element', 'block_element', 'table', 'block_list', 'bullet_list', 'hier_block_element', 'p', 'line', 'attachment', 'preface', 'body', 'mainBody']
KINDS = {'hier', 'block', 'speechhier', 'content', 'inline', 'marker', 'element', 'text'}

def walk(d):
    yield d
    for key in ('heading', 'subheading', 'from', 'children'):
        for k in d.get(key, []) or []:
            yield from walk(k)

def types_state():
    """every class-level data attribute of bluebell.types (tables, defaults, compiled regexes by pattern): to_dict must leave them alone"""
    import bluebell.types as T, inspect
    out = []
    for cn, cls in sorted(vars(T).items()):
        if not inspect.isclass(cls) or cls.__module__ != T.__name__: continue
        for k, v in sorted(vars(cls).items()):
            if k.startswith('__') or callable(v) or isinstance(v, (property, staticmethod, classmethod)): continue
            out.append((cn, k, getattr(v, 'pattern', None) or repr(v)))
    return out

def _oracle(args):
    rule, text = args
    import sys
    sys.setrecursionlimit(20000)
    p = impl.parser()
    import bluebell.types as T
    try:
        tree = p.parse_with_failure(text, rule)
    except Exception as e:
        return ('raised', impl.exc_kind(e), 0)
    defaults_before = repr((T.Remark.default_attribs, T.StandardInline.default_attribs, T.Inline.default_attribs))
    state_before = types_state()
    try:
        d1 = tree.to_dict()
        d2 = tree.to_dict()
    except Exception as e:
        return ('raised', impl.exc_kind(e), 0)
    if d1 != d2: return ('bad', 'to_dict() is not repeatable', 0)
    if repr((T.Remark.default_attribs, T.StandardInline.default_attribs, T.Inline.default_attribs)) != defaults_before:
        return ('bad', 'to_dict() changed class-level defaults', 0)
    state_after = types_state()
    if state_after != state_before:
        ch = [a[:2] for a, b in zip(state_before, state_after) if a != b][:3]
        return ('bad', 'to_dict() changed class-level state of bluebell.types: %s' % ch, 0)
    try:
        impl.dict_to_sx(d1)
    except impl.ContractError as e:
        return ('bad', 'contract: %s' % e, 0)
    n = 0
    for node in walk(d1):
        n += 1
        ty = node.get('type')
        if ty not in KINDS: return ('bad', 'undocumented node type %r' % ty, n)
        if ty == 'text' and ('children' in node or not isinstance(node.get('value'), str)): return ('bad', 'text node with children or without a string value', n)
        if ty == 'marker' and node.get('children'): return ('bad', 'marker node with children', n)
        if ty == 'block' and any(k.get('type') == 'hier' for k in node.get('children', [])): return ('bad', 'block node with a hierarchical child', n)
    try:
        s = json.dumps(d1)
        back = json.loads(s)
    except Exception as e:
        return ('bad', 'not JSON-serialisable: %s' % e, n)
    if back != d1: return ('bad', 'JSON round trip changes the dict', n)
    try:
        is_root = getattr(tree, 'is_root', False)
        a = impl.canon_xml(p.generator.to_xml(tree))
        b = impl.canon_xml(impl.parser().generator.xml_from_dict(back, is_root))
        # the same on the generator that has just converted the tree, and once more: building from a dict is repeatable
        c = impl.canon_xml(p.generator.xml_from_dict(json.loads(s), is_root))
        d = impl.canon_xml(p.generator.xml_from_dict(json.loads(s), is_root))
    except Exception as e:
        return ('raised', impl.exc_kind(e), n)
    if a != b: return ('bad', 'XML from the reloaded dict differs from XML from the parse tree', n)
    if a != c or a != d: return ('bad', 'XML from the reloaded dict, built on the generator that converted the tree, differs from XML from the parse tree', n)
    return ('ok', None, n)

HASH_PROBE = r'''
import sys, json
sys.setrecursionlimit(20000)
from bluebell.parser import AkomaNtosoParser
from cobalt import FrbrUri
rule, text = json.load(sys.stdin)
p = AkomaNtosoParser(FrbrUri.parse('/akn/za/act/2009/1'))
print(json.dumps(p.parse_with_failure(text, rule).to_dict(), sort_keys=True))
'''

def across_hash_seeds(rule, text, seeds=('1', '2', '7')):
    """the dict tree of the same (rule, pre-parsed text) in fresh interpreters with different string-hash seeds: None if all equal"""
    import subprocess, os
    outs = []
    for hs in seeds:
        env = dict(os.environ, PYTHONHASHSEED=hs, PYTHONPATH=core.REPO)
        r = subprocess.run([core.PY, '-c', HASH_PROBE], input=json.dumps([rule, text]), capture_output=True, text=True, env=env, timeout=120)
        outs.append(r.stdout if r.returncode == 0 else 'ERR')
    return None if len(set(outs)) == 1 else 'the dict tree depends on the interpreter\'s string-hash seed (PYTHONHASHSEED): %d different trees for seeds %s' % (len(set(outs)), ', '.join(seeds))

# attribute lists that mix dotted classes, a class pair and other pairs - where an unordered container would show
HASH_DOCS = ['SEC 1. - h\n  P.note.small{class lead} Some text.\n', 'P.a.b.c.d{class e f|status x|refersTo #y} t\n',
             'TABLE.x.y{class z}\n  TR\n    TC.p.q{class r|colspan 2}\n      c\n', 'x {{abbr.a.b{class c|title t} y}} {{term.k.l.m{refersTo #r|class n} z}}\n',
             'SEC.s1.s2.s3{class s0} 2\n  QUOTE.q1.q2{class q0|startQuote "}\n    t\n']

REUSE_GROUPS = [['act', 'bill', 'hierarchical_structure'], ['doc', 'statement', 'debateReport', 'open_structure'], ['debate', 'debate_structure']]

def _reuse_oracle(args):
    """one parser object, the same text under several roots in a row (as an editor that lets the user switch the document type does):
    every dict tree is the one a brand new parser gives, and a tree handed out earlier keeps giving the same dict"""
    text, roots = args
    import sys
    sys.setrecursionlimit(20000)
    p = impl.parser()
    handed = []
    for r in roots:
        try:
            t = p.parse(text, r); d = t.to_dict()
        except Exception as e:
            d = t = None; err = impl.exc_kind(e)
        try:
            want = impl.parser().parse(text, r).to_dict()
        except Exception as e:
            want = None
        if d != want:
            return ('bad', 'root %s after %s on the same parser object: the dict tree differs from a new parser\'s' % (r, [x[0] for x in handed]))
        if t is not None: handed.append((r, t, json.dumps(d, sort_keys=True)))
    for r, t, js in handed:
        if json.dumps(t.to_dict(), sort_keys=True) != js:
            return ('bad', 'the tree returned for root %s gives a different dict after later parses on the same object' % r)
    return ('ok', None)

def reuse_cases(ctx, n):
    out = []
    for _ in range(n):
        g = ctx.rng.choice(REUSE_GROUPS)
        out.append((gen.any_text(ctx.rng, g[0]), [ctx.rng.choice(g) for _ in range(ctx.rng.randint(2, 4))]))
    return out

def cases(ctx, n):
    p = impl.parser()
    out = []
    for _ in range(n):
        root = ctx.rng.choice(gen.ROOTS7)
        t = p.pre_parse(gen.any_text(ctx.rng, root))
        out.append((root, t))
        if ctx.rng.random() < 0.4:
            # a fragment: some line-start suffix parsed with a fragment rule
            starts = [0] + [i + 1 for i, c in enumerate(t) if c == '\n' and i + 1 < len(t)]
            pos = ctx.rng.choice(starts)
            out.append((ctx.rng.choice(FRAG_RULES), t[pos:]))
    return out

def keyword_in_block_cases():
    """every hierarchical keyword (and CROSSHEADING) at the start of a content line inside every kind of block: the line is
    text there, so no block node may get a hierarchical child"""
    p = impl.parser()
    out = []
    ctxs = ['ITEMS\n  ITEM (a)\n    %s\n  ITEM (b)\n    x\n', 'BLOCKLIST\n  intro\n  ITEM (a) - h\n    %s\n', 'BULLETS\n  * %s\n  * y\n',
            'TABLE\n  TR\n    TC\n      %s\n', 'ITEMS\n  ITEM (a)\n    ITEMS\n      ITEM (i)\n        %s\n', 'BLOCKS\n  %s\n',
            'BULLETS\n  %s\n']
    for kw in gen.HIER + ['CROSSHEADING']:
        for c in ctxs:
            for line in (kw + ' A of the form', kw + ' 1. - Heading', kw):
                out.append(('act', p.pre_parse('SEC 1.\n' + '\n'.join('  ' + l for l in (c % line).split('\n') if l) + '\n')))
    return out

def edge_heading_cases():
    """num / heading lines at their edges: a dash with nothing after it, nothing before it, only blanks around it, a num that is only
    punctuation, a heading of one inline - on every construct that takes `num - heading`: every optional key is either a list of nodes /
    a string or absent, never None or empty junk"""
    p = impl.parser()
    out = []
    heads = ['1 -', '1. -', ' -', '-', '- ', ' - ', '1 - ', '1 -  ', '- h', ' - h', '1 - **b**', '1 - {{^x}}', '(a) - -', '- - -', '1 -x', '1- x', '.', '( ) -', '1 - h -', '\\- -']
    kws = [('act', 'PART%s\n  text\n'), ('act', 'SEC%s\n'), ('doc', 'ITEMS\n  ITEM%s\n    text\n'), ('debate', 'DEBATESECTION%s\n  text\n'),
           ('debate', 'DEBATESECTION\n  SPEECH%s\n    FROM a\n    b\n'), ('act', 'CHAPTER%s\n  SUBHEADING\n  SEC 1\n    x\n'), ('doc', 'SCHEDULE%s\n  x\n'),
           ('act', 'PART 1\n  SUBHEADING%s\n  x\n'), ('act', 'CROSSHEADING%s\n'), ('act', 'PREFACE\n  LONGTITLE%s\nBODY\n  x\n')]
    for root, shape in kws:
        for h in heads:
            out.append((root, p.pre_parse(shape % (' ' + h))))
    return out

def attr_cases():
    """a class and / or an attribute list on every construct that takes one (all hierarchical and speech keywords, blocks, lists, tables,
    cells, crossheadings, quotes, paragraphs, inlines): the attribs of a node are a plain dict of strings whatever supplied them - the
    text, a default, or both"""
    p = impl.parser()
    out = []
    forms = ['.urgent', '{refersTo #x}', '.a.b{title t|status s}', '{name mine}', '{class c}', '.c{class d}']
    for f in forms:
        for kw in gen.HIER[:6] + gen.HIER[-3:]:
            out.append(('act', p.pre_parse('%s%s 1. - Heading\n  text\n' % (kw, f))))
        for kw in gen.SPEECH_CONTAINERS:
            out.append(('debate', p.pre_parse('%s%s - Questions to the Minister\n  SPEECH\n    FROM The Speaker:\n    Order, order.\n' % (kw, f))))
        for kw in gen.SPEECH_GROUPS:
            out.append(('debate', p.pre_parse('DEBATESECTION\n  %s%s\n    FROM a\n    b\n' % (kw, f))))
        for kw in gen.SPEECH_BLOCKS:
            out.append(('debate', p.pre_parse('DEBATESECTION\n  %s%s applause\n' % (kw, f))))
        for shape in ('P%s text\n', 'CROSSHEADING%s ch\n', 'ITEMS%s\n  ITEM%s (a)\n    x\n', 'BULLETS%s\n  * x\n', 'TABLE%s\n  TR\n    TC%s\n      c\n    TH%s\n      h\n',
                      'QUOTE%s\n  q\n', 'BLOCKS%s\n  x\n', 'PREFACE\n  LONGTITLE%s t\nBODY\n  x\n', 'x {{abbr%s A}} {{term%s t}} {{inline%s i}} {{def%s d}} {{em%s e}} {{+%s i}} {{-%s d}}\n',
                      'SCHEDULE%s - One\n  x\n', 'SEC 1\n  SUBHEADING%s s\n  x\n'):
            out.append(('act', p.pre_parse(shape.replace('%s', f))))
    return out

def correspondence(ctx):
    cs = cases(ctx, ctx.n(700, 40000)) + keyword_in_block_cases() + edge_heading_cases() + attr_cases()
    ctx._cases = cs
    stages.stage_dict(ctx, cs)

def search(ctx, budget):
    cs = getattr(ctx, '_cases', None) if budget == 1 else cases(ctx, ctx.n(700, 40000) * budget)
    if cs is None: cs = cases(ctx, ctx.n(700, 40000))
    for c, r in zip(cs, impl.pmap(_oracle, cs, chunk=8)):
        ctx.evaluations += 1; ctx.count('oracle_' + r[0])
        if r[0] == 'bad':
            ctx.failures.append(({'stage': 'dict', 'rule': c[0], 'text': c[1]}, r[1]))
        elif r[0] == 'ok' and r[2] >= 5:
            ctx.nontrivial(c)
    rc = reuse_cases(ctx, ctx.n(120, 4000) * budget)
    for c, r in zip(rc, impl.pmap(_reuse_oracle, rc, chunk=8)):
        ctx.evaluations += 1; ctx.count('reuse_' + r[0])
        if r[0] == 'bad':
            ctx.failures.append(({'stage': 'reuse', 'text': c[0], 'roots': c[1]}, r[1]))
    p = impl.parser()
    for t in HASH_DOCS:
        ctx.evaluations += 1; ctx.count('hash_seed_docs')
        bad = across_hash_seeds('act', p.pre_parse(t))
        if bad: ctx.failures.append(({'stage': 'hash', 'rule': 'act', 'text': p.pre_parse(t)}, bad))
    ctx.sample({'rule': cs[0][0], 'pre_parsed_text': cs[0][1][:400]})

def probe_disagreement(ctx, stage, case):
    if stage == 'dict':
        r = _oracle((case['rule'], case['text']))
        if r[0] == 'bad': ctx.failures.append((dict(case, stage='dict'), r[1]))
        elif getattr(ctx, '_hash_probes', 0) < 6:
            ctx._hash_probes = getattr(ctx, '_hash_probes', 0) + 1
            bad = across_hash_seeds(case['rule'], case['text'])
            if bad: ctx.failures.append((dict(case, stage='hash'), bad))

CLASSIFIERS = {}

def replay(obj):
    case = obj.get('case') or (obj.get('disagreements') or [{}])[0].get('case')
    if not case:
        print('nothing to replay:', obj.get('broken_obligations')); return 1
    if case.get('stage') == 'reuse':
        r = _reuse_oracle((case['text'], case['roots'])); print(r); return 1 if r[0] == 'bad' else 0
    if case.get('stage') == 'hash':
        bad = across_hash_seeds(case['rule'], case['text']); print(bad); return 1 if bad else 0
    ok = stages.replay_stage(case)
    r = _oracle((case['rule'], case['text'])); print('oracle:', r[:2])
    return 1 if (r[0] == 'bad' or ok is False) else 0

LEVEL_TEXT = ('Proof over the Gallina model of types.py, for every input, every parse tree and every fuel: every node of a dict returned by to_dict - '
              'at any depth - has one of the seven documented kinds and marker nodes have no children (C17_dict_contract, by induction through all '
              '33 to_dict methods); keys and the shape of text nodes are fixed by the type of the model\'s dict tree. The model is tied to the '
              'code by the dict stage through a fail-closed decoder for all root and fragment rules; serialisability, repeatability, absence of '
              'side effects and "XML from the reloaded dict = XML from the tree" are checked on the implementation by the oracle. Partial: '
              '"block nodes never contain hierarchical children" is oracle-only.')
LEVEL_NOTE = 'Trusted: Coq kernel; hand model Types.v tied by sampling; gen_tables_types.py; extraction+driver.'
TECHNIQUE = 'Rocq proof (induction on fuel through every to_dict method) + differential run through a fail-closed decoder'
