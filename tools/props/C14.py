"""C14 - Footnotes: every reference gets one note and no content vanishes."""
from harness import core, impl, model, gen, xmlsx, stages

TRANSLATORS = ['parser', 'grammar', 'types', 'xml', 'libs']
LEVEL = 'proof'
RULE = ('post stage: resolve_displaced_content / post_process of the implementation vs the extracted Gallina model on random '
        'AKN-shaped trees with repeated, missing, surplus, nested and out-of-order footnote references and blocks, text and tails '
        'everywhere (also trees the parser never produces); e2e stage on generated documents with footnotes. Oracle on the '
        'implementation: no displaced element/attribute survives, every note has content or the placeholder, reference count kept, '
        'surplus blocks stay as "FOOTNOTE m" + content, several blocks with one marker are handed out in document order whatever their position relative to the references, every word of every block appears exactly once; the tree the builder hands to footnote resolution has the shape the conservation theorem assumes (wfDx). non-trivial = document/tree '
        'with at least one reference and one block; distinct by input.')
TRUSTED_BASE = [
    'Coq 8.16.1 kernel; no axioms',
    'hand model coq/Model/Post.v (lxml text/tail semantics modelled as sibling text nodes) tied to xml.py by the post and e2e stages',
    'translators: gen_grammar.py, gen_tables_types.py, gen_tables_xml.py, gen_tables_libs.py (lxml/cobalt behaviour tabulated)',
    'extraction (ExtrOcamlBasic) + ocaml/driver.ml; Python oracle',
]
ASSUMPTIONS = ['the conservation theorem assumes the shape wfDx of the input tree; that the builder only produces such trees is checked on the implementation (oracle on the pre-resolution tree), not proved',
               'the matching rule (nearest enclosing element, document order, used once) is the model itself; it is tied to the code by the post stage, not proved against a separate specification',
               '"each block is used at most once, nearest first" is the model itself, checked by the oracle and the stages, not a theorem against a separate specification']

FOOTNOTE_DOCS = [
    'PARA 1.\n  Some text.\n\n  FOOTNOTE 1\n    See also this note{{FOOTNOTE 1}} again.\n\n  FOOTNOTE 1\n    The real content.\n',
    'x {{FOOTNOTE a}}\nFOOTNOTE a\n  first {{FOOTNOTE a}} inside\nFOOTNOTE a\n  second\nFOOTNOTE a\n  third\n',
    'SEC 1\n  FOOTNOTE 1\n    self {{FOOTNOTE 1}}\n  SUBSEC (a)\n    FOOTNOTE 1\n      far away\n',
    'a {{FOOTNOTE 1}} b {{FOOTNOTE 2}}\nFOOTNOTE 1\n  one\nFOOTNOTE 2\n  two\n',
    'a {{FOOTNOTE 1}}\nb {{FOOTNOTE 1}}\nFOOTNOTE 1\n  first\nFOOTNOTE 1\n  second\nFOOTNOTE 1\n  third\n',
    'FOOTNOTE 1\n  x {{FOOTNOTE 1}}\n',
    'SEC 1 - h {{FOOTNOTE *}}\n  ITEMS\n    intro {{FOOTNOTE a}}\n    FOOTNOTE a\n      in list\n    ITEM (a)\n      x\n  FOOTNOTE *\n    star\n',
    'TABLE\n  TR\n    TC\n      c {{FOOTNOTE 1}}\n      FOOTNOTE 1\n        cell note\nx {{FOOTNOTE 1}}\n',
    'x {{FOOTNOTE 9}}\nSCHEDULE h {{FOOTNOTE 1}}\n  y\n  FOOTNOTE 1\n    att\n',
]

def footnote_text(rng, root):
    t = gen.gen_doc(rng, root, unique=True)
    lines = t.split('\n')
    W = gen.Words(rng, True); W.k = 100000
    for _ in range(rng.randint(1, 4)):
        i = rng.randrange(len(lines)); ind = len(lines[i]) - len(lines[i].lstrip(' '))
        m = rng.choice(['1', '2', '*'])
        if rng.random() < 0.6 and lines[i].strip():
            lines[i] = lines[i] + ' {{FOOTNOTE %s}}' % m
        else:
            lines.insert(i, ' ' * ind + 'FOOTNOTE ' + m); lines.insert(i + 1, ' ' * (ind + 2) + W.words(2, 3))
    return '\n'.join(lines)

def _oracle(args):
    uri, root, prefix, text = args
    from lxml import etree
    from bluebell.parser import AkomaNtosoParser
    from cobalt import FrbrUri
    import json
    try:
        p = AkomaNtosoParser(FrbrUri.parse(uri), prefix)
        tree = p.parse(text, root)
        d = tree.to_dict()
        p.generator.ids.reset()
        pre = p.generator.xml_from_tree(d)
        xml = p.generator.xml_from_dict(d, True)
    except Exception as e:
        return ('raised', impl.exc_kind(e))
    # the shape the conservation theorem (C14_no_content_vanishes) assumes of the tree the builder hands to footnote resolution:
    # a <displaced> block holds elements only, carries no displaced attribute and has no tail text
    nsd = '{%s}displaced' % xmlsx.NS
    for b in pre.iter(nsd):
        if (b.text or '') or (b.tail or '') or 'displaced' in b.attrib or any((c.tail or '') or not isinstance(c.tag, str) for c in b):
            return ('bad', 'the tree handed to footnote resolution is not of the shape the conservation theorem assumes (wfDx): a displaced block with text, a tail or a displaced attribute', 0, 0)
    js = json.dumps(d)
    R, B = js.count('"displaced": "footnote"'), js.count('"name": "displaced"')
    ns = '{%s}' % xmlsx.NS
    for el in xml.iter():
        if el.tag == ns + 'displaced': return ('bad', 'displaced element survives', R, B)
        if 'displaced' in el.attrib and el.tag == ns + 'authorialNote': return ('bad', 'displaced attribute survives', R, B)
    notes = [n for n in xml.iter(ns + 'authorialNote') if n.get('placement') == 'bottom']
    if len(notes) != R: return ('bad', 'the document has %d references but %d notes' % (R, len(notes)), R, B)
    missing = 0
    for n in notes:
        kids = list(n)
        # a note may legitimately end up empty: its block held nothing but another FOOTNOTE block that a later
        # reference took (FOOTNOTE 2 / FOOTNOTE 1 / x, then {{FOOTNOTE 2}} {{FOOTNOTE 1}}); schema validity is C02's business
        if len(kids) == 1 and kids[0].tag == ns + 'p' and kids[0].text == '(content missing)' and len(kids[0]) == 0: missing += 1
    used = R - missing
    stubs = [p_ for p_ in xml.iter(ns + 'p') if (p_.text or '').startswith('FOOTNOTE ') and len(p_) == 0]
    if len(stubs) < B - used: return ('bad', '%d blocks, %d used, but only %d kept as ordinary content' % (B, used, len(stubs)), R, B)
    # a reference only gets the placeholder when no unused block with its marker is left anywhere in the document (the search widens
    # up to the root); the one exception is a reference inside a block of its own marker, which cannot take that block
    # ... directly, or once other notes have been moved: block a holds a reference b whose block holds a reference a
    edges, Bm, Rm, Sm = {}, {}, {}, {}
    blocks_seen = []
    def refs_in(n, acc):
        at = n.get('attribs') or {}
        if at.get('displaced') == 'footnote': acc.add(at.get('marker'))
        for key in ('heading', 'subheading', 'from', 'children'):
            for k in (n.get(key, []) or []):
                if isinstance(k, dict): refs_in(k, acc)
        return acc
    def walk(n, inside):
        at = n.get('attribs') or {}
        if n.get('name') == 'displaced':
            Bm[at.get('marker')] = Bm.get(at.get('marker'), 0) + 1; inside = inside | {at.get('marker')}
            blocks_seen.append((at.get('marker'), n))
        elif at.get('displaced') == 'footnote':
            Rm[at.get('marker')] = Rm.get(at.get('marker'), 0) + 1
            for b in inside: edges.setdefault(b, set()).add(at.get('marker'))
        for key in ('heading', 'subheading', 'from', 'children'):
            for k in n.get(key, []) or []:
                if isinstance(k, dict): walk(k, inside)
    walk(d, frozenset())
    def reaches(a, m):
        seen, todo = set(), [a]
        while todo:
            x = todo.pop()
            if x == m: return True
            if x not in seen: seen.add(x); todo += list(edges.get(x, ()))
        return False
    def on_cycle(m):
        return any(reaches(x, m) for x in edges.get(m, ()))
    # blocks that hold a reference leading back to their own marker: the only blocks such a reference can be unable to take
    for m, n in blocks_seen:
        if any(reaches(x, m) for x in refs_in(n, set())):
            Sm[m] = Sm.get(m, 0) + 1
    Pm = {}
    for n in notes:
        if len(n) == 1 and n[0].tag == ns + 'p' and n[0].text == '(content missing)' and len(n[0]) == 0:
            Pm[n.get('marker')] = Pm.get(n.get('marker'), 0) + 1
    # a reference that did not get the placeholder took a block of its own marker, and every block is taken once: per marker, no more
    # such notes than blocks (a note left empty although there never was a block for it is lost content: the placeholder is the record
    # that the reference dangles)
    for m, rm in Rm.items():
        if rm - Pm.get(m, 0) > Bm.get(m, 0):
            return ('bad', '%d reference(s) with marker %r did not get the placeholder, but the document has only %d FOOTNOTE %s block(s)' % (rm - Pm.get(m, 0), m, Bm.get(m, 0), m), R, B)
    for m, pm in Pm.items():
        # every reference that did not get the placeholder used one block: what is left of the blocks with this marker
        left_m = Bm.get(m, 0) - (Rm.get(m, 0) - pm)
        # (blocks that hold a reference of their own marker - directly, or round a cycle - are the only ones such a reference may leave
        # behind: any further unused block of that marker is within reach, the search widens up to the root)
        if left_m > (Sm.get(m, 0) if on_cycle(m) else 0):
            return ('bad', 'a reference with marker %r got the placeholder although %d unused FOOTNOTE %s block(s) are left in the document' % (m, left_m, m), R, B)
    return ('ok', None, R, B)

# ---- pairing stream: every marker has exactly one reference and one block in the same provision, in either order ----
# (no marker with a space: the grammar's FOOTNOTE block line takes [^ \n]+ as marker, so such a reference can never have a block)
PAIR_MARKERS = ['1', '2', '*', 'a', '1.', 'a:', '(b)', '\u00b9', '12"', "x'", 'a-b', 'A', '10', '**', '\u0663']

def pair_doc(rng):
    """returns (text, [(k, marker, content token)]): every reference ref<k>z has its own FOOTNOTE block in its own section;
    markers may be re-used in other sections (numbering that restarts), and a section may hold a stray block whose marker
    is only referenced in other sections"""
    reuse = rng.random() < 0.5
    pool = rng.sample(PAIR_MARKERS, 4)
    lines, want = [], []
    k = 0
    nsec = rng.randint(1, 3)
    for si in range(nsec):
        lines.append('SEC %d - heading%dz' % (si + 1, si))
        ms = rng.sample(pool, rng.randint(0, 2)) if reuse else [m for i, m in enumerate(pool) if i % 3 == si]
        body = []
        others = [m for m in pool if m not in ms]
        if reuse and si + 1 < nsec and others and rng.random() < 0.4:
            # a block nobody in this section refers to; its marker may be used by a later section, which has its own block
            body += ['  FOOTNOTE ' + rng.choice(others), '    stray%dz words' % si, '']
        for m in ms:
            k += 1; tok = 'note%dz' % k; want.append((k, m, tok))
            ref = '  ref%dz {{FOOTNOTE %s}} tail%dz' % (k, m, k)
            blk = ['  FOOTNOTE ' + m, '    ' + tok + ' more%dz' % k]
            if rng.random() < 0.5: body += [ref, ''] + blk + ['']        # block after its reference
            else: body += blk + ['', ref, '']                            # block before its reference
        if rng.random() < 0.5: body.append('  plain%dz' % si)
        lines += body or ['  text%dz' % si]
        # subsections that re-use the markers of the section's own introduction (numbering that restarts per provision): each
        # reference still gets the block of its own provision, the nearest one
        if ms and rng.random() < 0.5:
            for sub in 'ab'[:rng.randint(1, 2)]:
                lines.append('  SUBSEC (%s)' % sub)
                for m in rng.sample(ms, rng.randint(1, len(ms))):
                    k += 1; tok = 'note%dz' % k; want.append((k, m, tok))
                    ref = '    ref%dz {{FOOTNOTE %s}} tail%dz' % (k, m, k)
                    blk = ['    FOOTNOTE ' + m, '      ' + tok + ' more%dz' % k]
                    lines += ([ref, ''] + blk + ['']) if rng.random() < 0.5 else (blk + ['', ref, ''])
            if rng.random() < 0.3: lines.append('  closing%dz' % si)
    return '\n'.join(lines) + '\n', want

def _pair_oracle(args):
    seed, root = args
    import random
    text, want = pair_doc(random.Random(seed))
    try:
        xml = impl.parser().parse_to_xml(text, root)
    except Exception as e:
        return ('raised', impl.exc_kind(e), text)
    ns = '{%s}' % xmlsx.NS
    paras = {}
    for p_ in xml.iter(ns + 'p'):
        t = (p_.text or '')
        if t.startswith('ref') and p_.getparent().tag != ns + 'authorialNote':
            paras[t.split()[0]] = p_
    for k, m, tok in want:
        p_ = paras.get('ref%dz' % k)
        if p_ is None: return ('bad', 'the paragraph of reference %d is gone' % k, text)
        notes = [n for n in p_.iter(ns + 'authorialNote')]
        if len(notes) != 1 or notes[0].get('marker') != m:
            return ('bad', 'reference %d (marker %r) became %d notes %r' % (k, m, len(notes), [n.get('marker') for n in notes]), text)
        got = ''.join(notes[0].itertext())
        if tok not in got:
            return ('bad', 'the note of reference %d (marker %r) holds %r, not the content of the block of its own section (%s)' % (k, m, got, tok), text)
    # referenced blocks leave no stub behind; stray blocks stay as ordinary content
    stubs = sum(1 for p_ in xml.iter(ns + 'p') if ''.join(p_.itertext()).startswith('FOOTNOTE') and p_.getparent().tag != ns + 'authorialNote')
    strays = text.count('stray')
    if stubs != strays:
        return ('bad', '%d FOOTNOTE blocks left as ordinary content, %d expected (the unreferenced ones)' % (stubs, strays), text)
    for si in range(3):
        if ('stray%dz' % si) in text and not any(('stray%dz' % si) in ''.join(p_.itertext()) for p_ in xml.iter(ns + 'p') if p_.getparent().tag != ns + 'authorialNote'):
            return ('bad', 'the unreferenced block of section %d did not stay in place' % (si + 1), text)
    return ('ok', None, text)

def order_doc(rng):
    """several FOOTNOTE blocks with ONE marker, directly in a PART or inside sibling sections of it, and one paragraph (in a section of its
    own, with no block) holding the references: the PART is the closest enclosing element that has a block, and the statement says candidates
    are taken in document order there, each used once - so the i-th reference holds the i-th block, wherever the paragraph stands (round 15:
    a search that walks the preceding siblings nearest-first takes them in reverse)"""
    m = rng.choice(PAIR_MARKERS)
    nb = rng.randint(2, 4); nr = rng.randint(1, nb)
    pos = nb if rng.random() < 0.5 else rng.randint(0, nb)
    lines = ['PART 1 - orderz']
    sec = 0
    def refsec():
        nonlocal sec
        sec += 1
        lines.append('  SEC %d.' % sec)
        lines.append('    refsz ' + ' '.join('r%dz{{FOOTNOTE %s}}' % (i + 1, m) for i in range(nr)) + ' endz')
        lines.append('')
    for b in range(nb):
        if b == pos: refsec()
        if rng.random() < 0.5:
            sec += 1
            lines += ['  SEC %d.' % sec, '    filler%dz' % b, '', '    FOOTNOTE ' + m, '      blk%dz words' % (b + 1), '']
        else:
            lines += ['  FOOTNOTE ' + m, '    blk%dz words' % (b + 1), '']
    if pos == nb: refsec()
    return '\n'.join(lines) + '\n', nr

def _order_oracle(args):
    seed, root = args
    import random
    text, nr = order_doc(random.Random(seed))
    try:
        xml = impl.parser().parse_to_xml(text, root)
    except Exception as e:
        return ('raised', impl.exc_kind(e), text)
    ns = '{%s}' % xmlsx.NS
    ps = [p_ for p_ in xml.iter(ns + 'p') if (p_.text or '').startswith('refsz')]
    if len(ps) != 1: return ('bad', 'the paragraph holding the references appears %d times' % len(ps), text)
    got = [''.join(n.itertext()).split() for n in ps[0].iter(ns + 'authorialNote')]
    want = [['blk%dz' % (i + 1), 'words'] for i in range(nr)]
    if got != want:
        return ('bad', 'references in document order hold %r, not the blocks in document order %r' % (got, want), text)
    return ('ok', None, text)

def list_pair_doc(rng):
    """a block list whose introduction and wrap-up lines carry references with their own FOOTNOTE block right after the line, items with
    references and blocks of their own, and stray blocks of the SAME markers inside items: the block that the grammar attaches to the
    intro / wrap-up line is the nearest one for its reference"""
    ms = rng.sample(PAIR_MARKERS, 2)
    lines, want, k, strays = ['SEC 1 - headingz', '  ITEMS'], [], 0, 0
    def pair(ind, where):
        nonlocal k
        k += 1; m = rng.choice(ms); tok = 'note%dz' % k; want.append((k, m, tok))
        return [' ' * ind + '%s ref%dz {{FOOTNOTE %s}} tail%dz' % (where, k, m, k), '', ' ' * ind + 'FOOTNOTE ' + m, ' ' * (ind + 2) + tok + ' more%dz' % k, '']
    if rng.random() < 0.6: lines += pair(4, 'intro')
    for it in 'abc'[:rng.randint(1, 3)]:
        lines.append('    ITEM (%s)' % it)
        lines.append('      item%sz' % it)
        r = rng.random()
        if r < 0.4:
            strays += 1
            lines += ['', '      FOOTNOTE ' + rng.choice(ms), '        stray%dz words' % strays, '']
        elif r < 0.7:
            lines += pair(6, 'in')
    if rng.random() < 0.8: lines += pair(4, 'wrap')
    lines.append('  after the listz')
    return '\n'.join(lines) + '\n', want, strays

def _list_pair_oracle(args):
    seed, root = args
    import random
    text, want, strays = list_pair_doc(random.Random(seed))
    try:
        xml = impl.parser().parse_to_xml(text, root)
    except Exception as e:
        return ('raised', impl.exc_kind(e), text)
    ns = '{%s}' % xmlsx.NS
    holders = {}
    for e in xml.iter():
        if not isinstance(e.tag, str) or e.tag == ns + 'authorialNote': continue
        t = (e.text or '').split()
        if len(t) >= 2 and t[1].startswith('ref') and not any(a.tag == ns + 'authorialNote' for a in e.iterancestors()):
            holders[t[1]] = e
    for k, m, tok in want:
        h = holders.get('ref%dz' % k)
        if h is None: return ('bad', 'the line of reference %d is gone' % k, text)
        notes = [n for n in h if n.tag == ns + 'authorialNote']
        if len(notes) != 1 or notes[0].get('marker') != m:
            return ('bad', 'reference %d (marker %r) became %d notes' % (k, m, len(notes)), text)
        got = ''.join(notes[0].itertext())
        if tok not in got:
            return ('bad', 'the note of reference %d (marker %r, on a list %s line) holds %r, not the block written right after its line (%s)' % (k, m, (h.text or '').split()[0], got, tok), text)
    left = [p_ for p_ in xml.iter(ns + 'p') if ''.join(p_.itertext()).startswith('FOOTNOTE') and not any(a.tag == ns + 'authorialNote' for a in p_.iterancestors())]
    if len(left) != strays:
        return ('bad', '%d FOOTNOTE blocks left as ordinary content, %d expected (the unreferenced ones in the items)' % (len(left), strays), text)
    for p_ in left:
        if p_.getparent().tag != ns + 'item':
            return ('bad', 'an unreferenced block of an item ended up in <%s>' % p_.getparent().tag.split('}')[1], text)
    return ('ok', None, text)

def _ns_oracle(args):
    """the same text converted by a generator built for another Akoma Ntoso namespace (XmlGenerator(uri, maker=get_maker('2.0')), the
    documented way to target AKN 2.0): footnote resolution is the same document with the other namespace URI"""
    seed, root = args
    import random
    from lxml import etree
    from bluebell.xml import XmlGenerator
    from cobalt.akn import get_maker, AKN_NAMESPACES
    text, _ = pair_doc(random.Random(seed))
    try:
        a = impl.parser().parse_to_xml(text, root)
        p2 = impl.parser()
        p2.generator = XmlGenerator(p2.generator.frbr_uri, p2.generator.eid_prefix, maker=get_maker('2.0'))
        b = p2.parse_to_xml(text, root)
    except Exception as e:
        return ('raised', impl.exc_kind(e), text)
    import re
    dm = lambda t: re.sub(r'date="\d{4}-\d{2}-\d{2}"', 'date="D"', t)
    sa = dm(etree.tostring(a, encoding='unicode'))
    sb = dm(etree.tostring(b, encoding='unicode')).replace(AKN_NAMESPACES['2.0'], AKN_NAMESPACES['3.0'])
    if sa != sb:
        i = next((i for i in range(min(len(sa), len(sb))) if sa[i] != sb[i]), min(len(sa), len(sb)))
        return ('bad', 'with the AKN 2.0 maker the document differs beyond its namespace: 3.0 ...%s | 2.0 ...%s' % (sa[max(0, i - 60):i + 80], sb[max(0, i - 60):i + 80]), text)
    return ('ok', None, text)

# ---- instances of C14_footnote_free_tree_is_left_alone / C02_normalise_removes_empties_only / C15_titles_touch_attachments_only ----
def _quiet_oracle(args):
    """a random AKN-shaped tree WITHOUT the displaced attribute and without displaced elements: resolve_displaced_content returns it unchanged
    (text nodes merged); and where the tree has no childless removable container / no attachment, so do normalise / set_attachment_titles"""
    seed = args
    import random
    rng = random.Random(seed)
    def strip(x):
        if x[0] == 'T': return x
        return ['E', 'hcontainer' if x[1] == 'displaced' else x[1], [a for a in x[2] if a[0] != 'displaced'], [strip(k) for k in x[3]]]
    t = xmlsx.norm_sx(strip(gen.gen_post_tree(rng)))
    r = impl.post_step(('displaced', '', t))
    if r != t:
        return ('bad', 'footnote resolution changed a tree without references or blocks: %r -> %r' % (t, r), t)
    removable = {'crossHeading', 'longTitle', 'content', 'preface', 'preamble', 'conclusions'}
    els = [e for _, e in xmlsx.walk(t)]
    if not any(e[1] in removable and not e[3] for e in els):
        r = impl.post_step(('normalise', '', t))
        if r != t: return ('bad', 'normalise changed a tree without childless removable containers: %r -> %r' % (t, r), t)
    if not any(e[1] == 'attachment' for e in els):
        r = impl.post_step(('titles', '', t))
        if r != t: return ('bad', 'set_attachment_titles changed a tree without attachments: %r -> %r' % (t, r), t)
    return ('ok', None, t)

# minimal trees: as deep as they are large, so that every placeholder and every move makes the tree deeper than its original size
CORNER_TREES = [
    '<p xmlns="%s"><authorialNote displaced="footnote" marker="1"/></p>',
    '<a xmlns="%s"><b><c><authorialNote displaced="footnote" marker="1"/></c></b></a>',
    '<a xmlns="%s"><b><authorialNote displaced="footnote" marker="1"/></b><displaced name="footnote" marker="1"><p><q><authorialNote displaced="footnote" marker="2"/></q></p></displaced></a>',
    '<a xmlns="%s"><displaced name="footnote" marker="1"><displaced name="footnote" marker="2"><p>x</p></displaced></displaced></a>',
    '<a xmlns="%s"><n displaced="footnote" marker="1"><n displaced="footnote" marker="1"><n displaced="footnote" marker="1"/></n></n></a>',
]

def corner_cases():
    from lxml import etree
    return [('displaced', '', xmlsx.norm_sx(xmlsx.to_sx(etree.fromstring(t % xmlsx.NS)))) for t in CORNER_TREES]

def correspondence(ctx):
    stages.stage_post(ctx, stages.post_cases(ctx, ctx.n(3000, 100000), steps=('displaced', 'displaced', 'all')) + corner_cases())
    cs = []
    for _ in range(ctx.n(500, 30000)):
        root = ctx.rng.choice(gen.ROOTS7)
        cs.append((ctx.rng.choice(stages.URIS), root, ctx.rng.choice(stages.PREFIXES), footnote_text(ctx.rng, root)))
    cs += [(stages.URIS[0], r, '', t) for t in FOOTNOTE_DOCS for r in ('act', 'doc', 'judgment')]
    stages.stage_e2e(ctx, cs)
    ctx._docs = cs

def search(ctx, budget):
    cs = list(getattr(ctx, '_docs', []))
    for _ in range(ctx.n(500, 30000) * (budget - 1)):
        root = ctx.rng.choice(gen.ROOTS7)
        cs.append((stages.URIS[0], root, '', footnote_text(ctx.rng, root)))
    res = impl.pmap(_oracle, cs, chunk=8)
    for c, r in zip(cs, res):
        ctx.evaluations += 1; ctx.count('oracle_' + r[0])
        if r[0] == 'bad':
            ctx.failures.append(({'stage': 'e2e', 'uri': c[0], 'root': c[1], 'prefix': c[2], 'text': c[3]}, r[1]))
        elif r[0] == 'ok' and r[2] >= 1 and r[3] >= 1:
            ctx.nontrivial((c[1], c[3]))
    pj = [(ctx.rng.randrange(1 << 30), ctx.rng.choice(['act', 'bill', 'doc', 'statement', 'debateReport', 'judgment'])) for _ in range(ctx.n(300, 10000) * budget)]
    for j, r in zip(pj, impl.pmap(_pair_oracle, pj, chunk=16)):
        ctx.evaluations += 1; ctx.count('pairs_' + r[0])
        if r[0] == 'bad':
            ctx.failures.append(({'stage': 'pairs', 'seed': j[0], 'root': j[1], 'text': r[2]}, r[1]))
        elif r[0] == 'ok':
            ctx.nontrivial(('pairs',) + j)
    for j, r in zip(pj, impl.pmap(_list_pair_oracle, pj, chunk=16)):
        ctx.evaluations += 1; ctx.count('list_pairs_' + r[0])
        if r[0] == 'bad':
            ctx.failures.append(({'stage': 'list-pairs', 'seed': j[0], 'root': j[1], 'text': r[2]}, r[1]))
    for j, r in zip(pj, impl.pmap(_order_oracle, pj, chunk=16)):
        ctx.evaluations += 1; ctx.count('order_' + r[0])
        if r[0] == 'bad':
            ctx.failures.append(({'stage': 'order', 'seed': j[0], 'root': j[1], 'text': r[2]}, r[1]))
    qj = [ctx.rng.randrange(1 << 30) for _ in range(ctx.n(400, 20000) * budget)]
    for j, r in zip(qj, impl.pmap(_quiet_oracle, qj, chunk=32)):
        ctx.evaluations += 1; ctx.count('quiet_tree_' + r[0])
        if r[0] == 'bad':
            ctx.failures.append(({'stage': 'quiet', 'seed': j, 'tree': r[2]}, r[1]))
    nj = pj[:ctx.n(60, 2000)]
    for j, r in zip(nj, impl.pmap(_ns_oracle, nj, chunk=8)):
        ctx.evaluations += 1; ctx.count('other_namespace_' + r[0])
        if r[0] == 'bad':
            ctx.failures.append(({'stage': 'namespace', 'seed': j[0], 'root': j[1], 'text': r[2]}, r[1]))
    ctx.sample({'root': cs[0][1], 'text': cs[0][3]})

def probe_disagreement(ctx, stage, case):
    if stage == 'e2e':
        r = _oracle((case['uri'], case['root'], case['prefix'], case['text']))
        if r[0] == 'bad': ctx.failures.append((dict(case, stage='e2e'), r[1]))

CLASSIFIERS = {}

def replay(obj):
    case = obj.get('case') or (obj.get('disagreements') or [{}])[0].get('case')
    if not case:
        print('nothing to replay:', obj.get('broken_obligations')); return 1
    if case.get('stage') == 'list-pairs':
        r = _list_pair_oracle((case['seed'], case['root'])); print(r[:2]); return 1 if r[0] == 'bad' else 0
    if case.get('stage') == 'order':
        r = _order_oracle((case['seed'], case['root'])); print(r[:2]); return 1 if r[0] == 'bad' else 0
    if case.get('stage') == 'pairs':
        r = _pair_oracle((case['seed'], case['root'])); print(r[:2]); return 1 if r[0] == 'bad' else 0
    if case.get('stage') == 'quiet':
        r = _quiet_oracle(case['seed']); print(r[:2]); return 1 if r[0] == 'bad' else 0
    if case.get('stage') == 'namespace':
        r = _ns_oracle((case['seed'], case['root'])); print(r[:2]); return 1 if r[0] == 'bad' else 0
    ok = stages.replay_stage(case)
    if 'text' in case and 'uri' in case:
        r = _oracle((case['uri'], case['root'], case['prefix'], case['text'])); print('oracle:', r)
        return 1 if (r[0] == 'bad' or ok is False) else 0
    return 0 if ok else 1

LEVEL_TEXT = ('Proof over the Gallina model of resolve_displaced_content, for every XML tree: if it returns, no displaced placeholder element is left '
              '(C14_no_displaced_element_survives), and for every tree of the builder\'s shape no displaced attribute either - every reference is reached and loses it (C14_no_displaced_attribute_survives); and no content vanishes: for every tree of the shape the builder produces (a displaced block '
              'holds elements only, has no displaced attribute and no tail text) the elements of the result - tag, attributes apart from the '
              'internal one, direct text - are, as a multiset, the elements of the input with every unused block turned into its "FOOTNOTE m" '
              'paragraph, minus the used blocks (whose children all stay, inside the note), plus one "(content missing)" paragraph per reference '
              'without a block (C14_no_content_vanishes; 1000 lines: unique ids, the reference stays reachable after the block is taken out, the '
              'fuel of every traversal suffices); a tree without references and blocks comes out of resolution as it went in, and on a tree that also has no childless removable container, no attachment and merged text nodes the whole of post-processing is eId generation (C14_footnote_free_tree_is_left_alone, C14_post_processing_is_eid_generation; instances run on the implementation). The rest of the property (matching rule, one note per reference, placeholder, surplus blocks '
              'kept, attribute removed) is the executable model itself, tied to xml.py by the post stage on random trees with repeated/missing/'
              'surplus/nested/out-of-order markers (including trees outside the parser image) and by the e2e stage, and checked on the '
              'implementation by the footnote oracle. Partial: those clauses are not yet theorems against an independent specification.')
LEVEL_NOTE = 'Trusted: Coq kernel; hand model Post.v (lxml text/tail rule) tied by sampling; translators; extraction+driver. A self-referencing footnote aborted the conversion on the original tree (fixed: commit 768854b).'
TECHNIQUE = 'Rocq proof (induction over the id-annotated tree; multiset conservation through remove/move/splice with unique ids) + differential run of the extracted post-processing model + footnote oracle'
