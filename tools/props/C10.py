"""C10 - The shipped parser recognises exactly the language of the PEG grammar."""
from harness import core, impl, model, gen, sx

TRANSLATORS = ['parser', 'grammar', 'grammarpy']
LEVEL = 'proof'
RULE = ('peg stage: Parser(text)._read_<rule>() of the shipped parser (generated akn.py + the hand-written override) vs the Gallina PEG '
        'interpreter on the grammar regenerated from akn.peg: success/failure, end offset and the whole tree (spans, mixed-in types, '
        'labelled children; children of unlabelled runs of leaf nodes by span only). Inputs: pre-parsed generated documents, '
        'mutations and token soup, their line-start suffixes and inline-start suffixes, for all grammar rules as start symbols; and '
        'through the public entry point parse_with_failure on ONE reused AkomaNtosoParser object: the same text parsed with several roots '
        'that share an inner rule, in a row, each result compared with what the PEG prescribes for that (root, text). '
        'non-trivial = the rule accepted and built a tree with >= 3 nodes; distinct by (rule, input).')
TRUSTED_BASE = [
    'Coq 8.16.1 kernel; vm_compute for the grammar equality and table lemmas; no axioms',
    'tools/pegsyntax.py + gen_grammar.py (parser for canopy PEG syntax); tools/decompile_canopy.py (template semantics of canopy-generated code, fail-closed)',
    'character classes of both sides tabulated by running Python re on every code point',
    'canopy tree-building semantics as implemented in coq/Model/Peg.v, tested by the peg stage on all rules',
    'extraction (ExtrOcamlBasic) + ocaml/driver.ml',
]
ASSUMPTIONS = ['packrat memoisation is not modelled (results are compared, not the cache)',
               'totality of the interpreter for this grammar (no left recursion) is not proved: OutOfFuel would be reported as a disagreement']

def all_rules():
    import re, os
    src = open(os.path.join(core.REPO, 'bluebell', 'akn.py')).read()
    return re.findall(r'def _read_(\w+)\(self\)', src.split('class Grammar')[1].split('class Parser')[0])

def model_tree(x):
    off, ln, tys, lbs, kids = x
    return [sx.num(off), sx.num(ln), list(tys), [[l, sx.num(i)] for l, i in lbs], [model_tree(k) for k in kids]]

def size(t):
    return 1 + sum(size(k) for k in t[4] if k != 'run')

def first_literals():
    """rule -> set of literal strings a match of the rule can start with (approximation; '' = anything)"""
    import os, sys
    sys.path.insert(0, os.path.join(core.VERIF, 'tools'))
    import pegsyntax
    _, rules = pegsyntax.PegParser(open(os.path.join(core.REPO, 'bluebell', 'akn.peg')).read()).grammar()
    g = dict(rules)
    memo = {}
    def first(e, depth=0):
        k = e[0]
        if depth > 12: return {''}, False
        if k == 'lit': return {e[1]}, False
        if k == 'cls': return {''}, False
        if k == 'ref':
            if e[1] in memo: return memo[e[1]]
            memo[e[1]] = ({''}, False)
            memo[e[1]] = first(g[e[1]], depth + 1)
            return memo[e[1]]
        if k == 'seq':
            out = set()
            for x in e[1]:
                f, nullable = first(x, depth + 1)
                out |= f
                if not nullable: return out, False
            return out, True
        if k == 'alt':
            out, nl = set(), False
            for x in e[1]:
                f, n = first(x, depth + 1); out |= f; nl = nl or n
            return out, nl
        if k in ('opt', 'star'): return first(e[1], depth + 1)[0], True
        if k == 'plus': return first(e[1], depth + 1)
        if k in ('and', 'not'): return set(), True
        if k == 'typed': return first(e[1], depth + 1)
    return {n: first(('ref', n))[0] for n, _ in rules}

def cases(ctx, budget):
    rules = all_rules()
    firsts = first_literals()
    p = impl.parser()
    out = []
    docs = []
    for i in range(ctx.n(160, 6000) * budget):
        root = ctx.rng.choice(gen.ROOTS7)
        docs.append((root, p.pre_parse(gen.any_text(ctx.rng, root))))
    for t in gen.fixture_texts():
        docs.append(('act', p.pre_parse(t)))
    for root, t in docs:
        out.append((root, t))
        # suffixes from line starts and inline starts, with rules chosen at random (biased to the fragment rules)
        starts = [0] + [i + 1 for i, c in enumerate(t) if c == '\n' and i + 1 < len(t)]
        inl = [i for i, c in enumerate(t) if c in '*/_{\\' ]
        for _ in range(ctx.n(10, 24)):
            r = ctx.rng.choice(rules)
            pos = ctx.rng.choice(starts if (ctx.rng.random() < 0.6 or not inl) else inl)
            out.append((r, t[pos:pos + 1500]))
        # positions where the rule's first literal occurs
        for _ in range(ctx.n(14, 30)):
            r = ctx.rng.choice(rules)
            lits = [l for l in firsts.get(r, ()) if l]
            if not lits: continue
            l = ctx.rng.choice(lits)
            pos = t.find(l, ctx.rng.randrange(len(t) + 1))
            if pos < 0: pos = t.find(l)
            if pos >= 0:
                out.append((r, t[pos:pos + 1500]))
    # every rule at least on a few short hand-made inputs
    smalls = ['', '\n', 'x\n', 'SEC 1. - h\n', 'PART\n\x0e\nx\n\x0f\n', '{{^a}}', '**b**', '\\*', ' - h\n', '.a{b c|d}', 'TABLE\n\x0e\nTR\n\x0e\nTC\n\x0e\nx\n\x0f\n\x0f\n\x0f\n',
              'ITEMS\n\x0e\nITEM (a)\n\x0e\nx\n\x0f\n\x0f\n', 'BODY\n', 'ATTACHMENT h\nx\n', 'FROM me\n', 'SPEECH\n\x0e\nFROM a\nx\n\x0f\n', '  ', '\x0e\n', '\x0f\n', 'noop']
    for r in rules:
        for s in smalls:
            out.append((r, s))
    # long runs of plain text (the hand-optimised rule works on whole runs): around powers of two and beyond
    sizes = [255, 256, 1023, 1025, 4095, 4096, 4097, 8193, 65535, 65537] + ([100001, 300000] if (budget > 1 or not ctx.quick) else [])
    for n in sizes:
        run = ('ab c' * (n // 4 + 1))[:n]
        for r in ('non_inline_start', 'inline', 'line'):
            out.append((r, run + '\n'))
        out.append(('line', run + '**b** ' + run + '\n'))
    return out

def compare(x, y):
    if x[0] == 'OK':
        return y[0] == 'OK' and sx.num(y[1]) == x[1] and impl.collapse_runs(x[2]) == impl.collapse_runs(model_tree(y[2]))
    return y[0] == x[0]

# roots whose rules wrap the same typed inner rule: the same text is parsed with all of them, in a random order, on one parser object
ROOT_GROUPS = [['act', 'bill', 'hierarchical_structure'], ['doc', 'statement', 'debateReport', 'open_structure'], ['debate', 'debate_structure'],
               ['judgment', 'judgment_structure']]

def api_cases(ctx, budget):
    p = impl.parser()
    rules = set(all_rules())
    out = []
    for _ in range(ctx.n(60, 2000) * budget):
        g = [r for r in ctx.rng.choice(ROOT_GROUPS) if r in rules]
        if len(g) < 2: continue
        seq = [ctx.rng.choice(g) for _ in range(ctx.rng.randint(2, 4))]
        t = p.pre_parse(gen.any_text(ctx.rng, g[0]))
        out.append((t, seq))
    # the entry point wants the WHOLE input: a rule for part of a line (which cannot take the line end) on a sentence of its own followed by
    # the newline pre_parse always adds - or by something else - must be refused; without the remainder it is accepted
    part = [('inline', 'hello'), ('bold', '**bold**'), ('italics', '//it//'), ('ref', '{{>http://example.com link}}'), ('block_attrs', '.cls{a b}'),
            ('hier_element_name', 'PART'), ('hier_element_heading', ' 1 - Heading'), ('class_name', 'cls'), ('attr_value', 'a b'), ('space', '  '),
            ('footnote_ref', '{{FOOTNOTE 1}}'), ('image', '{{IMG a.png alt}}'), ('num_content', 'x'), ('escape', '\\x'), ('newline', '\n'), ('eol', '\n\n')]
    for r, t in part:
        if r in rules:
            for tail in ('', '\n', '\n\n', ' ', 'x', '\n\x0f\n'):
                out.append((t + tail, [r, r]))
    # EVERY rule name as start symbol through the entry point, on small texts that some rules take and most refuse (a keyword line, a
    # marker line, a word, a nest): the name a caller passes selects the rule of that name, whatever else the name may mean
    small = ['INDENT 1 - Heading\n', 'SECTION 1.\n', '\x0e\n', '\x0f\n', 'x\n', 'hello', 'PART A - Heading\n\x0e\ntext\n\x0f\n', 'CROSSHEADING foo\n', '\n', 'LIST 1\n', 'TITLE\n', 'P x\n',
             'BODY\n', 'TABLE\n\x0e\nTR\n\x0e\nTC\n\x0e\nc\n\x0f\n\x0f\n\x0f\n', 'ITEMS\n\x0e\nITEM (a)\n\x0e\nx\n\x0f\n\x0f\n', '{{^x}}', ' - h', '.cls', 'SCHEDULE\n']
    for r in sorted(rules):
        for t in small:
            out.append((t, [r]))
    return out

def api_stream(ctx, budget, sink):
    """parse_with_failure (the way every caller reaches the parser) on a reused AkomaNtosoParser: accept/reject and whole trees,
    node types included, must be what the PEG prescribes for (root, text) - whatever was parsed before on that object"""
    cs = api_cases(ctx, budget)
    a = impl.pmap(impl.peg_api_seq, cs, chunk=8)
    flat = [(r, t) for t, seq in cs for r in seq]
    b = model.run([['peg', r, t] for r, t in flat])
    i = 0
    for (t, seq), xs in zip(cs, a):
        for k, (r, x) in enumerate(zip(seq, xs)):
            y = b[i]; i += 1
            ctx.evaluations += 1; ctx.count('api_seq_cases'); ctx.count('api_' + str(x[0]))
            if isinstance(y, list) and y[0] == 'OK' and sx.num(y[1]) != len(t):
                y = ['FAIL']          # the API wants the whole input
            if not compare(x, y):
                sink(('peg-api', {'text': t, 'roots': seq, 'at': k}, x[:2], y[:2] if isinstance(y, list) else y))

def correspondence(ctx):
    cs = cases(ctx, 1)
    api_stream(ctx, 1, ctx.disagreements.append)
    okrules = {}
    # in batches: the dumped parse trees of both sides are large (a thorough run holds a quarter of a million of them)
    for i in range(0, len(cs), 5000):
        part = cs[i:i + 5000]
        a = impl.pmap(impl.peg_rule, part, chunk=32)
        b = model.run([['peg', r, t] for r, t in part])
        for c, x, y in zip(part, a, b):
            ctx.evaluations += 1; ctx.count('peg_cases'); ctx.count('peg_' + str(x[0]))
            if not compare(x, y):
                ctx.disagreements.append(('peg', {'rule': c[0], 'text': c[1]}, x[:2], y[:2] if isinstance(y, list) else y))
            elif x[0] == 'OK':
                okrules[c[0]] = okrules.get(c[0], 0) + 1
                if size(impl.collapse_runs(x[2])) >= 3:
                    ctx.nontrivial(c)
        del a, b
    rules = all_rules()
    ctx.stats['rules'] = len(rules)
    ctx.stats['rules_accepting_some_input'] = len(okrules)
    ctx.stats['rules_never_accepting'] = sorted(set(rules) - set(okrules))
    ctx.sample({'rule': cs[1][0], 'text': cs[1][1][:300]})

def search(ctx, budget):
    # for C10 the correspondence IS the oracle: a disagreement between akn.py and the interpreter on akn.peg is a violation
    for stage, case, x, y in ctx.disagreements:
        if stage == 'peg-api':
            ctx.failures.append((dict(case, stage='peg-api', impl=x, peg_interpreter=y),
                                 'parse_with_failure on a reused parser and the PEG disagree on root %s (call %d of %r on the same text)' % (case['roots'][case['at']], case['at'] + 1, case['roots'])))
            continue
        ctx.failures.append((dict(case, stage='peg', impl=x, peg_interpreter=y), 'shipped parser and PEG disagree on rule %s' % case['rule']))
    if budget > 1 and not ctx.disagreements:
        cs = cases(ctx, budget)
        a = impl.pmap(impl.peg_rule, cs, chunk=32)
        b = model.run([['peg', r, t] for r, t in cs])
        for c, x, y in zip(cs, a, b):
            ctx.evaluations += 1
            if not compare(x, y):
                ctx.failures.append(({'stage': 'peg', 'rule': c[0], 'text': c[1], 'impl': x[:2]}, 'shipped parser and PEG disagree on rule %s' % c[0]))
        api_stream(ctx, budget, lambda d: ctx.failures.append((dict(d[1], stage='peg-api', impl=d[2]), 'parse_with_failure on a reused parser and the PEG disagree')))

CLASSIFIERS = {}

def replay(obj):
    case = obj.get('case') or (obj.get('disagreements') or [{}])[0].get('case')
    if not case:
        print('nothing to replay:', obj.get('broken_obligations')); return 1
    if case.get('stage') == 'peg-api':
        xs = impl.peg_api_seq((case['text'], case['roots'])); ok = True
        for r, x in zip(case['roots'], xs):
            y = model.run([['peg', r, case['text']]])[0]
            if isinstance(y, list) and y[0] == 'OK' and sx.num(y[1]) != len(case['text']): y = ['FAIL']
            print('root', r, 'akn.py:', x[:1], [n for n in x[2][2]] if x[0] == 'OK' else '', 'akn.peg:', y[:1]); ok = ok and compare(x, y)
        print('agree:', ok); return 0 if ok else 1
    x = impl.peg_rule((case['rule'], case['text'])); y = model.run([['peg', case['rule'], case['text']]])[0]
    print('rule', case['rule'], 'text', repr(case['text'])[:300]); print('akn.py :', x[:2]); print('akn.peg:', y[:2] if isinstance(y, list) else y)
    ok = compare(x, y); print('agree:', ok); return 0 if ok else 1

LEVEL_TEXT = ('Translation validation checked by the Coq kernel plus correspondence: (1) the PEG reconstructed from the generated parser\'s code by a '
              'fail-closed decompiler equals the PEG of akn.peg - all rules, literals, tabulated character classes, labels, node types - by '
              'computation (C10_grammar_py_eq_peg); (2) for all inputs and offsets the hand-optimised non_inline_start equals the grammar\'s '
              '[class]+ on success, end and span, with the class taken from the live regex (C10_override_equiv); (3) INDENT/DEDENT match the '
              'grammar; (4) the interpreter\'s answer is fuel-independent for every grammar and input (C10_prescription_deterministic). The '
              'interpreter\'s reading of canopy\'s tree-building and the decompiler\'s template semantics are tested by running every grammar '
              'rule of the shipped parser and of the interpreter on the same inputs and comparing whole trees.')
LEVEL_NOTE = ('Trusted: Coq kernel; the two translators (PEG syntax parser, canopy template decompiler); Python re for class tabulation; the '
              'canopy semantics encoded in Peg.v (tied by sampling over all rules). Not proved: termination of the interpreter on this grammar.')
TECHNIQUE = 'Rocq-checked translation validation (decompiled parser = PEG, by computation) + proof of the override + differential run on all 112 rules'
