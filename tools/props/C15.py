"""C15 - Attachments are separately identified, correctly nested documents."""
import re
from harness import core, impl, model, gen, xmlsx, stages

TRANSLATORS = ['parser', 'grammar', 'types', 'xml', 'libs']
LEVEL = 'proof'
RULE = ('e2e stage: parse_to_xml vs the extracted Gallina pipeline model on documents with attachment forests (four keywords, any '
        'nesting depth, with/without headings and subheadings, 7 roots, 5 FRBR URIs (two with a language other than eng and an expression date), prefixes). Oracle on the implementation: component = '
        '<parent path>/<keyword>_<n> numbered per keyword among siblings, unique in the document, used consistently in FRBRthis (with '
        '!component) and absent from FRBRuri of work/expression/manifestation, title alias = heading text or Untitled, every eId inside '
        'starts with the attachment\'s own att_<n> id; a third of the documents are converted a second time on a parser object that has just failed inside an attachment. non-trivial = document with >= 2 attachments; distinct by input.')
TRUSTED_BASE = [
    'Coq 8.16.1 kernel; no axioms',
    'hand models XmlGen.v / Post.v tied to xml.py by the e2e stage; cobalt\'s empty_meta tabulated per FRBR URI (gen_tables_libs.py)',
    'translators: gen_grammar.py, gen_tables_types.py, gen_tables_xml.py, gen_tables_libs.py; extraction + driver; Python oracle',
]
ASSUMPTIONS = ['cobalt (FrbrUri, empty_meta) is outside /repo: represented by templates tabulated from the installed version for three URIs',
               'document-wide uniqueness of components is decided by the oracle; the theorem gives the per-(parent, keyword) numbering from which it follows']

def att_forest(rng, W, ind, depth, out):
    sp = '  ' * ind
    kw = rng.choice(gen.ATTACH)
    # attributes that look like the generator's own bookkeeping: a name, an eId, a component path of another attachment
    own = rng.choice(['{name annex}', '{name schedule}', '{name schedule_1/annexure}', '{eId att_9}', '{name attachment|eId att_1}', '.schedule{name x}']) if rng.random() < 0.12 else None
    out.append(sp + kw + (own or gen.gen_attrs(rng, W, 0.1)) + rng.choice(['', '', ' ' + gen.gen_inline(rng, W), ' Plain heading']))
    if rng.random() < 0.3: out.append(sp + '  SUBHEADING ' + W.words(1, 3))
    gen.gen_blocks(rng, W, ind + 1, depth + 2, out, True, rng.randint(0, 2))
    if depth < 3:
        for _ in range(rng.choice([0, 0, 1, 2, 3])):
            att_forest(rng, W, ind + 1, depth + 1, out)

def att_text(rng, root):
    W = gen.Words(rng, False)
    out = []
    if root == 'judgment':
        out.append('INTRODUCTION'); out.append('  ' + W.words())
    elif root == 'debate':
        out.append('DEBATESECTION'); out.append('  ' + W.words())
    else:
        gen.gen_blocks(rng, W, 0, 3, out, True, rng.randint(0, 2))
    for _ in range(rng.randint(1, 4)):
        att_forest(rng, W, 0, 0, out)
    t = '\n'.join(gen.expand_breaks(l) for l in out) + '\n'
    return gen.mutate(rng, t, 1) if rng.random() < 0.15 else t

# conversions that fail while an attachment's content is being turned into XML (invalid attribute name, character XML cannot hold):
# run first on the same parser object for part of the cases; the document converted next must still get its own component names
FAILING = ['x\nSCHEDULE First\n  y\n  ANNEXURE An annex\n    P{a=b c} z\n', 'x\nAPPENDIX\n  P{1a b} z\n',
           'x\nATTACHMENT h\n  ANNEXURE\n    SCHEDULE\n      bad \x01 char\n']

OTHER_URIS = ['/za/act/2009/10', '/za-cpt/act/by-law/2009/10/afr@2012-01-01', '/akn/za/act/gn/2020/R1234', '/akn/za/judgment/ZACC/2022/15/eng@2022-03-01', '/na/act/p/1990-03-21/1/eng:2001-01-01',
              '/akn/un/statement/deliberation/unga/2011-03-09/65-251/fra@']

def _oracle(args):
    uri, root, prefix, text = args[:4]
    from bluebell.parser import AkomaNtosoParser
    from cobalt import FrbrUri
    try:
        f = FrbrUri.parse(uri)
        p = AkomaNtosoParser(f, prefix)
        for h in (args[4] if len(args) > 4 else ()):
            try: p.parse_to_xml(h, 'act')
            except Exception: pass
        xml = p.parse_to_xml(text, root)
    except Exception as e:
        return ('raised', impl.exc_kind(e), 0)
    ns = '{%s}' % xmlsx.NS
    work, expr = f.work_uri(work_component=False), f.expression_uri(work_component=False)
    seen = set()
    def walk(att, parent_comp, counts):
        doc = att.find(ns + 'doc')
        if doc is None: return 'attachment without doc'
        kw = doc.get('name')
        counts[kw] = counts.get(kw, 0) + 1
        comp = (parent_comp + '/' if parent_comp else '') + '%s_%d' % (kw, counts[kw])
        ident = doc.find(ns + 'meta/' + ns + 'identification')
        for lvl, base in (('FRBRWork', work), ('FRBRExpression', expr), ('FRBRManifestation', expr)):
            this = ident.find(ns + lvl + '/' + ns + 'FRBRthis').get('value')
            u = ident.find(ns + lvl + '/' + ns + 'FRBRuri').get('value')
            if this != base + '/!' + comp: return '%s FRBRthis is %r, expected component %r' % (lvl, this, comp)
            if u != base: return '%s FRBRuri is %r, expected %r' % (lvl, u, base)
        lang = ident.find(ns + 'FRBRExpression/' + ns + 'FRBRlanguage')
        if lang is None or lang.get('language') != f.language: return 'FRBRlanguage of attachment %r is %r, the document is in %r' % (comp, None if lang is None else lang.get('language'), f.language)
        if comp in seen: return 'component %r used twice' % comp
        seen.add(comp)
        h = att.find(ns + 'heading')
        alias = ident.find(ns + 'FRBRWork/' + ns + 'FRBRalias').get('value')
        want = ''.join(h.itertext()) if h is not None else 'Untitled'
        if alias != want: return 'alias %r but heading text %r' % (alias, want)
        eid = att.get('eId')
        if not eid: return 'attachment without eId'
        for el in doc.iter():
            if el.tag == ns + 'meta' or el.getparent() is not None and any(a.tag == ns + 'meta' for a in el.iterancestors()): continue
            e = el.get('eId')
            if e is not None and not e.startswith(eid + '__'): return 'eId %r does not live under %r' % (e, eid)
        inner = doc.find(ns + 'attachments')
        c2 = {}
        if inner is not None:
            for a in inner.findall(ns + 'attachment'):
                r = walk(a, comp, c2)
                if r: return r
        return None
    # the keyword of each attachment comes from the text, not from the document under test: when every attachment line of the text became
    # an attachment, the k-th attachment in document order carries the k-th keyword
    kws = [m.group(1).lower() for m in re.finditer(r'^ *(ATTACHMENT|APPENDIX|SCHEDULE|ANNEXURE)(?=[ .{]|$)', text, re.M)]
    docs = [a.find(ns + 'doc') for a in xml.iter(ns + 'attachment')]
    for d in docs:
        if d is None or d.get('name') not in ('attachment', 'appendix', 'schedule', 'annexure'):
            return ('bad', 'attachment document named %r: not one of the four keywords' % (None if d is None else d.get('name')), 0)
    if len(kws) == len(docs):
        for k, (kw, d) in enumerate(zip(kws, docs)):
            if d.get('name') != kw:
                return ('bad', 'attachment %d was written %s but its document is named %r' % (k + 1, kw.upper(), d.get('name')), 0)
    n = 0
    for atts in xml.iter(ns + 'attachments'):
        if any(a.tag == ns + 'attachment' for a in atts.iterancestors()): continue
        counts = {}
        for a in atts.findall(ns + 'attachment'):
            r = walk(a, '', counts)
            if r: return ('bad', r, 0)
    n = len(seen)
    # attachment eIds: att_<k> in document order among siblings
    return ('ok', None, n)

def _ns_oracle(args):
    """the same text converted by a generator built for another Akoma Ntoso namespace (XmlGenerator(uri, prefix, maker=get_maker('2.0'))):
    components, their work URIs, names and title aliases are the same document with the other namespace URI"""
    uri, root, prefix, text = args[:4]
    from lxml import etree
    from bluebell.xml import XmlGenerator
    from bluebell.parser import AkomaNtosoParser
    from cobalt import FrbrUri
    from cobalt.akn import get_maker, AKN_NAMESPACES
    import re
    try:
        a = AkomaNtosoParser(FrbrUri.parse(uri), prefix).parse_to_xml(text, root)
        p2 = AkomaNtosoParser(FrbrUri.parse(uri), prefix)
        p2.generator = XmlGenerator(FrbrUri.parse(uri), prefix, maker=get_maker('2.0'))
        b = p2.parse_to_xml(text, root)
    except Exception as e:
        return ('raised', impl.exc_kind(e))
    dm = lambda t: re.sub(r'date="\d{4}-\d{2}-\d{2}"', 'date="D"', t)
    sa = dm(etree.tostring(a, encoding='unicode'))
    sb = dm(etree.tostring(b, encoding='unicode')).replace(AKN_NAMESPACES['2.0'], AKN_NAMESPACES['3.0'])
    if sa != sb:
        i = next((i for i in range(min(len(sa), len(sb))) if sa[i] != sb[i]), min(len(sa), len(sb)))
        return ('bad', 'with the AKN 2.0 maker the document differs beyond its namespace: 3.0 ...%s | 2.0 ...%s' % (sa[max(0, i - 80):i + 100], sb[max(0, i - 80):i + 100]))
    return ('ok', None)

def correspondence(ctx):
    cs = []
    for _ in range(ctx.n(500, 30000)):
        root = ctx.rng.choice(gen.ROOTS7)
        cs.append((ctx.rng.choice(stages.URIS), root, ctx.rng.choice(stages.PREFIXES), att_text(ctx.rng, root)))
    stages.stage_e2e(ctx, cs)
    ctx._docs = cs

def search(ctx, budget):
    cs = list(getattr(ctx, '_docs', []))
    for _ in range(ctx.n(500, 30000) * (budget - 1)):
        root = ctx.rng.choice(gen.ROOTS7)
        cs.append((ctx.rng.choice(stages.URIS), root, '', att_text(ctx.rng, root)))
    # FRBR URIs in other shapes: without the akn prefix (older collections), with locality / subtype / actor / language and date, capitals
    for i, c in enumerate(list(cs[::6])):
        cs.append((OTHER_URIS[i % len(OTHER_URIS)],) + tuple(c[1:4]))
    # a third of the documents again, on a parser object that has just failed inside an attachment
    cs += [c[:4] + ([ctx.rng.choice(FAILING) for _ in range(ctx.rng.randint(1, 2))],) for c in cs[::3]]
    res = impl.pmap(_oracle, cs, chunk=8)
    for c, r in zip(cs, res):
        ctx.evaluations += 1; ctx.count('oracle_' + r[0] + ('_after_failed_conversion' if len(c) > 4 else ''))
        if r[0] == 'bad':
            ctx.failures.append((dict({'stage': 'e2e', 'uri': c[0], 'root': c[1], 'prefix': c[2], 'text': c[3]}, **({'history': c[4]} if len(c) > 4 else {})), r[1]))
        elif r[0] == 'ok' and r[2] >= 2:
            ctx.nontrivial((c[0], c[1], c[3]))
    nj = [c[:4] for c in cs if len(c) == 4][::4]
    for c, r in zip(nj, impl.pmap(_ns_oracle, nj, chunk=8)):
        ctx.evaluations += 1; ctx.count('other_namespace_' + r[0])
        if r[0] == 'bad':
            ctx.failures.append(({'stage': 'namespace', 'uri': c[0], 'root': c[1], 'prefix': c[2], 'text': c[3]}, r[1]))
    ctx.sample({'uri': cs[0][0], 'root': cs[0][1], 'text': cs[0][3]})

def probe_disagreement(ctx, stage, case):
    if stage == 'e2e':
        r = _oracle((case['uri'], case['root'], case['prefix'], case['text']))
        if r[0] == 'bad': ctx.failures.append((dict(case, stage='e2e'), r[1]))

CLASSIFIERS = {}

def replay(obj):
    case = obj.get('case') or (obj.get('disagreements') or [{}])[0].get('case')
    if not case:
        print('nothing to replay:', obj.get('broken_obligations')); return 1
    if case.get('stage') == 'namespace':
        r = _ns_oracle((case['uri'], case['root'], case['prefix'], case['text'])); print(r); return 1 if r[0] == 'bad' else 0
    ok = stages.replay_stage(case)
    r = _oracle((case['uri'], case['root'], case['prefix'], case['text']) + ((case['history'],) if case.get('history') else ())); print('oracle:', r)
    return 1 if (r[0] == 'bad' or ok is False) else 0

LEVEL_TEXT = ('Proof over the Gallina model of the generator: for every state, an attachment\'s component is <parent component>/<keyword>_<n> with n '
              'one more than the number of earlier attachments under the same parent with the same keyword, the stack of enclosing attachments and '
              'all other counters untouched (C15_attachment_name_spec); in every tree the eId generator returns, every id below an identified element - an attachment in particular - is that element\'s id followed by "__...", at every depth (C15_ids_live_under_their_container). URIs, title alias and eId scoping are the executable pipeline model '
              '(item_to_xml + tabulated cobalt meta + set_attachment_titles + eId rewrite), tied to the code by the e2e stage on attachment '
              'forests x 7 roots x 5 FRBR URIs, and checked on the implementation by the attachment oracle. Partial: document-wide uniqueness '
              'of components and the URI/alias clauses are not separate theorems.')
LEVEL_NOTE = 'Trusted: Coq kernel; hand models tied by sampling; cobalt represented by tabulated templates; translators; extraction+driver. The clean-counter premise is C16\'s business.'
TECHNIQUE = 'Rocq proof (counter specification) + differential run of the extracted pipeline model + attachment oracle'
