"""C04 - Documented markup yields the documented element tree."""
import random
from harness import core, impl, model, gen, xmlsx, stages, absdoc, eidlib
from harness.absdoc import E

TRANSLATORS = ['parser', 'grammar', 'types', 'xml', 'libs', 'xsl', 'readme']
LEVEL = 'proof'
ROOTS = ['act', 'bill', 'doc', 'statement', 'debateReport', 'judgment', 'debate']
RULE = ('Specification oracle: tools/harness/absdoc.py generates abstract documents over the documented vocabulary (34 hierarchical keywords incl. 7 '
        'synonyms, containers, 6 judgment parts, 20 speech containers, SPEECH/QUESTION/ANSWER, 4 attachment keywords, ITEMS/BLOCKLIST/BULLETS/TABLE/'
        'BLOCKS/QUOTE/P/LONGTITLE/CROSSHEADING/SUBHEADING/FOOTNOTE, all inline forms, .class{attr} syntax) and renders each both to text (independent '
        'printer) and to the prescribed element tree (independent builder, written from README.md and the AKN schema, without bluebell\'s tables); the '
        'implementation\'s parse_to_xml must equal the prescribed tree (meta, eId and the derived by attribute ignored), for seven root types. Plus '
        'every keyword and inline form on its own, exhaustively. The same texts go through the e2e and dict stages (implementation == extracted model). '
        'non-trivial = document with >= 3 distinct element kinds below the root; distinct by (seed, root).')
TRUSTED_BASE = [
    'Coq 8.16.1 kernel; vm_compute for the table theorems; no axioms',
    'translators gen_tables_readme.py (README code fences and synonym table), gen_grammar.py, gen_tables_types.py, gen_tables_xsl.py',
    'tools/harness/absdoc.py is the specification of "the documented element tree" (hand-written from README.md and the schema)',
    'hand models of types.py/xml.py tied to the code by the e2e and dict stages; extraction + driver',
]
ASSUMPTIONS = ['the whole-document statement is decided by sampling abstract documents, not proved; the theorems cover the keyword/synonym tables, '
               'keyword order, the element a keyword becomes (every parse tree), the intro/content/hcontainer/wrapUp grouping (every dict node) and, end to end, '
               'the hierarchical element with num, heading and one plain line (premises: num without blank/backslash and not starting with a dash; heading and line plain text '
               'without backslash or doubled marker, not blank at their ends; the line starts with none of the block keywords)',
               'README.md documents no debate vocabulary beyond naming the document types; the debate part of the specification follows the grammar comments and the AKN schema',
               'the derived by attribute of speech groups is not prescribed by any documentation and is ignored']


def keyword_docs():
    """every keyword / inline form on its own: (root, text, expected root element)"""
    out = []
    def doc(root, *kids): return E(root, {'name': root}, *kids)
    def hc(*k): return E('hcontainer', {'name': 'hcontainer'}, E('content', None, *k))
    for kw, el in sorted(absdoc.HIER.items()):
        for num, heading in (('1', 'Head'), ('(a)', None), (None, 'Only head'), (None, None)):
            line = kw + (' ' + num if num else '') + (' - ' + heading if heading else '')
            pre = ([E('num', None, num)] if num else []) + ([E('heading', None, heading)] if heading else [])
            out.append(('act', line + '\n  SUBHEADING sub\n  text\n',
                        doc('act', E('body', None, E(el, None, *(pre + [E('subheading', None, 'sub'), E('content', None, E('p', None, 'text'))]))))))
    for kw, el in sorted(absdoc.SPEECH_CONTAINERS.items()):
        at = {'name': 'debateSection'} if el == 'debateSection' else None
        out.append(('debate', kw + ' 1 - Head\n  text\n', doc('debate', E('debateBody', None, E(el, at, E('num', None, '1'), E('heading', None, 'Head'), E('p', None, 'text'))))))
    # ... and without content: the bare keyword, with num and heading, with only a subheading - the element and nothing added to it
    for kw, el in sorted(absdoc.SPEECH_CONTAINERS.items()):
        at = {'name': 'debateSection'} if el == 'debateSection' else None
        out.append(('debate', kw + '\n', doc('debate', E('debateBody', None, E(el, at)))))
        out.append(('debate', kw + ' 1 - Head\n', doc('debate', E('debateBody', None, E(el, at, E('num', None, '1'), E('heading', None, 'Head'))))))
        out.append(('debate', kw + ' 2\n  SUBHEADING sub\n' + kw + '\n  text\n',
                    doc('debate', E('debateBody', None, E(el, at, E('num', None, '2'), E('subheading', None, 'sub')), E(el, at, E('p', None, 'text'))))))
    for kw, el in sorted(absdoc.HIER.items()):
        out.append(('act', kw + ' 1 - Head\n' + kw + ' 2\n  SUBHEADING sub\n',
                    doc('act', E('body', None, E(el, None, E('num', None, '1'), E('heading', None, 'Head')), E(el, None, E('num', None, '2'), E('subheading', None, 'sub'))))))
    for kw, el in sorted(absdoc.SPEECH_GROUPS.items()):
        out.append(('debate', 'DEBATESECTION\n  ' + kw + ' 2\n    FROM the speaker\n    text\n',
                    doc('debate', E('debateBody', None, E('debateSection', {'name': 'debateSection'},
                                                           E(el, {'by': '?'}, E('num', None, '2'), E('from', None, 'the speaker'), E('p', None, 'text')))))))
    for kw, el in sorted(absdoc.ATTACH.items()):
        out.append(('act', 'x\n' + kw + ' Head\n  SUBHEADING sub\n  y\n',
                    doc('act', E('body', None, hc(E('p', None, 'x'))),
                        E('attachments', None, E('attachment', None, E('heading', None, 'Head'), E('subheading', None, 'sub'),
                                                 E('doc', {'name': el}, E('mainBody', None, E('p', None, 'y'))))))))
    for part in absdoc.JUDGMENT_PARTS:
        out.append(('judgment', part + '\n  text\n', doc('judgment', E('header'), E('judgmentBody', None, E(part.lower(), None, E('p', None, 'text'))))))
    for kw, (tag, defaults) in sorted(absdoc.STD_INLINE.items()):
        out.append(('doc', 'a {{' + kw + ' b}} c\n', doc('doc', E('mainBody', None, E('p', None, 'a ', E(tag, defaults, 'b'), ' c')))))
    for t, x in [('**b**', E('b', None, 'b')), ('//i//', E('i', None, 'i')), ('__u__', E('u', None, 'u')), ('{{^s}}', E('sup', None, 's')),
                 ('{{_s}}', E('sub', None, 's')), ('{{>http://a.b c}}', E('ref', {'href': 'http://a.b'}, 'c')),
                 ('{{*r}}', E('remark', {'status': 'editorial'}, 'r')), ('{{IMG a.png alt text}}', E('img', {'src': 'a.png', 'alt': 'alt text'}))]:
        out.append(('doc', 'a ' + t + ' c\n', doc('doc', E('mainBody', None, E('p', None, 'a ', x, ' c')))))
    return out


def compare(root, text, exp):
    try:
        x = impl.parser().parse_to_xml(text, root)
    except Exception as e:
        return ('bad', 'conversion raised %s' % impl.exc_kind(e))
    a, b = absdoc.strip_for_compare(x[0], exp), absdoc.strip_for_compare(exp)
    if a != b:
        i = next((i for i in range(min(len(a), len(b))) if a[i] != b[i]), min(len(a), len(b)))
        return ('bad', 'tree differs from the prescribed one: got ...%s | prescribed ...%s' % (a[max(0, i - 80):i + 60], b[max(0, i - 80):i + 60]))
    return ('ok', len({e.tag for e in exp.iter()}))


def make(seed, root, depth):
    rng = random.Random(seed)
    return absdoc.Gen(rng, footnotes=True, attrs=True, max_depth=depth).document(root)


def _oracle(args):
    seed, root, depth = args
    d = make(seed, root, depth)
    if d is None:
        return ('skip', None, None)
    r = compare(root, d[0], d[1])
    return (r[0], r[1], d[0])


def _kw_oracle(i):
    root, text, exp = keyword_docs()[i]
    r = compare(root, text, exp)
    return (r[0], r[1], text)


def jobs(ctx, n):
    return [(ctx.rng.randrange(1 << 30), ctx.rng.choice(ROOTS), ctx.rng.choice([3, 4, 4, 5])) for _ in range(n)]


def correspondence(ctx):
    js = jobs(ctx, ctx.n(500, 20000))
    ctx._jobs = js
    cs = []
    for seed, root, depth in js:
        d = make(seed, root, depth)
        if d is not None:
            cs.append((stages.URIS[0], root, '', d[0]))
    cs += [(stages.URIS[0], root, '', text) for root, text, _ in keyword_docs()]
    stages.stage_e2e(ctx, cs)
    p = impl.parser()
    stages.stage_dict(ctx, [(c[1], p.pre_parse(c[3])) for c in cs[:ctx.n(200, 6000)]])


def search(ctx, budget):
    js = list(getattr(ctx, '_jobs', [])) + (jobs(ctx, ctx.n(500, 20000) * (budget - 1)) if budget > 1 else [])
    for j, r in zip(js, impl.pmap(_oracle, js, chunk=8)):
        ctx.evaluations += 1; ctx.count('docs_' + r[0]); ctx.count('root_' + j[1])
        if r[0] == 'bad':
            ctx.failures.append(({'stage': 'spec', 'seed': j[0], 'root': j[1], 'depth': j[2], 'text': r[2]}, r[1]))
        elif r[0] == 'ok' and r[1] >= 4:
            ctx.nontrivial(j[:2])
    aj = [(root, d, tag, att, v) for d, tag, att in ATTR_DOCS for v in ATTR_VALUES for root in (['act', 'doc'] if v == ATTR_VALUES[0] else ['act'])]
    for j, r in zip(aj, impl.pmap(_attr_oracle, aj, chunk=16)):
        ctx.evaluations += 1; ctx.count('attribute_value_docs_' + r[0])
        if r[0] == 'bad':
            ctx.failures.append(({'stage': 'attr-value', 'args': list(j), 'text': j[1] % j[4]}, r[1]))
    kd = keyword_docs()
    for i, r in enumerate(impl.pmap(_kw_oracle, list(range(len(kd))), chunk=8)):
        ctx.evaluations += 1; ctx.count('keyword_docs_' + r[0])
        if r[0] == 'bad':
            ctx.failures.append(({'stage': 'keyword', 'index': i, 'root': kd[i][0], 'text': kd[i][1]}, r[1]))
    hj = hier_element_cases(ctx, ctx.n(170, 5000) * budget)
    for j, r in zip(hj, impl.pmap(_he_oracle, hj, chunk=16)):
        ctx.evaluations += 1; ctx.count('hier_element_theorem_' + r[0])
        if r[0] == 'bad':
            ctx.failures.append(({'stage': 'hier-element', 'args': list(j), 'text': r[2]}, r[1]))
    xj = [(ctx.rng.choice(stages.URIS), ctx.rng.choice(stages.PREFIXES), ' '.join(ctx.rng.choice(HE_WORDS[:-2] + ['SEC', 'PART 1 - x', 'BODY']) for _ in range(ctx.rng.randint(1, 5)))) for _ in range(ctx.n(80, 2000) * budget)]
    for j, r in zip(xj, impl.pmap(_ch_oracle, xj, chunk=16)):
        ctx.evaluations += 1; ctx.count('crossheading_theorem_' + r[0])
        if r[0] == 'bad':
            ctx.failures.append(({'stage': 'crossheading', 'args': list(j), 'text': r[2]}, r[1]))
    cj = chain_cases(ctx, ctx.n(120, 4000) * budget)
    for j, r in zip(cj, impl.pmap(_chain_oracle, cj, chunk=16)):
        ctx.evaluations += 1; ctx.count('hier_chain_theorem_' + r[0])
        if r[0] == 'bad':
            ctx.failures.append(({'stage': 'hier-chain', 'args': [j[0], j[1], [list(l) for l in j[2]], j[3], j[4]], 'text': r[2]}, r[1]))
    d = make(*js[0])
    ctx.sample({'seed': js[0][0], 'root': js[0][1], 'text': (d[0] if d else '')[:600]})


# ---- the value of an attribute written in the text is the value on the element: README's `{name value}` promises the value as written,
# edges trimmed - blanks of any kind INSIDE the value (a non-breaking space in a title, two spaces, a thin space) are part of it ----
ATTR_DOCS = [("x {{abbr{title %s} SA}} y\n", 'abbr', 'title'), ("x {{term{refersTo #x|title %s} t}} y\n", 'term', 'title'), ("P{title %s} text\n", 'p', 'title'),
             ("QUOTE{startQuote %s}\n  quoted\n", 'embeddedStructure', 'startQuote'), ("TABLE\n  TR\n    TC{title %s|colspan 2}\n      cell\n", 'td', 'title'),
             ("SEC{title %s} 1. - H\n  x\n", 'section', 'title'), ("x {{inline{title %s} x}}\n", 'inline', 'title'), ("BLOCKS{title %s}\n  x\n", 'blockContainer', 'title'),
             ("ITEMS{title %s}\n  ITEM (a)\n    x\n", 'blockList', 'title'), ("CROSSHEADING{title %s} ch\n", 'crossHeading', 'title')]
ATTR_VALUES = ['Soci\u00e9t\u00e9\u00a0Anonyme', 'two  spaces', 'a\u2003b c', '\u00ab\u00a0x', 'x\u202fy', 'a   b   c', 'one', 'a - b', 'x.y/z', '1\u00a0000', '\u00a7\u00a012']
def _attr_oracle(args):
    root, d, tag, att, v = args
    from bluebell.parser import AkomaNtosoParser
    from cobalt import FrbrUri
    try:
        x = AkomaNtosoParser(FrbrUri.parse(stages.URIS[0]), '').parse_to_xml(d % v, root)
    except Exception as e:
        return ('bad', 'conversion raised %s' % impl.exc_kind(e))
    els = list(x.iter('{*}' + tag))
    got = els[0].get(att) if els else None
    if got != v:
        return ('bad', 'attribute %s written as %r comes out as %r on <%s>' % (att, v, got, tag))
    return ('ok', None)

# ---- instances of C04_hier_element_converts, run on the implementation ----
HE_NUMS = ['1', '1.', '(a)', '3A', '12bis', 'IV.', '1.2.3', '(iii)', 'A-1', '10/2', '²', 'é1', '1:2', '[b]', '7*', '1,5', '99.', 'ix)']
HE_WORDS = ['the', 'Minister', 'may', 'delegate', '*', '/', '_', '{x}', '2/3', '50%', 'a-b', '(a)', 'été', 'אב', "it's", 'of_them', 'x.', 'section', 'part', '}', '{', 'P1', 'Powers', '-', '1.']
def hier_element_cases(ctx, n):
    out = [(stages.URIS[0], 'chp_2', 'SUBSEC', '(3A)', 'Powers * of the {Minister}', 'may / delegate 50% of_them', 3)]
    kws = sorted(absdoc.HIER)
    for i in range(n):
        kw = kws[i % len(kws)]
        h = ' '.join(ctx.rng.choice(HE_WORDS) for _ in range(ctx.rng.randint(1, 5)))
        t = ' '.join(ctx.rng.choice(HE_WORDS[:-3] + ['words', 'follow']) for _ in range(ctx.rng.randint(1, 7)))
        if h.startswith('-') or t[0].isupper() and t.split(' ')[0] in ('P', 'P1'):
            h = 'a ' + h
        # (the last component: blank lines between the keyword line and its content - C04_hier_element_converts_blank_lines)
        out.append((ctx.rng.choice(stages.URIS), ctx.rng.choice(stages.PREFIXES), kw, ctx.rng.choice(HE_NUMS), h if i % 3 else None, t, ctx.rng.randint(1, 6), ctx.rng.choice([0, 0, 1, 1, 2, 5])))
    return out

def _he_oracle(args):
    uri, prefix, kw, n, h, t, k = args[:7]
    b = args[7] if len(args) > 7 else 0
    # (h None: the element without a heading, C04_hier_element_without_heading_converts)
    text = ('%s %s - %s\n%s%s%s\n' % (kw, n, h, '\n' * b, ' ' * k, t)) if h is not None else ('%s %s\n%s%s%s\n' % (kw, n, '\n' * b, ' ' * k, t))
    tag = absdoc.HIER[kw]
    G = eidlib.tables()
    cand = (prefix + '__' if prefix else '') + G.aliases.get(tag, tag) + '_' + eidlib.clean_num_ref(n)
    want = ['E', tag, [['eId', cand]], [['E', 'num', [], [['T', n]]]] + ([['E', 'heading', [], [['T', h]]]] if h is not None else []) +
                                       [['E', 'content', [], [['E', 'p', [['eId', cand + '__p_1']], [['T', t]]]]]]]
    got = impl.e2e_sx((uri, 'hier_element', prefix, text))
    if got != want:
        return ('bad', 'C04_hier_element_converts predicts %r, the implementation gives %r' % (want, got), text)
    return ('ok', None, text)

# ---- instances of C04_crossheading_converts ----
def _ch_oracle(args):
    uri, prefix, h = args
    text = 'CROSSHEADING %s\n' % h
    want = ['E', 'crossHeading', [['eId', (prefix + '__' if prefix else '') + 'crossHeading_1']], [['T', h]]]
    got = impl.e2e_sx((uri, 'hier_element', prefix, text))
    if got != want:
        return ('bad', 'C04_crossheading_converts predicts %r, the implementation gives %r' % (want, got), text)
    return ('ok', None, text)

# ---- instances of C04_hier_chain_yields_nested_nodes: nests of any depth, through the whole implementation ----
def chain_cases(ctx, n):
    kws = sorted(absdoc.HIER)
    out = []
    for i in range(n):
        depth = ctx.rng.choice([2, 2, 3, 3, 4, 5, 8, 12, 20])
        levels, w = [], 0
        for d in range(depth):
            levels.append((w, ctx.rng.choice(kws), ctx.rng.choice(HE_NUMS), ' '.join(ctx.rng.choice(HE_WORDS[:-2]) for _ in range(ctx.rng.randint(1, 3)))))
            w += ctx.rng.choice([1, 2, 2, 3, 5])
        t = ' '.join(ctx.rng.choice(HE_WORDS[:-3] + ['words', 'follow']) for _ in range(ctx.rng.randint(1, 5)))
        out.append((ctx.rng.choice(stages.URIS), ctx.rng.choice(stages.PREFIXES), levels, w, t))
    return out

def _chain_oracle(args):
    uri, prefix, levels, w, t = args
    G = eidlib.tables()
    text = ''.join('%s%s %s - %s\n' % (' ' * k, kw, n, h) for k, kw, n, h in levels) + ' ' * w + t + '\n'
    def build(i, pfx):
        if i == len(levels):
            return ['E', 'content', [], [['E', 'p', [['eId', pfx + '__p_1']], [['T', t]]]]]
        k, kw, n, h = levels[i]
        tag = absdoc.HIER[kw]
        cand = (pfx + '__' if pfx else '') + G.aliases.get(tag, tag) + '_' + eidlib.clean_num_ref(n)
        return ['E', tag, [['eId', cand]], [['E', 'num', [], [['T', n]]], ['E', 'heading', [], [['T', h]]], build(i + 1, cand)]]
    want = build(0, prefix)
    got = impl.e2e_sx((uri, 'hier_element', prefix, text))
    if got != want:
        return ('bad', 'a nest of %d hierarchical elements: C04_hier_chain_yields_nested_nodes and the eId convention predict %r, the implementation gives %r' % (len(levels), want, got), text)
    return ('ok', None, text)

def probe_disagreement(ctx, stage, case):
    pass

CLASSIFIERS = {}

def replay(obj):
    case = obj.get('case') or (obj.get('disagreements') or [{}])[0].get('case')
    if not case:
        print('nothing to replay:', obj.get('broken_obligations')); return 1
    if case.get('stage') == 'spec':
        r = _oracle((case['seed'], case['root'], case['depth'])); print(r[:2]); return 1 if r[0] == 'bad' else 0
    if case.get('stage') == 'keyword':
        r = _kw_oracle(case['index']); print(r[:2]); return 1 if r[0] == 'bad' else 0
    if case.get('stage') == 'hier-chain':
        a = case['args']; r = _chain_oracle((a[0], a[1], [tuple(l) for l in a[2]], a[3], a[4])); print(r[:2]); return 1 if r[0] == 'bad' else 0
    if case.get('stage') == 'attr-value':
        r = _attr_oracle(tuple(case['args'])); print(r); return 1 if r[0] == 'bad' else 0
    if case.get('stage') == 'crossheading':
        r = _ch_oracle(tuple(case['args'])); print(r[:2]); return 1 if r[0] == 'bad' else 0
    if case.get('stage') == 'hier-element':
        r = _he_oracle(tuple(case['args'])); print(r[:2]); return 1 if r[0] == 'bad' else 0
    return 0 if stages.replay_stage(case) else 1

LEVEL_TEXT = ('Partial. Proved, on the tables regenerated from README.md, akn.peg, types.py and akn_text.xsl: every keyword, synonym, attachment keyword and '
              'inline opener README documents is in the grammar and the synonym table maps each documented synonym to its documented long form; no keyword '
              'alternative shadows a longer one; for every parse tree the element a hierarchical or speech keyword becomes is the synonym table\'s answer '
              '(C04_hier_keyword_element, C04_speech_keyword_element); for every dict node of a hierarchical element the XML is name+attributes, '
              'num/heading/subheading, then the children converted in one ordered pass and grouped as content or intro/hcontainer/wrapUp exactly as '
              'wrap_spec says (C04_hier_item_shape, C04_wrappers_lose_nothing). Text to tree is a theorem for the basic hierarchical element: for each of the 34 keywords, every num '
              'without blank or backslash, every heading and content line of plain or escaped characters, in any context, rule hier_element of the regenerated grammar and to_dict '
              'give the hier node with the keyword\'s element, that num, that heading and one paragraph (C04_hier_element_yields_hier_node); and through the WHOLE pipeline model - '
              'pre_parse, grammar, to_dict, XML builder, post-processing, eIds - `KEYWORD num - heading` + an indented plain line converts, for every known URI and every prefix, to '
              '<tag eId=prefix__abbr_num><num/><heading/><content><p eId=...__p_1/></content></tag> (C04_hier_element_converts; with any number of blank lines between the keyword line and its content: C04_hier_element_converts_blank_lines; the same for the element WITHOUT a heading, `KEYWORD num` + indented line - the commonest form: C04_hier_element_without_heading_converts; a crossheading line: C04_crossheading_converts; instances of all four run on the implementation on every run); and indentation nesting becomes element nesting to ANY depth: a chain of hierarchical elements nested in one another around a plain line is read by hier_element as one nest and to_dict gives the hier nodes nested in the same way, by induction over the depth (C04_hier_chain_yields_nested_nodes), and through the WHOLE pipeline model such a nest - any depth, any indentation widths, every known URI and prefix - converts to the elements nested in the same way with every eId the parent\'s eId + __abbr_num (C04_hier_chain_converts; nests of up to 20 levels run through the whole implementation on every run). '
              'For all other shapes the whole-document statement (text -> prescribed tree) is decided by the '
              'independent specification generator absdoc.py on sampled abstract documents x seven roots, plus every keyword exhaustively, on the '
              'implementation; the model is tied to the code on the same documents by the e2e and dict stages.')
LEVEL_NOTE = 'Trusted: Coq kernel (vm_compute table checks); translators; absdoc.py as the specification; hand models tied by sampling; extraction+driver.'
TECHNIQUE = 'Rocq proof (table theorems, keyword->element for every parse tree, grouping refinement to a pure wrapper) + independent specification oracle on sampled abstract documents'
