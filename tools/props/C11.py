"""C11 - Pre-parsing yields a normal form and keeps every line."""
import itertools
from harness import core, impl, model, gen

TRANSLATORS = ['parser']
LEVEL = 'proof'
RULE = ('pre stage: pre_parse(text) for indent sizes 1..4, implementation vs extracted Gallina model; inputs = all '
        'indentation sequences up to a bound (exhaustive), layout fuzz (spaces/tabs/blank lines/trailing spaces), '
        'test fixtures; a case is non-trivial if its output contains at least one marker line; distinct by (size, text).')
TRUSTED_BASE = [
    'Coq 8.16.1 kernel (vm_compute used in table lemmas); no axioms (Print Assumptions: closed)',
    'tools/gen_tables_parser.py (reflection on bluebell.parser + tabulation of its regexes over all code points)',
    'hand model coq/Model/PreParse.v tied to parser.py by the pre stage (sampled + exhaustive small space)',
    'extraction ExtrOcamlBasic only; ocaml/driver.ml; Python oracle nf_oracle',
    'float comparison n/indent_size modelled by comparing numerators (exact below 2^53)',
]
ASSUMPTIONS = ['input alphabet of the theorem: no U+000E/U+000F; Python-whitespace characters limited to space, tab, newline']

IND, DED = '\x0e', '\x0f'

def nf_oracle(size, text, out, structural_only=False):
    """The property, evaluated independently on the implementation's output. Returns None or a description.
    structural_only: for texts with blanks other than space / tab / newline (a non-breaking space pasted from a word processor), where
    "trimmed" is not defined by the property: everything about markers, tabs and U+0020 at line ends is still checked, the comparison of
    the lines with the input's is not"""
    if not isinstance(out, str):
        return 'pre_parse raised %r' % (out,)
    if structural_only:
        if out == '': return None
        if not out.endswith('\n'): return 'no final newline'
        lines = out[:-1].split('\n')
        if lines[0] == '': return 'blank first line'
        depth, prev_ind = 0, False
        for l in lines:
            if '\t' in l: return 'tab in output'
            if l.startswith(' ') or l.endswith(' '): return 'leading/trailing space on a line'
            if (IND in l or DED in l) and l not in (IND, DED): return 'marker not alone on its line'
            if l == IND: depth += 1; prev_ind = True
            elif l == DED:
                if prev_ind: return 'empty block opened'
                depth -= 1; prev_ind = False
                if depth < 0: return 'closes more blocks than are open'
            else: prev_ind = False
        if prev_ind: return 'empty block opened at end'
        if depth != 0: return 'unbalanced markers'
        return None
    exp = text.replace('\t', ' ' * size)
    in_lines = [l.strip(' ') for l in exp.split('\n')]
    while in_lines and in_lines[0] == '':
        in_lines.pop(0)
    while in_lines and in_lines[-1] == '':
        in_lines.pop()
    if out == '':
        return None if not in_lines else 'empty output for non-blank input'
    if not in_lines:
        return 'non-empty output for blank input'
    if not out.endswith('\n'):
        return 'no final newline'
    lines = out[:-1].split('\n')
    if lines[0] == '':
        return 'blank first line'
    depth, prev_ind = 0, False
    content = []
    for l in lines:
        if '\t' in l: return 'tab in output'
        if l.startswith(' ') or l.endswith(' '): return 'leading/trailing space on a line'
        if (IND in l or DED in l) and l not in (IND, DED): return 'marker not alone on its line'
        if l == IND:
            depth += 1; prev_ind = True
        elif l == DED:
            if prev_ind: return 'empty block opened'
            depth -= 1; prev_ind = False
            if depth < 0: return 'closes more blocks than are open'
        else:
            prev_ind = False
            content.append(l)
    if prev_ind: return 'empty block opened at end'
    if depth != 0: return 'unbalanced markers'
    if content != in_lines:
        return 'lines not kept'
    return None

def in_alphabet(text):
    return all(c not in '\x0e\x0f' and (not c.isspace() or c in ' \t\n') for c in text)

def cases(ctx, budget):
    out = []
    # exhaustive small space: indentation sequences, sizes 1..4
    ml = ctx.n(4, 6) ; widths = list(range(0, ctx.n(5, 7)))
    if budget > 1: ml += 1
    for seq in gen.indentation_sequences(ml, widths):
        t = gen.render_indented(seq)
        for size in ((1, 2, 3) if ctx.quick else (1, 2, 3, 4)):
            out.append((size, t))
    ctx.stats['exhaustive_space'] = 'all indentation sequences of <=%d lines over widths %s, sizes 1..%d' % (ml, widths, 3 if ctx.quick else 4)
    ctx.stats['exhaustive_cases'] = len(out)
    # blank lines / tabs inside short sequences
    for seq in itertools.product([None, 0, 1, 2, 4], repeat=4):
        out.append((2, gen.render_indented(seq)))
        out.append((2, gen.render_indented(seq, unit='\t')))
    for t in gen.fixture_texts():
        for size in (1, 2, 3, 4):
            out.append((size, t))
    # depth: staircases far deeper than any document (a threshold in the indent stack shows only here), down in one step, in
    # several, and saw-teeth at depth
    for depth in (12, 33, 51, 64, 130, 300):
        for unit in (1, 2, 4):
            up = [' ' * (unit * i) + 'x%d' % i for i in range(depth)]
            for tail in (['end'], [' ' * (unit * (depth // 2)) + 'mid', 'end'], [' ' * (unit * (depth - 2)) + 'a', ' ' * (unit * (depth - 1)) + 'b', 'end'],
                         [' ' * (unit * i) + 'd%d' % i for i in range(depth - 2, -1, -3)]):
                for size in (1, 2, 4):
                    out.append((size, '\n'.join(up + tail) + '\n'))
    for i in range(ctx.n(3000, 100000) * budget):
        out.append((ctx.rng.choice([1, 2, 2, 3, 4]), gen.random_layout_text(ctx.rng, 10)))
    # lines whose first (or last) character after the indentation is a blank that is not a space - a non-breaking space before a
    # number pasted from a word processor: it is line content; the structural half of the property is checked on these
    for i in range(ctx.n(600, 20000) * budget):
        ls = []
        for l in gen.random_layout_text(ctx.rng, 8).split('\n'):
            n = len(l) - len(l.lstrip(' \t'))
            r = ctx.rng.random()
            if l.strip() and r < 0.3: l = l[:n] + ctx.rng.choice('\xa0\u3000\u2003\u2009\u202f') + l[n:]
            elif l.strip() and r < 0.4: l = l + ctx.rng.choice('\xa0\u3000') + ctx.rng.choice(['', ' ', '  '])
            ls.append(l)
        out.append((ctx.rng.choice([1, 2, 2, 3, 4]), '\n'.join(ls)))
    return out

def correspondence(ctx):
    cs = cases(ctx, 1)
    ctx._cases = cs
    got_i = impl.pmap(impl.pre_parse, cs)
    got_m = model.run([['pre', s, t] for s, t in cs])
    ctx._impl = got_i
    for c, a, b in zip(cs, got_i, got_m):
        ctx.evaluations += 1
        ctx.count('pre_cases')
        if a != b:
            ctx.disagreements.append(('pre', {'size': c[0], 'text': c[1]}, a, b))
        if isinstance(a, str) and (IND in a):
            ctx.nontrivial(c)
    for c, a in list(zip(cs, got_i))[:: max(1, len(cs) // 5)][:5]:
        ctx.sample({'size': c[0], 'text': c[1], 'pre_parse': a})

def search(ctx, budget):
    if budget == 1 and getattr(ctx, '_impl', None) is not None:
        cs, got = ctx._cases, ctx._impl
    else:
        cs = cases(ctx, budget)
        got = impl.pmap(impl.pre_parse, cs)
    for (size, text), out in zip(cs, got):
        if not in_alphabet(text):
            if any(c in '\x0e\x0f' for c in text): continue
            ctx.count('oracle_cases_structural')
            bad = nf_oracle(size, text, out, structural_only=True)
            if bad:
                ctx.failures.append(({'stage': 'pre', 'size': size, 'text': text, 'observed': out, 'structural_only': True}, bad))
            continue
        ctx.count('oracle_cases')
        bad = nf_oracle(size, text, out)
        if bad:
            ctx.failures.append(({'stage': 'pre', 'size': size, 'text': text, 'observed': out}, bad))
    reuse_search(ctx, budget)

def reuse_search(ctx, budget):
    """the same text under several indent sizes on ONE parser object, as a caller who changes indent_size does: every answer must be the
    pre-parsed form for the size in force"""
    js = []
    for i in range(ctx.n(300, 10000) * budget):
        t = gen.random_layout_text(ctx.rng, 6)
        if '\t' not in t:
            ls = t.split('\n'); k = ctx.rng.randrange(len(ls)); ls[k] = ls[k] + '\tx' if ls[k].strip() else '\ty'; t = '\n'.join(ls)
        js.append((ctx.rng.sample([1, 2, 3, 4], ctx.rng.randint(2, 3)), t))
    for (sizes, text), outs in zip(js, impl.pmap(impl.pre_parse_reused, js)):
        if not in_alphabet(text): continue
        for size, out in zip(sizes, outs):
            ctx.evaluations += 1; ctx.count('oracle_cases_reused_parser')
            bad = nf_oracle(size, text, out)
            if bad:
                ctx.failures.append(({'stage': 'pre-reused', 'sizes': sizes, 'size': size, 'text': text, 'observed': out}, bad + ' (same parser object used with indent sizes %r in turn)' % (sizes,)))
                break

def probe_disagreement(ctx, stage, case):
    out = impl.pre_parse((case['size'], case['text']))
    so = not in_alphabet(case['text'])
    if not any(c in '\x0e\x0f' for c in case['text']):
        bad = nf_oracle(case['size'], case['text'], out, structural_only=so)
        if bad:
            ctx.failures.append(({'stage': 'pre', 'size': case['size'], 'text': case['text'], 'observed': out, 'structural_only': so}, bad))

CLASSIFIERS = {}

def replay(obj):
    case = obj.get('case') or (obj.get('disagreements') or [{}])[0].get('case')
    if not case:
        print('nothing to replay:', obj.get('broken_obligations')); return 1
    if case.get('stage') == 'pre-reused':
        outs = impl.pre_parse_reused((case['sizes'], case['text']))
        bads = [nf_oracle(sz, case['text'], o) for sz, o in zip(case['sizes'], outs)]
        print('sizes', case['sizes'], 'outputs', outs, 'oracle', bads); return 1 if any(bads) else 0
    out = impl.pre_parse((case['size'], case['text']))
    m = model.run([['pre', case['size'], case['text']]])[0]
    bad = nf_oracle(case['size'], case['text'], out, structural_only=bool(case.get('structural_only')))
    print('input   :', repr(case['text']), 'size', case['size'])
    print('impl    :', repr(out)); print('model   :', repr(m)); print('oracle  :', bad or 'ok')
    return 1 if (bad or out != m) else 0

LEVEL_TEXT = ('Proof: for every indent size and every string over the property alphabet the Gallina model of pre_parse returns '
              'and its output is in normal form (balanced, never-negative markers alone on their lines, no empty block, no tabs, '
              'no leading/trailing spaces, non-blank first line, final newline; empty iff blank input), and the content lines are the '
              'lines of the tab-expanded input, each trimmed, without the blank lines at both ends, in order - nothing else dropped, added '
              'or reordered (theorems C11_pre_parse_nf, C11_keeps_lines, C11_blank_input_has_no_lines, C11_keeps_lines_partial; closed '
              'under the global context). The model is tied to parser.py by the pre stage: exhaustive over short indentation sequences '
              'and random layout fuzz for sizes 1..4, through the extracted model; the property oracle is evaluated on the implementation output.')
LEVEL_NOTE = ('Trusted: Coq kernel; gen_tables_parser.py (regex classes tabulated from the live module); the hand model PreParse.v (tie is '
              'differential, sampled beyond the exhaustive space); extraction (ExtrOcamlBasic) and driver.ml. The statement is '
              'over the property alphabet (alphabet_ok: no \\r, \\x0b, \\x0c, \\x1c-\\x1f, \\x85, U+2028/9 or other non-space whitespace); outside it the oracle decides.')
TECHNIQUE = 'Rocq proof by induction over lines with a stack invariant + differential run of the extracted model'
