"""C19 - The command-line tool prints exactly what the library returns."""
import os, subprocess, tempfile, json, io, sys, contextlib
from harness import core, impl, model, gen, xmlsx, stages

TRANSLATORS = ['parser', 'grammar', 'types', 'xml', 'libs']
LEVEL = 'proof'
RULE = ('cli stage: the real console script (/venv/bin/bluebell) as a subprocess (sample) and bluebell.cli.main() in-process (volume) on '
        'generated files x roots (incl. the debatereport alias) x {--json, --pretty, none, both}: stdout must equal the serialisation of '
        'what the library returns for the same URI, root and text (+ newline) with exit status 0; if the grammar rejects the input: '
        'non-zero exit and empty stdout. The library side is tied to the Gallina pipeline by the e2e stage. non-trivial = input that '
        'the library converts to a document with at least one structural element; distinct by (args, text).')
TRUSTED_BASE = [
    'Coq 8.16.1 kernel; no axioms (theorems are about Model/Cli.v with serialisers as section variables)',
    'lxml tostring / json.dumps are used on both sides of the oracle and are not modelled',
    'pipeline model tied by the e2e stage; extraction + driver',
]
ASSUMPTIONS = ['argument parsing, process exit status and stream handling are runtime behaviour represented only by the subprocess runs',
               'the file is read in text mode: the oracle reads it back the same way (universal newlines)']

URI = '/akn/za/act/2009/1'
# FRBR URIs as callers write them: capitals where the convention allows them (numbers, localities, subtypes, actors), language, date,
# work component, portion - the CLI must hand the URI to the library as it is
CLI_URIS = [URI, URI, URI, '/akn/za/act/gn/2020/R1234', '/akn/za-WC011/act/by-law/2020/parks', '/akn/za/judgment/ZACC/2022/15', '/akn/za/act/2009/1/eng@2010-01-01',
            '/akn/za-cpt/act/by-law/2010/public-places/afr@2021-01-01', '/akn/na/judgment/nasc/2020/5/eng@2020-03-04', '/akn/za/act/1996/Constitution',
            '/akn/za/act/2009/1/eng@2010-01-01/!schedule_1', '/akn/ZA/act/2009/1', '/akn/za/doc/policy/DOJ/2015-06-01/White-Paper', '/akn/un/statement/deliberation/unga/2011-03-09/65-251']
ROOTS = gen.ROOTS7 + ['debatereport']

def expected(uri, root, path, as_json, pretty):
    from bluebell.parser import AkomaNtosoParser
    from bluebell.akn import ParseError
    from cobalt import FrbrUri
    from lxml import etree as ET
    text = open(path, 'r').read()
    try:
        p = AkomaNtosoParser(FrbrUri.parse(uri))
        tree = p.parse(text, root)
        if as_json:
            return (0, json.dumps(tree.to_dict()) + '\n')
        return (0, ET.tostring(p.tree_to_xml(tree), pretty_print=pretty, encoding='unicode') + '\n')
    except Exception as e:
        return (1, '')

def mask(s):
    return impl._DATE.sub('date="D"', s)

def run_inproc(args):
    uri, root, text, as_json, pretty = args
    import bluebell.cli
    with tempfile.NamedTemporaryFile('wb', suffix='.txt', delete=False) as f:
        f.write(text.encode('utf-8')); path = f.name
    try:
        argv = ['bluebell', uri, root, path] + (['--json'] if as_json else []) + (['--pretty'] if pretty else [])
        out, err = io.StringIO(), io.StringIO()
        code = 0
        old = sys.argv
        sys.argv = argv
        try:
            with contextlib.redirect_stdout(out), contextlib.redirect_stderr(err):
                bluebell.cli.main()
        except SystemExit as e:
            code = e.code if isinstance(e.code, int) else 1
        except BaseException:
            code = 1
        finally:
            sys.argv = old
        want = expected(uri, root, path, as_json, pretty)
        got = (0 if code == 0 else 1, out.getvalue())
        ok = (got[0] == want[0]) and (mask(got[1]) == mask(want[1]) if want[0] == 0 else got[1] == '')
        return (ok, got[0], want[0], len(want[1]))
    finally:
        os.unlink(path)

def run_subproc(args):
    uri, root, text, as_json, pretty = args
    with tempfile.NamedTemporaryFile('wb', suffix='.txt', delete=False) as f:
        f.write(text.encode('utf-8')); path = f.name
    try:
        argv = ['/venv/bin/bluebell', uri, root, path] + (['--json'] if as_json else []) + (['--pretty'] if pretty else [])
        env = dict(os.environ, PYTHONPATH=core.REPO, PYTHONUTF8='1')
        p = subprocess.run(argv, capture_output=True, env=env, timeout=120)
        want = expected(uri, root, path, as_json, pretty)
        got = (0 if p.returncode == 0 else 1, p.stdout.decode('utf-8', 'replace'))
        ok = (got[0] == want[0]) and (mask(got[1]) == mask(want[1]) if want[0] == 0 else got[1] == '')
        return (ok, got[0], want[0], len(want[1]))
    finally:
        os.unlink(path)

def cases(ctx, n):
    out = []
    for _ in range(n):
        root = ctx.rng.choice(ROOTS)
        t = gen.any_text(ctx.rng, 'debateReport' if root == 'debatereport' else root)
        if ctx.rng.random() < 0.1: t = t.replace('\n', '\r\n')
        if ctx.rng.random() < 0.3:
            # characters that str.splitlines / universal newlines / codecs treat specially: the file's text must reach the parser as it is
            for _ in range(ctx.rng.randint(1, 3)):
                k = ctx.rng.randrange(len(t) + 1)
                t = t[:k] + ctx.rng.choice(['\u2028', '\u2029', '\x85', '\x0b', '\x0c', '\x1c', '\x1d', '\x1e', '\r', '\ufeff', '\xa0', '\u3000', '\t']) + t[k:]
        if ctx.rng.random() < 0.1: t = t.rstrip('\n')
        if ctx.rng.random() < 0.12:
            # the whole file indented by a common margin (pasted from an email or a code block), blank lines with or without it
            m = ctx.rng.choice(['  ', '    ', ' ', '\t', '   '])
            t = ''.join((m + l if (l.strip() or ctx.rng.random() < 0.5) else l) for l in t.splitlines(True))
        out.append((ctx.rng.choice(CLI_URIS), root, t, ctx.rng.random() < 0.4, ctx.rng.random() < 0.4))
    return out

def correspondence(ctx):
    stages.stage_e2e(ctx, stages.doc_cases(ctx, ctx.n(300, 5000)))

def search(ctx, budget):
    os.environ['PYTHONUTF8'] = '1'
    sub = cases(ctx, ctx.n(32, 600) * budget) + [(URI, 'debatereport', 'x\n', False, False), (URI, 'debate', 'refused\n', False, False),
                                                 (URI, 'act', 'SCHEDULES\n', True, False), (URI, 'act', 'PART 1\n  x\n', True, True)] + [(u, r, 'BODY\n  SEC 1. - Commencement\n    These regulations commence on publication.\n', False, k % 2 == 0) for k, u in enumerate(CLI_URIS[3:]) for r in ('act', 'judgment')]
    for c, r in zip(sub, impl.pmap(run_subproc, sub, chunk=2)):
        ctx.evaluations += 1; ctx.count('subprocess_runs'); ctx.count('exit_%d' % r[1])
        if not r[0]:
            ctx.failures.append(({'stage': 'cli-subprocess', 'uri': c[0], 'root': c[1], 'text': c[2], 'json': c[3], 'pretty': c[4]},
                                 'console script output/exit differs from the library (exit %d, expected %d)' % (r[1], r[2])))
        elif r[2] == 0 and r[3] > 400: ctx.nontrivial(c)
    inp = cases(ctx, ctx.n(500, 20000) * budget)
    for c, r in zip(inp, impl.pmap(run_inproc, inp, chunk=16)):
        ctx.evaluations += 1; ctx.count('inprocess_runs')
        if not r[0]:
            ctx.failures.append(({'stage': 'cli-inprocess', 'uri': c[0], 'root': c[1], 'text': c[2], 'json': c[3], 'pretty': c[4]},
                                 'cli.main() output/exit differs from the library (exit %d, expected %d)' % (r[1], r[2])))
        elif r[2] == 0 and r[3] > 400: ctx.nontrivial(c)
    ctx.sample({'argv': ['bluebell', sub[0][0], sub[0][1], '<file>'] + (['--json'] if sub[0][3] else []) + (['--pretty'] if sub[0][4] else []), 'file': sub[0][2][:300]})

def probe_disagreement(ctx, stage, case):
    pass

CLASSIFIERS = {}

def replay(obj):
    case = obj.get('case') or (obj.get('disagreements') or [{}])[0].get('case')
    if not case:
        print('nothing to replay:', obj.get('broken_obligations')); return 1
    if 'json' in case:
        r = run_subproc((case['uri'], case['root'], case['text'], case['json'], case['pretty'])); print('subprocess agrees with library:', r)
        return 0 if r[0] else 1
    return 0 if stages.replay_stage(case) else 1

LEVEL_TEXT = ('Proof of a small model of cli.main (Model/Cli.v, serialisers abstract): with --json it prints the serialised dict the library returns, '
              'otherwise the serialised (optionally pretty) document, each followed by a newline, exit 0; if the grammar rejects the input '
              'nothing is printed and the exit status is non-zero; the debatereport alias is resolved (C19_* theorems). Their value is the tie: '
              'the real console script as a subprocess and cli.main() in-process on generated files x roots x flags against the library, and '
              'the library against the Gallina pipeline (e2e stage). Partial: argument parsing, exit and stream handling are runtime behaviour.')
LEVEL_NOTE = 'Trusted: Coq kernel; Cli.v; lxml/json serialisers on both sides; extraction+driver.'
TECHNIQUE = 'Rocq proof of a small CLI model + subprocess/in-process differential run against the library'
