"""C06 - Unparsing escapes text so it can never turn into markup."""
import copy, re
from lxml import etree
from harness import core, impl, model, gen, xmlsx, stages, eidlib, absdoc

TRANSLATORS = ['parser', 'grammar', 'types', 'xml', 'libs', 'xsl']
LEVEL = 'proof'
ROOTS = ['act', 'bill', 'doc', 'statement', 'debateReport', 'judgment', 'debate']
RULE = ('unp stage: unparse() of the implementation against Model/UnparseDoc.v on poisoned documents, random AKN-shaped trees outside the parser\'s image, slot/footnote/attribute documents. xslstr stage: the string templates of akn_text.xsl (escape-inlines, escape-prefixes, escape-hyphens/slashes for num, string-ltrim, '
        'escape-inlines-start-end in five contexts), called through an importing stylesheet, against Model/Unparse.v on adversarial strings. Oracles on '
        'the implementation: (1) poison: text nodes, nums and attribute values of parser-produced documents (C04 generator, seven roots) replaced by random '
        'strings over every grammar keyword, marker, brace, backslash, dash, dot, pipe and non-ASCII characters; unparse must not raise or modify the tree, '
        'and re-parsing must give the same structure and text (eIds and the derived by ignored); (2) slots: every string of up to 2 (quick) / 3 (thorough) '
        'atoms of that alphabet in each of 20 text positions (paragraph, b/i/u/sup/sub/ref/term/remark, before/after an inline, adjacent inlines, heading, '
        'subheading, crossheading, num, list item, bullet, list introduction/wrap-up, table cell, speech from, attachment heading) - exhaustive; (3) every '
        'keyword at the start of every block position; (4) elements bluebell has no syntax for: all text outside meta and the judgment header must appear in '
        'the unparsed text; (5) attribute values over the same alphabet without | } and line breaks; (6) one or two footnotes in each of 11 text positions, bare or inside each of 7 inline elements: the note content is written exactly once and the tree comes back. non-trivial = a string with a marker or keyword; '
        'distinct by (stream, position, string).')
TRUSTED_BASE = [
    'Coq 8.16.1 kernel; vm_compute for the table theorems; no axioms',
    'translator gen_tables_xsl.py (escape lists read from the xsl:if test, the replace chain read from the nested call-templates)',
    'hand models Model/Unparse.v (string templates) and Model/UnparseDoc.v (every element and text template), tied to libxslt running the stylesheet by the xslstr and unp stages (one namespace; comments and PIs not modelled)',
    'extraction + driver; Python oracles',
]
ASSUMPTIONS = ['whitespace at the edges of text blocks and attribute values, tabs and runs of spaces in attribute values are not representable and not claimed (listed finding for attribute values)',
               'class values are lists of class tokens (the .class syntax cannot hold dots, braces or empty tokens)',
               'a space in href/src is written %20 by the stylesheet by design; values are compared modulo that',
               'text needing more than about 1400 escapes in one text node exceeds libxslt\'s template depth (listed finding F12)']

NS = '{%s}' % xmlsx.NS
ALPHA = gen.ALL_KEYWORDS + gen.INLINE_OPEN + ['a', 'b', 'foo', 'bar baz', 'é', 'ש', '\U0001F600', ' ', ' ', '-', ' - ', '.', '|', '{', '}', '(a)', '1.', '\\', '\\\\', '*', '_', '/', 'x y', '***', '//', ']]', '%20', '{{IMG', 'P.', 'P{']

def adv(rng, attr=False):
    while True:
        s = ''.join(rng.choice(ALPHA) for _ in range(rng.randint(1, 4))).strip()
        if attr:
            s = s.replace('|', '').replace('}', '').strip()
        if s and '\n' not in s:
            return s

TEXT_PARENTS = {'p', 'heading', 'subheading', 'crossHeading', 'b', 'i', 'u', 'sup', 'sub', 'ref', 'remark', 'abbr', 'def', 'term', 'inline', 'ins', 'del',
                'listIntroduction', 'listWrapUp', 'from', 'scene', 'narrative', 'summary'}

def poison(rng, xml):
    """replace some text nodes, nums and attribute values of a parser-produced tree by adversarial strings"""
    x = copy.deepcopy(xml)
    n = 0
    for el in x.iter():
        if not isinstance(el.tag, str): continue
        tag = xmlsx.local(el.tag)
        if any(xmlsx.local(a.tag) == 'meta' for a in el.iterancestors()) or tag == 'meta': continue
        if tag == 'num' and rng.random() < 0.4:
            el.text = adv(rng); n += 1
        elif tag in TEXT_PARENTS:
            if el.text and el.text.strip() and rng.random() < 0.4:
                el.text = adv(rng); n += 1
            for c in el:
                if c.tail and c.tail.strip() and rng.random() < 0.3:
                    # (text after a br starts a line: leading whitespace there is layout)
                    c.tail = ('' if xmlsx.local(c.tag) == 'br' else ' ') + adv(rng); n += 1
        if tag in ('p', 'section', 'table', 'blockList') and (len(el) or (el.text or '').strip()) and rng.random() < 0.05 \
                and xmlsx.local(el.getparent().tag) not in ('longTitle', 'li', 'authorialNote'):
            el.set('class', re.sub(r'[^A-Za-z0-9_-]', '', adv(rng, True)) or 'c')
    return x, n

def canon(x):
    """comparison form: no eIds, no meta dates; whitespace at the edges of block text is insignificant"""
    x = copy.deepcopy(x)
    for el in x.iter():
        if isinstance(el.tag, str):
            el.attrib.pop('eId', None)
            el.attrib.pop('by', None)        # derived from the FROM text on every parse
            items = sorted(el.attrib.items())
            el.attrib.clear()
            for k, v in items: el.set(k, v)
    for m in list(x.iter(NS + 'meta')):
        m.getparent().remove(m)
    return etree.tostring(x, encoding='unicode')

def canon_href(x):
    for el in x.iter():
        if isinstance(el.tag, str):
            for k in ('href', 'src'):
                if el.get(k) is not None: el.set(k, el.get(k).replace(' ', '%20'))

def roundtrip(t, root):
    """t: tree (akomaNtoso root) -> ('ok',) | ('bad', what, unparsed text)"""
    p = impl.parser()
    before = etree.tostring(t)
    try:
        text = p.unparse(t)
    except Exception as e:
        return ('bad', 'unparse raised %s' % type(e).__name__, None)
    if etree.tostring(t) != before:
        return ('bad', 'unparse modified its argument', text)
    try:
        x1 = p.parse_to_xml(text, root)
    except Exception as e:
        return ('bad', 're-parse raised %s' % impl.exc_kind(e), text)
    t2 = copy.deepcopy(t); canon_href(t2); canon_href(x1)
    a, b = canon(t2), canon(x1)
    if a != b:
        i = next((i for i in range(min(len(a), len(b))) if a[i] != b[i]), min(len(a), len(b)))
        return ('bad', 're-parsed document differs: ...%s | ...%s' % (a[max(0, i - 60):i + 40], b[max(0, i - 60):i + 40]), text)
    return ('ok',)

# ---- (0) whitespace-only text nodes (pretty-printed or hand-edited XML) in positions the unparser trims: they are layout and may go, but
# nothing else may change - same elements, same attributes, same non-blank text ----
WS_DOCS = [
    ('act', '<p>see <remark status="editorial">first<br/> <b>second</b></remark></p>'),
    ('act', '<p>see <remark status="editorial">first<br/>\n   <i>second</i> third<br/> \t<b>fourth</b></remark> end</p>'),
    ('act', '<blockList><listIntroduction> <b>intro</b> text</listIntroduction><item><num>(a)</num><p>x</p></item><listWrapUp> <b>wrap</b> up</listWrapUp></blockList>'),
    ('act', '<p> <b>bold</b> tail</p><p>\n  <i>it</i>\n</p>'),
    ('act', '<table><tr><td><p> <b>cell</b></p></td><th><p>  <sup>1</sup> x</p></th></tr></table>'),
    ('act', '<ul><li><p> <u>u</u> v</p></li><li><p>\t<b>tab</b> text</p></li></ul>'),
    # the whole document pretty-printed by another tool (line break + indentation between all element children), for every kind of container
    ('act', 'PRETTY<ul><li><p>first item</p></li><li><p>second item</p><p>more</p></li><li><p>third</p><ul><li><p>nested</p></li></ul></li></ul>'),
    ('act', 'PRETTY<blockList><listIntroduction>intro</listIntroduction><item><num>(a)</num><p>x</p><p>y</p></item><item><num>(b)</num><blockList><item><num>(i)</num><p>z</p></item></blockList></item><listWrapUp>wrap</listWrapUp></blockList>'),
    ('act', 'PRETTY<table><tr><th><p>h</p></th><td><p>c</p><p>d</p></td></tr><tr><td><p>e</p></td><td><p>f</p></td></tr></table>'),
    ('act', 'PRETTY<p>plain</p><blockContainer><p>in</p><p>blocks</p></blockContainer><p>after</p>'),
    ('bill', 'PRETTY<ul><li><p>a</p></li><li><p>b</p></li></ul><blockList><item><num>1</num><p>x</p></item><item><num>2</num><p>y</p></item></blockList>'),
]

def _ws(i):
    root, inner = WS_DOCS[i]
    pretty = inner.startswith('PRETTY'); inner = inner[6:] if pretty else inner
    ns = xmlsx.NS
    t = etree.fromstring('<akomaNtoso xmlns="%s"><%s name="%s"><body><section><num>1</num><content>%s</content></section>'
                         '<section><num>2</num><subsection><num>(1)</num><content><p>deep</p></content></subsection>'
                         '<wrapUp><p> <b>bold</b> tail</p></wrapUp></section></body></%s></akomaNtoso>' % (ns, root, root, inner, root))
    if pretty:
        etree.indent(t, space='  ')
    p = impl.parser()
    try:
        text = p.unparse(t)
        x1 = p.parse_to_xml(text, root)
    except Exception as e:
        return ('bad', 'round trip raised %s' % impl.exc_kind(e), None)
    def skel(x):
        out = []
        for el in x.iter():
            if not isinstance(el.tag, str) or xmlsx.local(el.tag) == 'meta' or any(xmlsx.local(a.tag) == 'meta' for a in el.iterancestors()): continue
            out.append((xmlsx.local(el.tag), tuple(sorted((k, v) for k, v in el.attrib.items() if k != 'eId')),
                        ''.join((el.text or '').split()), ''.join((el.tail or '').split())))
        return out
    a, b = skel(t), skel(x1)
    if a != b:
        i = next((i for i in range(min(len(a), len(b))) if a[i] != b[i]), min(len(a), len(b)))
        return ('bad', 'apart from blank text the re-parsed document differs at element %d: %r | %r' % (i, a[i:i + 2], b[i:i + 2]), text)
    return ('ok', None, text)

# ---- (1) poison ----
def _oracle(args):
    seed, root = args
    import random
    rng = random.Random(seed)
    p = impl.parser()
    d = absdoc.Gen(rng, footnotes=True, attrs=True, max_depth=4).document(root)
    if d is None:
        return ('skip', None, 0)
    try:
        x0 = p.parse_to_xml(d[0], root)
    except Exception:
        return ('skip', None, 0)
    t, n = poison(rng, x0)
    r = roundtrip(t, root)
    if r[0] == 'bad':
        return ('bad', r[1], n, etree.tostring(t, encoding='unicode'), r[2])
    return ('ok', None, n)

# ---- (2) slots ----
E = absdoc.E
ATOMS = ['*', '**', '/', '//', '_', '__', '{', '{{', '}', '}}', '\\', '\\\\', ' ', 'a', 'P', 'ITEM', 'PART', 'SEC 1', '-', ' - ', '.', '|', '^', '>',
         'FOOTNOTE 1', 'IMG', '[', ']', '(', '1.', ' ', '　', 'TC', 'FROM', '{{^', '{{>', '}}}', 'é', '\U0001F600',
         # separators that are not the grammar's line break: Unicode line / paragraph separator
         '\u2028', '\u2029']
SLOTS = ['p', 'p-b', 'p-i', 'p-u', 'p-sup', 'p-sub', 'p-ref', 'p-term', 'p-remark', 'p-tail', 'p-before', 'p-b-b', 'heading', 'subheading', 'crossheading',
         'num', 'item', 'li', 'intro', 'cell', 'from', 'att-heading']

def slot_doc(kind, s):
    def hc(*b): return E('hcontainer', {'name': 'hcontainer'}, E('content', None, *b))
    root = 'act'
    if kind == 'heading': body = E('section', None, E('num', None, '1'), E('heading', None, s), E('content', None, E('p', None, 't')))
    elif kind == 'subheading': body = E('section', None, E('num', None, '1'), E('subheading', None, s), E('content', None, E('p', None, 't')))
    elif kind == 'crossheading': body = E('hcontainer', {'name': 'hcontainer'}, E('crossHeading', None, s))
    elif kind == 'num': body = E('section', None, E('num', None, s), E('heading', None, 'h'), E('content', None, E('p', None, 't')))
    elif kind == 'li': body = hc(E('ul', None, E('li', None, E('p', None, s))))
    elif kind == 'item': body = hc(E('blockList', None, E('item', None, E('num', None, '(a)'), E('p', None, s))))
    elif kind == 'intro': body = hc(E('blockList', None, E('listIntroduction', None, s), E('item', None, E('num', None, '(a)'), E('p', None, 't')), E('listWrapUp', None, s)))
    elif kind == 'cell': body = hc(E('table', None, E('tr', None, E('td', None, E('p', None, s)))))
    elif kind == 'att-heading':
        return 'act', E('akomaNtoso', None, E('act', {'name': 'act'}, E('body', None, hc(E('p', None, 'x'))),
                        E('attachments', None, E('attachment', None, E('heading', None, s), E('doc', {'name': 'schedule'}, E('mainBody', None, E('p', None, 'y')))))))
    elif kind == 'from':
        return 'debate', E('akomaNtoso', None, E('debate', {'name': 'debate'}, E('debateBody', None, E('debateSection', {'name': 'debateSection'},
                           E('speech', None, E('from', None, s), E('p', None, 't'))))))
    else:
        inner = {'p': lambda: E('p', None, s), 'p-b': lambda: E('p', None, 'x ', E('b', None, s), ' y'), 'p-i': lambda: E('p', None, 'x ', E('i', None, s), ' y'),
                 'p-u': lambda: E('p', None, 'x ', E('u', None, s), ' y'), 'p-sup': lambda: E('p', None, 'x ', E('sup', None, s), ' y'),
                 'p-sub': lambda: E('p', None, 'x ', E('sub', None, s), ' y'), 'p-ref': lambda: E('p', None, 'x ', E('ref', {'href': '#a'}, s), ' y'),
                 'p-term': lambda: E('p', None, 'x ', E('term', {'refersTo': ''}, s), ' y'),
                 'p-remark': lambda: E('p', None, 'x ', E('remark', {'status': 'editorial'}, s), ' y'),
                 'p-tail': lambda: E('p', None, 'x ', E('b', None, 'y'), s), 'p-before': lambda: E('p', None, s, E('b', None, 'y'), ' z'),
                 'p-b-b': lambda: E('p', None, E('b', None, s), E('i', None, s), E('b', None, s))}[kind]()
        body = hc(inner)
    return root, E('akomaNtoso', None, E(root, {'name': root}, E('body', None, body)))

def slot_strings(k):
    out = set()
    atoms = ATOMS
    for n in range(1, k + 1):
        import itertools
        for combo in itertools.product(atoms if n < 3 else atoms[:16], repeat=n):
            s = ''.join(combo)
            if s == s.strip() and s:
                out.add(s)
    # long runs of one marker character next to markup of the same kind (parity of the run decides the escaping), and a long text
    # with marker pairs at every offset around its middle, followed by real markup of that kind
    for ch in '*/_}':
        for m in (64, 65, 67, 128, 129):
            out.add('Signed: ' + ch * m); out.add(ch * m + ' x')
    for pair in ('//', '**', '__', '{{'):
        for total in (1001, 1171, 2049):
            for k in range(3):
                pos = total // 2 - 1 + k
                out.add(('w' * pos + pair + 'v' * total)[:total] + ' end')
    # ordinary long paragraphs (1 600 - 6 000 characters of words) with ONE character that needs looking at near the end, at the start,
    # or nowhere: the number of recursion steps must follow the number of escapes, not the length of the text
    S = 'The Minister may, by notice in the Gazette, determine the fees payable under this section. '
    for reps in (18, 21, 40, 66):
        for tail in ('The fees are payable by the owner and/or the occupier.', 'See 2020_01_01 {draft} *', 'a\\b', 'no marker at all', 'x}'):
            out.add(S * reps + tail)
        out.add('and/or ' + S * reps + 'end')
    return sorted(out)

def _slot(args):
    kind, s = args
    root, t = slot_doc(kind, s)
    r = roundtrip(t, root)
    return r if r[0] == 'ok' else ('bad', r[1], r[2])

# ---- (3) keywords at the start of block positions ----
def _kw(args):
    kind, kw, tail = args
    return _slot((kind, kw + tail))

# ---- (4) elements without syntax: text is never dropped ----
NOSYNTAX_INLINE = ['span', 'docTitle', 'docNumber', 'docDate', 'date', 'person', 'organization', 'location', 'quantity', 'entity', 'session', 'shortTitle', 'mod', 'omissis', 'signature']
NOSYNTAX_BLOCK = ['tblock', 'toc', 'formula', 'foreign', 'recital', 'citation', 'blockContainer']
def _nosyntax(seed):
    import random
    rng = random.Random(seed)
    used = []
    class It:
        def __next__(self):
            used.append('tok%dz' % len(used)); return used[-1]
    it = It()
    def inl(depth=0):
        tag = rng.choice(NOSYNTAX_INLINE)
        kids = [next(it)]
        if depth < 2 and rng.random() < 0.4: kids += [' ', inl(depth + 1), ' ' + next(it)]
        return E(tag, None, *kids)
    blocks = []
    for _ in range(rng.randint(1, 3)):
        r = rng.random()
        if r < 0.5: blocks.append(E('p', None, next(it) + ' ', inl(), ' ' + next(it)))
        elif r < 0.8: blocks.append(E(rng.choice(NOSYNTAX_BLOCK), None, E('p', None, next(it))))
        else: blocks.append(E('p', None, E('b', None, inl())))
    t = E('akomaNtoso', None, E('act', {'name': 'act'}, E('body', None, E('section', None, E('num', None, '1'), E('content', None, *blocks)))))
    try:
        text = impl.parser().unparse(t)
    except Exception as e:
        return ('bad', 'unparse raised %s' % type(e).__name__, etree.tostring(t, encoding='unicode'))
    lost = [w for w in used if w not in text]
    if lost:
        return ('bad', 'text dropped by unparse: %r' % lost[:3], etree.tostring(t, encoding='unicode'))
    return ('ok',)

# ---- (5) attribute values ----
ATTR_SLOTS = ['p-title', 'ref-href', 'img-src', 'img-alt', 'term-refersTo', 'inline-title', 'abbr-title', 'table-title', 'sec-title']
def attr_doc(kind, v):
    b = {'p-title': lambda: E('p', {'title': v}, 't'), 'ref-href': lambda: E('p', None, 'x ', E('ref', {'href': v}, 'r'), ' y'),
         'img-src': lambda: E('p', None, 'x ', E('img', {'src': v}), ' y'), 'img-alt': lambda: E('p', None, 'x ', E('img', {'src': 'a.png', 'alt': v}), ' y'),
         'term-refersTo': lambda: E('p', None, 'x ', E('term', {'refersTo': v}, 'r'), ' y'),
         'inline-title': lambda: E('p', None, 'x ', E('inline', {'name': 'inline', 'title': v}, 'r'), ' y'),
         'abbr-title': lambda: E('p', None, 'x ', E('abbr', {'title': v}, 'r'), ' y'),
         'table-title': lambda: E('table', {'title': v}, E('tr', None, E('td', None, E('p', None, 'c')))),
         'sec-title': lambda: None}[kind]()
    if kind == 'sec-title':
        body = E('section', {'title': v}, E('num', None, '1'), E('content', None, E('p', None, 't')))
    else:
        body = E('hcontainer', {'name': 'hcontainer'}, E('content', None, b))
    return E('akomaNtoso', None, E('act', {'name': 'act'}, E('body', None, body)))

def attr_value(rng):
    while True:
        s = adv(rng, True)
        s = re.sub(r'\s+', ' ', s).strip()
        if s and (s[0] != '{' or True):
            return s

def _attr(args):
    kind, v = args
    if kind in ('img-src', 'ref-href') and ' ' in v and kind == 'img-src':
        v = v.replace(' ', '')
    r = roundtrip(attr_doc(kind, v), 'act')
    return r if r[0] == 'ok' else ('bad', r[1], r[2])

# ---- (6) footnotes in every text position, bare and inside an inline: the note's content is written and comes back ----
FN_POS = ['p', 'heading', 'subheading', 'crossheading', 'intro', 'wrapup', 'item-heading', 'cell', 'from', 'scene', 'att-heading']
FN_WRAP = [None, 'sup', 'b', 'i', 'u', 'remark', 'ref', 'term']
def fn_doc(pos, wrap, k=1):
    def hc(*b): return E('hcontainer', {'name': 'hcontainer'}, E('content', None, *b))
    notes = []
    def note():
        m = str(len(notes) + 1); notes.append(m)
        n = E('authorialNote', {'marker': m, 'placement': 'bottom'}, E('p', None, 'note%sz text' % m))
        if wrap is None: return n
        at = {'ref': {'href': '#a'}, 'remark': {'status': 'editorial'}, 'term': {'refersTo': ''}}.get(wrap)
        return E(wrap, at, 'w', n)
    def content(): 
        out = ['lead ']
        for i in range(k):
            out += [note(), ' mid ' if i + 1 < k else ' end']
        return out
    root = 'act'
    if pos == 'p': body = hc(E('p', None, *content()))
    elif pos == 'heading': body = E('section', None, E('num', None, '1'), E('heading', None, *content()), E('content', None, E('p', None, 't')))
    elif pos == 'subheading': body = E('section', None, E('num', None, '1'), E('subheading', None, *content()), E('content', None, E('p', None, 't')))
    elif pos == 'crossheading': body = E('hcontainer', {'name': 'hcontainer'}, E('crossHeading', None, *content()))
    elif pos == 'intro': body = hc(E('blockList', None, E('listIntroduction', None, *content()), E('item', None, E('num', None, '(a)'), E('p', None, 't'))))
    elif pos == 'wrapup': body = hc(E('blockList', None, E('item', None, E('num', None, '(a)'), E('p', None, 't')), E('listWrapUp', None, *content())))
    elif pos == 'item-heading': body = hc(E('blockList', None, E('item', None, E('num', None, '(a)'), E('heading', None, *content()), E('p', None, 't'))))
    elif pos == 'cell': body = hc(E('table', None, E('tr', None, E('td', None, E('p', None, *content())))))
    elif pos == 'att-heading':
        return 'act', len(notes) or k, E('akomaNtoso', None, E('act', {'name': 'act'}, E('body', None, hc(E('p', None, 'x'))),
                        E('attachments', None, E('attachment', None, E('heading', None, *content()), E('doc', {'name': 'schedule'}, E('mainBody', None, E('p', None, 'y')))))))
    elif pos in ('from', 'scene'):
        inner = E('speech', None, E('from', None, *content()), E('p', None, 't')) if pos == 'from' else E('scene', None, *content())
        return 'debate', k, E('akomaNtoso', None, E('debate', {'name': 'debate'}, E('debateBody', None, E('debateSection', {'name': 'debateSection'}, inner))))
    return root, k, E('akomaNtoso', None, E(root, {'name': root}, E('body', None, body)))

def _fn(args):
    pos, wrap, k = args
    root, n, t = fn_doc(pos, wrap, k)
    try:
        text = impl.parser().unparse(t)
    except Exception as e:
        return ('bad', 'unparse raised %s' % type(e).__name__, None)
    lost = ['note%dz' % i for i in range(1, n + 1) if text.count('note%dz' % i) != 1]
    if lost:
        return ('bad', 'footnote content written %s by unparse: %r' % ('0 times or twice', lost), text)
    r = roundtrip(t, root)
    return r if r[0] == 'ok' else ('bad', r[1], r[2])

# witnesses of the known findings
def _deep(kind):
    # kind 0: 1500 escapes; kind 1: a text that starts with 1500 identical characters (the run helpers recurse once per character)
    t = E('akomaNtoso', None, E('act', {'name': 'act'}, E('body', None, E('hcontainer', {'name': 'hcontainer'}, E('content', None, E('p', None, ('\\*' * 1500) if not kind else 'w' * 1500))))))
    r = roundtrip(t, 'act')
    return r if r[0] == 'ok' else ('bad', r[1], None)

# ---- (7) instances of C06_paragraph_round_trip, run on the implementation ----
def _legal(c):
    o = ord(c)
    return 32 <= o <= 0xD7FF or 0xE000 <= o <= 0xFFFD or o >= 0x10000

def para_strings(rng, n):
    """texts that meet the premises of the theorem: no tab / line break, no blank at either end, XML-legal characters"""
    atoms = [a for a in ATOMS + gen.ALL_KEYWORDS + ['b', 'x y', 'SECTION 2.', 'P.cls', 'P{a b}', '{{*', '{{FOOTNOTE 1}}', '{{IMG a b}}', '{{>u t}}', '}}', '**b**', 'BODY', 'TABLE', 'BULLETS',
                                                    '\u00a0', '\u200b', '\u2028', '\x85', '\x1c']
             if not any(c in a for c in '\t\n\r')]
    out = ['PART 1 - **x** {{^y}} \\ //z__ P{a b} {{*r}}']
    while len(out) < n:
        s = (' ' if rng.random() < 0.5 else '').join(rng.choice(atoms) for _ in range(rng.randint(1, 7)))
        if s and s == s.strip() and all(_legal(c) for c in s):
            out.append(s)
    return out

def _para(args):
    uri, prefix, s = args
    eid = (prefix + '__' if prefix else '') + 'p_1'
    x = ['E', 'p', [['eId', eid]], [['T', s]]]
    text = impl.unparse_sx(x)
    if not isinstance(text, str):
        return ('bad', 'unparse of a paragraph raised %r' % (text,), None)
    r = impl.e2e_sx((uri, 'hier_block_element', prefix, text))
    if r != x:
        return ('bad', 'unparse then parse of <p eId=%r>%r</p> gave %r - C06_paragraph_round_trip predicts the same element' % (eid, s, r), text)
    return ('ok', None, text)

# ---- instances of C05/C06_section_round_trip, run on the implementation ----
SEC_NUMS = ['1', '1.', '(a)', '3A', '12bis', 'IV.', '1.2.3', '(iii)', '10/2', '\u00b2', '\u00e91', '1:2', '[b]', '7*', '1,5', '99.', 'ix)']
def section_cases(rng, n):
    from harness import absdoc
    kws = sorted(absdoc.HIER)
    ss = para_strings(rng, 2 * n + 2)
    out = [(stages.URIS[0], 'chp_2', 'SUBSEC', '(3A)', 'PART 1 - **x** {{^y}} \\ //z', 'SUBHEADING P{a b} __u__ {{*r}}')]
    for i in range(n):
        # (every third one without a heading: C05/C06_section_round_trip_no_heading)
        out.append((rng.choice(stages.URIS), rng.choice(stages.PREFIXES), kws[i % len(kws)], rng.choice(SEC_NUMS), ss[2 * i + 1] if i % 3 else None, ss[2 * i + 2]))
    return out

def _section(args):
    from harness import absdoc, eidlib
    uri, prefix, kw, n, h, t = args
    tag = absdoc.HIER[kw]
    G = eidlib.tables()
    cand = (prefix + '__' if prefix else '') + G.aliases.get(tag, tag) + '_' + eidlib.clean_num_ref(n)
    x = ['E', tag, [['eId', cand]], [['E', 'num', [], [['T', n]]]] + ([['E', 'heading', [], [['T', h]]]] if h is not None else []) +
                                    [['E', 'content', [], [['E', 'p', [['eId', cand + '__p_1']], [['T', t]]]]]]]
    text = impl.unparse_sx(x)
    if not isinstance(text, str):
        return ('bad', 'unparse of a hierarchical element raised %r' % (text,), None)
    r = impl.e2e_sx((uri, 'hier_element', prefix, text))
    if r != x:
        return ('bad', 'unparse then parse of %r gave %r - the section round trip theorem predicts the same element' % (x, r), text)
    return ('ok', None, text)

# ---- instances of C05_section_round_trip_any_eids: the same element carrying stale ids, or none, comes back with the generated ones ----
def _section_ids(args):
    from harness import absdoc, eidlib
    uri, prefix, kw, n, h, t = args
    if h is None: return ('ok', None, None)
    tag = absdoc.HIER[kw]
    G = eidlib.tables()
    cand = (prefix + '__' if prefix else '') + G.aliases.get(tag, tag) + '_' + eidlib.clean_num_ref(n)
    def el(a1, a2):
        return ['E', tag, a1, [['E', 'num', [], [['T', n]]], ['E', 'heading', [], [['T', h]]], ['E', 'content', [], [['E', 'p', a2, [['T', t]]]]]]]
    x = el([['eId', cand]], [['eId', cand + '__p_1']])
    for y in (el([], []), el([['eId', 'stale_9']], [['eId', cand]]), el([['eId', cand + '__p_1']], [])):
        text = impl.unparse_sx(y)
        if not isinstance(text, str):
            return ('bad', 'unparse of a hierarchical element raised %r' % (text,), None)
        r = impl.e2e_sx((uri, 'hier_element', prefix, text))
        if r != x:
            return ('bad', 'unparse then parse of %r gave %r - C05_section_round_trip_any_eids predicts %r' % (y, r, x), text)
    return ('ok', None, None)

# ---- instances of C05/C06_crossheading_round_trip, run on the implementation ----
def _crossheading(args):
    uri, prefix, t = args
    x = ['E', 'crossHeading', [['eId', (prefix + '__' if prefix else '') + 'crossHeading_1']], [['T', t]]]
    text = impl.unparse_sx(x)
    if not isinstance(text, str):
        return ('bad', 'unparse of a crossheading raised %r' % (text,), None)
    r = impl.e2e_sx((uri, 'hier_element', prefix, text))
    if r != x:
        return ('bad', 'unparse then parse of %r gave %r - the crossheading round trip theorem predicts the same element' % (x, r), text)
    # C05_crossheading_round_trip_any_eids: without an id, or with a stale one, the same element comes back
    for a in ([], [['eId', 'stale_3']]):
        y = ['E', 'crossHeading', a, [['T', t]]]
        ty = impl.unparse_sx(y)
        r = impl.e2e_sx((uri, 'hier_element', prefix, ty)) if isinstance(ty, str) else ty
        if r != x:
            return ('bad', 'unparse then parse of %r gave %r - C05_crossheading_round_trip_any_eids predicts %r' % (y, r, x), ty if isinstance(ty, str) else None)
    return ('ok', None, text)

WITNESS_ATTR = [('p-title', ' a'), ('p-title', 'a\tb'), ('abbr-title', 'a ')]

# ---- xslstr stage ----
XSL_FNS = ['escape-inlines', 'escape-prefixes', 'escape-num', 'string-ltrim', 'start-end-00', 'start-end-b', 'start-end-i', 'start-end-u', 'start-end-sup']
def xsl_cases(ctx, n):
    out = []
    for _ in range(n):
        fn = ctx.rng.choice(XSL_FNS)
        k = ctx.rng.random()
        if k < 0.6:
            s = ''.join(ctx.rng.choice(ATOMS) for _ in range(ctx.rng.randint(0, 6)))
        elif k < 0.9:
            s = ''.join(ctx.rng.choice(ALPHA) for _ in range(ctx.rng.randint(1, 4)))
        else:
            s = ctx.rng.choice(['*', '/', '_', '}', '\\']) * ctx.rng.randint(1, 9) + ctx.rng.choice(['', 'x', ' ']) + ctx.rng.choice(['*', '/', '_', '}']) * ctx.rng.randint(0, 5)
        if fn.startswith('start-end') and not s:
            s = '*'
        if "'" in s and '"' in s:
            s = s.replace('"', '')
        out.append((fn, s))
    # long runs of one marker character at the ends (the run helpers decide by the parity of the run: chunked or recursive, the
    # count must be exact), and long texts with marker pairs at every offset (a divide-and-conquer replace must not split a pair)
    for ch in '*/_{}\\':
        for m in (63, 64, 65, 66, 127, 128, 129, 130, 193, 257):
            for fn in ('start-end-00', 'start-end-b', 'start-end-i', 'start-end-u', 'start-end-sup', 'escape-inlines'):
                out.append((fn, 'a ' + ch * m)); out.append((fn, ch * m + ' z'))
    for pair in ('**', '//', '__', '{{', '}}', '\\'):
        for total in (999, 1000, 1001, 1002, 1170, 2001, 2048, 4099):
            for k in range(4):
                pos = total // 2 - 2 + k
                out.append(('escape-inlines', ('x' * pos + pair + 'y' * total)[:total] + ' ' + pair))
    return out

def stage_xslstr(ctx, cases):
    a = impl.pmap(impl.xsl_call, cases, chunk=64)
    b = model.run([['xslstr', fn, s] for fn, s in cases])
    for c, x, y in zip(cases, a, b):
        ctx.evaluations += 1; ctx.count('xslstr_cases'); ctx.count('xslstr_' + c[0])
        if x != y:
            ctx.disagreements.append(('xslstr', {'fn': c[0], 'string': c[1]}, x, y))

def replay_xslstr(case):
    if 'fn' not in case:
        return stages.replay_stage(case)
    x = impl.xsl_call((case['fn'], case['string'])); y = model.run([['xslstr', case['fn'], case['string']]])[0]
    print('implementation == model:', x == y, repr(x), repr(y))
    return x == y

def _unp_trees(seed):
    import random
    rng = random.Random(seed)
    out = []
    k = seed % 4
    if k == 0:
        root = rng.choice(ROOTS)
        d = absdoc.Gen(rng, footnotes=True, attrs=True, max_depth=4).document(root)
        if d is not None:
            try:
                x = impl.parser().parse_to_xml(d[0], root)
                out.append(poison(rng, x)[0])
            except Exception:
                pass
    elif k == 1:
        out.append(xmlsx.from_sx(xmlsx.norm_sx(gen.gen_akn_tree(rng))))        # trees outside the parser's image
    elif k == 2:
        out.append(slot_doc(rng.choice(SLOTS), ''.join(rng.choice(ATOMS) for _ in range(rng.randint(1, 4))))[1])
        out.append(fn_doc(rng.choice(FN_POS), rng.choice(FN_WRAP), rng.randint(1, 2))[2])
        out.append(attr_doc(rng.choice(ATTR_SLOTS), attr_value(rng)))
    else:
        out.append(xmlsx.from_sx(xmlsx.norm_sx(gen.gen_post_tree(rng))))
    res = []
    for t in out:
        try: res.append(xmlsx.norm_sx(xmlsx.to_sx(t)))
        except Exception: pass
    return res

def correspondence(ctx):
    stage_xslstr(ctx, xsl_cases(ctx, ctx.n(3000, 60000)))
    seeds = [ctx.rng.randrange(1 << 30) for _ in range(ctx.n(1200, 40000))]
    # the two halves of C06_paragraph_round_trip, each against the model: the paragraphs through unp, their written texts through e2e
    ps = [(ctx.rng.choice(stages.URIS), ctx.rng.choice(stages.PREFIXES), t) for t in para_strings(ctx.rng, ctx.n(120, 3000))]
    ptrees = [['E', 'p', [['eId', (pf + '__' if pf else '') + 'p_1']], [['T', t]]] for _, pf, t in ps]
    stages.stage_unp(ctx, [t for l in impl.pmap(_unp_trees, seeds, chunk=16) for t in l] + ptrees)
    texts = impl.pmap(impl.unparse_sx, ptrees, chunk=32)
    stages.stage_e2e(ctx, [(u, 'hier_block_element', pf, tx) for (u, pf, _), tx in zip(ps, texts) if isinstance(tx, str)])

def search(ctx, budget):
    import random
    # (1)
    js = [(ctx.rng.randrange(1 << 30), ctx.rng.choice(ROOTS)) for _ in range(ctx.n(400, 15000) * budget)]
    for j, r in zip(js, impl.pmap(_oracle, js, chunk=8)):
        ctx.evaluations += 1; ctx.count('poison_' + r[0])
        if r[0] == 'bad':
            ctx.failures.append(({'stage': 'poison', 'seed': j[0], 'root': j[1], 'tree': r[3], 'unparsed': r[4]}, r[1]))
        elif r[0] == 'ok':
            ctx.count('poisoned_nodes', r[2])
            if r[2] >= 2: ctx.nontrivial(('poison',) + j)
    # (0)
    for i, r in enumerate(impl.pmap(_ws, list(range(len(WS_DOCS))), chunk=1)):
        ctx.evaluations += 1; ctx.count('blank_text_' + r[0])
        if r[0] == 'bad':
            ctx.failures.append(({'stage': 'blank-text', 'doc': i, 'xml': WS_DOCS[i][1], 'unparsed': r[2]}, r[1]))
    # (2)
    strs = slot_strings(2 if ctx.quick and budget == 1 else 3)
    if ctx.quick and budget == 1:
        strs = [s for s in strs if ctx.rng.random() < 0.25 or len(s) <= 2]
    sj = [(k, s) for k in SLOTS for s in strs]
    # characters that split a line for str.splitlines() but not for the grammar (line / paragraph separator, NEL, FS/GS/RS, VT, FF are not
    # in XML 1.0 or are: the three that are), in the middle of a text and followed by what would be markup at the start of a line
    sj += [(k, 'as set out in' + sep + kw) for k in SLOTS for sep in ('\u2028', '\u2029', '\u0085')
           for kw in ('PART 1 - of the Act', 'ITEMS', 'CROSSHEADING of this part', 'P.x y', 'SEC', 'plain')]
    for j, r in zip(sj, impl.pmap(_slot, sj, chunk=64)):
        ctx.evaluations += 1; ctx.count('slot_' + r[0])
        if r[0] == 'bad':
            ctx.failures.append(({'stage': 'slot', 'position': j[0], 'string': j[1], 'unparsed': r[2]}, r[1]))
        elif any(m in j[1] for m in ('**', '//', '__', '{{', '}}', '\\', 'ITEM', 'PART', 'SEC', 'FOOTNOTE', 'P')):
            ctx.nontrivial(('slot',) + j)
    # (3)
    kj = [(k, kw, tail) for k in ('p', 'item', 'li', 'intro', 'cell', 'from', 'p-before') for kw in gen.ALL_KEYWORDS + ['ITEM', 'P', 'TR', 'TH', 'TC', 'FROM', 'FOOTNOTE', 'HEADING']
          for tail in ('', ' x', ' 1 - h', '.c x', '{a b} x', 'x')]
    kj = sorted(set(kj))
    for j, r in zip(kj, impl.pmap(_kw, kj, chunk=64)):
        ctx.evaluations += 1; ctx.count('keyword_' + r[0])
        if r[0] == 'bad':
            ctx.failures.append(({'stage': 'slot', 'position': j[0], 'string': j[1] + j[2], 'unparsed': r[2]}, r[1]))
        else:
            ctx.nontrivial(('kw',) + j)
    # (4)
    nj = [ctx.rng.randrange(1 << 30) for _ in range(ctx.n(300, 5000) * budget)]
    for j, r in zip(nj, impl.pmap(_nosyntax, nj, chunk=32)):
        ctx.evaluations += 1; ctx.count('nosyntax_' + r[0])
        if r[0] == 'bad':
            ctx.failures.append(({'stage': 'nosyntax', 'seed': j, 'tree': r[2]}, r[1]))
    # (5)
    aj = [(ctx.rng.choice(ATTR_SLOTS), attr_value(ctx.rng)) for _ in range(ctx.n(400, 8000) * budget)]
    for j, r in zip(aj, impl.pmap(_attr, aj, chunk=32)):
        ctx.evaluations += 1; ctx.count('attr_' + r[0])
        if r[0] == 'bad':
            ctx.failures.append(({'stage': 'attr', 'position': j[0], 'value': j[1], 'unparsed': r[2]}, r[1]))
    # (6)
    fj = [(pos, wrap, k) for pos in FN_POS for wrap in FN_WRAP for k in (1, 2)]
    for j, r in zip(fj, impl.pmap(_fn, fj, chunk=4)):
        ctx.evaluations += 1; ctx.count('footnote_' + r[0])
        if r[0] == 'bad':
            ctx.failures.append(({'stage': 'footnote', 'position': j[0], 'wrapper': j[1], 'notes': j[2], 'unparsed': r[2]}, r[1]))
        else:
            ctx.nontrivial(('fn',) + j)
    # (7)
    pj = [(ctx.rng.choice(stages.URIS), ctx.rng.choice(stages.PREFIXES), t) for t in para_strings(ctx.rng, ctx.n(150, 4000) * budget)]
    sj = section_cases(ctx.rng, ctx.n(150, 4000) * budget)
    for j, r in zip(sj, impl.pmap(_section, sj, chunk=16)):
        ctx.evaluations += 1; ctx.count('section_theorem_' + r[0])
        if r[0] == 'bad':
            ctx.failures.append(({'stage': 'section', 'args': list(j), 'unparsed': r[2]}, r[1]))
    for j, r in zip(pj, impl.pmap(_crossheading, pj, chunk=16)):
        ctx.evaluations += 1; ctx.count('crossheading_theorem_' + r[0])
        if r[0] == 'bad':
            ctx.failures.append(({'stage': 'crossheading', 'uri': j[0], 'prefix': j[1], 'string': j[2], 'unparsed': r[2]}, r[1]))
    for j, r in zip(pj, impl.pmap(_para, pj, chunk=16)):
        ctx.evaluations += 1; ctx.count('paragraph_theorem_' + r[0])
        if r[0] == 'bad':
            ctx.failures.append(({'stage': 'paragraph', 'uri': j[0], 'prefix': j[1], 'string': j[2], 'unparsed': r[2]}, r[1]))
    # witnesses of the listed findings
    for j, r in zip(WITNESS_ATTR, impl.pmap(_attr, WITNESS_ATTR, chunk=1)):
        ctx.evaluations += 1; ctx.count('witness_' + r[0])
        if r[0] == 'bad':
            ctx.failures.append(({'stage': 'attr', 'position': j[0], 'value': j[1], 'unparsed': r[2], 'witness': True}, r[1]))
    for kind in (0, 1):
        r = impl.pmap(_deep, [kind], chunk=1)[0]
        ctx.evaluations += 1; ctx.count('witness_deep_' + r[0])
        if r[0] == 'bad':
            ctx.failures.append(({'stage': 'deep', 'escapes': 1500, 'kind': kind}, r[1]))
    ctx.sample({'stream': 'slot', 'position': sj[0][0], 'string': sj[0][1]})
    ctx.sample({'stream': 'poison', 'seed': js[0][0], 'root': js[0][1]})

def probe_disagreement(ctx, stage, case):
    pass

def _attr_ws(case, desc):
    v = case.get('value', '')
    return case.get('stage') == 'attr' and case.get('witness') and (v != v.strip() or '\t' in v or '  ' in v)

def _deep_clf(case, desc):
    return case.get('stage') == 'deep' and 'unparse raised XSLTApplyError' in desc

def _xh_fn(case, desc):
    return case.get('stage') == 'footnote' and case.get('position') == 'crossheading' and '<hcontainer name="hcontainer"/>' in desc

CLASSIFIERS = {'c06_attr_whitespace': _attr_ws, 'c06_xslt_depth': _deep_clf, 'c06_crossheading_footnote_hcontainer': _xh_fn}

def replay(obj):
    case = obj.get('case') or (obj.get('disagreements') or [{}])[0].get('case')
    if not case:
        print('nothing to replay:', obj.get('broken_obligations')); return 1
    st = case.get('stage')
    if st == 'blank-text':
        r = _ws(case['doc']); print(r[:2]); return 1 if r[0] == 'bad' else 0
    if st == 'poison':
        r = _oracle((case['seed'], case['root'])); print(r[:2]); return 1 if r[0] == 'bad' else 0
    if st == 'slot':
        r = _slot((case['position'], case['string'])); print(r[:2]); return 1 if r[0] == 'bad' else 0
    if st == 'nosyntax':
        r = _nosyntax(case['seed']); print(r[:2]); return 1 if r[0] == 'bad' else 0
    if st == 'attr':
        r = _attr((case['position'], case['value'])); print(r[:2]); return 1 if r[0] == 'bad' else 0
    if st == 'footnote':
        r = _fn((case['position'], case['wrapper'], case['notes'])); print(r[:2]); return 1 if r[0] == 'bad' else 0
    if st == 'paragraph':
        r = _para((case['uri'], case['prefix'], case['string'])); print(r[:2]); return 1 if r[0] == 'bad' else 0
    if case.get('stage') == 'crossheading':
        r = _crossheading((case['uri'], case['prefix'], case['string'])); print(r[:2]); return 1 if r[0] == 'bad' else 0
    if case.get('stage') == 'section':
        r = _section(tuple(case['args'])); print(r[:2]); return 1 if r[0] == 'bad' else 0
    if st == 'deep':
        r = _deep(case.get('kind', 0)); print(r[:2]); return 1 if r[0] == 'bad' else 0
    return 0 if replay_xslstr(case) else 1

LEVEL_TEXT = ('Partial. Proved on the tables regenerated from akn_text.xsl and akn.peg: the hand-maintained keyword list of escape-prefixes covers every '
              'upper-case keyword literal of the grammar except IMG (only after an inline opener) and P (covered by "P ", "P.", "P{"); the escape chain is '
              'backslash first, then exactly the five two-character markers, each of which is a literal of the grammar; and for EVERY string s, over the '
              'Gallina model of escape-inlines with the chain regenerated from the stylesheet: the parser\'s unescape reads escape-inlines(s) back as s '
              '(line breaks as spaces), and, read with the grammar\'s escape semantics, the result contains no two consecutive unescaped * / _ { }, so '
              'none of ** // __ {{ }} can open or close an inline (C06_escape_inlines_lossless, C06_escape_inlines_no_live_marker); and the chain through the '
              'grammar regenerated from akn.peg and the dict stage: for every non-empty string of scalar values, anywhere on a line of any input, inline+ '
              'reads escape-inlines(s) up to the line end and to_dict turns that run into text nodes only, whose values spell s again - escaped text '
              'cannot become inline markup (C06_escaped_text_parses_as_text); and for every text node in every context, what the unparser model writes for it reads '
              'back as the text itself, trimmed only where the stylesheet trims (C06_text_node_lossless), and is read by inline+ and to_dict as text nodes only '
              '(C06_written_text_parses_as_text); at block level, the line written for a paragraph is dispatched by hier_block_element to rule line - all '
              'keyword blocks fail on it, by a computed FIRST analysis of the regenerated grammar against the stylesheet\'s list '
              '(C06_escaped_first_text_is_a_line); composed: the first text of a paragraph as written is accepted by hier_block_element through rule line and '
              'becomes a p with text children only, spelling the text (C06_written_first_text_is_paragraph); and the round trip of a paragraph through the WHOLE pipeline model, both directions: for every known FRBR URI, every eId prefix and every text s without tab or line break, without blanks at its ends and of XML-legal characters, convert(unparse(<p eId=prefix__p_1>s</p>)) is that very element - stylesheet model, pre_parse, grammar, to_dict, XML builder, footnote resolution, normalisation, eId generation (C06_paragraph_round_trip; its instances are run on the implementation on every run); the same for the basic hierarchical element - keyword line with num and heading, blank line, indented paragraph - for each of the 34 keywords\' elements, every num without blank, dash or backslash, every such heading and text: whatever heading and text spell, the written text converts back to that very element (C06_section_round_trip, and C06_section_round_trip_no_heading for the element without a heading; instances on every run), and for a crossheading with any such text (C06_crossheading_round_trip; instances on every run). The string '
              'templates and all element templates are modelled in Gallina (Model/Unparse.v, Model/UnparseDoc.v) and tied to libxslt running the stylesheet by the xslstr and unp stages. That escaped text re-parses as the same '
              'text is decided by the oracles on the implementation: exhaustive strings of up to 3 atoms of the adversarial alphabet x 22 text positions, '
              'instances of the paragraph theorem, every keyword x 7 block positions x 6 continuations, random poisoning of generated documents, elements without syntax (no text dropped), '
              'attribute values, unparse leaves its argument unmodified and does not raise.')
LEVEL_NOTE = 'Trusted: Coq kernel (vm_compute table checks); translator of the stylesheet tables; hand model of the string templates tied by sampling; libxslt and element templates exercised, not modelled.'
TECHNIQUE = 'Rocq proof (escape tables cover the generated grammar; escape-inlines lossless and marker-free for all strings, by a unit-level invariant through the six replace passes; symbolic execution of the PEG interpreter on the generated grammar with static first-character / FIRST-literal analyses proved sound) + Gallina model of the stylesheet string templates run differentially + exhaustive small-string x position oracle'
