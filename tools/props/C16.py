"""C16 - Results depend only on the arguments, not on what was parsed before."""
import copy
from harness import core, impl, model, gen, xmlsx, stages

TRANSLATORS = ['parser', 'grammar', 'types', 'xml', 'libs']
LEVEL = 'proof'
RULE = ('obj stage: random histories of API calls (parse, tree_to_xml, parse_to_xml, unparse, xml_from_dict with good and broken dicts, '
        'eId rewrites; succeeding or raising: ParseError, illegal characters at chosen depths incl. inside nested attachments, bad dicts) on '
        'one or several parser objects in random interleavings, followed by a probe conversion (parse_to_xml; or through the dict; or in two steps - '
        'parse, other parses on the same object, tree_to_xml of the first tree on the same or another object) compared with the same conversion on a fresh '
        'object and with the extracted model (e2e stage); a deep snapshot of every mutable object reachable from the four modules and their '
        'classes before/after each history; in thorough, real threads on distinct objects vs the sequential result. non-trivial = history '
        'with at least one raising call and a probe with an attachment or footnote; distinct by history.')
TRUSTED_BASE = [
    'Coq 8.16.1 kernel; no axioms',
    'hand model coq/Model/Object.v: a raising call may leave the generator dictionaries in ANY state, the attachment stack is restored (try/finally)',
    'pipeline models tied by the e2e stage; extraction + driver; Python history generator and snapshot',
]
ASSUMPTIONS = ['pre-emptive thread interleavings inside lxml/CPython are runtime behaviour the model cannot exhibit: covered by the thread runs only (thorough tier)',
               '"no mutable module/class-level state" is decided on the implementation by the snapshot, it is not a statement about the model']

URI = '/akn/za/act/2009/1'
RICH_URIS = ['/akn/za/act/2009/10/eng@2020-01-01/!main~chp_2', '/akn/za/act/2009/10/eng@2020-01-01/!schedule_1', '/akn/za-cpt/act/by-law/2010/public-places/afr@2021-01-01', '/akn/za/act/2009/10/eng:2012-04-26/!main~sec_3']

def snapshot():
    """repr of every dict/list/set reachable from module globals and class attributes of bluebell's modules"""
    import bluebell.parser, bluebell.xml, bluebell.types, bluebell.akn, types as pytypes, re
    seen, out = set(), []
    def visit(name, v, depth=0):
        if id(v) in seen or depth > 4: return
        if isinstance(v, (dict, list, set)):
            seen.add(id(v))
            try:
                out.append((name, repr(sorted(v.items(), key=repr)) if isinstance(v, dict) else repr(sorted(v, key=repr) if isinstance(v, set) else v)))
            except Exception:
                out.append((name, '<unrepr>'))
            it = v.items() if isinstance(v, dict) else enumerate(v)
            for k, x in it:
                visit('%s[%r]' % (name, k), x, depth + 1)
        elif isinstance(v, type) and v.__module__.startswith('bluebell'):
            if id(v) in seen: return
            seen.add(id(v))
            for k, x in vars(v).items():
                if not k.startswith('__'): visit('%s.%s' % (name, k), x, depth + 1)
    for m in (bluebell.parser, bluebell.xml, bluebell.types, bluebell.akn):
        for k, v in vars(m).items():
            if k.startswith('__') or isinstance(v, pytypes.ModuleType): continue
            visit('%s.%s' % (m.__name__, k), v)
    # state of the interpreter and the process that a library call could change behind the caller's back
    import sys, os, locale, warnings, decimal
    out.append(('sys.getrecursionlimit()', repr(sys.getrecursionlimit())))
    out.append(('os.getcwd()', os.getcwd()))
    out.append(('os.environ', repr(sorted(os.environ.items()))))
    out.append(('locale', repr(locale.setlocale(locale.LC_ALL))))
    out.append(('len(sys.path)', repr(len(sys.path))))
    out.append(('len(warnings.filters)', repr(len(warnings.filters))))
    out.append(('decimal context', repr(decimal.getcontext())))
    out.append(('sys.stdout/stderr', repr((sys.stdout is sys.__stdout__, sys.stderr is sys.__stderr__))))
    return out

BAD_TEXTS = ['ATTACHMENT\n  foo\x01\n', 'SCHEDULE h\n  ANNEXURE\n    x\x02\n  APPENDIX\n    y\n', 'a\n  SEC 1\x0b\n', 'P{1 x} foo\n',
             'x {{FOOTNOTE 1}}\nFOOTNOTE 1\n  y\x03\n', 'ATTACHMENT\n  ATTACHMENT\n    ATTACHMENT\n      z\x04\n',
             # ... in the heading / subheading of an attachment (converted before its body), of a nested one, of a hierarchical element
             'BODY\n  Some text.\n\nSCHEDULE First \x01 schedule\n  Text.\n', 'x\nANNEXURE h\n  SUBHEADING s\x02\n  t\n', 'x\nSCHEDULE a\n  y\n  APPENDIX b\x05\n    z\n',
             'PART 1 - h\x06\n  x\n', 'SEC 1\n  SUBHEADING s\x07\n  x\n', 'x\nSCHEDULE{a\x01b c} h\n  y\n']
BAD_DICTS = [{'type': 'element', 'name': 'attachment', 'attribs': {'name': 'schedule'}, 'children': [{'type': 'nope', 'name': 'x'}]},
             {'type': 'hier', 'name': 'section', 'children': [{'type': 'text', 'value': 'x'}]},
             {'type': 'element', 'name': 'attachment', 'children': [{'type': 'element', 'name': 'attachment'}]},
             {'type': 'content', 'name': 'p', 'children': [{'type': 'text', 'value': 'bad\x00'}]},
             {'type': 'element', 'name': 'attachment', 'attribs': {'name': 'schedule'}, 'heading': [{'type': 'nope'}], 'children': [{'type': 'content', 'name': 'p', 'children': [{'type': 'text', 'value': 'x'}]}]},
             {'type': 'element', 'name': 'attachment', 'attribs': {'name': 'annexure'}, 'subheading': [{'type': 'text', 'value': 'bad\x01'}], 'children': []}]

def make_history(rng, nobj):
    h = []
    for _ in range(rng.randint(1, 8)):
        o = rng.randrange(nobj)
        r = rng.random()
        root = rng.choice(gen.ROOTS7)
        if r < 0.25: h.append((o, 'parse_to_xml', root, gen.any_text(rng, root)))
        elif r < 0.50: h.append((o, 'parse_to_xml', rng.choice(['act', 'doc', 'judgment']), rng.choice(BAD_TEXTS)))
        elif r < 0.58: h.append((o, 'parse_to_xml', 'debate', 'plain text is refused by debate\n'))
        elif r < 0.66: h.append((o, 'parse+tree_to_xml', root, gen.any_text(rng, root)))
        elif r < 0.74: h.append((o, 'xml_from_dict_bad', rng.randrange(len(BAD_DICTS))))
        elif r < 0.82: h.append((o, 'xml_from_dict_good', root, gen.gen_doc(rng, root)))
        elif r < 0.87: h.append((o, 'rewrite', rng.randrange(1 << 30)))
        elif r < 0.92: h.append((o, 'rewrite_other_ns', rng.randrange(1 << 30)))
        else: h.append((o, 'unparse', root, gen.gen_doc(rng, root)))
    if rng.random() < 0.15:
        # a text nested deeper than the interpreter's stock recursion limit allows (the call raises RecursionError, or lxml refuses the depth)
        k = rng.choice([340, 500, 700])
        deep = rng.choice(['{{+ ' * k + 'x' + '}}' * k + '\n', '\n'.join(' ' * i + 'SEC %d' % i for i in range(k)) + '\n', '**' * k + 'x\n'])
        h.insert(rng.randint(0, len(h)), (rng.randrange(nobj), rng.choice(['parse_to_xml', 'parse+tree_to_xml']), rng.choice(['act', 'statement', 'doc']), deep))
    return h

def run_history(args):
    seed, nobj, history, probe = args[:4]
    prefix = args[4] if len(args) > 4 else ''      # the eId prefix every object of the history is created with
    uri_s = args[5] if len(args) > 5 else URI       # the FRBR URI; with a sixth argument all objects are built from ONE FrbrUri object, as a caller would
    import random
    from bluebell.parser import AkomaNtosoParser
    from cobalt import FrbrUri
    from lxml import etree
    shared = FrbrUri.parse(uri_s)
    objs = [AkomaNtosoParser(shared if len(args) > 5 else FrbrUri.parse(uri_s), prefix) for _ in range(nobj)]
    uri_before = (shared.work_uri(), shared.expression_uri(), shared.manifestation_uri())
    import sys
    sys.setrecursionlimit(1000)          # the interpreter's stock limit, as in a caller's fresh process (the stages raise it for their own runs)
    before = snapshot()
    raised = 0
    for call in history:
        p = objs[call[0]]
        try:
            if call[1] == 'parse_to_xml': p.parse_to_xml(call[3], call[2])
            elif call[1] == 'parse+tree_to_xml': p.tree_to_xml(p.parse(call[3], call[2]))
            elif call[1] == 'xml_from_dict_bad': p.generator.xml_from_dict(copy.deepcopy(BAD_DICTS[call[2]]), False)
            elif call[1] == 'xml_from_dict_good':
                d = p.parse(call[3], call[2]).to_dict(); p.generator.xml_from_dict(d, True)
            elif call[1] == 'rewrite':
                t = xmlsx.from_sx(xmlsx.norm_sx(gen.gen_akn_tree(random.Random(call[2]), maxdepth=3)))
                p.generator.ids.rewrite_all_eids(t, 'zz')
            elif call[1] == 'rewrite_other_ns':
                # an Akoma Ntoso 2.0 (or namespace-less) document rewritten with the same object
                ns = random.Random(call[2]).choice(['http://www.akomantoso.org/2.0', 'urn:x'])
                t = xmlsx.from_sx(xmlsx.norm_sx(gen.gen_akn_tree(random.Random(call[2]), maxdepth=3)), ns)
                p.generator.ids.rewrite_all_eids(t)
            elif call[1] == 'unparse':
                p.unparse(p.parse_to_xml(call[3], call[2]))
        except Exception:
            raised += 1
    after = snapshot()
    root, text = probe
    via_dict = seed % 4 == 0      # one probe in four converts through the intermediate dict (parse, to_dict, xml_from_dict)
    got = [impl.e2e_with(p, root, text, via_dict) for p in objs]
    if seed % 4 == 1:
        # ... and one in four in two steps: parse, then parses of other kinds of root on the same object (a fragment, a document, a failing one),
        # then tree_to_xml of the first tree - on the same object and on another one
        between = [('hier_element', 'SEC 2. - Other\n\n  Just a fragment.\n'), ('act', 'SEC 3\n  x\n'), ('hier_element', '{{')]
        random.Random(seed).shuffle(between)
        got = [impl.e2e_with(p, root, text, split=(None, between)) for p in objs] + [impl.e2e_with(objs[0], root, text, split=(objs[-1], between[:1]))]
    want = impl.e2e_sx((uri_s, root, prefix, text))
    bad = None
    if len(args) > 5 and (shared.work_uri(), shared.expression_uri(), shared.manifestation_uri()) != uri_before:
        bad = "the caller's FrbrUri object was changed by the calls: %r -> %r" % (uri_before[2], shared.manifestation_uri())
    for i, g in enumerate(got):
        if g != want:
            bad = bad or 'probe%s on object %d differs from a fresh object' % (' (via xml_from_dict)' if via_dict else ' (parse ... tree_to_xml)' if seed % 4 == 1 else '', i)
    if before != after:
        diff = [a[0] for a, b in zip(before, after) if a != b][:3]
        bad = bad or 'module/class-level state changed: %s' % diff
    return (bad, raised, want[0] == 'E', got)

def run_threads(args):
    seed, jobs = args
    import threading
    from bluebell.parser import AkomaNtosoParser
    from cobalt import FrbrUri
    seq = [impl.e2e_sx((URI, r, '', t)) for r, t in jobs]
    res = [None] * len(jobs)
    def work(i):
        p = AkomaNtosoParser(FrbrUri.parse(URI), '')
        for _ in range(3):
            res[i] = impl.e2e_with(p, jobs[i][0], jobs[i][1])
    ts = [threading.Thread(target=work, args=(i,)) for i in range(len(jobs))]
    for t in ts: t.start()
    for t in ts: t.join()
    return None if res == seq else 'concurrent threads on distinct objects give a different document than sequential runs'

PROBES = ['ATTACHMENT\n  foo\n', 'SCHEDULE h\n  x\nSCHEDULE\n  ANNEXURE\n    y\n', 'SEC 1\n  x {{FOOTNOTE 1}}\n  FOOTNOTE 1\n    n\nATTACHMENT\n  z\n']

def correspondence(ctx):
    stages.stage_e2e(ctx, [(URI, r, '', t) for t in PROBES + BAD_TEXTS for r in ('act', 'doc', 'judgment')] + stages.doc_cases(ctx, ctx.n(200, 5000)))

def search(ctx, budget):
    jobs = []
    for _ in range(ctx.n(400, 20000) * budget):
        nobj = ctx.rng.choice([1, 1, 2, 3])
        h = make_history(ctx.rng, nobj)
        # (root names as callers may write them: the documented lower-case alias too)
        probe = (ctx.rng.choice(['act', 'doc', 'judgment', 'bill', 'debatereport', 'debateReport', 'statement']), ctx.rng.choice(PROBES) if ctx.rng.random() < 0.7 else gen.gen_doc(ctx.rng, 'act'))
        if ctx.rng.random() < 0.35:
            # the probe's own text converted earlier on the same objects under another root - a sibling of the probe's root (same structure
            # rule: act/bill, doc/statement/debateReport), any document root, or a fragment root - and, half the time, under the probe's root too
            sib = {'act': ['bill'], 'bill': ['act'], 'doc': ['statement', 'debateReport'], 'statement': ['doc', 'debatereport'],
                   'debateReport': ['doc', 'statement'], 'debatereport': ['statement', 'doc'], 'judgment': ['act']}[probe[0]]
            for o in range(nobj):
                if o == 0 or ctx.rng.random() < 0.5:
                    other = ctx.rng.choice(sib + sib + ['hier_element', 'doc', 'act'])
                    calls = [(o, ctx.rng.choice(['parse_to_xml', 'parse+tree_to_xml']), other, probe[1])]
                    if ctx.rng.random() < 0.5: calls.append((o, 'parse_to_xml', probe[0], probe[1]))
                    ctx.rng.shuffle(calls)
                    pos = ctx.rng.choice([len(h), len(h), ctx.rng.randint(0, len(h))])
                    h[pos:pos] = calls
        # the objects' eId prefix (a constructor argument: part of "a given prefix"), and probes of fragment roots, whose ids start with it
        prefix = ctx.rng.choice(['', '', 'chp_1', 'a__b', 'part_A__chp_2'])
        if ctx.rng.random() < 0.2:
            probe = ctx.rng.choice([('hier_element', 'SEC 1. - Title\n  SUBSEC (a)\n    First.\n'), ('block_element', 'TABLE\n  TR\n    TC\n      x {{FOOTNOTE 1}}\n'),
                                    ('hier_element', 'PART A\n  SEC 1\n    x\n  SEC 1\n    y\n'), ('attachment', 'SCHEDULE - One\n  PARA 1.\n    x\n')])
        if ctx.rng.random() < 0.2:
            # a FRBR URI with language, date, work component and portion, one FrbrUri object shared by all parser objects of the history
            jobs.append((ctx.rng.randrange(1 << 30), nobj, h, probe, prefix, ctx.rng.choice(RICH_URIS)))
        else:
            jobs.append((ctx.rng.randrange(1 << 30), nobj, h, probe, prefix))
    res = impl.pmap(run_history, jobs, chunk=8)
    # the reference for every probe is also computed by the extracted model, which has no state at all: a "fresh object" of the same
    # process is no reference when the state that leaks is at module level
    ref = [stages.norm_model_xml(y) for y in model.run([['e2e', URI, j[3][0], j[4], j[3][1]] for j in jobs])]
    ref = [None if len(j) > 5 else y for j, y in zip(jobs, ref)]        # (the model's meta templates cover the fixed URI only)
    for j, r, want in zip(jobs, res, ref):
        ctx.evaluations += 1; ctx.count('histories'); ctx.count('raising_calls', r[1])
        bad = r[0]
        if not bad and want is not None and any(g != want for g in r[3]):
            bad = 'probe after the history differs from the history-free reference (the extracted model)'
        if bad:
            ctx.failures.append((dict({'stage': 'obj', 'seed': j[0], 'objects': j[1], 'history': j[2], 'probe': j[3], 'prefix': j[4]}, **({'uri': j[5]} if len(j) > 5 else {})), bad))
        elif r[1] >= 1 and r[2]:
            ctx.nontrivial(repr(j[2:]))
    if not ctx.quick or budget > 1:
        tj = []
        for _ in range(ctx.n(0, 300) * budget + 20):
            tj.append((ctx.rng.randrange(1 << 30), [(ctx.rng.choice(['act', 'doc']), gen.gen_doc(ctx.rng, 'act')) for _ in range(6)]))
        for j, r in zip(tj, impl.pmap(run_threads, tj, chunk=4)):
            ctx.evaluations += 1; ctx.count('thread_runs')
            if r: ctx.failures.append(({'stage': 'threads', 'seed': j[0], 'jobs': j[1]}, r))
    ctx.sample({'objects': jobs[0][1], 'prefix': jobs[0][4], 'history': [list(map(str, c))[:3] for c in jobs[0][2]], 'probe': jobs[0][3]})

def probe_disagreement(ctx, stage, case):
    pass

CLASSIFIERS = {}

def replay(obj):
    case = obj.get('case') or (obj.get('disagreements') or [{}])[0].get('case')
    if not case:
        print('nothing to replay:', obj.get('broken_obligations')); return 1
    if case.get('stage') == 'obj':
        r = run_history((case['seed'], case['objects'], [tuple(c) for c in case['history']], tuple(case['probe']), case.get('prefix', '')) + ((case['uri'],) if case.get('uri') else ()))
        if case.get('uri'):
            print(r[:3]); return 1 if r[0] else 0
        want = stages.norm_model_xml(model.run([['e2e', URI, case['probe'][0], case.get('prefix', ''), case['probe'][1]]])[0])
        differs = any(g != want for g in r[3])
        print(r[:3], 'differs from the model:', differs); return 1 if (r[0] or differs) else 0
    if case.get('stage') == 'threads':
        r = run_threads((case['seed'], [tuple(j) for j in case['jobs']])); print(r); return 1 if r else 0
    return 0 if stages.replay_stage(case) else 1

LEVEL_TEXT = ('Proof over the Gallina state-machine model of the parser object: for every history of calls (conversions that succeeded or raised, '
              'xml_from_dict, eId rewrites, pure helpers) in which a raising call may leave the id-generator dictionaries in ANY state, a '
              'conversion on that object equals the conversion on a fresh object, and every observable outcome of any call on a used object is '
              'an outcome on a fresh one (C16_probe_after_any_history, C16_outcome_history_free). Distinct objects share no state in the model. '
              'Tie: random histories with injected failures and interleavings over several objects followed by a probe; module/class-level '
              'snapshot before/after; threads in thorough. Partial: pre-emptive interleavings inside lxml/CPython cannot be exhibited by the model.')
LEVEL_NOTE = 'Trusted: Coq kernel; Object.v (over-approximates the state after a failure); pipeline models tied by e2e; extraction+driver. Holds for the repaired generator (fix: commit a6c62e2).'
TECHNIQUE = 'Rocq proof over a state-machine model with arbitrary post-failure state + differential histories on the implementation'
