"""C07 - Every identifiable element gets exactly one eId, unique in the document."""
import random
from harness import core, impl, model, gen, xmlsx, eidlib

TRANSLATORS = ['xml']
LEVEL = 'proof'
RULE = ('eid stage: IdGenerator().rewrite_all_eids on random AKN-shaped trees (adversarial nums: punctuation-only, whitespace, nn, '
        '2_2, non-ASCII; random pre-existing ids) vs the extracted Gallina model, attribute order included; clean_num stage on '
        'single code points and random strings; oracle (presence/absence per tag set, uniqueness outside meta, non-empty, no '
        'whitespace, prefix) on those trees and on parse_to_xml output for generated documents x 7 roots x prefixes. '
        'non-trivial = tree/document with >= 2 identified elements; distinct by input.')
TRUSTED_BASE = [
    'Coq 8.16.1 kernel (vm_compute for table lemmas); no axioms',
    'tools/gen_tables_xml.py: IdGenerator sets/aliases by reflection, regex classes tabulated over all code points',
    'hand model coq/Model/Eid.v tied to xml.py:IdGenerator by the eid stage (sampled)',
    'extraction (ExtrOcamlBasic) + ocaml/driver.ml; Python oracles in tools/harness/eidlib.py',
]
ASSUMPTIONS = ['single namespace; element names without whitespace; comments/PIs not modelled',
               'explicit eId attributes written by the author on exempt elements are outside the presence theorem (known finding F8)']

PREFIXES = ['', '', 'p_1', 'chp_1__sec_2', 'x', '_tmp', '__draft', '_', 'tmp_', 'a__', '\u00e9_1', '1', 'sec_1_2']

# nums that look alike or are equivalent under some normalisation (case, Unicode canonical/compatibility forms, digit scripts):
# as siblings they must still get distinct ids
CONFUSABLE = [('\u00e9', 'e\u0301'), ('K', '\u212a'), ('\u00c5', '\u212b'), ('a', 'A'), ('1', '\uff11'), ('1', '\u00b9'), ('\u00df', 'ss'), ('\ufb01', 'fi'),
              ('\u2163', 'IV'), ('2', '\u0662'), ('\u03a9', '\u2126'), ('i', '\u0131'), ('1a', '1A'), ('(a)', '(A)'), ('x', 'x\u200b'), ('1.', '1'), ('a b', 'ab')]

def confusable_trees():
    out = []
    for a, b in CONFUSABLE:
        for tag in ('section', 'paragraph', 'item', 'part'):
            for wrap in (False, True):
                kids = [['E', tag, [], [['E', 'num', [], [['T', a]]], ['E', 'content', [], [['E', 'p', [], [['T', 'x']]]]]]],
                        ['E', tag, [], [['E', 'num', [], [['T', b]]], ['E', 'content', [], [['E', 'p', [], [['T', 'y']]]]]]],
                        ['E', tag, [], [['E', 'num', [], [['T', a]]], ['E', 'content', [], [['E', 'p', [], [['T', 'z']]]]]]]]
                t = ['E', 'body', [], [['E', 'chapter', [], [['E', 'num', [], [['T', '1']]]] + kids]] if wrap else kids]
                out.append(('', xmlsx.norm_sx(['E', 'akomaNtoso', [], [['E', 'act', [], [t]]]])))
    return out

def tree_cases(ctx, n):
    return [(ctx.rng.choice(PREFIXES), xmlsx.norm_sx(gen.gen_akn_tree(ctx.rng))) for _ in range(n)] + confusable_trees()

def clean_num_cases(ctx):
    out = []
    if ctx.quick:
        cps = list(range(0, 0x3100)) + [ctx.rng.randrange(0x3100, 0x110000) for _ in range(2000)]
    else:
        cps = list(range(0, 0x110000))
    for c in cps:
        if 0xD800 <= c <= 0xDFFF: continue
        out.append(chr(c))
    ctx.stats['clean_num_single_codepoints'] = len(out)
    for _ in range(ctx.n(2000, 50000)):
        out.append(gen.rand_num(ctx.rng) + ctx.rng.choice(['', 'a', '.', ' b']))
    return out

def impl_clean_num(s):
    from bluebell.xml import IdGenerator
    return IdGenerator().clean_num(s)

def correspondence(ctx):
    cs = tree_cases(ctx, ctx.n(1500, 60000))
    ctx._trees = cs
    a = impl.pmap(impl.eid_rewrite, cs)
    b = model.run([['eid', p, t] for p, t in cs])
    ctx._rewritten = a
    for c, x, y in zip(cs, a, b):
        ctx.evaluations += 1; ctx.count('eid_cases')
        if x != y:
            ctx.disagreements.append(('eid', {'prefix': c[0], 'tree': c[1]}, x, y))
        if not impl_is_err(x) and sum(1 for _ in xmlsx.walk(x[0])) >= 3:
            ctx.nontrivial(c)
    ns = clean_num_cases(ctx)
    a = impl.pmap(impl_clean_num, ns, chunk=2000)
    b = model.run([['clean_num', n] for n in ns])
    for n, x, y in zip(ns, a, b):
        ctx.evaluations += 1; ctx.count('clean_num_cases')
        if x != y:
            ctx.disagreements.append(('clean_num', {'num': n}, x, y))
    ctx.sample({'stage': 'eid', 'prefix': cs[0][0], 'tree': cs[0][1]})

def impl_is_err(x):
    return isinstance(x, list) and len(x) >= 1 and x[0] == 'ERR'

def doc_cases(ctx, budget):
    out = []
    for i in range(ctx.n(600, 40000) * budget):
        root = ctx.rng.choice(gen.ROOTS7)
        out.append((gen.any_text(ctx.rng, root), root, ctx.rng.choice(PREFIXES)))
    # attributes that are data, not naming: a name / eId / id / class attribute written on every kind of keyword, with values that would be
    # poison in an id (blanks, names of elements that carry no id, nothing)
    shapes = [('debate', 'DEBATESECTION%s 1 - Question time\n  QUESTION%s 1\n    FROM Hon. Member\n    Why?\n'), ('debate', 'DEBATESECTION%s\n  SPEECH%s\n    FROM The Speaker\n    Good morning.\n'),
              ('act', 'PART%s 1 - h\n  SEC%s 2.\n    SUBSEC%s (a)\n      text\n'), ('act', 'SEC 1\n  ITEMS%s\n    ITEM%s (a)\n      x\n  TABLE%s\n    TR\n      TC%s\n        c\n'),
              ('statement', 'PREFACE%s\n  P%s x\nBODY\n  QUOTE%s\n    q\n  BLOCKS%s\n    b\nSCHEDULE%s s\n  CROSSHEADING%s c\n'), ('judgment', 'INTRODUCTION%s\n  x\nDECISION%s\n  PARA%s 1.\n    y\n'),
              ('debateReport', 'ADDRESS%s\n  FROM x\n  y {{inline%s z}} {{abbr%s a}}\n'), ('doc', 'HCONTAINER%s 1\n  x\nDIVISION%s A\n  y\n')]
    for root, shape in shapes:
        for nm in ('name', 'eId', 'id', 'class'):
            for v in ('question time', 'heading', 'num', 'content', '', 'a  b', 'intro', 'dbsect', 'sec_1'):
                at = '{%s %s}' % (nm, v)
                k = shape.count('%s')
                for i in range(k):
                    out.append((shape % tuple(at if j == i else '' for j in range(k)), root, PREFIXES[(i + len(v)) % len(PREFIXES)]))
    # size: nums of 100 / 250 / 300 / 1 000 characters (a definition pasted into the number), nests of 24 / 40 / 70 provisions with ordinary
    # nums, a long prefix - ids grow without bound and stay distinct
    for n in (100, 250, 300, 1000):
        out.append(('PARA ' + 'a' * n + '\n  some text\n\n  more text\n', 'doc', ''))
        out.append(('SEC ' + 'a' * n + '\n  some text\n  SUBSEC (1)\n    x\n  SUBSEC (2)\n    y\n', 'hier_element', 'chp_1'))
        out.append(('PART ' + ' '.join('w%d' % i for i in range(n // 4)) + ' - h\n  SEC 1\n    x\n  SEC 2\n    y\n', 'act', ''))
    # different elements, one abbreviation: a hierarchical LIST and a block list both shorten to "list" - side by side where blocks and
    # hierarchical elements are siblings (open-structure bodies, quotes, attachments), in both orders, numbered to collide
    for root in ('doc', 'statement', 'debateReport'):
        out.append(('LIST 1.\n  The first list, a hierarchical element.\n\nITEMS\n  ITEM (a)\n    an item of the block list\n', root, ''))
        out.append(('ITEMS\n  ITEM (a)\n    x\n\nLIST 1.\n  y\n\nITEMS\n  ITEM (a)\n    z\n\nLIST 2\n  w\n', root, 'p_1'))
    out.append(('SEC 1. - Quoting\n  QUOTE\n    ITEMS\n      ITEM (a)\n        x\n    LIST 1.\n      y\n', 'act', 'frag'))
    out.append(('x\nSCHEDULE\n  LIST 1\n    a\n  ITEMS\n    ITEM 1\n      b\n  BLOCKLIST\n    ITEM 2\n      c\n  LIST 2\n    d\n', 'act', ''))
    for depth in (24, 40, 70):
        out.append((''.join('  ' * i + 'SUBPARA (a)\n' for i in range(depth)) + '  ' * depth + 'text\n' + '  ' * depth + 'more\n', 'doc', ''))
        out.append((''.join('  ' * i + 'SEC %d\n' % (i + 1) for i in range(depth)) + '  ' * depth + 'text\n', 'act', 'part_' + 'x' * 40))
    return out

def _doc_oracle(args):
    text, root, prefix = args
    try:
        xml = impl.parser(prefix).parse_to_xml(text, root)
    except Exception as e:
        return ('raised', impl.exc_kind(e))
    bad = eidlib.c07_oracle(xml, prefix)
    n = sum(1 for el in eidlib.iter_outside_meta(xml) if el.get('eId'))
    return ('ok', bad, n)

def search(ctx, budget):
    # (a) rewritten random trees
    trees = getattr(ctx, '_trees', None) or tree_cases(ctx, ctx.n(1500, 60000))
    rew = getattr(ctx, '_rewritten', None) or impl.pmap(impl.eid_rewrite, trees)
    for (p, t), r in zip(trees, rew):
        if impl_is_err(r):
            ctx.failures.append(({'stage': 'eid', 'prefix': p, 'tree': t, 'observed': r}, 'rewrite raised'))
            continue
        ctx.count('tree_oracle_cases')
        explicit = any(k == 'eId' for _, e in xmlsx.walk(t) for k, _ in e[2]
                       if e[1] in eidlib.tables().id_exempt or e[1] in eidlib.tables().id_exempt_but_pass_to_children)
        bad = eidlib.c07_oracle(xmlsx.from_sx(r[0]), p, explicit_ids=explicit)
        if bad:
            ctx.failures.append(({'stage': 'eid', 'prefix': p, 'tree': t}, bad))
    # (b) parser output
    docs = doc_cases(ctx, budget) + [(w['text'], w['root'], w.get('prefix', '')) for w in WITNESSES]
    res = impl.pmap(_doc_oracle, docs, chunk=16)
    for (text, root, prefix), r in zip(docs, res):
        ctx.evaluations += 1; ctx.count('doc_oracle_cases')
        if r[0] == 'raised':
            ctx.count('doc_raised_' + r[1]); continue
        if r[2] >= 2: ctx.nontrivial((text, root, prefix))
        if r[1]:
            ctx.failures.append(({'stage': 'e2e', 'text': text, 'root': root, 'prefix': prefix}, r[1]))
    ctx.sample({'stage': 'e2e', 'text': docs[0][0], 'root': docs[0][1], 'prefix': docs[0][2]})

WITNESSES = [
    {'text': 'x {{inline{eId foo} a}} {{inline{eId foo} b}}\n', 'root': 'act'},
]

def probe_disagreement(ctx, stage, case):
    if stage == 'eid':
        r = impl.eid_rewrite((case['prefix'], case['tree']))
        if not impl_is_err(r):
            bad = eidlib.c07_oracle(xmlsx.from_sx(r[0]), case['prefix'], explicit_ids=True)
            if bad:
                ctx.failures.append(({'stage': 'eid', 'prefix': case['prefix'], 'tree': case['tree']}, bad))

def _explicit_eid_attr(case, desc):
    import re
    return case.get('stage') == 'e2e' and re.search(r'\{[^}\n]*\beId\b', case.get('text', '')) is not None

CLASSIFIERS = {'explicit_eid_attribute': _explicit_eid_attr}

def replay(obj):
    case = obj.get('case') or (obj.get('disagreements') or [{}])[0].get('case')
    if not case:
        print('nothing to replay:', obj.get('broken_obligations')); return 1
    if 'text' in case:
        r = _doc_oracle((case['text'], case['root'], case.get('prefix', '')))
        print('text:', repr(case['text']), 'root', case['root'], '->', r)
        return 1 if (r[0] == 'ok' and r[1]) else 0
    if 'num' in case:
        a = impl_clean_num(case['num']); b = model.run([['clean_num', case['num']]])[0]
        print(repr(case['num']), 'impl', repr(a), 'model', repr(b)); return 0 if a == b else 1
    a = impl.eid_rewrite((case['prefix'], case['tree'])); b = model.run([['eid', case['prefix'], case['tree']]])[0]
    bad = None if impl_is_err(a) else eidlib.c07_oracle(xmlsx.from_sx(a[0]), case['prefix'], explicit_ids=True)
    print('impl == model:', a == b, ' oracle:', bad or 'ok')
    return 1 if (a != b or bad) else 0

LEVEL_TEXT = ('Proof over the Gallina model of IdGenerator, for every tree, prefix and state: the disambiguation loop terminates within its fuel; '
              'the rewriter is total; the ids it issues are pairwise distinct; if exempt elements carry no id beforehand, afterwards an element '
              'outside meta has a non-empty eId iff it is identifiable and no two elements share one; every id is non-empty, whitespace-free and '
              'starts with the caller prefix + "__" (C07_* theorems, closed under the global context). Tables (element sets, aliases, regex '
              'classes) are regenerated from the live class on every run. Tie: eid stage (random trees incl. every adversarial num class) and '
              'clean_num on single code points; the property oracle also runs on parser output for generated documents.')
LEVEL_NOTE = ('Trusted: Coq kernel; gen_tables_xml.py; hand model Eid.v tied by sampling; extraction+driver. Scope: explicit eId attributes '
              'authored on exempt elements are outside the presence theorem and are known finding F8.')
TECHNIQUE = 'Rocq proof (freshness invariant on the id counter, induction over trees) + differential run of the extracted model'
