"""C12 - Nesting follows indentation order; layout noise is irrelevant."""
import itertools, re
from harness import core, impl, model, gen
from props import C11

TRANSLATORS = ['parser']
LEVEL = 'proof'
RULE = ('(1) pre stage as in C11 (implementation vs extracted model) with the depth relation between consecutive lines checked on '
        'the implementation output, exhaustively over short indentation sequences; (2) metamorphic end-to-end runs: convert(t) vs '
        'convert(T(t)) for T in {trailing spaces, tab for indent_size spaces, indentation x k, blank lines around, extra blank lines '
        'between lines (texts without a remark opener)} on generated documents, mutations and token soup for 7 roots; non-trivial = '
        'the document has at least one nested block; distinct by (root, text, transformation).')
TRUSTED_BASE = C11.TRUSTED_BASE + ['end-to-end comparison uses lxml serialisation of the implementation output with the generation date masked']
ASSUMPTIONS = C11.ASSUMPTIONS + ['invariance under extra blank lines between lines is not a theorem: decided by the metamorphic search only']

IND, DED = '\x0e', '\x0f'
WIDE = '\xa0\u3000\u2003\u2009\u202f'

def in_scope(text):
    """the C11 alphabet plus the non-ASCII spaces (they are line content)"""
    return C11.in_alphabet(''.join(c for c in text if c not in WIDE))

def depth_oracle(size, text, out):
    """deeper -> +1, same -> same, less -> never deeper, for consecutive non-blank lines."""
    if not isinstance(out, str):
        return 'pre_parse raised'
    exp = text.replace('\t', ' ' * size).strip()
    widths = []
    for l in exp.split('\n'):
        l = l.rstrip(' ')
        if l:
            widths.append(len(l) - len(l.lstrip(' ')))
    depths, d = [], 0
    for l in (out[:-1].split('\n') if out else []):
        if l == IND: d += 1
        elif l == DED: d -= 1
        elif l != '': depths.append(d)
    if len(depths) != len(widths):
        return 'line count differs'
    if depths and depths[0] != 0:
        return 'first line not at depth 0'
    for i in range(1, len(widths)):
        w0, w1, d0, d1 = widths[i - 1], widths[i], depths[i - 1], depths[i]
        if w1 > w0 and d1 != d0 + 1: return 'deeper line %d did not open exactly one block' % i
        if w1 == w0 and d1 != d0: return 'same indentation, different block at line %d' % i
        if w1 < w0 and d1 > d0: return 'less-indented line %d went deeper' % i
    # consistently indented text: depth equals level
    if all(w % size == 0 for w in widths) and all(widths[i] <= widths[i - 1] + size for i in range(1, len(widths))) and widths and widths[0] == 0:
        for w, d in zip(widths, depths):
            if d != w // size: return 'consistent indentation but depth != level'
    return None

def transforms(rng, text):
    """(name, transformed text) pairs that must not change the document."""
    lines = text.split('\n')
    out = []
    out.append(('trailing-spaces', '\n'.join(l + (' ' * rng.randint(1, 3) if rng.random() < 0.5 else '') for l in lines)))
    def tabify(l):
        n = len(l) - len(l.lstrip(' '))
        return '\t' * (n // 2) + ' ' * (n % 2) + l[n:]
    out.append(('tab-for-two-spaces', '\n'.join(tabify(l) for l in lines)))
    k = rng.choice([2, 3])
    if '\t' not in text:
        def scale(l):
            n = len(l) - len(l.lstrip(' '))
            return ' ' * (n * k) + l[n:]
        out.append(('indent-x%d' % k, '\n'.join(scale(l) for l in lines)))
    out.append(('blank-lines-around', '\n' * rng.randint(1, 3) + text + '\n' * rng.randint(1, 3)))
    if '{{*' not in text:
        ls = []
        for l in lines:
            ls.append(l)
            if rng.random() < 0.3: ls.extend([''] * rng.randint(1, 2))
        out.append(('extra-blank-lines', '\n'.join(ls)))
    return out

# one document per construct whose line end matters (every rule that ends in eol): for each of them EVERY line gets, in turn, a blank
# line after it, a blank line with spaces after it, trailing spaces, and the whole text is re-indented - systematically, not at random
LAYOUT_DOCS = [
    ('debate', 'DEBATESECTION 1 - Questions\n  SUBHEADING oral\n  SPEECH\n    FROM The Speaker:\n    Order, order.\n  QUESTION 2\n    FROM Mr A\n    why?\n    ANSWER\n      FROM Ms B\n      because\n  NARRATIVE\n    they left\n'),
    ('act', 'PREFACE\n  LONGTITLE An Act\n  text\nPREAMBLE\n  whereas\nBODY\nPART 1 - General\n  SUBHEADING sub\n  CROSSHEADING cross\n  SEC 1. - Title\n    (1) text\n    SUBSEC (a)\n      more\nCONCLUSIONS\n  signed\n'),
    ('act', 'SEC 1\n  BULLETS\n    * one\n    *\n    * two\n      nested\n  after\n  ITEMS\n    intro\n    ITEM (a) - h\n      x\n    ITEM (b)\n    wrap\n  BLOCKLIST\n    ITEM\n      y\n'),
    ('act', 'SEC 1\n  TABLE.cls{a b}\n    TR\n      TH{colspan 2}\n        head\n      TC\n        cell\n        second\n    TR\n      TC\n  QUOTE{startQuote "}\n    SEC 2\n      quoted\n  BLOCKS\n    in blocks\n  P.c text\n'),
    ('act', 'SEC 1 - h {{FOOTNOTE 1}}\n  x {{FOOTNOTE 2}} **b** //i//\n  FOOTNOTE 1\n    one\n  FOOTNOTE 2\n    two\n    TABLE\n      TR\n        TC\n          in note\nSCHEDULE First\n  SUBHEADING s\n  text\n  ANNEXURE\n    inner\n'),
    ('judgment', 'INTRODUCTION\n  the parties\nBACKGROUND\n  facts\n  PARA 1.\n    one\nDECISION\n  dismissed\nCONCLUSIONS\n  signed\n'),
    ('doc', 'PREFACE\n  p\nBODY\n  text {{IMG a.png alt}}\n  PARA (a)\n    x\n  CROSSHEADING c\nATTACHMENT\n  a\n'),
]

def layout_jobs():
    jobs, index = [], []
    for root, t in LAYOUT_DOCS:
        lines = t.rstrip('\n').split('\n')
        jobs.append((t, root)); index.append((root, t, None))
        for i in range(len(lines)):
            for name, ins in (('blank-line-after-line-%d' % i, ['']), ('spaces-only-line-after-line-%d' % i, ['   ']), ('two-blank-lines-after-line-%d' % i, ['', ''])):
                t2 = '\n'.join(lines[:i + 1] + ins + lines[i + 1:]) + '\n'
                jobs.append((t2, root)); index.append((root, t, (name, t2)))
            t2 = '\n'.join(lines[:i] + [lines[i] + '  '] + lines[i + 1:]) + '\n'
            jobs.append((t2, root)); index.append((root, t, ('trailing-spaces-on-line-%d' % i, t2)))
        for k in (2, 3):
            t2 = '\n'.join(' ' * ((len(l) - len(l.lstrip(' '))) * k) + l.lstrip(' ') for l in lines) + '\n'
            jobs.append((t2, root)); index.append((root, t, ('indent-x%d' % k, t2)))
        t2 = '\n'.join('\t' * ((len(l) - len(l.lstrip(' '))) // 2) + l.lstrip(' ') for l in lines) + '\n'
        jobs.append((t2, root)); index.append((root, t, ('tabs', t2)))
    return jobs, index

def pre_cases(ctx, budget):
    out = []
    ml = ctx.n(5, 6) + (1 if budget > 1 else 0); widths = list(range(0, ctx.n(5, 7)))
    for seq in gen.indentation_sequences(ml, widths):
        t = gen.render_indented(seq)
        for size in (1, 2, 3):
            out.append((size, t))
    ctx.stats['exhaustive_subspace'] = 'all indentation sequences of <=%d lines over widths %s, sizes 1..3' % (ml, widths)
    for i in range(ctx.n(1000, 50000) * budget):
        out.append((ctx.rng.choice([1, 2, 2, 3, 4]), gen.random_layout_text(ctx.rng, 12)))
    # lines whose first character after the indentation is a non-ASCII space (text pasted from a word processor):
    # such a character is content, not indentation
    for i in range(ctx.n(400, 20000) * budget):
        ls = []
        for l in gen.random_layout_text(ctx.rng, 8).split('\n'):
            n = len(l) - len(l.lstrip(' \t'))
            if l.strip() and ctx.rng.random() < 0.35:
                l = l[:n] + ctx.rng.choice(WIDE) + l[n:]
            ls.append(l)
        out.append((ctx.rng.choice([1, 2, 2, 3, 4]), '\n'.join(ls)))
        ctx.count('pre_cases_wide_space_lead')
    return out

def correspondence(ctx):
    cs = pre_cases(ctx, 1)
    ctx._cases = cs
    got_i = impl.pmap(impl.pre_parse, cs, chunk=256)
    got_m = model.run([['pre', s, t] for s, t in cs])
    ctx._impl = got_i
    for c, a, b in zip(cs, got_i, got_m):
        ctx.evaluations += 1
        ctx.count('pre_cases')
        if a != b:
            ctx.disagreements.append(('pre', {'size': c[0], 'text': c[1]}, a, b))

def meta_cases(ctx, budget):
    out = []
    for i in range(ctx.n(500, 30000) * budget):
        root = ctx.rng.choice(gen.ROOTS7)
        t = gen.any_text(ctx.rng, root)
        out.append((root, t))
    for t in gen.fixture_texts():
        out.append(('act', t))
    return out

def search(ctx, budget):
    if budget == 1 and getattr(ctx, '_impl', None) is not None:
        cs, got = ctx._cases, ctx._impl
    else:
        cs = pre_cases(ctx, budget); got = impl.pmap(impl.pre_parse, cs, chunk=256)
    for (size, text), out in zip(cs, got):
        if not in_scope(text): continue
        ctx.count('depth_oracle_cases')
        bad = depth_oracle(size, text, out)
        if bad:
            ctx.failures.append(({'stage': 'pre', 'size': size, 'text': text, 'observed': out}, bad))
    # instances of C12_staircase_of_any_height: any height, any widths - the output is given by a formula
    sj = []
    for h in [2, 3, 10, 21, 40, 51, 64, 100, 150] + [ctx.rng.randint(2, 120) for _ in range(ctx.n(40, 1000) * budget)]:
        widths, w = [0], 0
        for _ in range(h - 1):
            w += ctx.rng.choice([1, 1, 2, 2, 3, 4, 7]); widths.append(w)
        words = [ctx.rng.choice(['x%d' % i, 'SEC %d' % i, 'a b', 'PART', '(a) word', '\u00e9t\u00e9', '* item']) for i in range(h)]
        sj.append((ctx.rng.choice([1, 2, 3, 4]), ''.join(' ' * k + wd + '\n' for k, wd in zip(widths, words)), words))
    for (size, text, words), out in zip(sj, impl.pmap(impl.pre_parse, [(a, b) for a, b, _ in sj], chunk=8)):
        ctx.evaluations += 1; ctx.count('staircase_instances')
        want = words[0] + '\n' + ''.join('\x0e\n' + wd + '\n' for wd in words[1:]) + '\x0f\n' * (len(words) - 1)
        if out != want:
            ctx.failures.append(({'stage': 'pre', 'size': size, 'text': text, 'observed': out}, 'a staircase of %d lines is not pre-parsed into %d nested blocks (C12_staircase_of_any_height)' % (len(words), len(words) - 1)))
    # metamorphic end-to-end
    docs = meta_cases(ctx, budget)
    jobs, index = [], []
    for root, t in docs:
        jobs.append((t, root)); index.append((root, t, None))
        for name, t2 in transforms(ctx.rng, t):
            jobs.append((t2, root)); index.append((root, t, (name, t2)))
    lj, li = layout_jobs()
    jobs += lj; index += li
    res = impl.pmap(impl.e2e, jobs, chunk=32)
    base = None
    for (root, t, tr), r in zip(index, res):
        if tr is None:
            base = r
            continue
        ctx.evaluations += 1
        ctx.count('meta_' + tr[0])
        if isinstance(base, str) and '\x0e' not in t and ('<hcontainer' in base or base.count('eId=') > 3):
            ctx.nontrivial((root, t, tr[0]))
        if r != base:
            ctx.failures.append(({'stage': 'e2e-metamorphic', 'root': root, 'text': t, 'transform': tr[0], 'transformed': tr[1],
                                  'observed': r if not isinstance(r, str) else r[:2000], 'expected': base if not isinstance(base, str) else base[:2000]},
                                 'document changed under ' + tr[0]))
        elif len(ctx.samples) < 4 and isinstance(base, str) and ctx.rng.random() < 0.01:
            ctx.sample({'root': root, 'text': t, 'transform': tr[0], 'transformed_text': tr[1]})
    if not ctx.samples:
        ctx.sample({'root': docs[0][0], 'text': docs[0][1]})

def probe_disagreement(ctx, stage, case):
    out = impl.pre_parse((case['size'], case['text']))
    if C11.in_alphabet(case['text']):
        bad = depth_oracle(case['size'], case['text'], out)
        if bad:
            ctx.failures.append(({'stage': 'pre', 'size': case['size'], 'text': case['text'], 'observed': out}, bad))

CLASSIFIERS = {}

def replay(obj):
    case = obj.get('case') or (obj.get('disagreements') or [{}])[0].get('case')
    if not case:
        print('nothing to replay:', obj.get('broken_obligations')); return 1
    if case.get('stage') == 'e2e-metamorphic':
        a = impl.e2e((case['text'], case['root'])); b = impl.e2e((case['transformed'], case['root']))
        print('text       :', repr(case['text'])); print('transformed:', repr(case['transformed']))
        print('same document:', a == b)
        return 0 if a == b else 1
    out = impl.pre_parse((case['size'], case['text']))
    m = model.run([['pre', case['size'], case['text']]])[0]
    bad = depth_oracle(case['size'], case['text'], out)
    print('input :', repr(case['text']), 'size', case['size']); print('impl  :', repr(out)); print('model :', repr(m)); print('oracle:', bad or 'ok')
    return 1 if (bad or out != m) else 0

LEVEL_TEXT = ('Proof on the Gallina model of pre_parse, for all texts over the alphabet and all indent sizes: first content line at depth 0 and, for '
              'consecutive non-blank lines, deeper -> exactly one more level, same indentation -> same depth, less -> never deeper '
              '(C12_nesting_follows_indentation); a tab equals indent_size spaces anywhere and whitespace around the text is irrelevant, as '
              'equalities of pre_parse outputs and hence of everything downstream (C12_tab_is_spaces, C12_outer_whitespace_irrelevant); any number of '
              'spaces in front of any line break of any text changes nothing (C12_trailing_spaces_irrelevant); multiplying '
              'all indentation of a cleaned text by any constant k >= 1 gives the same pre-parsed text, because the indentation pass is invariant '
              'under any strictly monotone renumbering of the levels (C12_indent_scaling); a staircase of any height and any widths - lines with strictly growing indentation - is pre-parsed into as many nested blocks, so there is no depth at which nesting stops and no width beyond which indentation is read differently (C12_staircase_of_any_height; instances of up to 150 levels run on the implementation); and at the level of the document, through the whole pipeline model, a nest of hierarchical elements of any depth converts to the same document whatever strictly growing widths indent it (C12_nested_document_ignores_indentation_widths, from C04_hier_chain_converts). The model is tied to parser.py by the pre stage '
              '(exhaustive for short indentation sequences). Invariance under extra blank lines between lines is a property of the grammar (eol) '
              'and is decided end to end by metamorphic runs on the implementation, which also re-check the other transformations (partial).')
LEVEL_NOTE = ('Trusted: Coq kernel, gen_tables_parser.py, hand model PreParse.v tied by differential run, extraction + driver. The nesting '
              'theorem holds for the repaired pre_parse (fix: commit in /repo); the metamorphic part is a search, not a theorem.')
TECHNIQUE = 'Rocq proof (stack invariant: top of stack = level of the last line; invariance of the indentation pass under monotone renumbering) + differential run + metamorphic end-to-end search'
