"""C08 - eIds follow the naming convention and are stable under unrelated edits."""
import copy
from lxml import etree
from harness import core, impl, model, gen, xmlsx, eidlib
from props import C07

TRANSLATORS = ['xml']
LEVEL = 'proof'
RULE = ('eid stage as in C07 (implementation vs extracted model). Oracle 1: an independent reference computation of the convention '
        '(context + alias + cleaned num / nn / scoped counter + _k suffix in document order) compared with every eId of rewritten random '
        'trees and of parser output. Oracle 2: edit pairs - a document and an edit (insert/delete/reorder siblings, change content) away '
        'from the ancestor path of a uniquely numbered provision; its eId must not change. non-trivial = >= 2 identified elements; '
        'distinct by input.')
TRUSTED_BASE = C07.TRUSTED_BASE
ASSUMPTIONS = C07.ASSUMPTIONS + ['"uniquely numbered along the path" (path_unique): every identified element on the path has a num and no EARLIER identified element was handed the same prefix, has the same abbreviation and the same number part; element names hold no underscore (true of all Akoma Ntoso names; checked on the generator tables)']

def _tree_oracle(args):
    prefix, tree = args
    from bluebell.xml import IdGenerator
    el = xmlsx.from_sx(tree)
    g = IdGenerator()
    if len(repr(tree)) % 2:
        # the same generator object has numbered another document before (a copy of this one, under another prefix, then once under
        # this prefix): the convention speaks about the document, not about what the object did earlier
        g.rewrite_all_eids(copy.deepcopy(el), 'zz')
        g.rewrite_all_eids(copy.deepcopy(el), prefix)
    g.rewrite_all_eids(el, prefix)
    return eidlib.c08_convention_oracle(el, prefix) or eidlib.c08_first_asker_oracle(el, prefix)

def _doc_oracle(args):
    text, root, prefix = args
    try:
        xml = impl.parser(prefix).parse_to_xml(text, root)
    except Exception as e:
        return ('raised', impl.exc_kind(e))
    n = sum(1 for el in eidlib.iter_outside_meta(xml) if el.get('eId'))
    return ('ok', eidlib.c08_convention_oracle(xml, prefix) or eidlib.c08_first_asker_oracle(xml, prefix), n)

# ---- edit pairs on trees ----
def unique_provisions(el):
    """paths of identifiable elements whose ancestor path is uniquely numbered: every identified element on the path has a num
    that cleans to something non-empty and no other element of the same tag with the same cleaned num in the same id scope.
    The id scope of an element is the prefix it is handed: its nearest identified ancestor plus the transparent containers
    (intro, wrapUp, ...) in between - exempt elements (content, a stray akomaNtoso, inline formatting) do not open a scope, so
    elements under different exempt parents can still clash."""
    G = eidlib.tables()
    def ident(t): return t not in G.id_exempt and t not in G.id_exempt_but_pass_to_children
    groups = {}
    def collect(e, scope):
        if eidlib.local(e) == 'meta': return
        for i, k in enumerate(e):
            if not isinstance(k.tag, str): continue
            t = eidlib.local(k)
            if ident(t):
                key = (scope, t, eidlib.clean_num_ref(eidlib.num_text(k)))
                groups[key] = groups.get(key, 0) + 1
                collect(k, scope + (('id', id(k)),))
            elif t in G.id_exempt_but_pass_to_children:
                collect(k, scope + (('pass', t),))
            else:
                collect(k, scope)
    collect(el, ())
    out = []
    def walk(e, path, ok, scope):
        if eidlib.local(e) == 'meta': return
        for i, k in enumerate(e):
            if not isinstance(k.tag, str): continue
            t = eidlib.local(k)
            if ident(t):
                n = eidlib.clean_num_ref(eidlib.num_text(k))
                ok2 = ok and bool(n) and groups.get((scope, t, n), 0) == 1
                if ok2: out.append(path + (i,))
                walk(k, path + (i,), ok2, scope + (('id', id(k)),))
            elif t in G.id_exempt_but_pass_to_children:
                walk(k, path + (i,), ok, scope + (('pass', t),))
            else:
                walk(k, path + (i,), ok, scope)
    walk(el, (), True, ())
    return out

def at(el, path):
    for i in path: el = el[i]
    return el

def edit_away(rng, root, path):
    """edit the tree somewhere not on the path (and not changing labels on the path). Returns (new root, new path) or None"""
    root = copy.deepcopy(root)
    # candidates: elements not on the path
    on_path = set()
    for d in range(len(path) + 1): on_path.add(path[:d])
    all_paths = []
    def walk(e, p):
        for i, k in enumerate(e):
            if isinstance(k.tag, str):
                all_paths.append(p + (i,)); walk(k, p + (i,))
    walk(root, ())
    cands = [p for p in all_paths if p not in on_path and not (len(p) > len(path) and p[:len(path)] == path and False)]
    # exclude the num children of elements on the path
    cands = [p for p in cands if not (p[:-1] in on_path and eidlib.local(at(root, p)) == 'num')]
    if not cands: return None
    target = rng.choice(cands)
    op = rng.choice(['delete', 'dup', 'text', 'insert', 'move_last'])
    parent = at(root, target[:-1]); node = at(root, target)
    newpath = list(path)
    def shift(parent_path, idx, delta):
        # if the path goes through parent at an index >= idx, shift it
        d = len(parent_path)
        if tuple(newpath[:d]) == tuple(parent_path) and len(newpath) > d and newpath[d] >= idx:
            newpath[d] += delta
    if op == 'delete':
        # deleting may make ids before/after shift, but must not touch a uniquely numbered path
        parent.remove(node); shift(target[:-1], target[-1], -1)
    elif op == 'dup':
        c = copy.deepcopy(node); parent.insert(target[-1], c); shift(target[:-1], target[-1], 1)
    elif op == 'text':
        node.text = (node.text or '') + ' edited'
        if eidlib.local(node) == 'num' : return None
    elif op == 'insert':
        c = etree.SubElement(parent, '{%s}p' % xmlsx.NS); c.text = 'new'
        parent.remove(c); parent.insert(target[-1], c); shift(target[:-1], target[-1], 1)
    else:
        parent.remove(node); parent.append(node)
        d = len(target) - 1
        if tuple(newpath[:d]) == tuple(target[:-1]) and len(newpath) > d and newpath[d] > target[-1]:
            newpath[d] -= 1
    return root, tuple(newpath)

def _edit_pair(args):
    seed, prefix, tree = args
    import random
    from bluebell.xml import IdGenerator
    rng = random.Random(seed)
    el = xmlsx.from_sx(tree)
    provs = unique_provisions(el)
    if not provs: return ('skip',)
    path = rng.choice(provs)
    r = edit_away(rng, el, path)
    if r is None: return ('skip',)
    el2, path2 = r
    # the edit may have created a sibling clash with the provision's path: re-check uniqueness in the edited tree
    if path2 not in unique_provisions(el2): return ('skip',)
    a = copy.deepcopy(el); IdGenerator().rewrite_all_eids(a, prefix)
    b = copy.deepcopy(el2); IdGenerator().rewrite_all_eids(b, prefix)
    ia, ib = at(a, path).get('eId'), at(b, path2).get('eId')
    if ia != ib:
        return ('bad', 'eId of a uniquely numbered provision changed from %r to %r under an unrelated edit' % (ia, ib),
                etree.tostring(el2, encoding='unicode'), list(path), list(path2))
    return ('ok', ia)

def correspondence(ctx):
    C07.correspondence(ctx)

def search(ctx, budget):
    trees = getattr(ctx, '_trees', None) or C07.tree_cases(ctx, ctx.n(1500, 60000))
    res = impl.pmap(_tree_oracle, trees)
    for (p, t), bad in zip(trees, res):
        ctx.count('convention_tree_cases'); ctx.evaluations += 1
        if bad:
            ctx.failures.append(({'stage': 'eid', 'prefix': p, 'tree': t}, bad))
    docs = C07.doc_cases(ctx, budget)
    res = impl.pmap(_doc_oracle, docs, chunk=16)
    for (text, root, prefix), r in zip(docs, res):
        ctx.evaluations += 1; ctx.count('convention_doc_cases')
        if r[0] == 'raised': continue
        if r[2] >= 2: ctx.nontrivial((text, root, prefix))
        if r[1]:
            ctx.failures.append(({'stage': 'e2e', 'text': text, 'root': root, 'prefix': prefix}, r[1]))
    # edit pairs: use trees without pre-existing ids on the shape, bigger
    pairs = [(ctx.rng.randrange(1 << 30), ctx.rng.choice(C07.PREFIXES), xmlsx.norm_sx(gen.gen_akn_tree(ctx.rng, maxdepth=4)))
             for _ in range(ctx.n(2000, 60000) * budget)]
    res = impl.pmap(_edit_pair, pairs)
    for (seed, p, t), r in zip(pairs, res):
        ctx.evaluations += 1; ctx.count('edit_pair_' + r[0])
        if r[0] == 'ok': ctx.nontrivial((seed, p, repr(t)))
        if r[0] == 'bad':
            ctx.failures.append(({'stage': 'edit-pair', 'seed': seed, 'prefix': p, 'tree': t, 'edited': r[2], 'path': r[3], 'path2': r[4]}, r[1]))
    ctx.sample({'stage': 'edit-pair', 'seed': pairs[0][0], 'prefix': pairs[0][1], 'tree': pairs[0][2]})

def probe_disagreement(ctx, stage, case):
    if stage == 'eid':
        bad = _tree_oracle((case['prefix'], case['tree']))
        if bad: ctx.failures.append(({'stage': 'eid', 'prefix': case['prefix'], 'tree': case['tree']}, bad))

CLASSIFIERS = {}

def replay(obj):
    case = obj.get('case') or (obj.get('disagreements') or [{}])[0].get('case')
    if not case:
        print('nothing to replay:', obj.get('broken_obligations')); return 1
    if case.get('stage') == 'edit-pair':
        r = _edit_pair((case['seed'], case['prefix'], case['tree'])); print(r[:2]); return 1 if r[0] == 'bad' else 0
    if 'text' in case:
        r = _doc_oracle((case['text'], case['root'], case.get('prefix', ''))); print(r); return 1 if (r[0] == 'ok' and r[1]) else 0
    bad = _tree_oracle((case['prefix'], case['tree']))
    a = impl.eid_rewrite((case['prefix'], case['tree'])); b = model.run([['eid', case['prefix'], case['tree']]])[0]
    print('impl == model:', a == b, ' oracle:', bad or 'ok'); return 1 if (bad or a != b) else 0

LEVEL_TEXT = ('Proof over the Gallina model, for every tree, prefix and generator state: every identified element\'s id is the prefix handed down '
              '(nearest identified ancestor\'s id, extended by __name for transparent containers) + "__" + abbreviation + "_" + number part '
              '(cleaned num | nn | positive position counter) followed only by _k suffixes (C08_naming_convention); and, partially, an id on an '
              'unsuffixed, own-numbered ancestor path is a function of the (name, num) labels along that path, hence stable under any edit that '
              'keeps the path (C08_path_determined_partial, C08_stable_under_edit_partial); the ids of a whole subtree depend on the generator state '
              'only through the keys under its prefix, so an edit elsewhere that leaves those counters alone leaves every id in the subtree '
              'alone (C08_subtree_ids_local); below every identified element every id extends that element\'s id by "__..." (C08_ids_nest); clashes are suffixed in document order: '
              'in the output of a run a numbered element carries its bare candidate unless an EARLIER id is built on that candidate (C08_clash_suffix_in_document_order), hence a provision '
              'uniquely numbered along its ancestor path has the id spelled by the names and numbers along the path (C08_path_determined) and two documents, however different, '
              'give it the same id (C08_stable_under_edit; instances of the first-asker rule are checked on every generated tree and document); ids decompose uniquely at underscores '
              '(C08_id_has_one_base, C08_candidate_determines_its_parts), so "uniquely numbered" can be spelled in names and numbers alone - no earlier element with the same handed-down prefix, '
              'abbreviation and number part - and still determines the id (C08_unique_numbering_determines_id, C08_unique_numbering_stable). The exact '
              'counter values are tied by the eid stage, the reference-computation oracle and the edit-pair search on the implementation.')
LEVEL_NOTE = 'Trusted base as C07. Partial: see ASSUMPTIONS in evidence; the exact suffix/counter values are tied by the eid stage only.'
TECHNIQUE = 'Rocq proof (induction over trees / ancestor paths) + differential run + reference-computation and edit-pair oracles'
