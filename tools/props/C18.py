"""C18 - A provision parsed alone equals the provision parsed in context."""
from harness import core, impl, model, gen, xmlsx, stages, eidlib

SYN = {'art': 'article', 'chap': 'chapter', 'para': 'paragraph', 'sec': 'section', 'subchap': 'subchapter', 'subpara': 'subparagraph', 'subsec': 'subsection'}

TRANSLATORS = ['parser', 'grammar', 'types', 'xml', 'libs']
LEVEL = 'proof'
RULE = ('e2e stage with fragment roots and prefixes (implementation vs extracted Gallina pipeline). Oracle: generated documents of numbered '
        'hierarchical provisions (unique numbers among siblings, any keyword, headings, subheadings, block content, lists, tables, nested '
        'provisions, crossheadings; no footnotes, quotes or attachments around the provision); for EVERY provision at every depth: its lines, '
        're-indented, parsed with root rule hier_element and the enclosing element\'s eId as prefix must serialise to exactly the subtree it '
        'has in the whole document. non-trivial = provision with >= 3 identified descendants; distinct by (document, provision).')
TRUSTED_BASE = [
    'Coq 8.16.1 kernel; no axioms',
    'hand models tied to the code by the e2e stage (including root rule hier_element with a prefix)',
    'translators; extraction + driver; Python document generator and oracle',
]
ASSUMPTIONS = ['equality of the ids INSIDE the provision and locality of the grammar are decided by the oracle, not yet theorems']

class NumSet(set):
    """the (element, cleaned num) pairs taken among one group of siblings, and the raw nums behind them"""
    def __init__(self):
        super().__init__(); self.raw = []

class Prov:
    def __init__(self, kw, num, heading, ind):
        self.kw, self.num, self.heading, self.ind = kw, num, heading, ind
        self.start = self.end = None

def gen_provisions(rng, W, ind, depth, out, provs, used_nums):
    kw = rng.choice(gen.HIER)
    while True:
        num = rng.choice(['1', '2', '3', '(a)', '(b)', '(i)', 'A', '1A', '2bis', '10.', '3.1', 'IV', '(A)', 'a', '1a', '(I)', 'iv', 'B', 'b', 'é', 'É',
                          # symbols that are neither word characters nor punctuation clean_num removes: they stay in the eId, so a prefix
                          # that is 'tidied' on its way in no longer matches the enclosing element (round 15)
                          '§5', '№3', '5°', '¶2', '€1', '1§2', '©'])
        key = (SYN.get(kw.lower(), kw.lower()), eidlib.clean_num_ref(num))
        if key not in used_nums: break
    used_nums.add(key)
    p = Prov(kw, num, None, ind)
    p.unique = True
    # now and then a provision that is NOT uniquely numbered - no num at all, or the num of an earlier sibling of the same kind: it is not
    # compared itself, but it is the parent whose eId (part_nn_1, sec_4_2) the provisions inside it get as prefix
    r0 = rng.random()
    if r0 < 0.10:
        p.num = num = None; p.unique = False; used_nums.discard(key)
    elif r0 < 0.18:
        prev = [k for k in used_nums.raw if k[0] == SYN.get(kw.lower(), kw.lower())]
        if prev:
            used_nums.discard(key); num = prev[-1][1]; p.num = num; p.unique = False
    if p.unique: used_nums.raw.append((SYN.get(kw.lower(), kw.lower()), num))
    p.start = len(out)
    # now and then an explicit eId in the source (the generator replaces it by the one derived from the number), and elsewhere
    # internal references to such ids: what they point at lies outside the provision that holds them
    line = '  ' * ind + kw + (rng.choice(['{eId commencement}', '{eId sec_99}', '{eId x}']) if rng.random() < 0.12 else '') + ((' ' + num) if num is not None else '')
    if rng.random() < 0.5: line += ' - ' + W.words(1, 3)
    out.append(line)
    if rng.random() < 0.2: out.append('  ' * (ind + 1) + 'SUBHEADING ' + W.words(1, 2))
    provs.append(p)
    n = rng.randint(0, 3)
    sub_used = NumSet()
    for _ in range(n):
        r = rng.random()
        if r < 0.07 and ('subparagraph', 'zz') not in sub_used:
            # a twin: the very same provision text under many parents of one document (a sub-paragraph quoted again and again) - parsed
            # alone each time with another prefix, in one process
            sub_used.add(('subparagraph', 'zz')); sub_used.raw.append(('subparagraph', '(zz)'))
            tw = Prov('SUBPARA', '(zz)', None, ind + 1); tw.unique = True; tw.start = len(out)
            out.append('  ' * (ind + 1) + 'SUBPARA (zz) - twin'); out.append('  ' * (ind + 2) + 'the twin provision'); tw.end = len(out)
            provs.append(tw)
        elif r < 0.45 and depth < 4:
            gen_provisions(rng, W, ind + 1, depth + 1, out, provs, sub_used)
        elif r < 0.55:
            out.append('  ' * (ind + 1) + 'CROSSHEADING ' + W.words(1, 2))
        elif r < 0.60:
            out.append('  ' * (ind + 1) + W.words(1, 2) + ' {{>#%s %s}} ' % (rng.choice(['commencement', 'sec_99', 'x', 'sec_1', 'nowhere']), W.words(1, 2)) + W.words(1, 2))
        elif r < 0.66:
            # the same inline constructs over and over, from a small pool, some spelled out with attributes and some bare: what one
            # occurrence carries (a title, a refersTo, a class) says nothing about another occurrence - in the same provision or elsewhere
            pool = ['{{abbr{title Akoma Ntoso} AKN}}', '{{abbr AKN}}', '{{abbr{title other} AKN}}', '{{term{refersTo #akn} AKN}}', '{{term AKN}}', '{{def AKN}}',
                    '{{def{refersTo #akn} AKN}}', '{{inline.x AKN}}', '{{inline AKN}}', '{{>#sec_1 AKN}}', '{{> AKN}}', '{{em AKN}}', '{{+{class new} AKN}}', '{{+ AKN}}',
                    '{{IMG logo.png AKN}}', '{{IMG logo.png}}', '{{*AKN}}', '**AKN**']
            out.append('  ' * (ind + 1) + ' '.join([W.words(1, 2)] + [rng.choice(pool) for _ in range(rng.randint(1, 3))] + [W.words(1, 2)]))
        elif r < 0.72:
            # footnotes that stay inside the provision: a reference always has its block right after its paragraph (so the nearest
            # matching block is its own, alone and in context); markers come from a small pool, so other provisions reuse them; and now
            # and then a block that nothing refers to, which stays behind as ordinary content - alone and in context
            m = rng.choice(['1', '2', '*'])
            if rng.random() < 0.7:
                out.append('  ' * (ind + 1) + W.words(1, 3) + ' {{FOOTNOTE %s}}' % m)
            out.append('  ' * (ind + 1) + 'FOOTNOTE ' + m); out.append('  ' * (ind + 2) + W.words(1, 3))
        elif r < 0.79:
            # the same BLOCK constructs over and over, from a small pool that the preface draws from too: the first long title / table /
            # list of a document is nothing special, neither is the second
            for l in rng.choice(BLOCK_POOL).split('\n'):
                out.append('  ' * (ind + 1) + l)
        else:
            # a block that really is a child of this provision: first line at the child's indentation,
            # and none of the constructs that carry document-wide state
            for _try in range(20):
                tmp = []
                gen.gen_block(rng, W, ind + 1, depth + 3, tmp, False)
                tmp = [l.replace('\x01', ' ') for l in tmp]      # (no multi-line remarks here: provisions are cut out line by line)
                first = tmp[0]
                if (len(first) - len(first.lstrip(' '))) == 2 * (ind + 1) and not any(('FOOTNOTE' in l or 'QUOTE' in l) for l in tmp):
                    out.extend(tmp); break
    p.end = len(out)

BLOCK_POOL = ['LONGTITLE To provide for the keeping of bees', 'LONGTITLE To provide for the keeping of bees', 'LONGTITLE another long title', 'CROSSHEADING Same heading', 'P.x the same paragraph',
              'ITEMS\n  ITEM (a)\n    same item', 'BULLETS\n  * same bullet', 'TABLE\n  TR\n    TC\n      same cell', 'BLOCKS\n  same block', 'the same plain paragraph']

def gen_case(rng):
    W = gen.Words(rng, False)
    out, provs = [], []
    if rng.random() < 0.3:
        out.append('PREFACE'); out.append('  ' + W.words())
        for _ in range(rng.randint(0, 2)):
            for l in rng.choice(BLOCK_POOL).split('\n'): out.append('  ' + l)
    if rng.random() < 0.5: out.append('BODY')
    used = NumSet()
    for _ in range(rng.randint(1, 3)):
        gen_provisions(rng, W, 0, 0, out, provs, used)
    return out, provs

def _oracle(args):
    seed, root, prefix = args
    import random
    from lxml import etree
    rng = random.Random(seed)
    lines, provs = gen_case(rng)
    # the author's indentation: every level has a width of its own (2, 3, 4 or 1 more than the level above), and now and then a tab stands
    # between two words - a provision cut out of the document keeps its lines as they are, less the margin of its first line
    steps = [0]
    for _ in range(40): steps.append(steps[-1] + rng.choice([2, 2, 2, 3, 4, 1]))
    def relayout(l):
        body = l.lstrip(' ')
        d = (len(l) - len(body)) // 2
        if body and rng.random() < 0.06 and ' ' in body[1:-1] and '{{' not in body and not body.startswith(('FOOTNOTE', 'SUBHEADING', 'CROSSHEADING', 'P', 'ITEM', 'TC', 'TH', 'TR')):
            i = body.index(' ', 1); body = body[:i] + '\t' + body[i + 1:] if body[:i].islower() else body
        return ' ' * steps[d] + body
    if seed % 3 == 0:
        lines = [relayout(l) for l in lines]
    else:
        steps = [2 * i for i in range(41)]
    text = '\n'.join(lines) + '\n'
    if 'QUOTE' in text:
        return ('skip', None, 0)
    p = impl.parser(prefix)
    try:
        xml = p.parse_to_xml(text, root)
    except Exception as e:
        return ('raised', impl.exc_kind(e), 0)
    ns = '{%s}' % xmlsx.NS
    hier = set(gen.HIER_TAGS)
    els = [e for e in xml.iter() if isinstance(e.tag, str) and xmlsx.local(e.tag) in hier and not any(xmlsx.local(a.tag) in ('embeddedStructure', 'attachment', 'authorialNote') for a in e.iterancestors())]
    if len(els) != len(provs):
        return ('skip', 'provision count mismatch', 0)
    checked = 0
    for pr, el in zip(provs, els):
        if not getattr(pr, 'unique', True): continue
        frag_lines = lines[pr.start:pr.end]
        frag = '\n'.join(l[steps[pr.ind]:] for l in frag_lines) + '\n'
        # prefix handed down: nearest identified ancestor's eId
        par = el.getparent()
        pfx = prefix
        while par is not None:
            if par.get('eId'):
                pfx = par.get('eId'); break
            par = par.getparent()
        try:
            alone = impl.parser(pfx).parse_to_xml(frag, 'hier_element')
        except Exception as e:
            return ('bad', 'fragment of %s %s raised %s' % (pr.kw, pr.num, impl.exc_kind(e)), checked, text, frag, pfx)
        a = etree.tostring(alone); b = etree.tostring(el, with_tail=False)
        if a != b:
            return ('bad', 'provision %s %s parsed alone differs from its subtree in the document' % (pr.kw, pr.num), checked, text, frag, pfx)
        checked += sum(1 for x in el.iter() if x.get('eId')) >= 3
    return ('ok', None, checked)

def correspondence(ctx):
    cs = []
    for _ in range(ctx.n(300, 10000)):
        root = ctx.rng.choice(['hier_element', 'hier_element', 'act', 'doc'])
        lines, provs = gen_case(ctx.rng)
        if root == 'hier_element':
            pr = ctx.rng.choice(provs)
            text = '\n'.join(l[2 * pr.ind:] for l in lines[pr.start:pr.end]) + '\n'
            cs.append((stages.URIS[0], root, ctx.rng.choice(['', 'sec_1', 'chp_2__part_A']), text))
        else:
            cs.append((stages.URIS[0], root, '', '\n'.join(lines) + '\n'))
    stages.stage_e2e(ctx, cs)

def search(ctx, budget):
    jobs = [(ctx.rng.randrange(1 << 30), ctx.rng.choice(['act', 'act', 'bill', 'doc', 'statement']), ctx.rng.choice(['', '', 'p_1']))
            for _ in range(ctx.n(500, 20000) * budget)]
    for j, r in zip(jobs, impl.pmap(_oracle, jobs, chunk=8)):
        ctx.evaluations += 1; ctx.count('docs_' + r[0])
        if r[0] == 'bad':
            ctx.failures.append(({'stage': 'fragment', 'seed': j[0], 'root': j[1], 'prefix': j[2], 'text': r[3], 'fragment': r[4], 'fragment_prefix': r[5]}, r[1]))
        elif r[0] == 'ok':
            ctx.count('provisions_nontrivial', r[2])
            if r[2] >= 1: ctx.nontrivial(j)
    for w in WITNESSES:
        ctx.evaluations += 1
        if not _witness(w):
            ctx.failures.append(({'stage': 'fragment', 'root': w[0], 'prefix': '', 'text': w[1], 'fragment': w[2], 'fragment_prefix': w[3], 'witness': True},
                                 'provision parsed alone differs from its subtree in the document'))
    ctx.sample({'seed': jobs[0][0], 'root': jobs[0][1], 'text': '\n'.join(gen_case(__import__('random').Random(jobs[0][0]))[0])[:500]})

def probe_disagreement(ctx, stage, case):
    pass

WITNESSES = [('act', 'SEC 1 - a\u3000\nSEC 2 - b\n', 'SEC 1 - a\u3000\n', '')]      # known finding F22

def _witness(args):
    root, text, frag, pfx = args
    from lxml import etree
    doc = impl.parser('').parse_to_xml(text, root)
    alone = impl.parser(pfx).parse_to_xml(frag, 'hier_element')
    for el in doc.iter(alone.tag):
        if el.get('eId') == alone.get('eId'):
            return etree.tostring(alone) == etree.tostring(el, with_tail=False)
    return False

def _edge_ws(case, desc):
    """the fragment begins or ends, layout aside, with whitespace that is not an ASCII space"""
    g = case.get('fragment', '').strip(' \n\t')
    return case.get('stage') == 'fragment' and g != g.strip()

CLASSIFIERS = {'edge_unicode_whitespace': _edge_ws}

def replay(obj):
    case = obj.get('case') or (obj.get('disagreements') or [{}])[0].get('case')
    if not case:
        print('nothing to replay:', obj.get('broken_obligations')); return 1
    if case.get('stage') == 'fragment' and case.get('witness'):
        ok = _witness((case['root'], case['text'], case['fragment'], case['fragment_prefix'])); print('same:', ok); return 0 if ok else 1
    if case.get('stage') == 'fragment':
        r = _oracle((case['seed'], case['root'], case['prefix'])); print(r[:2]); return 1 if r[0] == 'bad' else 0
    return 0 if stages.replay_stage(case) else 1

LEVEL_TEXT = ('Partial. Proved over the Gallina eId model: the provision\'s own id is the same in the whole document and in the fragment parsed with '
              'the enclosing element\'s eId as prefix whenever it is number-derived and unsuffixed in both, and every id inside the fragment follows '
              'the naming convention relative to that prefix; eId generation for a subtree reads and writes the generator only at keys under its '
              'prefix (C18_rewrite_is_local), so a provision that takes its number from its own num, rewritten in context from any generator state in '
              'which no key extends its id and rewritten alone from a fresh generator with the same prefix, is the same tree - its own id and every '
              'id inside it (C18_provision_ids_agree). That no earlier id of a document extends a later provision\'s id, and locality of the '
              'grammar, are decided by the fragment oracle on the implementation: every provision of '
              'generated documents, at every depth, re-parsed alone and compared byte for byte with its subtree; the pipeline model is tied to the '
              'code for root rule hier_element with prefixes by the e2e stage.')
LEVEL_NOTE = 'Trusted: Coq kernel; hand models tied by sampling; translators; extraction+driver.'
TECHNIQUE = 'Rocq proof (path-determined ids; frame/locality of the generator state by induction over trees) + differential run with fragment roots + exhaustive per-provision fragment oracle'
