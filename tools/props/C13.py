"""C13 - A backslash makes the next character literal, everywhere."""
import re, itertools
from harness import core, impl, model, gen, xmlsx, stages

TRANSLATORS = ['parser', 'grammar', 'types', 'xml', 'libs']
LEVEL = 'proof'
RULE = ('e2e and dict stages (implementation vs extracted Gallina pipeline) on escaped inputs. Oracle: single-line strings over an alphabet of every '
        'keyword, marker, brace, backslash, dash, dot, pipe, non-ASCII characters and invisible format characters (zero-width, BOM, soft hyphen, bidi marks), escaped character by character and placed in each text '
        'position (paragraph, list item, table cell, bullet, heading, subheading, num, crossheading, longtitle, bold/italic/underline, sup, sub, '
        'ref, remark, abbr/def/em/inline/term/ins/del, attachment heading): the text found at that position in the XML must be exactly the '
        'string, with no backslash other than escaped ones. non-trivial = string with >= 2 marker/keyword tokens; distinct by (position, string).')
TRUSTED_BASE = [
    'Coq 8.16.1 kernel; vm_compute for the three rule-body lemmas; no axioms',
    'rule-specific lemmas unfold inline, escape, non_inline_start of the grammar regenerated from akn.peg (a harmless grammar edit can break them)',
    'hand models tied to the code by the dict/e2e stages; extraction + driver; Python oracle',
]
ASSUMPTIONS = ['attribute-valued slots (href, src, alt, footnote marker, {attr value}) take raw text by the grammar: they are not text positions',
               'line level ("a fully escaped line is one paragraph") and the positions other than a run of inlines are decided by the oracle',
               'an escaped space at the very end of a line is stripped by pre_parse before the grammar sees it (known finding F9)']

ALPHA = gen.ALL_KEYWORDS + gen.INLINE_OPEN + ['a', 'b', 'foo', 'é', 'ש', '\U0001F600', ' ', ' ', '-', ' - ', '.', '|', '{', '}', '(a)', '1.', '\\', '\\\\', '*', '_', '/', 'x y',
                                               # characters that do not show: zero-width space/joiners, word joiner, BOM, soft hyphen, bidi marks, a combining accent
                                               # every ASCII punctuation character on its own (an escape must never give one a special meaning), some digits and letters
                                               ] + list('!"#$%&\'()*+,-./:;<=>?@[\\]^_`{|}~0159nrtuxNU') + [
                                               'a\u200bb', '\u200b', '\u2060', '\ufeff', '\u200d', '\u200c', '\u00ad', '\u200f', '\u202e', 'e\u0301',
                                               # things that look like the num / heading separator: typographic dashes, with and without blanks around them
                                               ' \u2013 ', ' \u2014 ', '\u2013', '\u2014', '1 \u2013 Head', ' -- ', ' \u2212 ', '\u2013 ', ' \u2014', ' \u2012 ', ' \u2015 ']

def rand_string(rng):
    while True:
        # keywords and markers keep their weight: two thirds of the picks come from them, the rest from the whole alphabet
        core = len(gen.ALL_KEYWORDS) + len(gen.INLINE_OPEN)
        s = ''.join(rng.choice(ALPHA[:core]) if rng.random() < 0.5 else rng.choice(ALPHA) for _ in range(rng.randint(1, 5)))
        s = s.strip()          # leading/trailing whitespace of a line is layout (C12); an escaped trailing space is F9
        if s and '\n' not in s:
            return s

def esc(s):
    return ''.join('\\' + c for c in s)

NS = '{%s}' % xmlsx.NS
POSITIONS = {
    'paragraph': (lambda e: e + '\n', lambda x: x.find('.//' + NS + 'p')),
    'list-item': (lambda e: 'ITEMS\n  ITEM (a)\n    ' + e + '\n', lambda x: x.find('.//' + NS + 'item/' + NS + 'p')),
    'table-cell': (lambda e: 'TABLE\n  TR\n    TC\n      ' + e + '\n', lambda x: x.find('.//' + NS + 'td/' + NS + 'p')),
    'bullet': (lambda e: 'BULLETS\n  * ' + e + '\n', lambda x: x.find('.//' + NS + 'li/' + NS + 'p')),
    'heading': (lambda e: 'SEC 1 - ' + e + '\n  x\n', lambda x: x.find('.//' + NS + 'section/' + NS + 'heading')),
    'subheading': (lambda e: 'SEC 1\n  SUBHEADING ' + e + '\n  x\n', lambda x: x.find('.//' + NS + 'section/' + NS + 'subheading')),
    'num': (lambda e: 'SEC ' + e + '\n  x\n', lambda x: x.find('.//' + NS + 'section/' + NS + 'num')),
    # the num is followed by more on the line, so an escaped space at its end is not at the line edge
    'num-then-heading': (lambda e: 'SEC ' + e + ' - \\H\n  x\n', lambda x: x.find('.//' + NS + 'section/' + NS + 'num')),
    'item-num-then-heading': (lambda e: 'ITEMS\n  ITEM ' + e + ' - h\n    x\n', lambda x: x.find('.//' + NS + 'item/' + NS + 'num')),
    'crossheading': (lambda e: 'CROSSHEADING ' + e + '\n', lambda x: x.find('.//' + NS + 'crossHeading')),
    'longtitle': (lambda e: 'PREFACE\n  LONGTITLE ' + e + '\nBODY\nx\n', lambda x: x.find('.//' + NS + 'longTitle/' + NS + 'p')),
    'bold': (lambda e: 'a **' + e + '** b\n', lambda x: x.find('.//' + NS + 'b')),
    'italics': (lambda e: 'a //' + e + '// b\n', lambda x: x.find('.//' + NS + 'i')),
    'underline': (lambda e: 'a __' + e + '__ b\n', lambda x: x.find('.//' + NS + 'u')),
    'sup': (lambda e: 'a {{^' + e + '}} b\n', lambda x: x.find('.//' + NS + 'sup')),
    'sub': (lambda e: 'a {{_' + e + '}} b\n', lambda x: x.find('.//' + NS + 'sub')),
    'ref': (lambda e: 'a {{>#h ' + e + '}} b\n', lambda x: x.find('.//' + NS + 'ref')),
    'remark': (lambda e: 'a {{*' + e + '}} b\n', lambda x: x.find('.//' + NS + 'remark')),
    'abbr': (lambda e: 'a {{abbr{title t} ' + e + '}} b\n', lambda x: x.find('.//' + NS + 'abbr')),
    'term': (lambda e: 'a {{term ' + e + '}} b\n', lambda x: x.find('.//' + NS + 'term')),
    'ins': (lambda e: 'a {{+ ' + e + '}} b\n', lambda x: x.find('.//' + NS + 'ins')),
    'del': (lambda e: 'a {{- ' + e + '}} b\n', lambda x: x.find('.//' + NS + 'del')),
    'em': (lambda e: 'a {{em ' + e + '}} b\n', lambda x: x.find('.//' + NS + 'inline')),
    'attachment-heading': (lambda e: 'x\nSCHEDULE ' + e + '\n  y\n', lambda x: x.find('.//' + NS + 'attachment/' + NS + 'heading')),
    # escaped text NEXT TO unescaped text of the same node: what stands before it (a dash that is no separator here, a word) is kept as it is,
    # and nothing of the escaped part is eaten with it
    'attachment-heading-after-dash': (lambda e: 'x\nSCHEDULE - ' + e + '\n  y\n', lambda x: x.find('.//' + NS + 'attachment/' + NS + 'heading'), lambda s: '- ' + s),
    'attachment-heading-after-word': (lambda e: 'x\nANNEXURE Forms ' + e + ' end\n  y\n', lambda x: x.find('.//' + NS + 'attachment/' + NS + 'heading'), lambda s: 'Forms ' + s + ' end'),
    'heading-between-words': (lambda e: 'SEC 1 - see ' + e + ' end\n  x\n', lambda x: x.find('.//' + NS + 'section/' + NS + 'heading'), lambda s: 'see ' + s + ' end'),
    'heading-after-dash': (lambda e: 'SEC 1 - - ' + e + '\n  x\n', lambda x: x.find('.//' + NS + 'section/' + NS + 'heading'), lambda s: '- ' + s),
    'crossheading-after-dash': (lambda e: 'CROSSHEADING - ' + e + '\n', lambda x: x.find('.//' + NS + 'crossHeading'), lambda s: '- ' + s),
    'subheading-after-dash': (lambda e: 'SEC 1\n  SUBHEADING - ' + e + '\n  x\n', lambda x: x.find('.//' + NS + 'section/' + NS + 'subheading'), lambda s: '- ' + s),
    'paragraph-between-words': (lambda e: 'start ' + e + ' end\n', lambda x: x.find('.//' + NS + 'p'), lambda s: 'start ' + s + ' end'),
    'speech-from': (None, None),
}
del POSITIONS['speech-from']

def _oracle(args):
    pos, s, root = args
    mk, find = POSITIONS[pos][:2]
    want = POSITIONS[pos][2](s) if len(POSITIONS[pos]) > 2 else s
    text = mk(esc(s))
    try:
        xml = impl.parser().parse_to_xml(text, root)
    except Exception as e:
        return ('bad', 'conversion raised %s' % impl.exc_kind(e), text)
    el = find(xml)
    if el is None:
        return ('bad', 'no element at position %s' % pos, text)
    got = ''.join(el.itertext())
    if len(el) != 0:
        return ('bad', 'escaped text became markup: <%s> inside' % xmlsx.local(el[0].tag), text)
    if got != want:
        return ('bad', 'text is %r, expected %r' % (got, want), text)
    return ('ok', None, text)

# ---- partial escapes around the num / heading separator ----
def ref_split(r):
    """r: what follows the keyword on the line (starts with a space) -> (num, heading | None), by the rule the grammar states, written
    independently of it: the num runs up to the first place - between two characters, an escape pair counting as one - where blanks, a
    dash and then either blanks with something after them or the line end follow; an escaped blank or dash is text"""
    def heading_at(k):
        m = re.match(r' +-(?: +(?=[^ \n])|$)', r[k:])
        return None if not m else r[k + m.end():]
    if heading_at(0) is not None:
        return None, heading_at(0)
    k = re.match(r' +', r).end()
    num = []
    while k < len(r):
        h = heading_at(k)
        if h is not None and num:
            return ''.join(num), h
        if r[k] == '\\' and k + 1 < len(r):
            num.append(r[k + 1]); k += 2
        else:
            num.append(r[k]); k += 1
    return ''.join(num), None

SEP_SHAPES = {'sec': ('SEC%s\n  x\n', 'section'), 'part': ('PART%s\n  SEC 1\n    x\n', 'part'), 'item': ('ITEMS\n  ITEM%s\n    x\n', 'item'),
              'para': ('SEC 1\n  PARA%s\n    x\n', 'paragraph')}
def separator_cases():
    out = []
    for w1, sep, w2 in itertools.product(['1', '(a)', 'a.b'], [' - ', ' -', '- ', '-', '  - ', ' -  ', ' - - '], ['foo', 'x y', '']):
        s = w1 + sep + w2
        idx = list(range(len(w1), len(w1) + len(sep)))
        for e in [()] + [(i,) for i in idx] + [(i, j) for i in idx for j in idx if i < j]:
            raw = ''.join(('\\' if i in e else '') + c for i, c in enumerate(s)).rstrip()
            if not raw.endswith('\\'):
                out.append(' ' + raw)
    return sorted(set(out))

def _sep_oracle(args):
    shape, r = args
    mk, tag = SEP_SHAPES[shape]
    text = mk % r
    try:
        x = impl.parser().parse_to_xml(text, 'act')
    except Exception as e:
        return ('bad', 'conversion raised %s' % impl.exc_kind(e), text)
    el = x.find('.//' + NS + tag)
    n, h = (el.find(NS + 'num'), el.find(NS + 'heading')) if el is not None else (None, None)
    got = (None if n is None else ''.join(n.itertext()), None if h is None else ''.join(h.itertext()))
    wn, wh = ref_split(r)
    wh = re.sub(r'\\(.)', r'\1', wh) if wh else None
    if got != (wn, wh):
        return ('bad', 'num / heading are %r, the separator rule gives %r' % (got, (wn, wh)), text)
    if (n is not None and len(n)) or (h is not None and len(h)):
        return ('bad', 'escaped text became markup inside num / heading', text)
    return ('ok', None, text)

# ---- instances of C13_escaped_hier_element_converts, run on the implementation ----
def _esc_he_oracle(args):
    uri, prefix, kw, n, h, t, k = args
    from harness import eidlib, absdoc
    text = '%s %s - %s\n%s%s\n' % (kw, n, esc(h), ' ' * k, esc(t))
    tag = absdoc.HIER[kw]
    G = eidlib.tables()
    cand = (prefix + '__' if prefix else '') + G.aliases.get(tag, tag) + '_' + eidlib.clean_num_ref(n)
    want = ['E', tag, [['eId', cand]], [['E', 'num', [], [['T', n]]], ['E', 'heading', [], [['T', h]]],
                                        ['E', 'content', [], [['E', 'p', [['eId', cand + '__p_1']], [['T', t]]]]]]]
    got = impl.e2e_sx((uri, 'hier_element', prefix, text))
    if got != want:
        return ('bad', 'C13_escaped_hier_element_converts predicts %r, the implementation gives %r' % (want, got), text)
    return ('ok', None, text)

# ---- instances of C13_escaped_crossheading_converts, run on the implementation ----
def _esc_ch_oracle(args):
    uri, prefix, t = args
    text = 'CROSSHEADING %s\n' % esc(t)
    want = ['E', 'crossHeading', [['eId', (prefix + '__' if prefix else '') + 'crossHeading_1']], [['T', t]]]
    got = impl.e2e_sx((uri, 'hier_element', prefix, text))
    if got != want:
        return ('bad', 'C13_escaped_crossheading_converts predicts %r, the implementation gives %r' % (want, got), text)
    return ('ok', None, text)

def esc_he_cases(ctx, n):
    from harness import absdoc
    kws = sorted(absdoc.HIER)
    out = [(stages.URIS[0], '', 'PART', '2', '**{{ SEC - \\ }}', 'PART 1 - //x// {{^', 2)]
    for i in range(n):
        h, t = rand_string(ctx.rng), rand_string(ctx.rng)
        if h[-1].isspace() or t[-1].isspace(): continue
        out.append((ctx.rng.choice(stages.URIS), ctx.rng.choice(stages.PREFIXES), kws[i % len(kws)], ctx.rng.choice(['1', '(a)', '3A.', 'IV', '1.2']), h, t, ctx.rng.randint(1, 5)))
    return out

INNER = ('num-then-heading', 'item-num-then-heading')     # positions that are not at the edge of a line: edge whitespace is payload there

LEADS = ['-', '- x', '\u2022 x', '\u2022', '* x', '\u2013 x', '\u2014 x', '\u00b7 x', '\u2023 x', '\u25e6 x', '1. x', '(a) x', '# x', '> x', '+ x', '-x', '\u2022x', '"x', '.x', ':x']

def cases(ctx, n):
    out = []
    names = sorted(POSITIONS)
    for _ in range(n):
        pos = ctx.rng.choice(names)
        s = rand_string(ctx.rng)
        if pos in INNER and ctx.rng.random() < 0.5:
            s = s + ctx.rng.choice([' ', '  ', '\u00a0'])
        out.append((pos, s, ctx.rng.choice(['act', 'act', 'doc', 'bill'])))
    # on every run, whatever the random stream does: every position x texts that begin like list markup in other notations (a dash, a
    # bullet glyph, a number, a quote mark) - escaped, they are the first characters of the text
    for pos in names:
        for s in LEADS:
            out.append((pos, s, 'act'))
    return out

def correspondence(ctx):
    cs = cases(ctx, ctx.n(1500, 50000))
    ctx._cases = cs
    docs = [(stages.URIS[0], root, '', POSITIONS[pos][0](esc(s))) for pos, s, root in cs[:ctx.n(600, 20000)]]
    stages.stage_e2e(ctx, docs)

def search(ctx, budget):
    cs = list(getattr(ctx, '_cases', [])) + (cases(ctx, ctx.n(1500, 50000) * (budget - 1)) if budget > 1 else [])
    # every atom of the alphabet on its own - keywords, markers, every ASCII punctuation character, the invisible characters - in every position
    for tok in sorted(set(ALPHA)):
        t = tok.strip()
        if t:
            for pos in sorted(POSITIONS):
                cs.append((pos, t, 'act'))
    cs.append(('paragraph', 'foo ', 'act'))     # witness of known finding F9
    for c, r in zip(cs, impl.pmap(_oracle, cs, chunk=32)):
        ctx.evaluations += 1; ctx.count('oracle_' + r[0]); ctx.count('pos_' + c[0])
        if r[0] == 'bad':
            ctx.failures.append(({'stage': 'escape', 'position': c[0], 'string': c[1], 'root': c[2], 'text': r[2]}, r[1]))
        elif sum(c[1].count(k) for k in ('**', '//', '{{', '}}', '__', 'PART', 'ITEM', 'TABLE', '\\')) >= 2:
            ctx.nontrivial((c[0], c[1]))
    ej = esc_he_cases(ctx, ctx.n(150, 5000) * budget)
    cj = [(j[0], j[1], j[5]) for j in ej]
    for j, r in zip(cj, impl.pmap(_esc_ch_oracle, cj, chunk=16)):
        ctx.evaluations += 1; ctx.count('escaped_crossheading_theorem_' + r[0])
        if r[0] == 'bad':
            ctx.failures.append(({'stage': 'esc-crossheading', 'args': list(j), 'text': r[2]}, r[1]))
    for j, r in zip(ej, impl.pmap(_esc_he_oracle, ej, chunk=16)):
        ctx.evaluations += 1; ctx.count('escaped_hier_element_theorem_' + r[0])
        if r[0] == 'bad':
            ctx.failures.append(({'stage': 'escaped-hier-element', 'args': list(j), 'text': r[2]}, r[1]))
    # escapes of single characters of the num / heading separator: an escaped blank or dash is text, the split moves accordingly
    sj = [(shape, r) for r in separator_cases() for shape in sorted(SEP_SHAPES)]
    for j, r in zip(sj, impl.pmap(_sep_oracle, sj, chunk=64)):
        ctx.evaluations += 1; ctx.count('separator_' + r[0])
        if r[0] == 'bad':
            ctx.failures.append(({'stage': 'separator', 'shape': j[0], 'line': j[1], 'text': r[2]}, r[1]))
    ctx.sample({'position': cs[0][0], 'string': cs[0][1], 'text': POSITIONS[cs[0][0]][0](esc(cs[0][1]))})

def probe_disagreement(ctx, stage, case):
    pass

def _trailing_space(case, desc):
    return case.get('string', '').endswith((' ', '\t'))

CLASSIFIERS = {'escaped_trailing_space': _trailing_space}

def replay(obj):
    case = obj.get('case') or (obj.get('disagreements') or [{}])[0].get('case')
    if not case:
        print('nothing to replay:', obj.get('broken_obligations')); return 1
    if case.get('stage') == 'escape':
        r = _oracle((case['position'], case['string'], case['root'])); print(r); return 1 if r[0] == 'bad' else 0
    if case.get('stage') == 'esc-crossheading':
        r = _esc_ch_oracle(tuple(case['args'])); print(r[:2]); return 1 if r[0] == 'bad' else 0
    if case.get('stage') == 'escaped-hier-element':
        r = _esc_he_oracle(tuple(case['args'])); print(r[:2]); return 1 if r[0] == 'bad' else 0
    if case.get('stage') == 'separator':
        r = _sep_oracle((case['shape'], case['line'])); print(r); return 1 if r[0] == 'bad' else 0
    return 0 if stages.replay_stage(case) else 1

LEVEL_TEXT = ('Proof on the grammar regenerated from akn.peg, for every non-empty string of scalar values without newline, every position and any '
              'sufficient fuel: inline+ on the character-by-character escaped string consumes exactly it and builds one (backslash, character) node '
              'per character, none of the ten inline markers (C13_escaped_inlines_parse), and the dict stage reads those nodes back as the single '
              'text node holding the string (C13_escaped_inlines_literal); at line level, hier_block_element on the escaped string up to the line end succeeds through rule line - every keyword block fails on the leading backslash - and to_dict gives a p whose only child is that text node: a fully escaped line is one paragraph with exactly that text (C13_escaped_line_is_paragraph); in headings, after the " - " separator, rule hier_element_heading_heading reads the escaped string the same way and the heading\'s dict is the single text node holding it (C13_escaped_heading_parses, C13_escaped_heading_literal); in numbers, rule hier_element_heading_num reads the escaped string after the keyword as one escape node per character and the num of the dict is the string itself (C13_escaped_num_parses, C13_escaped_num_literal); and through the WHOLE pipeline model: in a hierarchical element (34 keywords, any num, any indentation, every known URI and prefix) a heading and a content line written with every character escaped convert to exactly those characters, for every string without tab / line break that does not end in a blank (C13_escaped_hier_element_converts; instances run on the implementation), and the same for the text of a crossheading (C13_escaped_crossheading_converts; instances run on the implementation). The other positions (nested inlines, blocks) '
              'are decided by the oracle: every keyword and marker x every text position exhaustively, and random strings over that alphabet. '
              'Partial: the run-of-inlines, whole-line, heading and num positions are theorems; nested inline and block positions are decided by the oracle.')
LEVEL_NOTE = 'Trusted: Coq kernel (vm_compute on three rule bodies); hand models tied by sampling; translators; extraction+driver.'
TECHNIQUE = 'Rocq proof by symbolic execution of the PEG interpreter on the generated grammar + fuel monotonicity + exhaustive keyword x position oracle'
