"""C03 - No text is lost, duplicated or invented on the way to XML."""
import re, collections
from harness import core, impl, model, gen, xmlsx, stages

TRANSLATORS = ['parser', 'grammar', 'types', 'xml', 'libs']
LEVEL = 'proof'
RULE = ('dict and e2e stages (implementation vs extracted Gallina pipeline). Oracle: documents whose payload words are distinct tokens '
        '(ASCII, RTL, astral, accented), generated structured + mutated + token soup, 7 roots: the multiset of tokens of the input equals '
        'the multiset of tokens in the output body (text nodes + attribute values outside meta, ignoring eId and by); no other word appears '
        'in text nodes except the placeholders; token order is kept when the document has no footnote block; abstract documents with a prescribed tree (absdoc): the words of the '
        'output body, in order, are exactly the payload words - no keyword, marker or separator in keyword position shows up as text. non-trivial = >= 10 tokens; '
        'distinct by (root, text).')
TRUSTED_BASE = [
    'Coq 8.16.1 kernel; no axioms',
    'hand models (Peg.v, Types.v, XmlGen.v, Post.v) tied to the code by the dict/e2e stages',
    'translators; extraction + driver; Python oracle (token alphabet is the generator\'s)',
]
ASSUMPTIONS = ['the to_dict stage (parse tree -> dict) is covered by the stages and the oracle, not by a conservation theorem; the footnote-resolution theorem assumes the shape wfDx of its input (checked on the implementation by C14\'s oracle)',
               'a repeated attribute name in one {...} list keeps the later value only (by construction of the attribute dict)']

TOKEN = re.compile(r'(?:&amp;|&#38;|&lt;|&nbsp;|&copy;|%20)?(?:w|tok|ש|م|é|\U0001F600z|q|\U00020BB7z|\U000E0101z)\d+z')
PLACEHOLDER_WORDS = {'(content', 'missing)', 'FOOTNOTE'}

def _oracle(args):
    uri, root, prefix, text = args
    from bluebell.parser import AkomaNtosoParser
    from cobalt import FrbrUri
    try:
        xml = AkomaNtosoParser(FrbrUri.parse(uri), prefix).parse_to_xml(text, root)
    except Exception as e:
        return ('raised', impl.exc_kind(e), 0)
    ns = '{%s}' % xmlsx.NS
    # a backslash makes the next character literal: it is markup, not payload
    plain = re.sub(r'\\([^\n])', r'\1', text)
    want = collections.Counter(TOKEN.findall(plain))
    got = collections.Counter()
    order = []
    def walk(el):
        if el.tag == ns + 'meta': return
        for k, v in el.attrib.items():
            if k in ('eId', 'by'): continue
            # IMG src/alt and the href of {{>...}} are raw in the grammar ((!inline_close [^\n])*): a backslash
            # there is payload, not an escape, and stays in the value; tokens are compared without it
            if k in ('src', 'alt', 'href'): v = re.sub(r'\\([^\n])', r'\1', v)
            for t in TOKEN.findall(v): got[t] += 1
        if el.text:
            for t in TOKEN.findall(el.text): got[t] += 1; order.append(t)
        for c in el:
            if isinstance(c.tag, str): walk(c)
            if c.tail:
                for t in TOKEN.findall(c.tail): got[t] += 1; order.append(t)
    walk(xml)
    if got != want:
        lost = list((want - got).elements())[:3]; extra = list((got - want).elements())[:3]
        return ('bad', 'tokens lost %r, duplicated/invented %r' % (lost, extra), sum(want.values()))
    if 'FOOTNOTE' not in text:
        in_order = TOKEN.findall(plain)
        # attribute-valued tokens are not in `order`; compare the subsequence of text tokens
        textset = collections.Counter(order)
        seq_in = [t for t in in_order if textset[t] > 0]
        if sum(textset.values()) == len(seq_in) and all(c == 1 for c in textset.values()) and seq_in != order:
            return ('bad', 'token order changed', sum(want.values()))
    return ('ok', None, sum(want.values()))

def _pair_oracle(args):
    """documents in which every FOOTNOTE block has exactly one reference (before or after it): every word once, and no
    word of markup (FOOTNOTE, the placeholder) in the body"""
    seed, root = args
    import random
    from props import C14
    text, want = C14.pair_doc(random.Random(seed))
    try:
        xml = impl.parser().parse_to_xml(text, root)
    except Exception as e:
        return ('raised', impl.exc_kind(e), text)
    ns = '{%s}' % xmlsx.NS
    words = []
    for el in xml.iter():
        if el.tag == ns + 'meta' or any(a.tag == ns + 'meta' for a in el.iterancestors()): continue
        for t in (el.text, el.tail):
            if t: words += t.split()
    got = collections.Counter(w for w in words if re.fullmatch(r'[a-z]+\d+z', w))
    exp = collections.Counter(re.findall(r'[a-z]+\d+z', text))
    if got != exp:
        return ('bad', 'tokens lost %r, duplicated/invented %r' % (list((exp - got).elements())[:3], list((got - exp).elements())[:3]), text)
    extra = [w for w in words if w in ('FOOTNOTE', '(content', 'missing)')]
    if len(extra) != text.count('stray'):          # one FOOTNOTE word per unreferenced block that stays as content
        return ('bad', 'markup words in the body although every other footnote block is referenced: %r' % extra[:3], text)
    return ('ok', None, text)

def _spec_oracle(args):
    """abstract documents (tools/harness/absdoc.py: text + prescribed tree): the words of the output body, in order, are the
    words of the prescribed tree - every keyword in keyword position is markup, so no keyword, marker or separator shows up as a word"""
    seed, root, depth = args
    from props import C04
    d = C04.make(seed, root, depth)
    if d is None:
        return ('skip', None, None)
    text, exp = d[0], d[1]
    try:
        xml = impl.parser().parse_to_xml(text, root)
    except Exception as e:
        return ('raised', impl.exc_kind(e), text)
    ns = '{%s}' % xmlsx.NS
    def words(el, out):
        if el.tag == ns + 'meta': return out
        if el.text: out += el.text.split()
        for c in el:
            if isinstance(c.tag, str): words(c, out)
            if c.tail: out += c.tail.split()
        return out
    got, want = words(xml[0], []), words(exp, [])
    if got != want:
        i = next((i for i in range(min(len(got), len(want))) if got[i] != want[i]), min(len(got), len(want)))
        return ('bad', 'words of the body differ from the payload words at word %d: got %r, payload %r' % (i, got[max(0, i - 2):i + 4], want[max(0, i - 2):i + 4]), text)
    return ('ok', len(want), text)

def cases(ctx, n):
    out = []
    for _ in range(n):
        root = ctx.rng.choice(gen.ROOTS7)
        out.append((stages.URIS[0], root, ctx.rng.choice(stages.PREFIXES), gen.any_text(ctx.rng, root, unique=True)))
    return out

def attr_token_docs():
    """attribute values are payload too: on every construct that takes an attribute list, every attribute name the code gives a default or a
    meaning of its own (name, by, class, title, refersTo, status, startQuote ...) with distinct tokens as values - each token must come out
    exactly once, in the attribute the markup assigns it to or anywhere else, never be dropped in favour of a default"""
    names = ['name', 'class', 'title', 'refersTo', 'status', 'startQuote', 'period', 'for', 'as', 'language']      # (not by: it is derived for speech groups and compared nowhere)
    shapes = [('debate', 'DEBATESECTION%s 7 - tok90z\n  SPEECH\n    FROM tok91z\n    tok92z\n'), ('debate', 'DEBATESECTION\n  SPEECH%s\n    FROM tok91z\n    tok92z\n'),
              ('debate', 'ADDRESS%s\n  tok92z\n'), ('act', 'PART%s 1 - tok90z\n  tok92z\n'), ('act', 'SEC 1\n  P%s tok92z\n'), ('doc', 'ITEMS%s\n  ITEM%s (a)\n    tok92z\n'),
              ('doc', 'TABLE%s\n  TR%s\n    TC%s\n      tok92z\n'), ('statement', 'QUOTE%s\n  tok92z\n'), ('act', 'x\nSCHEDULE%s tok90z\n  tok92z\n'),
              ('act', 'CROSSHEADING%s tok90z\n'), ('doc', 'BLOCKS%s\n  tok92z\n'), ('doc', 'BULLETS%s\n  * tok92z\n'), ('judgment', 'INTRODUCTION%s\n  tok92z\n'),
              ('doc', 'tok92z {{abbr%s tok93z}} {{term%s tok94z}} {{inline%s tok95z}} {{+%s tok96z}}\n')]
    out = []
    for root, shape in shapes:
        k = shape.count('%s')
        for i in range(k):
            for a, nm in enumerate(names):
                at = '{%s tok%dz|%s tok%dz}' % (nm, 10 + a, names[(a + 3) % len(names)], 30 + a)
                out.append((stages.URIS[0], root, '', shape % tuple(at if j == i else '' for j in range(k))))
    # link and image targets are raw text: tokens of every script, reference-like and percent-like ones, in href / src / alt
    for k, base in enumerate(['w', '\u05e9', '\u0645', '\u00e9', '\U0001F600z', '\U00020BB7z', '&amp;w', '%20w', '&#38;w']):
        n = 40 + 4 * k
        for root in ('act', 'doc', 'judgment'):
            out.append((stages.URIS[0], root, '', 'tok1z {{>http://x.y/%s%dz tok2z}} {{IMG %s%dz.png %s%dz tok3z}} {{>#%s%dz}} tok4z\n' % (base, n, base, n + 1, base, n + 2, base, n + 3)))
    return out

def correspondence(ctx):
    cs = cases(ctx, ctx.n(700, 40000)) + attr_token_docs()
    ctx._docs = cs
    stages.stage_e2e(ctx, cs)
    p = impl.parser()
    stages.stage_dict(ctx, [(c[1], p.pre_parse(c[3])) for c in cs[:ctx.n(300, 10000)]])

def search(ctx, budget):
    pj = [(ctx.rng.randrange(1 << 30), ctx.rng.choice(gen.ROOTS6)) for _ in range(ctx.n(300, 10000) * budget)]
    for j, r in zip(pj, impl.pmap(_pair_oracle, pj, chunk=16)):
        ctx.evaluations += 1; ctx.count('footnote_pairs_' + r[0])
        if r[0] == 'bad':
            ctx.failures.append(({'stage': 'pairs', 'seed': j[0], 'root': j[1], 'text': r[2]}, r[1]))
    sj = [(ctx.rng.randrange(1 << 30), ctx.rng.choice(gen.ROOTS7), ctx.rng.choice([3, 4, 4, 5])) for _ in range(ctx.n(400, 15000) * budget)]
    for j, r in zip(sj, impl.pmap(_spec_oracle, sj, chunk=8)):
        ctx.evaluations += 1; ctx.count('spec_words_' + r[0])
        if r[0] == 'bad':
            ctx.failures.append(({'stage': 'spec-words', 'seed': j[0], 'root': j[1], 'depth': j[2], 'text': r[2]}, r[1]))
    cs = list(getattr(ctx, '_docs', [])) + (cases(ctx, ctx.n(700, 40000) * (budget - 1)) if budget > 1 else [])
    cs.append((stages.URIS[0], 'debateReport', '', '} SUBRULE\n  w1z\nw2z\n      COMMUNICATION\nATTACHMENT RESOLUTIONS م3z{{*BACKGROUND  - \n      tok4z -  😀z5z{{em\n    ANNEXURE\n      م6z ש7z\n      PREFACE\n  ש8z'))      # witness of known finding F20
    for c, r in zip(cs, impl.pmap(_oracle, cs, chunk=8)):
        ctx.evaluations += 1; ctx.count('oracle_' + r[0])
        if r[0] == 'bad':
            ctx.failures.append(({'stage': 'e2e', 'uri': c[0], 'root': c[1], 'prefix': c[2], 'text': c[3]}, r[1]))
        elif r[0] == 'ok' and r[2] >= 10:
            ctx.nontrivial((c[1], c[3]))
    ctx.sample({'root': cs[0][1], 'text': cs[0][3][:500]})

def probe_disagreement(ctx, stage, case):
    if stage == 'e2e':
        r = _oracle((case['uri'], case['root'], case['prefix'], case['text']))
        if r[0] == 'bad': ctx.failures.append((dict(case, stage='e2e'), r[1]))

def _nested_att(case, desc):
    return desc == 'token order changed' and re.search(r'^[ \t]+(ATTACHMENT|APPENDIX|SCHEDULE|ANNEXURE)\b', case.get('text', ''), re.M) is not None

CLASSIFIERS = {'nested_attachment_reordered': _nested_att}

def replay(obj):
    case = obj.get('case') or (obj.get('disagreements') or [{}])[0].get('case')
    if not case:
        print('nothing to replay:', obj.get('broken_obligations')); return 1
    if case.get('stage') == 'spec-words':
        r = _spec_oracle((case['seed'], case['root'], case['depth'])); print(r[:2]); return 1 if r[0] == 'bad' else 0
    if case.get('stage') == 'pairs':
        r = _pair_oracle((case['seed'], case['root'])); print(r[:2]); return 1 if r[0] == 'bad' else 0
    ok = stages.replay_stage(case)
    if 'uri' in case:
        r = _oracle((case['uri'], case['root'], case['prefix'], case['text'])); print('oracle:', r)
        return 1 if (r[0] == 'bad' or ok is False) else 0
    return 0 if ok else 1

LEVEL_TEXT = ('Proof over the Gallina pipeline model: (grammar stage, any grammar) a match consumes a prefix and its node spans exactly that prefix; '
              'an accepted tree covers the whole pre-parsed text; (XML stage) for EVERY dict tree the text nodes of the generated XML, in order, '
              'are exactly the text values and nums read from the dict - nothing lost, duplicated, reordered or invented; eId generation and '
              '(under a stated no-tail condition) normalisation keep all text; footnote resolution keeps every element that is not an internal '
              'placeholder block, with its attributes and its direct text, exactly once (C03_footnote_resolution_keeps_content, for trees of the '
              'builder\'s shape) (C03_* theorems); and through the WHOLE pipeline model, to_dict included, for nests of hierarchical elements of any depth: the text nodes of the converted document, in order, are exactly the nums, headings and the line as written (C03_nest_conversion_keeps_text). Partial: conservation through to_dict for other shapes is decided by the unique-token oracle on the '
              'implementation and by the dict/e2e stages.')
LEVEL_NOTE = 'Trusted: Coq kernel; hand models tied by sampling; translators; extraction+driver.'
TECHNIQUE = 'Rocq proofs (span invariant of the PEG interpreter; list-equality induction over the XML builder) + differential run + unique-token oracle'
