"""C02 - Output always validates against the Akoma Ntoso 3.0 schema."""
import re, collections
from harness import core, impl, model, gen, xmlsx, stages

TRANSLATORS = ['parser', 'grammar', 'types', 'xml', 'libs']
LEVEL = 'proof'
RULE = ('e2e stage (implementation vs extracted Gallina pipeline) on generated documents whose explicit attribute lists only use '
        'schema-permitted attributes (class, title) ; oracle: lxml validation of every successful conversion against cobalt\'s lenient AKN 3.0 XSD, '
        '7 roots; a failure is identified by (offending element, its parent, kind of error) and compared with the committed families of known '
        'findings. non-trivial = valid document with >= 8 elements outside meta; distinct by (root, text).')
TRUSTED_BASE = [
    'Coq 8.16.1 kernel; no axioms',
    'hand models tied to the code by the e2e stage; the XSD and lxml\'s validator are outside the model (oracle only)',
    'translators; extraction + driver',
]
ASSUMPTIONS = ['whole-schema validity is not a theorem: the proved part is the wrapper structure the generator is responsible for (see theorems); '
               'the rest is decided by validating implementation output',
               'attribute lists are drawn from attributes the schema allows everywhere (class, title): the property\'s proviso']

def safe_attrs(rng, W, p=0.15):
    if rng.random() > p: return ''
    s = ''
    for _ in range(rng.randint(0, 2)): s += '.' + rng.choice(['cls', 'a', 'b-c', 'x1'])
    if rng.random() < 0.5:
        s += '{' + rng.choice(['class v', 'class a b', 'title t', 'class v|title t']) + '}'
    return s

HIER = set(gen.HIER_TAGS)
SPEECH = {'address', 'adjournment', 'administrationOfOath', 'communication', 'debateSection', 'declarationOfVote', 'ministerialStatements',
          'nationalInterest', 'noticesOfMotion', 'oralStatements', 'papers', 'personalStatements', 'petitions', 'pointOfOrder', 'prayers',
          'proceduralMotions', 'questions', 'resolutions', 'rollCall', 'writtenStatements', 'speechGroup', 'speech', 'question', 'answer',
          'scene', 'narrative', 'summary'}
EMPTYABLE = {'item', 'embeddedStructure', 'blockContainer', 'mainBody', 'introduction', 'background', 'arguments', 'remedies', 'motivation',
             'decision', 'conclusions', 'preamble', 'preface', 'authorialNote', 'li', 'td', 'th', 'body', 'intro', 'wrapUp', 'hcontainer',
             'debateSection', 'block', 'attachment', 'doc', 'listIntroduction', 'listWrapUp'}
BLOCKISH_PARENTS = {'preface', 'preamble', 'conclusions', 'item', 'content', 'intro', 'wrapUp', 'th', 'td', 'blockContainer', 'li',
                    'authorialNote', 'embeddedStructure', 'mainBody', 'introduction', 'background', 'arguments', 'remedies', 'motivation', 'decision',
                    'listIntroduction', 'listWrapUp', 'p', 'heading', 'subheading'}

def all_errors(xml, text=None):
    """every distinct (element, parent, kind) the validator reports, in order"""
    from cobalt.schemas import get_schema
    schema = get_schema('http://docs.oasis-open.org/legaldocml/ns/akn/3.0', False)
    if schema(xml):
        return []
    out = []
    for e in schema.error_log:
        t = _triple(xml, e, text)
        if t not in out: out.append(t)
    return out

def first_error(xml):
    errs = all_errors(xml)
    return errs[0] if errs else None

def _triple(xml, e, text=None):
    msg = re.sub(r"\{http[^}]*\}", "", str(e.message))
    m = re.match(r"Element '([^']+)'(?:, attribute '([^']+)')?: (.*)", msg)
    if not m:
        return ('?', None, msg[:60])
    el, attr, rest = m.groups()
    kind = 'not-expected' if 'not expected' in rest else 'missing-child' if 'Missing child' in rest else ('attr:' + str(attr)) if attr else rest[:40]
    parent = None
    try:
        node = xml.xpath(e.path) if e.path else None
        if node and node[0].getparent() is not None:
            parent = node[0].getparent().tag.split('}')[1]
        # an attribute inside a meta block is never the author's: bluebell (and cobalt) write every one of them
        if node and attr and any(a.tag.split('}')[-1] == 'meta' for a in node[0].iterancestors()):
            kind = 'meta-' + kind
        # ... and an attribute whose value stands nowhere in the text (`{name value}`, a link target, an image source) is not the author's either
        elif node and attr and text is not None and node[0].get(attr) is not None and ((node[0].get(attr).strip() == '' and not re.search(r'[{|]\s*' + re.escape(attr) + r'\s*[|}]', text)) or node[0].get(attr).strip() not in text):
            kind = 'changed-' + kind
    except Exception:
        pass
    return (el, parent, kind)

def _oracle(args):
    uri, root, prefix, text = args
    from bluebell.parser import AkomaNtosoParser
    from cobalt import FrbrUri
    try:
        xml = AkomaNtosoParser(FrbrUri.parse(uri), prefix).parse_to_xml(text, root)
    except Exception as e:
        return ('raised', impl.exc_kind(e), 0)
    errs = all_errors(xml, text)
    n = sum(1 for _ in xml.iter()) - 25
    # attributes written in the markup that the schema does not allow, or of the wrong type, are outside the property;
    # the by attribute that bluebell derives itself is not
    # (nor are the attributes bluebell computes itself - eId, name, status, placement - when the text never names them; the values of
    # href, src, alt, marker, refersTo, title come from the markup - a link target that is no URI is the author's)
    errs = [e for e in errs if not e[2].startswith('attr:') or (e[2] == 'attr:by' and '{by' not in text and 'by ' not in text)
            or (e[2][5:] in ('eId', 'name', 'status', 'placement') and e[2][5:] not in text)]
    if not errs:
        return ('ok', None, n)
    return ('bad', errs, n)

def repeat_docs(ctx, n):
    """a hierarchical element whose children are hierarchical elements (or crossheadings) with plain lines before, between and after
    them, the lines drawn from a pool of three so that the same line often occurs in several runs: the grouping into intro / hcontainer /
    wrapUp must follow position, not content"""
    out = []
    for _ in range(n):
        pool = ctx.rng.sample(['or', 'and', 'Subject to this Act:', 'provided that', '(content)'], 3)
        kw, sub = ctx.rng.choice([('SEC', 'SUBSEC'), ('PART', 'SEC'), ('PARA', 'SUBPARA'), ('CHAPTER', 'CROSSHEADING')])
        lines = [kw + ' 1. - Offences']
        for k in range(ctx.rng.randint(1, 3)):
            for _ in range(ctx.rng.choice([0, 1, 1, 2])): lines.append('  ' + ctx.rng.choice(pool))
            lines.append('  ' + sub + (' (%s)' % 'abc'[k] if sub != 'CROSSHEADING' else ' heading %d' % k))
            if sub != 'CROSSHEADING': lines.append('    ' + ctx.rng.choice(['a fine;', 'imprisonment;'] + pool))
        for _ in range(ctx.rng.choice([0, 1, 1, 2])): lines.append('  ' + ctx.rng.choice(pool))
        out.append((stages.URIS[0], ctx.rng.choice(gen.ROOTS6), '', '\n'.join(lines) + '\n'))
    return out

def cases(ctx, n):
    old = gen.gen_attrs
    gen.gen_attrs = safe_attrs
    try:
        out = []
        for _ in range(n):
            root = ctx.rng.choice(gen.ROOTS7)
            t = gen.any_text(ctx.rng, root)
            r = ctx.rng.random()
            # line endings: the whole text with Windows line ends, or a carriage return at the end of some lines (the grammar splits at \n only,
            # so the \r becomes the last character of a num, a heading, a text - and XSD whitespace where an id is derived from it)
            if r < 0.06: t = t.replace('\n', '\r\n')
            elif r < 0.10: t = '\n'.join(l + ('\r' if l.strip() and ctx.rng.random() < 0.3 else '') for l in t.split('\n'))
            out.append((stages.URIS[0], root, ctx.rng.choice(stages.PREFIXES), t))
        for root in gen.ROOTS7:
            for t in ('SEC 1\r\n  text\r\n', 'PART A\r\n  SEC 1.\r\n    SUBSEC (a)\r\n      x\r\n', 'DEBATESECTION 1\r\n  SPEECH\r\n    FROM a\r\n    x\r\n',
                      'ITEMS\r\n  ITEM (a)\r\n    x\r\n', 'SCHEDULE\r\n  PARA 1\r\n    x\r\n'):
                out.append((stages.URIS[0], root, '', t))
        # speech groups that stop after their FROM line (with and without num, heading, subheading, attributes; alone, first, last):
        # the schema wants a block after <from>, and nothing in the dict or XML stage would add one
        for kw in ('SPEECH', 'QUESTION', 'ANSWER', 'SPEECHGROUP'):
            for head in ('', ' 1', ' 2 - Heading', '.cls', '{refersTo #x}'):
                for sub in ('', '    SUBHEADING sub\n'):
                    g = '  %s%s\n%s    FROM THE PRESIDENT\n' % (kw, head, sub)
                    for doc in ('DEBATESECTION\n' + g, 'DEBATESECTION\n' + g + '  SPEECH\n    FROM b\n    words\n', 'DEBATESECTION\n  SPEECH\n    FROM a\n    words\n' + g,
                                'DEBATESECTION\n' + g + '  SCENE\n    applause\n'):
                        out.append((stages.URIS[0], 'debate', '', doc))
        # references whose FOOTNOTE block is nowhere to be found (two or more in one document, same and different markers, in text / heading / table)
        for root in gen.ROOTS7:
            for t in ('SEC 1. - Definitions\n  a vertebrate{{FOOTNOTE 1}} other than a human{{FOOTNOTE 2}}.\n', 'x {{FOOTNOTE a}}\ny {{FOOTNOTE a}}\nz {{FOOTNOTE b}}\n',
                      'PART 1 - Heading {{FOOTNOTE *}}\n  SEC 1 - Other {{FOOTNOTE **}}\n    x {{FOOTNOTE *}}\n', 'TABLE\n  TR\n    TC\n      a {{FOOTNOTE 1}}\n    TC\n      b {{FOOTNOTE 2}}\n'):
                out.append((stages.URIS[0], root, '', t))
        return out + repeat_docs(ctx, max(40, n // 20))
    finally:
        gen.gen_attrs = old

WITNESSES = [('act', 'LONGTITLE x\n'), ('act', 'BULLETS\n  * a\n    ITEMS\n      ITEM 1\n        x\n'), ('act', 'ITEMS\n  ITEM 1\n    LONGTITLE\n'),
             ('doc', 'QUOTE\n  CROSSHEADING x\n'), ('debate', 'DEBATESECTION\n  plain\n'), ('doc', 'QUOTE\n  CROSSHEADING\n'),
             ('act', 'x {{FOOTNOTE 2}} {{FOOTNOTE 1}}\nFOOTNOTE 2\n  FOOTNOTE 1\n    y\n'), ('debate', 'SPEECH\n  FROM a\n  SPEECH\n    FROM b\n    x\n'),
             ('act', 'PREFACE\n  QUOTE\n    PART 1\n      x\n  PARA 1\n'),
             # containers whose only content are footnote blocks that are all referenced from elsewhere
             ('act', 'BODY\n  SEC 1\n    x {{FOOTNOTE 1}}\n  SEC 2\n    y {{FOOTNOTE 2}}\nCONCLUSIONS\n  FOOTNOTE 1\n    one\n  FOOTNOTE 2\n    two\n'),
             ('doc', 'PREFACE\n  FOOTNOTE a\n    note\nBODY\n  x {{FOOTNOTE a}}\n'), ('statement', 'PREAMBLE\n  FOOTNOTE a\n    note\nBODY\n  x {{FOOTNOTE a}}\n'),
             ('bill', 'BODY\n  x {{FOOTNOTE a}}\nCONCLUSIONS\n  FOOTNOTE a\n    note\n')]

# FRBR URIs in every shape the convention has: the meta block (and each attachment's) is built from it
FRBR_URIS = ['/akn/za/act/2009/10', '/akn/za/act/2009/10/eng', '/akn/za/act/2009/10/eng@2012-04-26', '/akn/za/act/2009/10/eng:2012-04-26', '/akn/za/act/2009/10/eng@',
             '/akn/za/act/2009/10/eng:', '/akn/za/act/2009/10/eng@2012-04', '/akn/za/act/2009/10/eng@2012', '/akn/za/act/2009/10/eng@2012-04-26/!main~chp_2',
             '/akn/za/act/2009/10/!schedule_1', '/akn/za-cpt/act/by-law/2010/public-places/afr@2021-01-01', '/akn/za/act/gn/2020/R1234', '/akn/za/judgment/ZACC/2022/15/eng@2022-03-01',
             '/akn/na/act/p/1990-03-21/1', '/akn/za/doc/policy/doj/2015-06-01/white-paper', '/akn/un/statement/deliberation/unga/2011-03-09/65-251/fra@']
URI_TEXTS = {'act': 'SEC 1. - Title\n\n  Some text.\n\nSCHEDULE - One\n  x\n', 'debate': 'DEBATESECTION\n  SPEECH\n    FROM a\n    words\n',
             'judgment': 'INTRODUCTION\n  x\nSCHEDULE\n  y\n'}
def explicit_attr_cases():
    """schema-permitted attributes with valid values, written explicitly on the constructs that take an attribute list - among them eId on
    elements that bluebell itself never numbers (cells, inlines)"""
    out = []
    shapes = ['SEC 1.\n  TABLE%s\n    TR\n      TC%s\n        x\n      TH%s\n        h\n', 'x {{abbr%s AKN}} {{inline%s i}} {{em%s e}} {{+%s a}} {{-%s d}} {{term%s t}} {{def%s d}}\n',
              'SEC%s 1. - h\n  P%s text\n  CROSSHEADING%s c\n  ITEMS%s\n    ITEM%s (a)\n      x\n  QUOTE%s\n    q\n  BLOCKS%s\n    b\n  BULLETS%s\n    * x\n']
    for at in ('{eId cell-a}', '{eId x_1|title t}', '{title t}', '{class c}', '{status removed}', '{wId w1}', '{GUID g1}', '{refersTo #x}', '{period #p}', '{alternativeTo a1}', '{style color: red}', '{lang fr}'):
        for shape in shapes:
            k = shape.count('%s')
            for i in range(k):
                for root in ('act', 'judgment', 'statement'):
                    out.append((stages.URIS[0], root, '', shape % tuple(at if j == i else '' for j in range(k))))
    for root in gen.ROOTS7:
        out.append((stages.URIS[0], root, '', 'DEBATESECTION\n  SPEECH\n    FROM a\n    an {{em{eId em-1} order}}\n' if root == 'debate' else 'x {{em{eId em-1} order}}\n'))
    return out

def uri_cases():
    return [(u, root, '', URI_TEXTS.get(root, URI_TEXTS['act'])) for u in FRBR_URIS for root in gen.ROOTS7]

def correspondence(ctx):
    cs = cases(ctx, ctx.n(700, 40000)) + [(stages.URIS[0], r, '', t) for r, t in WITNESSES]
    ctx._docs = cs
    stages.stage_e2e(ctx, cs)

def search(ctx, budget):
    cs = list(getattr(ctx, '_docs', [])) + (cases(ctx, ctx.n(700, 40000) * (budget - 1)) if budget > 1 else []) + uri_cases() + explicit_attr_cases()
    for c, r in zip(cs, impl.pmap(_oracle, cs, chunk=8)):
        ctx.evaluations += 1; ctx.count('oracle_' + r[0])
        if r[0] == 'bad':
            for err in r[1]:        # every reported error is classified on its own: a listed finding does not hide another defect in the same document
                ctx.failures.append(({'stage': 'e2e', 'uri': c[0], 'root': c[1], 'prefix': c[2], 'text': c[3], 'error': list(err)},
                                     'schema-invalid: element %s under %s: %s' % tuple(err)))
        elif r[0] == 'ok' and r[2] >= 8:
            ctx.nontrivial((c[1], c[3]))
    ctx.sample({'root': cs[0][1], 'text': cs[0][3][:500]})

def probe_disagreement(ctx, stage, case):
    if stage == 'e2e':
        r = _oracle((case['uri'], case['root'], case['prefix'], case['text']))
        if r[0] == 'bad':
            for err in r[1]:
                ctx.failures.append((dict(case, stage='e2e', error=list(err)), 'schema-invalid: element %s under %s: %s' % tuple(err)))

def _footnote_surplus(case):
    """does the text hold a FOOTNOTE block that no reference can take?  (more blocks than references for some marker, counting a
    reference inside a block of its own marker as unable to take it) - computed on the parser's own dict tree"""
    try:
        d = impl.parser().parse(case['text'], case['root']).to_dict()
    except Exception:
        return True
    blocks, refs = collections.Counter(), collections.Counter()
    def walk(n, inside):
        at = n.get('attribs') or {}
        if n.get('name') == 'displaced':
            m = at.get('marker'); blocks[m] += 1; inside = inside | {m}
        elif at.get('displaced') == 'footnote':
            if at.get('marker') not in inside: refs[at.get('marker')] += 1
        for key in ('heading', 'subheading', 'from', 'children'):
            for k in n.get(key, []) or []:
                if isinstance(k, dict): walk(k, inside)
    walk(d, frozenset())
    return any(blocks[m] > refs[m] for m in blocks)

def _empty_notes_have_blocks(case):
    """an authorialNote is only ever left empty when it took a FOOTNOTE block (whose content was empty, was emptied by normalisation, or
    was itself taken by a reference nested in it): per marker, no more empty notes in the output than FOOTNOTE blocks in the dict tree.
    A note whose reference found no block gets the '(content missing)' paragraph and is never empty"""
    try:
        p = impl.parser()
        d = p.parse(case['text'], case['root']).to_dict()
        from cobalt import FrbrUri
        from bluebell.parser import AkomaNtosoParser
        xml = AkomaNtosoParser(FrbrUri.parse(case['uri']), case['prefix']).parse_to_xml(case['text'], case['root'])
    except Exception:
        return False
    blocks, empty = collections.Counter(), collections.Counter()
    def walk(n):
        if n.get('name') == 'displaced': blocks[(n.get('attribs') or {}).get('marker')] += 1
        for key in ('heading', 'subheading', 'from', 'children'):
            for k in n.get(key, []) or []:
                if isinstance(k, dict): walk(k)
    walk(d)
    for a in xml.iter('{*}authorialNote'):
        if len(a) == 0: empty[a.get('marker')] += 1
    return all(empty[m] <= blocks[m] for m in empty)

def _err(case):
    e = case.get('error') or ['?', None, '?']
    return e[0], e[1], e[2]

CLASSIFIERS = {
    'longtitle_misplaced': lambda c, d: _err(c)[0] == 'longTitle' and _err(c)[2] == 'not-expected',
    'block_content_in_bullet_item': lambda c, d: _err(c)[1] == 'li' and _err(c)[2] == 'not-expected',
    # preface/preamble/conclusions are removed by normalise() when empty; they are only left empty when the thing that
    # emptied them is removed in the same pass: an empty LONGTITLE or CROSSHEADING line in the input
    'emptied_container': lambda c, d: _err(c)[2] == 'missing-child' and (
        (_err(c)[0] in EMPTYABLE and (_err(c)[0] not in ('preface', 'preamble', 'conclusions')
                                      or re.search(r'^[ \t]*(LONGTITLE|CROSSHEADING)[ \t]*$', c.get('text', ''), re.M) is not None)
         and (_err(c)[0] != 'authorialNote' or _empty_notes_have_blocks(c)))
        # a speech container or group whose only content was a FOOTNOTE block that a reference took
        or (_err(c)[0] in SPEECH and 'FOOTNOTE' in c.get('text', ''))),
    'crossheading_misplaced': lambda c, d: _err(c)[0] == 'crossHeading' and _err(c)[2] == 'not-expected',
    # a p in a list introduction / wrap-up only comes from a FOOTNOTE block that stays behind there: one no reference can take
    'paragraph_misplaced': lambda c, d: _err(c)[0] == 'p' and _err(c)[2] == 'not-expected' and (
        _err(c)[1] in ({'debateBody'} | SPEECH) or (_err(c)[1] in ('listWrapUp', 'listIntroduction') and _footnote_surplus(c))),
    'speech_nesting': lambda c, d: _err(c)[0] in SPEECH and _err(c)[2] == 'not-expected',
    # ... from a QUOTE, or from a FOOTNOTE block that stays behind (one no reference can take)
    'hier_in_block_context': lambda c, d: _err(c)[0] in HIER and _err(c)[2] == 'not-expected' and _err(c)[1] in (BLOCKISH_PARENTS | SPEECH)
                                          and ('QUOTE' in c.get('text', '') or 'FOOTNOTE' not in c.get('text', '') or _footnote_surplus(c)),
    'from_in_speechgroup': lambda c, d: _err(c) == ('from', 'speechGroup', 'not-expected'),
}

def replay(obj):
    case = obj.get('case') or (obj.get('disagreements') or [{}])[0].get('case')
    if not case:
        print('nothing to replay:', obj.get('broken_obligations')); return 1
    ok = stages.replay_stage(case)
    r = _oracle((case['uri'], case['root'], case['prefix'], case['text'])); print('oracle:', r)
    return 1 if (r[0] == 'bad' or ok is False) else 0

LEVEL_TEXT = ('Partial. Proved over the Gallina model, for EVERY dict tree: block elements are never empty; an attachment is heading? subheading? doc with '
              'the nested doc starting with its own meta; elements are built exactly from XML-legal names and characters (C02_* theorems). '
              'Whole-schema validity is not a theorem and is FALSE of the code as it stands: the oracle validates every successful conversion of '
              'generated documents (schema-permitted attributes only) with lxml against cobalt\'s lenient XSD and classifies each failure by '
              '(offending element, parent, kind of error) into eight committed families of known findings (LONGTITLE outside a preface, block '
              'content in a bullet item, containers emptied by normalisation, misplaced crossHeading, paragraphs directly in debate/list wrap-up, '
              'speech nesting, hierarchical elements in block contexts, FROM in a SPEECHGROUP); anything else is a violation. The generator is '
              'tied to the model by the e2e stage.')
LEVEL_NOTE = ('Trusted: Coq kernel; hand models tied by sampling; the XSD and lxml\'s validator (oracle only, outside the model); translators; '
              'extraction+driver. One family was repaired (fix: commit b4f153e: speechGroup/nationalInterest element names).')
TECHNIQUE = 'Rocq proofs of the structural wrappers + differential run + XSD validation oracle with committed finding families'
