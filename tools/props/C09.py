"""C09 - Rewriting eIds is idempotent, history-free and touches nothing else."""
import copy
from lxml import etree
from harness import core, impl, model, gen, xmlsx, eidlib
from props import C07

TRANSLATORS = ['xml']
LEVEL = 'proof'
RULE = ('eid stage as in C07 (tree and mapping compared with the extracted model, attribute order included). Oracle on the implementation, '
        'per random tree (arbitrary nums, pre-existing ids absent/empty/wrong/colliding) and prefix: only eId attributes outside meta change; '
        'scrambling the old ids gives the same new ids; a second run changes nothing and returns {}; mapping has no self-map/empty key and '
        'sends each unique changed old id to the new one; a sequence of rewrites on ONE IdGenerator object equals fresh objects; parser '
        'output is a fixed point. non-trivial = tree with >= 2 identified elements and at least one changed id; distinct by input.')
TRUSTED_BASE = C07.TRUSTED_BASE
ASSUMPTIONS = C07.ASSUMPTIONS

def _oracle(args):
    seed, prefix, tree = args
    import random
    from bluebell.xml import IdGenerator
    rng = random.Random(seed)
    G = IdGenerator
    el = xmlsx.from_sx(tree)
    before = eidlib.erase_eids(el)
    meta_before = [etree.tostring(m) for m in el.iter('{%s}meta' % xmlsx.NS)]
    old = {}
    elems = list(eidlib.iter_outside_meta(el))
    ident = [e for e in elems if eidlib.local(e) not in G.id_exempt and eidlib.local(e) not in G.id_exempt_but_pass_to_children]
    old_ids = [e.get('eId') for e in ident]
    a = copy.deepcopy(el)
    gen_obj = IdGenerator()
    m = dict(gen_obj.rewrite_all_eids(a, prefix))
    if eidlib.erase_eids(a) != before: return 'something other than eId attributes changed'
    if [etree.tostring(x) for x in a.iter('{%s}meta' % xmlsx.NS)] != meta_before: return 'meta changed'
    a_ident = [e for e in eidlib.iter_outside_meta(a) if eidlib.local(e) not in G.id_exempt and eidlib.local(e) not in G.id_exempt_but_pass_to_children]
    new_ids = [e.get('eId') for e in a_ident]
    # history-free: scramble the old ids
    b = copy.deepcopy(el)
    bi = 0
    for e in eidlib.iter_outside_meta(b):
        t = eidlib.local(e)
        if t in G.id_exempt or t in G.id_exempt_but_pass_to_children:
            # elements the rewriter never numbers may carry an eId of their own (other tools write <content eId="sec_1__content">, the text
            # format allows TC{eId cell-a}): it is left alone and means nothing for the ids of what is inside
            if rng.random() < 0.2: e.set('eId', rng.choice(['sec_1__content', 'cell-a', 'x', 'junk__intro']))
            continue
        r = rng.random()
        if r < 0.3: e.attrib.pop('eId', None)
        elif r < 0.6: e.set('eId', rng.choice(['', 'x', 'sec_1', 'dup']))
        # attributes that are not the eId (an AKN 2.0 style id, a wId, a GUID) are data: with the id the element is about to get, or another
        r2 = rng.random()
        if r2 < 0.15 and bi < len(new_ids):
            e.set(rng.choice(['id', 'id', 'wId', 'GUID']), new_ids[bi] or 'x'); e.attrib.pop('eId', None) if rng.random() < 0.7 else e.set('eId', '')
        elif r2 < 0.25:
            e.set(rng.choice(['id', 'wId', 'evolvingId']), rng.choice(['section-1', 'dup', 'x']))
        bi += 1
    b_old = set(e.get('eId') for e in eidlib.iter_outside_meta(b) if e.get('eId'))
    mb = dict(IdGenerator().rewrite_all_eids(b, prefix))
    if any(k not in b_old for k in mb): return 'the mapping has a key that was never an eId: %r' % [k for k in mb if k not in b_old][:3]
    b_ids = [e.get('eId') for e in eidlib.iter_outside_meta(b) if eidlib.local(e) not in G.id_exempt and eidlib.local(e) not in G.id_exempt_but_pass_to_children]
    if b_ids != new_ids: return 'new ids depend on the ids that were there before'
    # idempotent (same object, and fresh object)
    a2 = copy.deepcopy(a)
    m2 = gen_obj.rewrite_all_eids(a2, prefix)
    if etree.tostring(a2) != etree.tostring(a) or dict(m2) != {}: return 'second rewrite (same object) changed the tree or reported a mapping'
    a3 = copy.deepcopy(a)
    m3 = IdGenerator().rewrite_all_eids(a3, prefix)
    if etree.tostring(a3) != etree.tostring(a) or dict(m3) != {}: return 'second rewrite (fresh object) changed the tree or reported a mapping'
    # mapping
    for k, v in m.items():
        if k == v: return 'mapping sends %r to itself' % k
        if k == '': return 'mapping has the empty id as key'
    for o, n in zip(old_ids, new_ids):
        if o and old_ids.count(o) == 1 and o != n and m.get(o) != n:
            return 'unique old id %r of a changed element is mapped to %r, not %r' % (o, m.get(o), n)
    for k, v in m.items():
        if k not in old_ids: return 'mapping key %r was not an old id of an identifiable element' % k
    # sequence on one object: rewrite something else first, then this tree
    g = IdGenerator()
    # (a third of the time a document of another Akoma Ntoso version, or of no AKN namespace at all: one rewriter serves them all)
    other = xmlsx.from_sx(xmlsx.norm_sx(gen.gen_akn_tree(rng, maxdepth=3)), *([rng.choice(['http://www.akomantoso.org/2.0', 'urn:x'])] if rng.random() < 0.34 else []))
    # what came before on that object: a whole rewrite; or the public pieces it is made of, called directly (they do not reset); or a
    # rewrite that failed half way (a comment node makes the walk raise after earlier siblings have been numbered)
    how = rng.randrange(4)
    if how == 0:
        g.rewrite_all_eids(other, rng.choice(['', 'zz']))
    elif how == 1:
        g.rewrite_eid(other, rng.choice(['', 'zz']))
    elif how == 2:
        g.get_eid(rng.choice(['', prefix]), rng.choice(['section', 'p', 'paragraph']), rng.choice([None, '1', '(a)'])); g.incr(prefix, 'p')
    else:
        broken = copy.deepcopy(el)
        kids = [k for k in broken.iter() if len(k)]
        if kids: rng.choice(kids).insert(rng.randint(0, 2), etree.Comment('c'))
        try: g.rewrite_all_eids(broken, prefix)
        except Exception: pass
    c = copy.deepcopy(el)
    mc = g.rewrite_all_eids(c, prefix)
    if etree.tostring(c) != etree.tostring(a) or dict(mc) != m: return 'result depends on what the same rewriter object rewrote before'
    changed = sum(1 for o, n in zip(old_ids, new_ids) if o != n)
    return ('ok', len(ident), changed)

def _doc_fixed_point(args):
    text, root, prefix = args
    from bluebell.xml import IdGenerator
    try:
        xml = impl.parser(prefix).parse_to_xml(text, root)
    except Exception as e:
        return ('raised',)
    before = etree.tostring(xml)
    m = IdGenerator().rewrite_all_eids(xml, prefix)
    if etree.tostring(xml) != before or dict(m) != {}:
        return ('bad', 'parser output is not a fixed point of the rewriter: mapping %r' % dict(list(m.items())[:3]))
    return ('ok',)

def correspondence(ctx):
    C07.correspondence(ctx)

def search(ctx, budget):
    cases = [(ctx.rng.randrange(1 << 30), ctx.rng.choice(C07.PREFIXES), xmlsx.norm_sx(gen.gen_akn_tree(ctx.rng)))
             for _ in range(ctx.n(1500, 60000) * budget)]
    res = impl.pmap(_oracle, cases)
    for c, r in zip(cases, res):
        ctx.evaluations += 1; ctx.count('rewrite_oracle_cases')
        if isinstance(r, str):
            ctx.failures.append(({'stage': 'rewrite', 'seed': c[0], 'prefix': c[1], 'tree': c[2]}, r))
        elif r[1] >= 2 and r[2] >= 1:
            ctx.nontrivial((c[1], repr(c[2])))
    docs = C07.doc_cases(ctx, budget)
    explicit = C07._explicit_eid_attr
    res = impl.pmap(_doc_fixed_point, docs, chunk=16)
    for (text, root, prefix), r in zip(docs, res):
        ctx.evaluations += 1; ctx.count('fixed_point_doc_' + r[0])
        if r[0] == 'bad':
            ctx.failures.append(({'stage': 'e2e', 'text': text, 'root': root, 'prefix': prefix}, r[1]))
    ctx.sample({'stage': 'rewrite', 'seed': cases[0][0], 'prefix': cases[0][1], 'tree': cases[0][2]})

def probe_disagreement(ctx, stage, case):
    if stage == 'eid':
        r = _oracle((1, case['prefix'], case['tree']))
        if isinstance(r, str): ctx.failures.append(({'stage': 'rewrite', 'seed': 1, 'prefix': case['prefix'], 'tree': case['tree']}, r))

CLASSIFIERS = {}

def replay(obj):
    case = obj.get('case') or (obj.get('disagreements') or [{}])[0].get('case')
    if not case:
        print('nothing to replay:', obj.get('broken_obligations')); return 1
    if 'text' in case:
        r = _doc_fixed_point((case['text'], case['root'], case.get('prefix', ''))); print(r); return 1 if r[0] == 'bad' else 0
    r = _oracle((case.get('seed', 1), case['prefix'], case['tree']))
    a = impl.eid_rewrite((case['prefix'], case['tree'])); b = model.run([['eid', case['prefix'], case['tree']]])[0]
    print('impl == model:', a == b, ' oracle:', r); return 1 if (isinstance(r, str) or a != b) else 0

LEVEL_TEXT = ('Proof over the Gallina model, for every tree, every pre-existing id assignment, every prefix and state: erasing eIds before or after '
              'a rewrite gives the same tree, meta untouched (C09_only_eids_change); trees equal up to eIds get the same new ids (C09_history_free); '
              'rewriting the output again returns it unchanged with an empty mapping, so parser output is a fixed point (C09_idempotent); the '
              'mapping is exactly "first new id of each present, changed old id", never maps an id to itself, and a unique changed old id goes to '
              'its element\'s new id (C09_mapping_spec, C09_mapping_unique). Tie: eid stage compares tree and mapping; "any sequence of rewrites on '
              'one object" rests on rewrite_all_eids resetting first, exercised on the implementation by the sequence oracle.')
LEVEL_NOTE = 'Trusted base as C07. The reset-at-start of rewrite_all_eids is structural in the model (it starts from the empty state) and checked on the implementation by rewriting two trees with one object.'
TECHNIQUE = 'Rocq proof (simulation between runs differing only in eIds/mappings) + differential run + metamorphic oracles'
