#!/venv/bin/python
"""Tables of bluebell/xml.py (IdGenerator), by reflection on the live class + tabulation of its regexes."""
import sys, os, re
sys.path.insert(0, os.path.dirname(__file__))
from coqgen import *

def chr_ok(c):
    return not (0xD800 <= c <= 0xDFFF)

def main(out):
    import bluebell.xml as X
    G = X.IdGenerator
    g = G()
    lead = ranges_of(lambda c: chr_ok(c) and G.leading_punct_re.sub('', chr(c) + 'a') == 'a')
    trail = ranges_of(lambda c: chr_ok(c) and G.trailing_punct_re.sub('', 'a' + chr(c)) == 'a')
    ws = ranges_of(lambda c: chr_ok(c) and G.whitespace_re.sub('', 'a' + chr(c) + 'a') == 'aa')
    punct = ranges_of(lambda c: chr_ok(c) and G.punct_re.sub('-', 'a' + chr(c) + 'a') == 'a-a' and chr(c) != '-' or (chr(c) == '-' and bool(G.punct_re.fullmatch('-'))))
    # shape probes
    probes = [
        (G.leading_punct_re.sub('', '.. a.b .'), 'a.b .', 'leading_punct_re'),
        (G.leading_punct_re.sub('', 'a..'), 'a..', 'leading_punct_re(anchor)'),
        (G.trailing_punct_re.sub('', '. a.b ..\n'), '. a.b', 'trailing_punct_re'),
        (G.trailing_punct_re.sub('', '..a'), '..a', 'trailing_punct_re(anchor)'),
        (G.whitespace_re.sub('', ' a  b\tc\n'), 'abc', 'whitespace_re'),
        (G.punct_re.sub('-', 'a..b.c,,;d'), 'a-b-c-d', 'punct_re'),
    ]
    for got, want, what in probes:
        if got != want:
            raise TranslateError(f'{what} no longer has the shape the model assumes: {got!r}')
    for name in ('id_exempt', 'id_exempt_but_pass_to_children', 'num_expected'):
        v = getattr(G, name)
        if not isinstance(v, (set, frozenset)) or not all(isinstance(x, str) for x in v):
            raise TranslateError(f'IdGenerator.{name} is not a set of strings')
    if not isinstance(G.aliases, dict):
        raise TranslateError('IdGenerator.aliases is not a dict')
    for attr in ('counters', 'eid_counter', 'mappings'):
        if getattr(g, attr) != {}:
            raise TranslateError(f'fresh IdGenerator.{attr} is not empty')
    txt = HEADER % 'gen_tables_xml.py'
    txt += f'Definition lead_class : ranges := {coq_ranges(lead)}.\n'
    txt += f'Definition trail_class : ranges := {coq_ranges(trail)}.\n'
    txt += f'Definition ws_class : ranges := {coq_ranges(ws)}.\n'
    txt += f'Definition punct_class : ranges := {coq_ranges(punct)}.\n'
    for name in ('id_exempt', 'id_exempt_but_pass_to_children', 'num_expected'):
        txt += f'Definition {name} : list str :=\n  ' + coq_list([coq_str(x) for x in sorted(getattr(G, name))]) + '.\n'
    txt += 'Definition aliases : list (str * str) :=\n  ' + coq_list([f'({coq_str(k)}, {coq_str(v)})' for k, v in sorted(G.aliases.items())]) + '.\n'
    return write_if_changed(out, txt)

if __name__ == '__main__':
    try:
        main(sys.argv[1])
    except TranslateError as e:
        print('TRANSLATE-ERROR gen_tables_xml:', e); sys.exit(3)
