#!/venv/bin/python
"""What README.md documents, scraped: synonym pairs, keywords used at the start of a line in fenced examples,
attachment keywords, inline forms."""
import sys, os, re
sys.path.insert(0, os.path.dirname(__file__))
from coqgen import *

def main(out):
    repo = os.environ.get('BLUEBELL_REPO', '/repo')
    text = open(os.path.join(repo, 'README.md'), encoding='utf-8').read()
    syn = re.findall(r'^\* `([A-Z]+)` \(`([A-Z]+)`\)\s*$', text, re.M)
    if not syn:
        raise TranslateError('README: no synonym bullets found')
    fences, cur, lang = [], None, ''
    for line in text.split('\n'):
        if line.startswith('```'):
            if cur is None:
                cur, lang = [], line[3:].strip()
            else:
                if lang == '':
                    fences.append('\n'.join(cur))
                cur = None
        elif cur is not None:
            cur.append(line)
    kws = []
    for f in fences:
        for line in f.split('\n'):
            m = re.match(r'\s*([A-Z]{2,})\b', line)
            if m and m.group(1) not in kws:
                kws.append(m.group(1))
    m = re.search(r'The keywords (.*?) can also be used instead of `(\w+)`', text)
    if not m:
        raise TranslateError('README: attachment keyword sentence not found')
    att = [m.group(2)] + re.findall(r'`(\w+)`', m.group(1))
    inl = []
    for f in fences:
        for tok in re.findall(r'\{\{([a-zA-Z^_>*+\-]+)', f):
            tok = tok[0] if tok[0] in '^_*>+-' else tok
            if tok not in inl: inl.append(tok)
    L = lambda xs: coq_list([coq_str(x) for x in xs])
    txt = HEADER % 'gen_tables_readme.py'
    txt += 'Definition readme_synonyms : list (str * str) :=\n  ' + coq_list(['(%s, %s)' % (coq_str(a), coq_str(b)) for a, b in syn]) + '.\n'
    txt += 'Definition readme_line_keywords : list str :=\n  ' + L(kws) + '.\n'
    txt += 'Definition readme_attachment_keywords : list str :=\n  ' + L(att) + '.\n'
    txt += 'Definition readme_inline_openers : list str :=\n  ' + L(inl) + '.\n'
    return write_if_changed(out, txt)

if __name__ == '__main__':
    try:
        main(sys.argv[1])
    except TranslateError as e:
        print('TRANSLATE-ERROR gen_tables_readme:', e); sys.exit(3)
