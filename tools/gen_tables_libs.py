#!/venv/bin/python
"""Tabulated behaviour of the libraries bluebell calls (lxml, cobalt): which characters lxml accepts in text and
attribute values, which names it accepts for attributes, and cobalt's empty_meta for a few FRBR URIs."""
import sys, os, re, json, hashlib
sys.path.insert(0, os.path.dirname(__file__))
from coqgen import *

URIS = ['/akn/za/act/2009/1', '/akn/za-cpt/act/by-law/2010/public-places', '/akn/na/judgment/nasc/2020/5',
        '/akn/za/act/2009/10/afr@2012-06-01', '/akn/ke/act/ln/2011/5/swa@', '/akn/za/act/2009/10/eng@2010-01-01/!main']
PLACE = 'COMPONENT'

def chr_ok(c):
    return not (0xD800 <= c <= 0xDFFF)

def lxml_tables(cache_dir):
    import lxml.etree as etree
    key = 'lxml-%s-libxml-%s' % (etree.__version__, '.'.join(map(str, etree.LIBXML_VERSION)))
    path = os.path.join(cache_dir, 'libs-' + hashlib.md5(key.encode()).hexdigest() + '.json')
    if os.path.exists(path):
        return json.load(open(path))
    el = etree.Element('a')
    def text_ok(c):
        try:
            el.text = chr(c); return True
        except ValueError:
            return False
    def name_start(c):
        try:
            etree.Element('a').set(chr(c), ''); return True
        except ValueError:
            return False
    def name_char(c):
        try:
            etree.Element('a').set('a' + chr(c), ''); return True
        except ValueError:
            return False
    t = {'text': ranges_of(lambda c: chr_ok(c) and text_ok(c)),
         'name_start': ranges_of(lambda c: chr_ok(c) and name_start(c)),
         'name_char': ranges_of(lambda c: chr_ok(c) and name_char(c))}
    # the name check must be a product of per-character classes for the model to be right: probe
    for s, want in [('a:b', False), ('ab', True), ('a-b', True), ('-a', False), ('1a', False), ('a1', True), ('', False)]:
        try:
            etree.Element('a').set(s, ''); got = True
        except ValueError:
            got = False
        if got != want:
            raise TranslateError('lxml attribute name check is not what the model assumes on %r' % s)
    os.makedirs(cache_dir, exist_ok=True)
    json.dump(t, open(path, 'w'))
    return t

def xml_term(el, local):
    """lxml element -> Coq term of type str -> xml (free variable comp for the placeholder)"""
    def s(v):
        parts = v.split(PLACE)
        terms = [coq_str(p) for p in parts]
        out = terms[0]
        for t in terms[1:]:
            out = '(%s ++ comp ++ %s)' % (out, t)
        return out
    attrs = '; '.join('(%s, %s)' % (coq_str(local(k)), s(v)) for k, v in el.attrib.items())
    kids = []
    if el.text and el.text.strip():
        kids.append('Tx %s' % s(el.text))
    for k in el:
        kids.append(xml_term(k, local))
        if k.tail and k.tail.strip():
            kids.append('Tx %s' % s(k.tail))
    return 'El %s [%s] [%s]' % (coq_str(local(el.tag)), attrs, '; '.join(kids))

def main(out):
    cache = os.path.join(os.path.dirname(os.path.dirname(os.path.abspath(__file__))), 'out', 'cache')
    t = lxml_tables(cache)
    txt = HEADER % 'gen_tables_libs.py'
    txt = txt.replace('Require Import BB.Base.Str.', 'Require Import BB.Base.Str BB.Base.Xml.')
    txt += f'Definition xml_char_class : ranges := {coq_ranges([tuple(x) for x in t["text"]])}.\n'
    txt += f'Definition xml_name_start_class : ranges := {coq_ranges([tuple(x) for x in t["name_start"]])}.\n'
    txt += f'Definition xml_name_char_class : ranges := {coq_ranges([tuple(x) for x in t["name_char"]])}.\n'
    from cobalt import FrbrUri
    from cobalt.akn import StructuredDocument, get_maker
    import datetime
    today = datetime.date.today().strftime('%Y-%m-%d')
    local = lambda tag: tag.split('}', 1)[-1]
    rows = []
    for u in URIS:
        f = FrbrUri.parse(u)
        cls = StructuredDocument.for_document_type(f.doctype)
        root = cls.empty_meta(f, maker=get_maker('3.0'), for_root=True)
        f2 = f.clone(); f2.work_component = PLACE
        att = cls.empty_meta(f2, maker=get_maker('3.0'), for_root=False)
        def term(el):
            return xml_term(el, local).replace(coq_str(today), coq_str('D'))
        rows.append('(%s, (%s, fun comp : str => %s))' % (coq_str(u), term(root), term(att)))
    txt += 'Definition meta_templates : list (str * (xml * (str -> xml))) :=\n  ' + coq_list(rows) + '.\n'
    return write_if_changed(out, txt)

if __name__ == '__main__':
    try:
        main(sys.argv[1])
    except TranslateError as e:
        print('TRANSLATE-ERROR gen_tables_libs:', e); sys.exit(3)
