#!/bin/bash
# One-time build after a fresh restore: regenerate tables from /repo, build the Coq
# development (full .vo build), extract the model and compile the driver.
set -e
cd "$(dirname "$0")/.."
export PYTHONPATH=/repo PYTHONHASHSEED=0
mkdir -p out evidence
/venv/bin/python - <<'PY'
import sys; sys.path.insert(0, 'tools')
from harness import core
r = core.regenerate()
bad = {k: v for k, v in r.items() if v}
if bad:
    print('translator errors:', bad); sys.exit(1)
core.ensure_makefile()
PY
cd coq && timeout 3000 make -j16 2>&1 | tail -5
cd .. && /venv/bin/python - <<'PY'
import sys; sys.path.insert(0, 'tools')
from harness import core
ok, log = core.build_model()
print('model build', 'ok' if ok else log)
sys.exit(0 if ok else 1)
PY
