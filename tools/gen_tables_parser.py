#!/venv/bin/python
"""Tables of bluebell/parser.py, by reflection on the imported module + tabulation of its regexes."""
import sys, os, re
sys.path.insert(0, os.path.dirname(__file__))
from coqgen import *

def chr_ok(c):
    return not (0xD800 <= c <= 0xDFFF)

def main(out):
    import bluebell.parser as P
    A = P.AkomaNtosoParser
    for name in ('INDENT', 'DEDENT'):
        v = getattr(P, name)
        if not (isinstance(v, str) and len(v) == 1):
            raise TranslateError(f'parser.{name} is not a single character')
    if A.indent != P.INDENT or A.dedent != P.DEDENT:
        raise TranslateError('AkomaNtosoParser.indent/dedent differ from INDENT/DEDENT')
    if not isinstance(A.indent_size, int) or A.indent_size < 1:
        raise TranslateError('indent_size is not a positive int')
    line_re, tws = A.line_re, A.trailing_ws_re
    if not (line_re.flags & re.M) or not (tws.flags & re.M):
        raise TranslateError('line_re/trailing_ws_re lost re.M')
    if line_re.groups != 2:
        raise TranslateError('line_re must have two groups')
    # tabulate: which characters may form the indentation (group 1), which may start the body (group 2)
    def indent_c(c):
        m = line_re.match(chr(c) + 'x')
        return bool(m) and m.group(1) == chr(c) and m.group(2) == 'x'
    def body_c(c):
        m = line_re.match(chr(c))
        return bool(m) and m.group(1) == '' and m.group(2) == chr(c)
    def tws_c(c):
        return tws.sub('', 'a' + chr(c) * 2) == 'a'
    cps = [c for c in range(MAXCP + 1)]
    ind = ranges_of(lambda c: chr_ok(c) and indent_c(c))
    body = ranges_of(lambda c: chr_ok(c) and body_c(c))
    tw = ranges_of(lambda c: chr_ok(c) and tws_c(c))
    # shape probes (behavioural, not syntactic): anchoring and greediness
    probes = [
        (line_re.sub(lambda m: '<%d|%s>' % (len(m.group(1)), m.group(2)), 'a\n  b c\n\n   \n d'), '<0|a>\n<2|b> c\n\n   \n<1|d>', 'line_re'),
        (tws.sub('', 'a  \n b  c \n\n  \nd  '), 'a\n b  c\n\n\nd', 'trailing_ws_re'),
    ]
    for got, want, what in probes:
        if got != want:
            raise TranslateError(f'{what} no longer has the shape the model assumes: {got!r}')
    nis = P.Parser.NON_INLINE_START_RE
    nis_cls = ranges_of(lambda c: chr_ok(c) and bool(nis.fullmatch(chr(c))))
    # greedy one-or-more of that class?
    if nis.match('ab*').end() != 2 or nis.match('*') is not None or nis.match('xa\\').end() != 2:
        raise TranslateError('NON_INLINE_START_RE is not a greedy C+')
    # the hand-written override must still be the code that Model/Override.v mirrors (comments aside)
    import ast, inspect, textwrap
    src = ast.unparse(ast.parse(textwrap.dedent(inspect.getsource(P.Parser._read_non_inline_start))))
    want = open(os.path.join(os.path.dirname(__file__), 'templates', 'read_non_inline_start.py.txt')).read()
    if src != want:
        raise TranslateError('Parser._read_non_inline_start differs from the code that Model/Override.v mirrors')
    # pre_parse is modelled by hand (Model/PreParse.v): its code, docstring and comments aside, must be the code the model mirrors
    def norm(fn):
        t = ast.parse(textwrap.dedent(inspect.getsource(fn)))
        f = t.body[0]
        if f.body and isinstance(f.body[0], ast.Expr) and isinstance(getattr(f.body[0], 'value', None), ast.Constant) and isinstance(f.body[0].value.value, str):
            f.body = f.body[1:]
        return ast.unparse(t)
    want = open(os.path.join(os.path.dirname(__file__), 'templates', 'pre_parse.py.txt')).read()
    if norm(A.pre_parse) != want:
        raise TranslateError('AkomaNtosoParser.pre_parse differs from the code that Model/PreParse.v mirrors')
    extra = [n for n in vars(P.Parser) if n.startswith('_read_') and n != '_read_non_inline_start']
    if extra:
        raise TranslateError('Parser overrides further rules: %s' % extra)
    txt = HEADER % 'gen_tables_parser.py'
    txt += f'Definition INDENT_C : N := {ord(P.INDENT)}.\nDefinition DEDENT_C : N := {ord(P.DEDENT)}.\n'
    txt += f'Definition default_indent_size : nat := {A.indent_size}%nat.\n'
    txt += f'Definition line_indent_class : ranges := {coq_ranges(ind)}.\n'
    txt += f'Definition line_body_class : ranges := {coq_ranges(body)}.\n'
    txt += f'Definition trailing_ws_class : ranges := {coq_ranges(tw)}.\n'
    txt += f'Definition non_inline_start_class : ranges := {coq_ranges(nis_cls)}.\n'
    if not isinstance(P.ROOT_ALIASES, dict) or not all(isinstance(k, str) and isinstance(v, str) for k, v in P.ROOT_ALIASES.items()):
        raise TranslateError('ROOT_ALIASES is no longer a dict of strings')
    al = sorted(P.ROOT_ALIASES.items())
    txt += 'Definition root_aliases : list (str * str) :=\n  ' + coq_list([f'({coq_str(k)}, {coq_str(v)})' for k, v in al]) + '.\n'
    # python str.isspace (CPython), used by str.strip()
    sp = ranges_of(lambda c: chr_ok(c) and chr(c).isspace())
    txt += f'Definition py_isspace_class : ranges := {coq_ranges(sp)}.\n'
    return write_if_changed(out, txt)

if __name__ == '__main__':
    try:
        main(sys.argv[1])
    except TranslateError as e:
        print('TRANSLATE-ERROR gen_tables_parser:', e); sys.exit(3)
