#!/venv/bin/python
"""Tables of bluebell/akn_text.xsl: the escape-prefixes keyword lists, the elements each template matches,
the keyword printed for each hierarchical element, the preserve-space list, the attributes block-attrs hides."""
import sys, os, re
sys.path.insert(0, os.path.dirname(__file__))
from coqgen import *
from lxml import etree

XSL = 'http://www.w3.org/1999/XSL/Transform'

def main(out):
    repo = os.environ.get('BLUEBELL_REPO', '/repo')
    doc = etree.parse(os.path.join(repo, 'bluebell', 'akn_text.xsl'))
    root = doc.getroot()
    X = '{%s}' % XSL
    named = {t.get('name'): t for t in root.findall(X + 'template') if t.get('name')}
    for n in ('string-ltrim', 'string-replace-all', 'prefix-run', 'suffix-run', 'escape-inlines', 'escape-inlines-start-end',
              'escape-prefixes', 'escape-hyphens', 'escape-slashes', 'block-attrs'):
        if n not in named:
            raise TranslateError('named template %s is missing' % n)
    # escape-prefixes: one xsl:if whose test is a disjunction of  $text = 'X'  and  starts-with($text, 'X')
    ep = named['escape-prefixes']
    ifs = ep.findall('.//' + X + 'if')
    if len(ifs) != 1:
        raise TranslateError('escape-prefixes: expected exactly one xsl:if')
    test = ifs[0].get('test')
    parts = [p.strip() for p in re.split(r'\s+or\s+', test.strip())]
    equals, starts = [], []
    for p in parts:
        m = re.fullmatch(r"\$text\s*=\s*'([^']*)'", p)
        if m:
            equals.append(m.group(1)); continue
        m = re.fullmatch(r"starts-with\(\$text,\s*'([^']*)'\)", p)
        if m:
            starts.append(m.group(1)); continue
        raise TranslateError('escape-prefixes: cannot read disjunct %r' % p)
    if [etree.tostring(c) for c in ifs[0]] and ''.join(ifs[0].itertext()).strip() != '':
        raise TranslateError('escape-prefixes: unexpected body')
    # the escape-inlines chain: (value, replacement) pairs from the inside out
    ei = named['escape-inlines']
    chain = []
    node = ei.find(X + 'call-template')
    while node is not None:
        if node.get('name') != 'string-replace-all':
            raise TranslateError('escape-inlines: unexpected call ' + str(node.get('name')))
        params = {p.get('name'): p for p in node.findall(X + 'with-param')}
        def val(p):
            v = p.find(X + 'value-of')
            if v is None: return None
            m = re.fullmatch(r"'(.*)'", v.get('select'))
            if not m: raise TranslateError('escape-inlines: cannot read literal ' + v.get('select'))
            return m.group(1)
        chain.append((val(params['value']), val(params['replacement'])))
        inner = params['text'].find(X + 'call-template')
        if inner is None:
            sel = params['text'].get('select')
            if sel.replace(' ', '') != "translate($text,'\r\n','')".replace(' ', '') and 'translate($text' not in sel:
                raise TranslateError('escape-inlines: innermost text is not the newline translation: %r' % sel)
        node = inner
    chain.reverse()
    # templates: match patterns (element names) and modes
    templates = []
    for t in root.findall(X + 'template'):
        if t.get('match'):
            alts = [a.strip() for a in t.get('match').replace('\n', ' ').split('|')]
            templates.append((alts, t.get('mode') or ''))
    # the hier template: its match list and the synonym choose
    hier_t = None
    for t in root.findall(X + 'template'):
        m = t.get('match') or ''
        if 'a:alinea' in m and 'a:speechGroup' in m:
            hier_t = t
    if hier_t is None:
        raise TranslateError('cannot find the hierarchical-element template')
    hier_elems = [a.strip()[2:] for a in hier_t.get('match').replace('\n', ' ').split('|')]
    syn = []
    for w in hier_t.find(X + 'choose').findall(X + 'when'):
        m = re.fullmatch(r'self::a:(\w+)', w.get('test'))
        txt = w.find(X + 'text')
        if not m or txt is None:
            raise TranslateError('hier template: cannot read synonym branch')
        syn.append((m.group(1), txt.text))
    pres = root.find(X + 'preserve-space').get('elements').split()
    txt = HEADER % 'gen_tables_xsl.py'
    L = lambda xs: coq_list([coq_str(x) for x in xs])
    txt += 'Definition xsl_escape_equals : list str :=\n  ' + L(equals) + '.\n'
    txt += 'Definition xsl_escape_starts : list str :=\n  ' + L(starts) + '.\n'
    txt += 'Definition xsl_escape_chain : list (str * str) :=\n  ' + coq_list(['(%s, %s)' % (coq_str(a), coq_str(b)) for a, b in chain]) + '.\n'
    txt += 'Definition xsl_hier_elements : list str :=\n  ' + L(hier_elems) + '.\n'
    txt += 'Definition xsl_hier_synonyms : list (str * str) :=\n  ' + coq_list(['(%s, %s)' % (coq_str(a), coq_str(b)) for a, b in syn]) + '.\n'
    txt += 'Definition xsl_preserve_space : list str :=\n  ' + L([p[2:] for p in pres]) + '.\n'
    own = sorted({a[2:] for alts, mode in templates if mode == '' for a in alts if re.fullmatch(r'a:\w+', a)})
    txt += 'Definition xsl_elements_with_template : list str :=\n  ' + L(own) + '.\n'
    return write_if_changed(out, txt)

if __name__ == '__main__':
    try:
        main(sys.argv[1])
    except TranslateError as e:
        print('TRANSLATE-ERROR gen_tables_xsl:', e); sys.exit(3)
