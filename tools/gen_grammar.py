#!/venv/bin/python
"""bluebell/akn.peg -> coq/Gen/Grammar.v (the PEG as a Coq value)."""
import sys, os
sys.path.insert(0, os.path.dirname(__file__))
from coqgen import *
import pegsyntax

def main(out):
    repo = os.environ.get('BLUEBELL_REPO', '/repo')
    text = open(os.path.join(repo, 'bluebell', 'akn.peg'), encoding='utf-8').read()
    name, rules = pegsyntax.PegParser(text).grammar()
    defined = {n for n, _ in rules}
    def refs(e):
        if e[0] == 'ref': yield e[1]
        elif e[0] in ('seq', 'alt'):
            for x in e[1]: yield from refs(x)
        elif e[0] in ('opt', 'star', 'plus', 'and', 'not', 'typed'): yield from refs(e[1])
    for n, e in rules:
        for r in refs(e):
            if r not in defined:
                raise TranslateError('rule %s refers to undefined rule %s' % (n, r))
    txt = pegsyntax.emit_grammar('akn_peg', rules, lambda cls: pegsyntax.class_ranges('^' + cls), 'gen_grammar.py')
    return write_if_changed(out, txt)

if __name__ == '__main__':
    try:
        main(sys.argv[1])
    except TranslateError as e:
        print('TRANSLATE-ERROR gen_grammar:', e); sys.exit(3)
