#!/bin/bash
# usage: seedtest.sh <worktree> <ids...> : verify the seed in <worktree> (demo exits 1 with it, 0 without; suite passes),
# then run the given checks against that worktree (BLUEBELL_REPO) - /repo itself is not touched - and restore evidence/
wt=$1; shift
cd $wt && git diff -- bluebell README.md > /tmp/seed.diff
PYTHONPATH=$wt /venv/bin/python seed_demo.py >/dev/null 2>&1; echo "demo with change rc=$?"
git apply -R /tmp/seed.diff && (PYTHONPATH=$wt /venv/bin/python seed_demo.py >/dev/null 2>&1; echo "demo without change rc=$?"); git apply /tmp/seed.diff
PYTHONPATH=$wt /venv/bin/python -m pytest -q -p no:cacheprovider 2>&1 | tail -1
cd /verif
for id in "$@"; do BLUEBELL_REPO=$wt ./check $id | cut -c1-250 | grep -E "VIOLATION|^OK|^FAIL|broken"; done
git -C /verif checkout -- evidence 2>/dev/null
true
