#!/bin/bash
# usage: seedtest.sh <worktree> <ids...> : verify the seed in <worktree>, run the given checks against it on /repo, restore /repo
wt=$1; shift
cd $wt && git diff -- bluebell > /tmp/seed.diff
PYTHONPATH=$wt /venv/bin/python seed_demo.py >/dev/null 2>&1; echo "demo with change rc=$?"
git apply -R /tmp/seed.diff && (PYTHONPATH=$wt /venv/bin/python seed_demo.py | tail -1); git apply /tmp/seed.diff
PYTHONPATH=$wt /venv/bin/python -m pytest -q -p no:cacheprovider 2>&1 | tail -1
cd /verif && git -C /repo apply /tmp/seed.diff || exit 1
for id in "$@"; do ./check $id | cut -c1-250 | grep -E "VIOLATION|^OK|^FAIL|broken"; done
git -C /repo checkout -- .
git -C /verif checkout -- evidence 2>/dev/null
git -C /repo status --short | grep -v egg-info; true
