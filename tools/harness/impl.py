"""Implementation side of the correspondence stages (runs the real bluebell from /repo)."""
import os, sys
from concurrent.futures import ProcessPoolExecutor
from . import core

_parser = None
def parser(prefix=''):
    from bluebell.parser import AkomaNtosoParser
    from cobalt import FrbrUri
    return AkomaNtosoParser(FrbrUri.parse('/akn/za/act/2009/1'), prefix)

def exc_kind(e):
    n = type(e).__name__
    msg = str(e)
    if n == 'ParseError':
        return 'ParseError'
    if n == 'ValueError' and 'XML compatible' in msg:
        return 'XmlChar'
    if n == 'ValueError' and 'nvalid attribute name' in msg:
        return 'XmlName'
    if n == 'ValueError' and 'nvalid tag name' in msg:
        return 'XmlName'
    if n == 'RecursionError':
        return 'Recursion'
    return n

def pre_parse(args):
    size, text = args
    p = parser()
    p.indent_size = size
    try:
        return p.pre_parse(text)
    except Exception as e:
        return ['ERR', exc_kind(e)]

def pre_parse_reused(args):
    """one parser object, the same text pre-parsed under several indent sizes in turn (callers set indent_size on the object)"""
    sizes, text = args
    p = parser()
    out = []
    for size in sizes:
        p.indent_size = size
        try:
            out.append(p.pre_parse(text))
        except Exception as e:
            out.append(['ERR', exc_kind(e)])
    return out

# what a job returns when the worker process running it dies (killed for memory, or the interpreter crashes): shaped so that both the
# sx convention (['ERR', kind]) and the oracle tuples (r[0] .. r[4]) can be read off it
CRASH = ['ERR', 'WorkerCrash', 0, None, None]
CRASHED = []          # (function name, repr of the item) of every job that kills its worker even when run alone

RAISED = []           # (function name, exception, repr of the item) of jobs whose function raised instead of returning

def _safe_call(fn, x):
    try:
        return fn(x)
    except Exception as e:      # a job must answer; what it could not handle is reported by the check, not lost with the whole map
        import traceback
        return ['ERR', 'HarnessRaised:' + type(e).__name__, 0, traceback.format_exc()[-1500:], None]

def _note_raised(fn, items, results):
    for x, r in zip(items, results):
        if isinstance(r, list) and len(r) == 5 and r[0] == 'ERR' and isinstance(r[1], str) and r[1].startswith('HarnessRaised:') and len(RAISED) < 20:
            RAISED.append((getattr(fn, '__name__', str(fn)), r[1][14:] + ': ' + str(r[3])[-600:], repr(x)[:1500]))
    return results

def _worker_init():
    # a worker must not outlive the check that started it (an orphaned worker keeps the check's output pipe open)
    try:
        import ctypes, signal
        ctypes.CDLL('libc.so.6', use_errno=True).prctl(1, signal.SIGKILL)      # PR_SET_PDEATHSIG
    except Exception:
        pass

def _run_block(fn, block, workers):
    from concurrent.futures.process import BrokenProcessPool
    try:
        with ProcessPoolExecutor(max_workers=min(workers, max(1, len(block))), initializer=_worker_init) as ex:
            return list(ex.map(fn, block, chunksize=max(1, len(block) // (4 * workers))))
    except BrokenProcessPool:
        if len(block) == 1:
            CRASHED.append((getattr(fn, '__name__', str(fn)), repr(block[0])[:2000]))
            return [list(CRASH)]
        mid = len(block) // 2
        return _run_block(fn, block[:mid], min(workers, 4)) + _run_block(fn, block[mid:], min(workers, 4))

def pmap(fn, items, chunk=64, workers=16):
    """map fn over items in worker processes.  A worker that dies (out of memory under load, a crash of the interpreter) breaks the whole
    pool: the map is then redone block by block in fresh pools, halving a block that breaks again, so that a transient death costs a retry
    and a job that kills its worker every time is isolated and answered with CRASH"""
    from concurrent.futures.process import BrokenProcessPool
    items = list(items)
    import functools
    safe = functools.partial(_safe_call, fn)
    if len(items) < 200:
        return _note_raised(fn, items, [safe(x) for x in items])
    try:
        with ProcessPoolExecutor(max_workers=workers, initializer=_worker_init) as ex:
            return _note_raised(fn, items, list(ex.map(safe, items, chunksize=chunk)))
    except BrokenProcessPool:
        out = []
        for i in range(0, len(items), 512):
            out += _run_block(safe, items[i:i + 512], workers)
        return _note_raised(fn, items, out)

# ---------------------------------------------------------------------------------------
# end-to-end conversion with a canonical, date-free serialisation
# ---------------------------------------------------------------------------------------
import re as _re
_DATE = _re.compile(r'date="\d{4}-\d{2}-\d{2}"')

def canon_xml(xml):
    from lxml import etree
    s = etree.tostring(xml, encoding='unicode')
    return _DATE.sub('date="D"', s)

def e2e(args):
    """(text, root[, prefix]) -> canonical xml string or ['ERR', kind]"""
    text, root = args[0], args[1]
    prefix = args[2] if len(args) > 2 else ''
    try:
        return canon_xml(parser(prefix).parse_to_xml(text, root))
    except RecursionError:
        return ['ERR', 'Recursion']
    except Exception as e:
        return ['ERR', exc_kind(e)]

def eid_rewrite(args):
    """(prefix, tree-sx) -> [tree-sx', [[old,new]...]] using a fresh IdGenerator"""
    from . import xmlsx
    from bluebell.xml import IdGenerator
    prefix, tree = args
    try:
        el = xmlsx.from_sx(tree)
        m = IdGenerator().rewrite_all_eids(el, prefix)
        return [xmlsx.norm_sx(xmlsx.to_sx(el)), [[k, v] for k, v in m.items()]]
    except RecursionError:
        return ['ERR', 'Recursion']
    except Exception as e:
        return ['ERR', exc_kind(e)]

# ---------------------------------------------------------------------------------------
# peg stage: run one rule of the shipped parser on pre-parsed text, dump the tree
# ---------------------------------------------------------------------------------------
def dump_tree(node):
    """(off, len, [types], [[label, idx]...], [kids]) of a canopy TreeNode"""
    from bluebell.akn import TreeNode
    import bluebell.types as T
    cls = type(node)
    types = []
    # mixed-in types, in the order they were applied (innermost first): walk the generated class chain
    c = cls
    chain = []
    while c is not TreeNode and not (c.__module__ == 'bluebell.akn' and c.__bases__ == (TreeNode,)) and c is not object:
        # class created by type(cls0.__name__ + 'X', (cls0, types.X), {})
        if len(c.__bases__) == 2 and c.__bases__[1].__module__ == 'bluebell.types':
            chain.append(c.__bases__[1].__name__)
            c = c.__bases__[0]
        else:
            break
    types = list(reversed(chain))
    labels = []
    els = node.elements
    for k, v in vars(node).items():
        if k in ('text', 'offset', 'elements'):
            continue
        idx = next((i for i, e in enumerate(els) if e is v), None)
        if idx is None:
            labels.append([k, -1])
        else:
            labels.append([k, idx])
    labels.sort(key=lambda x: (x[1], x[0]))
    return [node.offset, len(node.text), types, labels, [dump_tree(e) for e in els]]

def peg_rule(args):
    """(rule, text) -> ['FAIL'] | ['OK', end_offset, tree]   (text is used as given: callers pre-parse it)"""
    import sys
    rule, text = args
    from bluebell.parser import Parser
    from bluebell.akn import FAILURE
    import bluebell.types as types
    sys.setrecursionlimit(20000)
    try:
        p = Parser(text, actions=None, types=types)
        t = getattr(p, '_read_' + rule)()
        if t is FAILURE:
            return ['FAIL']
        return ['OK', p._offset, dump_tree(t)]
    except RecursionError:
        return ['ERR', 'Recursion']
    except Exception as e:
        # the recogniser neither accepted nor rejected: it raised (a missing node type, a broken override ...)
        return ['ERR', 'Raised:' + type(e).__name__]

def peg_api_seq(args):
    """(text, [root, ...]) -> one result per root, as peg_rule, but through the public entry point parse_with_failure on ONE
    AkomaNtosoParser object, the same pre-parsed text parsed with several roots in a row (whole-input matches only)"""
    import sys
    text, roots = args
    from bluebell.parser import AkomaNtosoParser, ParseError
    from cobalt import FrbrUri
    sys.setrecursionlimit(20000)
    p = AkomaNtosoParser(FrbrUri.parse('/akn/za/act/2009/10'))
    out = []
    for r in roots:
        try:
            t = p.parse_with_failure(text, r)
            out.append(['OK', len(text), dump_tree(t)])
        except ParseError:
            out.append(['FAIL'])
        except RecursionError:
            out.append(['ERR', 'Recursion'])
        except Exception as e:
            out.append(['ERR', 'Raised:' + type(e).__name__])
    return out

def collapse_runs(t):
    """children of an unlabelled, untyped node that are all childless untyped leaves are compared by span only"""
    off, ln, types, labels, kids = t
    kids = [collapse_runs(k) for k in kids]
    if kids and not types and not labels and all((not k[2]) and (not k[3]) and k[4] == [] and k[1] >= 1 for k in kids):
        if sum(k[1] for k in kids) == ln and kids[0][0] == off:
            kids = ['run']
    return [off, ln, types, labels, kids]

# ---------------------------------------------------------------------------------------
# dict stage
# ---------------------------------------------------------------------------------------
DICT_KEYS = ['type', 'name', 'attribs', 'att_attribs', 'num', 'heading', 'subheading', 'from', 'children', 'value']

class ContractError(Exception):
    pass

def dict_to_sx(d):
    """fail-closed decoder of the intermediate dict into the wire form of Base/Dict.v"""
    if not isinstance(d, dict):
        raise ContractError('node is not a dict: %r' % type(d).__name__)
    for k in d:
        if k not in DICT_KEYS:
            raise ContractError('undocumented key %r' % k)
    ty = d.get('type')
    if ty == 'text':
        if set(d) != {'type', 'value'} or not isinstance(d['value'], str):
            raise ContractError('text node with keys %r' % sorted(d))
        return ['T', d['value']]
    if not isinstance(ty, str) or not isinstance(d.get('name'), str):
        raise ContractError('node without type/name: %r' % sorted(d))
    if 'value' in d:
        raise ContractError('non-text node with a value')
    def opt(key, f):
        return [f(d[key])] if key in d else []
    def attrs(a):
        if not isinstance(a, dict) or not all(isinstance(k, str) and isinstance(v, str) for k, v in a.items()):
            raise ContractError('attribs is not a dict of strings')
        return [[k, v] for k, v in a.items()]
    def lst(l):
        if not isinstance(l, list):
            raise ContractError('expected a list')
        return [dict_to_sx(x) for x in l]
    def s(x):
        if not isinstance(x, str):
            raise ContractError('expected a string')
        return x
    return ['N', ty, d['name'], opt('attribs', attrs), opt('att_attribs', attrs), opt('num', s),
            opt('heading', lst), opt('subheading', lst), opt('from', lst), opt('children', lst)]

def to_dict_stage(args):
    """(rule, pre-parsed text) -> sx of tree.to_dict() | ['ERR', kind]"""
    import sys
    rule, text = args
    sys.setrecursionlimit(20000)
    try:
        tree = parser().parse_with_failure(text, rule)
        return dict_to_sx(tree.to_dict())
    except ContractError as e:
        return ['ERR', 'Contract: ' + str(e)]
    except RecursionError:
        return ['ERR', 'Recursion']
    except Exception as e:
        return ['ERR', exc_kind(e)]

# ---------------------------------------------------------------------------------------
# e2e / post stages as sx trees (date masked)
# ---------------------------------------------------------------------------------------
def mask_dates(x):
    if x[0] == 'E':
        return ['E', x[1], [[k, ('D' if (k == 'date' and _DATE.fullmatch('date="%s"' % v)) else v)] for k, v in x[2]], [mask_dates(k) for k in x[3]]]
    return x

def canon_err(kind):
    return 'ValueError' if kind in ('XmlChar', 'XmlName', 'ValueError') else kind

def e2e_sx(args):
    """(uri, root, prefix, text) -> xml sx (dates masked) | ['ERR', kind]"""
    import sys
    from . import xmlsx
    from bluebell.parser import AkomaNtosoParser
    from cobalt import FrbrUri
    uri, root, prefix, text = args
    sys.setrecursionlimit(20000)
    try:
        x = AkomaNtosoParser(FrbrUri.parse(uri), prefix).parse_to_xml(text, root)
        return mask_dates(xmlsx.norm_sx(xmlsx.to_sx(x)))
    except RecursionError:
        return ['ERR', 'Recursion']
    except Exception as e:
        return ['ERR', canon_err(exc_kind(e))]

def post_step(args):
    """(step, prefix, tree sx) -> tree sx | ['ERR', kind]; step in displaced|normalise|titles|all"""
    from . import xmlsx
    from bluebell.xml import XmlGenerator
    from cobalt import FrbrUri
    step, prefix, tree = args
    try:
        el = xmlsx.from_sx(tree)
        g = XmlGenerator(FrbrUri.parse('/akn/za/act/2009/1'), prefix)
        if step == 'displaced': el = g.resolve_displaced_content(el)
        elif step == 'normalise': el = g.normalise(el)
        elif step == 'titles': el = g.set_attachment_titles(el)
        else: el = g.post_process(el)
        return xmlsx.norm_sx(xmlsx.to_sx(el))
    except RecursionError:
        return ['ERR', 'Recursion']
    except Exception as e:
        return ['ERR', canon_err(exc_kind(e))]

def e2e_with(p, root, text, via_dict=False, split=None):
    """parse_to_xml on an existing parser object (or: parse, to_dict, xml_from_dict on its generator; or, with split = (other parser
    object or None, [(root, text), ...]): parse, then other parses on the same object - failing or not -, then tree_to_xml of the FIRST
    tree, on the same or on the other object) -> masked sx | ['ERR', kind]"""
    from . import xmlsx
    try:
        if split is not None:
            other, between = split
            tree = p.parse(text, root)
            for r2, t2 in between:
                try: p.parse(t2, r2)
                except Exception: pass
            return mask_dates(xmlsx.norm_sx(xmlsx.to_sx((other or p).tree_to_xml(tree))))
        if via_dict:
            tree = p.parse(text, root)
            return mask_dates(xmlsx.norm_sx(xmlsx.to_sx(p.generator.xml_from_dict(tree.to_dict(), getattr(tree, 'is_root', False)))))
        return mask_dates(xmlsx.norm_sx(xmlsx.to_sx(p.parse_to_xml(text, root))))
    except RecursionError:
        return ['ERR', 'Recursion']
    except Exception as e:
        return ['ERR', canon_err(exc_kind(e))]

# ---------------------------------------------------------------------------------------
# xslstr stage: the named string templates of akn_text.xsl, called through an importing stylesheet
# ---------------------------------------------------------------------------------------
_XSL_WRAPPER = None
def _wrapper():
    global _XSL_WRAPPER
    if _XSL_WRAPPER is None:
        from lxml import etree
        import os
        path = os.path.join(core.REPO, 'bluebell', 'akn_text.xsl')
        src = '''<xsl:stylesheet version="1.0" xmlns:xsl="http://www.w3.org/1999/XSL/Transform" xmlns:a="http://docs.oasis-open.org/legaldocml/ns/akn/3.0">
  <xsl:import href="file://%s"/>
  <xsl:output method="text"/>
  <xsl:param name="fn"/><xsl:param name="arg"/>
  <xsl:template match="/">
    <xsl:choose>
      <xsl:when test="$fn='escape-inlines'"><xsl:call-template name="escape-inlines"><xsl:with-param name="text" select="$arg"/></xsl:call-template></xsl:when>
      <xsl:when test="$fn='escape-prefixes'"><xsl:call-template name="escape-prefixes"><xsl:with-param name="text" select="$arg"/></xsl:call-template></xsl:when>
      <xsl:when test="$fn='string-ltrim'"><xsl:call-template name="string-ltrim"><xsl:with-param name="text" select="$arg"/></xsl:call-template></xsl:when>
      <xsl:when test="$fn='escape-num'"><xsl:call-template name="escape-hyphens"><xsl:with-param name="text"><xsl:call-template name="escape-slashes"><xsl:with-param name="text" select="$arg"/></xsl:call-template></xsl:with-param></xsl:call-template></xsl:when>
      <xsl:when test="$fn='start-end-00'"><xsl:for-each select="//a:span/text()"><xsl:call-template name="escape-inlines-start-end"><xsl:with-param name="text" select="."/></xsl:call-template></xsl:for-each></xsl:when>
      <xsl:when test="$fn='start-end-b'"><xsl:for-each select="//a:b/text()"><xsl:call-template name="escape-inlines-start-end"><xsl:with-param name="text" select="."/></xsl:call-template></xsl:for-each></xsl:when>
      <xsl:when test="$fn='start-end-i'"><xsl:for-each select="//a:i/text()"><xsl:call-template name="escape-inlines-start-end"><xsl:with-param name="text" select="."/></xsl:call-template></xsl:for-each></xsl:when>
      <xsl:when test="$fn='start-end-u'"><xsl:for-each select="//a:u/text()"><xsl:call-template name="escape-inlines-start-end"><xsl:with-param name="text" select="."/></xsl:call-template></xsl:for-each></xsl:when>
      <xsl:when test="$fn='start-end-sup'"><xsl:for-each select="//a:sup/text()"><xsl:call-template name="escape-inlines-start-end"><xsl:with-param name="text" select="."/></xsl:call-template></xsl:for-each></xsl:when>
    </xsl:choose>
  </xsl:template>
</xsl:stylesheet>''' % path
        _XSL_WRAPPER = etree.XSLT(etree.fromstring(src))
    return _XSL_WRAPPER

def xsl_call(args):
    """(template name, string) -> output string | ['ERR', kind]"""
    from lxml import etree
    from . import xmlsx
    fn, s = args
    try:
        if fn.startswith('start-end'):
            tag = {"00": "span", "b": "b", "i": "i", "u": "u", "sup": "sup"}[fn.split("-")[-1]]
            doc = etree.Element('{%s}r' % xmlsx.NS, nsmap={None: xmlsx.NS})
            e = etree.SubElement(doc, '{%s}%s' % (xmlsx.NS, tag)); e.text = s
            return str(_wrapper()(doc, fn=etree.XSLT.strparam(fn)))
        doc = etree.Element('r')
        return str(_wrapper()(doc, fn=etree.XSLT.strparam(fn), arg=etree.XSLT.strparam(s)))
    except Exception as e:
        return ['ERR', type(e).__name__]


# ---------------------------------------------------------------------------------------
# unp stage: the whole unparser on a tree
# ---------------------------------------------------------------------------------------
def unparse_sx(t):
    """xml sx -> unparsed text | ['ERR', kind]"""
    from . import xmlsx
    try:
        return parser().unparse(xmlsx.from_sx(t))
    except Exception as e:
        return ['ERR', type(e).__name__]
