"""Implementation side of the correspondence stages (runs the real bluebell from /repo)."""
import os, sys
from concurrent.futures import ProcessPoolExecutor
from . import core

_parser = None
def parser(prefix=''):
    from bluebell.parser import AkomaNtosoParser
    from cobalt import FrbrUri
    return AkomaNtosoParser(FrbrUri.parse('/akn/za/act/2009/1'), prefix)

def exc_kind(e):
    n = type(e).__name__
    msg = str(e)
    if n == 'ParseError':
        return 'ParseError'
    if n == 'ValueError' and 'XML compatible' in msg:
        return 'XmlChar'
    if n == 'ValueError' and 'nvalid attribute name' in msg:
        return 'XmlName'
    if n == 'ValueError' and 'nvalid tag name' in msg:
        return 'XmlName'
    if n == 'RecursionError':
        return 'Recursion'
    return n

def pre_parse(args):
    size, text = args
    p = parser()
    p.indent_size = size
    try:
        return p.pre_parse(text)
    except Exception as e:
        return ['ERR', exc_kind(e)]

def pmap(fn, items, chunk=64, workers=16):
    items = list(items)
    if len(items) < 200:
        return [fn(x) for x in items]
    with ProcessPoolExecutor(max_workers=workers) as ex:
        return list(ex.map(fn, items, chunksize=chunk))

# ---------------------------------------------------------------------------------------
# end-to-end conversion with a canonical, date-free serialisation
# ---------------------------------------------------------------------------------------
import re as _re
_DATE = _re.compile(r'date="\d{4}-\d{2}-\d{2}"')

def canon_xml(xml):
    from lxml import etree
    s = etree.tostring(xml, encoding='unicode')
    return _DATE.sub('date="D"', s)

def e2e(args):
    """(text, root[, prefix]) -> canonical xml string or ['ERR', kind]"""
    text, root = args[0], args[1]
    prefix = args[2] if len(args) > 2 else ''
    try:
        return canon_xml(parser(prefix).parse_to_xml(text, root))
    except RecursionError:
        return ['ERR', 'Recursion']
    except Exception as e:
        return ['ERR', exc_kind(e)]

def eid_rewrite(args):
    """(prefix, tree-sx) -> [tree-sx', [[old,new]...]] using a fresh IdGenerator"""
    from . import xmlsx
    from bluebell.xml import IdGenerator
    prefix, tree = args
    try:
        el = xmlsx.from_sx(tree)
        m = IdGenerator().rewrite_all_eids(el, prefix)
        return [xmlsx.norm_sx(xmlsx.to_sx(el)), [[k, v] for k, v in m.items()]]
    except RecursionError:
        return ['ERR', 'Recursion']
    except Exception as e:
        return ['ERR', exc_kind(e)]
