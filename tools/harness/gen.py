"""Input generators. Everything derives from a random.Random passed in."""
import itertools, os, glob

WORDS = ['foo', 'bar', 'x', 'the quick', 'a b', '(a)', '1.', '2', 'Section', 'part', 'ITEM', 'P',
         'אב', 'été', '\U0001F600', 'مرحبا', '-', 'a - b']

def indentation_sequences(max_lines, widths):
    """All sequences of 1..max_lines widths."""
    for n in range(1, max_lines + 1):
        for seq in itertools.product(widths, repeat=n):
            yield seq

def render_indented(seq, bodies=None, unit=' '):
    out = []
    for i, w in enumerate(seq):
        if w is None:
            out.append('')
        else:
            b = bodies[i] if bodies else chr(97 + i % 26)
            out.append(unit * w + b)
    return '\n'.join(out) + '\n'

def random_layout_text(rng, max_lines=8):
    """Lines with random indentation (spaces and tabs), blank lines, trailing spaces."""
    n = rng.randint(0, max_lines)
    lines = []
    for i in range(n):
        r = rng.random()
        if r < 0.15:
            lines.append(rng.choice(['', ' ', '   ', '\t', ' \t ']))
            continue
        ind = ''.join(rng.choice([' ', ' ', ' ', '\t']) for _ in range(rng.choice([0, 0, 1, 2, 2, 3, 4, 4, 5, 6, 8])))
        body = rng.choice(WORDS)
        if rng.random() < 0.2:
            body += rng.choice([' ', '\t']) + rng.choice(WORDS)
        trail = rng.choice(['', '', '', ' ', '  ', '\t', ' \t'])
        lines.append(ind + body + trail)
    text = '\n'.join(lines)
    if rng.random() < 0.6:
        text += '\n' * rng.randint(1, 3)
    if rng.random() < 0.2:
        text = '\n' * rng.randint(1, 2) + text
    if rng.random() < 0.1:
        text = rng.choice([' ', '  ', '\t']) + text
    return text

def fixture_texts():
    repo = os.environ.get('BLUEBELL_REPO', '/repo')
    out = []
    for p in sorted(glob.glob(os.path.join(repo, 'tests', 'roundtrip', '*.txt'))):
        out.append(open(p, encoding='utf-8').read())
    return out
