"""Input generators. Everything derives from a random.Random passed in."""
import itertools, os, glob

WORDS = ['foo', 'bar', 'x', 'the quick', 'a b', '(a)', '1.', '2', 'Section', 'part', 'ITEM', 'P',
         'אב', 'été', '\U0001F600', 'مرحبا', '-', 'a - b',
         # not in Unicode normal form C / compatibility characters / separators that are not line breaks for the grammar
         # a backslash where layout begins: at the end of a word (followed by trailing spaces or the line end), doubled, before a tab
         'foo\\', 'C:\\temp\\\\', '\\', 'a\\ b',
         # lines that are words to pre_parse whatever they mean to the grammar: whole keyword lines, container keywords on their own (at any
         # indentation), dashes of every kind between blanks, an escaped blank at the start
         'PART 1 -- General', 'SEC 2 \u2013 Title', 'NOTE \u2014 x', 'BODY', 'DECISION', 'PREFACE', 'INTRODUCTION', 'CONCLUSIONS', 'PREAMBLE', 'BACKGROUND',
         '\\ \\x', '\\  - h', 'a -- b', 'SEC 1\ttab',
         '90 \u212a', 'cafe\u0301', '\u2126', '\ufb01n', 'a\u2028b', 'c\u0085d', '\ufeff', 'x\u200by']

def indentation_sequences(max_lines, widths):
    """All sequences of 1..max_lines widths."""
    for n in range(1, max_lines + 1):
        for seq in itertools.product(widths, repeat=n):
            yield seq

def render_indented(seq, bodies=None, unit=' '):
    out = []
    for i, w in enumerate(seq):
        if w is None:
            out.append('')
        else:
            b = bodies[i] if bodies else chr(97 + i % 26)
            out.append(unit * w + b)
    return '\n'.join(out) + '\n'

def random_layout_text(rng, max_lines=8):
    """Lines with random indentation (spaces and tabs), blank lines, trailing spaces."""
    n = rng.randint(0, max_lines)
    lines = []
    for i in range(n):
        r = rng.random()
        if r < 0.15:
            lines.append(rng.choice(['', ' ', '   ', '\t', ' \t ']))
            continue
        ind = ''.join(rng.choice([' ', ' ', ' ', '\t']) for _ in range(rng.choice([0, 0, 1, 2, 2, 3, 4, 4, 5, 6, 8])))
        body = rng.choice(WORDS)
        if rng.random() < 0.2:
            body += rng.choice([' ', '\t']) + rng.choice(WORDS)
        trail = rng.choice(['', '', '', ' ', '  ', '\t', ' \t'])
        lines.append(ind + body + trail)
    text = '\n'.join(lines)
    if rng.random() < 0.6:
        text += '\n' * rng.randint(1, 3)
    if rng.random() < 0.2:
        text = '\n' * rng.randint(1, 2) + text
    if rng.random() < 0.1:
        text = rng.choice([' ', '  ', '\t']) + text
    return text

def fixture_texts():
    repo = os.environ.get('BLUEBELL_REPO', '/repo')
    out = []
    for p in sorted(glob.glob(os.path.join(repo, 'tests', 'roundtrip', '*.txt'))):
        out.append(open(p, encoding='utf-8').read())
    return out

# ---------------------------------------------------------------------------------------
# structured documents over bluebell's vocabulary (mostly valid), mutations, token soup
# ---------------------------------------------------------------------------------------
HIER = ['ALINEA', 'ARTICLE', 'BOOK', 'CHAPTER', 'CLAUSE', 'DIVISION', 'INDENT', 'LEVEL', 'LIST', 'PARAGRAPH', 'PART',
        'POINT', 'PROVISO', 'RULE', 'SECTION', 'SUBCHAPTER', 'SUBCLAUSE', 'SUBDIVISION', 'SUBLIST', 'SUBPARAGRAPH',
        'SUBPART', 'SUBRULE', 'SUBSECTION', 'SUBTITLE', 'TITLE', 'TOME', 'TRANSITIONAL',
        'ART', 'CHAP', 'PARA', 'SEC', 'SUBCHAP', 'SUBPARA', 'SUBSEC']
SPEECH_CONTAINERS = ['ADDRESS', 'ADJOURNMENT', 'ADMINISTRATIONOFOATH', 'COMMUNICATION', 'DEBATESECTION',
                     'DECLARATIONOFVOTE', 'MINISTERIALSTATEMENTS', 'NATIONALINTEREST', 'NOTICESOFMOTION',
                     'ORALSTATEMENTS', 'PAPERS', 'PERSONALSTATEMENTS', 'PETITIONS', 'POINTOFORDER', 'PRAYERS',
                     'PROCEDURALMOTIONS', 'QUESTIONS', 'RESOLUTIONS', 'ROLLCALL', 'WRITTENSTATEMENTS']
SPEECH_GROUPS = ['SPEECHGROUP', 'SPEECH', 'QUESTION', 'ANSWER']
SPEECH_BLOCKS = ['SCENE', 'NARRATIVE', 'SUMMARY']
ATTACH = ['ATTACHMENT', 'APPENDIX', 'SCHEDULE', 'ANNEXURE']
JUDGMENT_PARTS = ['INTRODUCTION', 'BACKGROUND', 'ARGUMENTS', 'REMEDIES', 'MOTIVATION', 'DECISION']
CONTAINERS = ['PREFACE', 'PREAMBLE', 'BODY', 'CONCLUSIONS']
BLOCKS = ['ITEMS', 'BLOCKLIST', 'ITEM', 'BULLETS', 'TABLE', 'TR', 'TH', 'TC', 'BLOCKS', 'QUOTE', 'P', 'LONGTITLE',
          'CROSSHEADING', 'SUBHEADING', 'FOOTNOTE', 'FROM']
INLINE_OPEN = ['**', '//', '__', '{{', '{{^', '{{_', '{{>', '{{*', '{{IMG', '{{FOOTNOTE', '{{abbr', '{{def', '{{em',
               '{{inline', '{{term', '{{-', '{{+', '}}', '\\', '*', '{', '}', '|', '.', ' - ', '-']
ALL_KEYWORDS = HIER + SPEECH_CONTAINERS + SPEECH_GROUPS + SPEECH_BLOCKS + ATTACH + JUDGMENT_PARTS + CONTAINERS + BLOCKS
ROOTS6 = ['act', 'bill', 'doc', 'statement', 'debateReport', 'judgment']
ROOTS7 = ROOTS6 + ['debate']

PLAIN = ['foo', 'bar', 'baz', 'the', 'quick', 'brown', 'fox', 'lorem', 'ipsum', 'x', 'y', '1', '2a', '(a)', '(i)',
         '1.2.', 'A.', 'été', 'naïve', 'אבג', 'مرحبا', '日本', '\U0001F600', 'a-b', 'semi;colon', 'q?', '\U00020BB7\u91ce', '\U00029E3D', 'x\U000E0101', '\U0010FFFD',
         '"q"', "it's", 'a<b', 'x&y', '&amp;', ']]>', '100%', "'", '"']

# characters a conversion has no business touching, but that string methods, regex classes, normalisation, case mapping, line
# splitting or XML serialisation treat specially: one in twenty-five words carries one
ODD_CHARS = ['\u200b', '\u2060', '\ufeff', '\u00ad', '\u200d', '\u200e', '\u202e',              # invisible / format
             '\u212a', '\u2126', '\u212b', 'e\u0301', '\ufb01', '\uf900', '\u1e9b\u0323',          # not NFC / compatibility forms
             '\u2028', '\u2029', '\u0085', '\u00a0', '\u3000', '\u2009',                          # separators and spaces that are not the grammar's
             '\u0130', '\u00df', '\u01c5', '\u03c2',                                            # case-mapping specials
             '~', '^', '$', '%', '&', '<', '>', '"', "'", '`', '=', '+', '#', '@', '!', '?', ';', ':', ',', ']]>',   # ASCII punctuation without syntax
             '\U0001F1FF\U0001F1E6', '\u0663', '\u00b2', '\u2167']                                 # flags, digits of other scripts, numerals

class Words:
    """Supplies payload words; with unique=True every word is a fresh distinct token (for C03)."""
    def __init__(self, rng, unique=False):
        self.rng, self.unique, self.k = rng, unique, 0
    def word(self):
        if self.rng.random() < 0.04:
            o = self.rng.choice(ODD_CHARS)
            return self.rng.choice(['x' + o + 'y', 'x' + o, o + 'y'])
        if self.unique:
            self.k += 1
            # (some tokens look like character references: bluebell has no such syntax, they are words)
            base = self.rng.choice(['w', 'tok', 'ש', 'م', 'é', '\U0001F600z', 'q', '\U00020BB7z', '\U000E0101z', 'w', 'tok', '&amp;w', '&#38;w', '&lt;w', '&nbsp;w', '&copy;w', '%20w'])
            return '%s%dz' % (base, self.k)
        return self.rng.choice(PLAIN)
    def words(self, lo=1, hi=4):
        return ' '.join(self.word() for _ in range(self.rng.randint(lo, hi)))

def gen_attrs(rng, W, p=0.15):
    if rng.random() > p:
        return ''
    s = ''
    for _ in range(rng.randint(0, 2)):
        s += '.' + rng.choice(['cls', 'a', 'b-c', 'x1'])
    if rng.random() < 0.6:
        pairs = []
        for _ in range(rng.randint(1, 2)):
            pairs.append(rng.choice(['class', 'refersTo', 'status', 'title', 'period', 'alternativeTo']) +
                         rng.choice([' v', ' #ref', ' a b', '', ' a\u00a0b']))
        s += '{' + rng.choice(['|', ' | ', '|']).join(pairs) + '}'
    return s

def gen_inline(rng, W, depth=0):
    """A run of inline text."""
    parts = []
    for _ in range(rng.randint(1, 4)):
        r = rng.random()
        if r < 0.6 or depth > 2:
            parts.append(W.words(1, 3))
        elif r < 0.66:
            parts.append('**' + gen_inline(rng, W, depth + 1) + '**')
        elif r < 0.70:
            parts.append('//' + gen_inline(rng, W, depth + 1) + '//')
        elif r < 0.73:
            parts.append('__' + gen_inline(rng, W, depth + 1) + '__')
        elif r < 0.77:
            parts.append('{{' + rng.choice('^_') + gen_inline(rng, W, depth + 1) + '}}')
        elif r < 0.81:
            parts.append('{{>' + rng.choice(['http://x.y/z', '#sec_1', '', 'http://x.y/a\u00a0b', '#a\u2009b']) + ' ' + gen_inline(rng, W, depth + 1) + '}}')
        elif r < 0.84:
            if rng.random() < 0.4:
                # a remark that spans lines - also the boundary shapes: nothing but line breaks, a break first, a break last
                a, b = gen_inline(rng, W, depth + 1), gen_inline(rng, W, depth + 1)
                parts.append('{{*' + rng.choice([a + '\x01' + b, a + '\x01' + b, '\x01', '\x01\x01', a + '\x01', '\x01' + b, a + '\x01\x01' + b]) + '}}')
            else:
                parts.append('{{*' + gen_inline(rng, W, depth + 1) + '}}')
        elif r < 0.87:
            parts.append('{{IMG ' + rng.choice(['a.png', 'http://x/y.jpg', 'coat\u00a0of\u00a0arms.png']) + rng.choice(['', ' ' + W.words(1, 2)]) + '}}')
        elif r < 0.91:
            parts.append('{{FOOTNOTE ' + rng.choice(['1', '2', '*', 'a', '1', '2', '12"', "'a'", 'a b', '<1>', '&', '1.', 'a:', '2.', '\u00b9']) + '}}')
        elif r < 0.96:
            tag = rng.choice(['abbr', 'def', 'em', 'inline', 'term', '-', '+'])
            if rng.random() < 0.15:
                # an inline without content (the element is empty; what follows it must stay)
                parts.append('{{' + tag + rng.choice(['', ' ', gen_attrs(rng, W, 1.0)]) + '}}')
            else:
                parts.append('{{' + tag + gen_attrs(rng, W, 0.4) + ' ' + gen_inline(rng, W, depth + 1) + '}}')
        else:
            parts.append('\\' + rng.choice(['*', '/', '_', '{', '\\', 'P', 'x']) + W.word())
    return ' '.join(parts)

def gen_heading(rng, W):
    r = rng.random()
    if r < 0.2: return ''
    if r < 0.45: return ' ' + rng.choice(['1', '2', '(a)', '1.2', 'IV', 'A-1', '2_2', 'nn', '3 bis', '1.', '12\u00b9', '\u2461', '\u2474', '\u00bd', '\u0663', '\uff11',
                                         '(\u00e9)', '(e\u0301)', '\u212a', 'K', '\u00c5', '\u212b', '(A)', '(a)', '\u2160', 'x\u00b2'])
    if r < 0.8: return ' ' + rng.choice(['1', '2', '(b)', '3A']) + ' - ' + gen_inline(rng, W)
    return ' - ' + gen_inline(rng, W)

def gen_blocks(rng, W, ind, depth, out, allow_hier=True, n=None):
    n = n if n is not None else rng.randint(1, 4)
    for _ in range(n):
        gen_block(rng, W, ind, depth, out, allow_hier)

def gen_block(rng, W, ind, depth, out, allow_hier=True):
    sp = '  ' * ind
    r = rng.random()
    deep = depth > 4
    if r < 0.35 or deep:
        out.append(sp + gen_inline(rng, W))
    elif r < 0.50 and allow_hier:
        out.append(sp + rng.choice(HIER) + gen_attrs(rng, W, 0.1) + gen_heading(rng, W))
        if rng.random() < 0.85:
            if rng.random() < 0.2:
                out.append(sp + '  SUBHEADING ' + gen_inline(rng, W))
            gen_blocks(rng, W, ind + 1, depth + 1, out, True)
    elif r < 0.56 and allow_hier:
        out.append(sp + 'CROSSHEADING' + gen_attrs(rng, W, 0.1) + rng.choice(['', ' ' + gen_inline(rng, W)]))
    elif r < 0.64:
        out.append(sp + rng.choice(['ITEMS', 'BLOCKLIST']) + gen_attrs(rng, W, 0.1))
        if rng.random() < 0.3:
            out.append(sp + '  ' + gen_inline(rng, W))
            if rng.random() < 0.4:
                out.append(sp + '  FOOTNOTE ' + rng.choice(['1', '2', '*', 'a'])); out.append(sp + '    ' + W.words(1, 3))
        for _ in range(rng.randint(1, 3)):
            out.append(sp + '  ITEM' + gen_heading(rng, W))
            if rng.random() < 0.85:
                gen_blocks(rng, W, ind + 2, depth + 2, out, False, rng.randint(1, 2))
        if rng.random() < 0.2:
            out.append(sp + '  ' + gen_inline(rng, W))
            if rng.random() < 0.4:
                out.append(sp + '  FOOTNOTE ' + rng.choice(['1', '2', '*', 'a'])); out.append(sp + '    ' + W.words(1, 3))
    elif r < 0.70:
        out.append(sp + 'BULLETS' + gen_attrs(rng, W, 0.1))
        for _ in range(rng.randint(1, 3)):
            if rng.random() < 0.15:
                out.append(sp + '  *'); continue          # an item without content
            out.append(sp + '  ' + rng.choice(['* ', '*', '']) + gen_inline(rng, W))
            if rng.random() < 0.2:
                gen_blocks(rng, W, ind + 2, depth + 2, out, False, 1)
    elif r < 0.76:
        out.append(sp + 'TABLE' + gen_attrs(rng, W, 0.1))
        for _ in range(rng.randint(1, 2)):
            out.append(sp + '  TR')
            for _ in range(rng.randint(1, 3)):
                out.append(sp + '    ' + rng.choice(['TH', 'TC']) + rng.choice(['', '', '{colspan 2}', '{rowspan 2|colspan 1}']))
                if rng.random() < 0.8:
                    gen_blocks(rng, W, ind + 3, depth + 3, out, False, rng.randint(1, 2))
    elif r < 0.80:
        out.append(sp + 'BLOCKS' + gen_attrs(rng, W, 0.1))
        gen_blocks(rng, W, ind + 1, depth + 1, out, False, rng.randint(1, 2))
    elif r < 0.84:
        out.append(sp + 'QUOTE' + gen_attrs(rng, W, 0.1))
        gen_blocks(rng, W, ind + 1, depth + 1, out, True, rng.randint(1, 2))
    elif r < 0.89:
        out.append(sp + 'P' + gen_attrs(rng, W, 0.4) + ' ' + gen_inline(rng, W))
    elif r < 0.92:
        out.append(sp + 'LONGTITLE' + rng.choice(['', ' ' + gen_inline(rng, W)]))
    elif r < 0.96:
        out.append(sp + 'FOOTNOTE ' + rng.choice(['1', '2', '*', 'a', '1', '2', '12"', "'a'", 'a b', '<1>', '&', '1.', 'a:', '2.', '\u00b9']))
        gen_blocks(rng, W, ind + 1, depth + 1, out, rng.random() < 0.3, rng.randint(1, 2))
    else:
        # over-indented nested block
        gen_blocks(rng, W, ind + 1, depth + 1, out, allow_hier, rng.randint(1, 2))

def gen_speech(rng, W, ind, depth, out):
    sp = '  ' * ind
    r = rng.random()
    if r < 0.35 and depth < 4:
        out.append(sp + rng.choice(SPEECH_CONTAINERS) + gen_attrs(rng, W, 0.1) + gen_heading(rng, W))
        if rng.random() < 0.2:
            out.append(sp + '  SUBHEADING ' + gen_inline(rng, W))
        for _ in range(rng.randint(1, 3)):
            gen_speech(rng, W, ind + 1, depth + 1, out)
    elif r < 0.6 and depth < 4:
        out.append(sp + rng.choice(SPEECH_GROUPS) + gen_attrs(rng, W, 0.1) + gen_heading(rng, W))
        out.append(sp + '  FROM ' + gen_inline(rng, W) + rng.choice(['', '', ':', ' #12:', ' (50% of the vote)', ' \u00e9\u0301']))
        for _ in range(rng.randint(1, 3)):
            gen_speech(rng, W, ind + 1, depth + 1, out)
    elif r < 0.7:
        out.append(sp + rng.choice(SPEECH_BLOCKS) + gen_attrs(rng, W, 0.1) + ' ' + gen_inline(rng, W))
    else:
        gen_block(rng, W, ind, depth + 2, out, False)

def gen_attachment(rng, W, ind, depth, out, root):
    sp = '  ' * ind
    out.append(sp + rng.choice(ATTACH) + gen_attrs(rng, W, 0.1) + rng.choice(['', ' ' + gen_inline(rng, W)]))
    if rng.random() < 0.3:
        out.append(sp + '  SUBHEADING ' + gen_inline(rng, W))
    gen_blocks(rng, W, ind + 1, depth + 1, out, True, rng.randint(0, 3))
    if depth < 2 and rng.random() < 0.3:
        for _ in range(rng.randint(1, 2)):
            gen_attachment(rng, W, ind + 1, depth + 1, out, root)

def gen_doc(rng, root, unique=False, size=None):
    """A mostly-valid document for the given root type."""
    W = Words(rng, unique)
    out = []
    if root == 'judgment':
        for part in JUDGMENT_PARTS:
            if rng.random() < 0.5:
                out.append(part)
                gen_blocks(rng, W, 1 if rng.random() < 0.8 else 0, 1, out, True, rng.randint(0, 3))
    else:
        if rng.random() < 0.3:
            out.append('PREFACE' + gen_attrs(rng, W, 0.1))
            gen_blocks(rng, W, rng.choice([0, 1]), 1, out, False, rng.randint(0, 3))
        if rng.random() < 0.3 and root != 'debate':
            out.append('PREAMBLE' + gen_attrs(rng, W, 0.1))
            gen_blocks(rng, W, rng.choice([0, 1]), 1, out, False, rng.randint(0, 3))
        if rng.random() < 0.5:
            out.append('BODY')
        if root == 'debate' or (root == 'debateReport' and rng.random() < 0.0):
            for _ in range(rng.randint(0, 3)):
                gen_speech(rng, W, rng.choice([0, 0, 1]), 0, out)
        else:
            gen_blocks(rng, W, rng.choice([0, 0, 1]), 0, out, True, size or rng.randint(0, 5))
    if rng.random() < 0.25:
        out.append('CONCLUSIONS')
        gen_blocks(rng, W, rng.choice([0, 1]), 1, out, False, rng.randint(0, 2))
    if rng.random() < 0.3:
        for _ in range(rng.randint(1, 3)):
            gen_attachment(rng, W, 0, 0, out, root)
    if not unique and out and rng.random() < 0.2:
        # the same plain line more than once at one level ("or", "and", "Subject to this Act:"): before, between and after
        # hierarchical children - grouping must go by position, not by value
        plain = [i for i, l in enumerate(out) if l.strip() and l.strip().split(' ')[0].split('{')[0].split('.')[0] not in ALL_KEYWORDS
                 and not l.lstrip().startswith(('*', 'FROM', 'TR', 'TC', 'TH', 'ITEM'))]
        if plain:
            i = rng.choice(plain); ind = len(out[i]) - len(out[i].lstrip(' '))
            sibs = [j for j, l in enumerate(out) if l.strip() and len(l) - len(l.lstrip(' ')) == ind]
            for j in sorted(rng.sample(sibs, min(len(sibs), rng.randint(1, 3))), reverse=True):
                out.insert(j + (1 if rng.random() < 0.5 else 0), out[i])
    return '\n'.join(expand_breaks(l) for l in out) + '\n'

def expand_breaks(l):
    """\\x01 inside a generated line = line break + the indentation of that line"""
    if '\x01' not in l: return l
    ind = len(l) - len(l.lstrip(' '))
    return l.replace('\x01', '\n' + ' ' * ind)

def mutate(rng, text, n=None):
    lines = text.split('\n')
    for _ in range(n or rng.randint(1, 3)):
        if not lines:
            lines = ['']
        i = rng.randrange(len(lines))
        op = rng.randrange(14)
        if op == 0: del lines[i]
        elif op == 1: lines.insert(i, lines[i])
        elif op == 2 and len(lines) > 1:
            j = rng.randrange(len(lines)); lines[i], lines[j] = lines[j], lines[i]
        elif op == 3: lines[i] = ' ' * rng.randint(0, 7) + lines[i].lstrip(' ')
        elif op == 4: lines[i] = '\t' * rng.randint(1, 2) + lines[i]
        elif op == 5:
            # append a character to / truncate a keyword
            for kw in ALL_KEYWORDS:
                if lines[i].lstrip().startswith(kw):
                    k = lines[i].index(kw) + len(kw)
                    lines[i] = lines[i][:k] + rng.choice(['S', 'x', '.', '{', '-', ' ', '']) + lines[i][k:] if rng.random() < 0.6 \
                        else lines[i][:k - 1] + lines[i][k:]
                    break
        elif op == 6:
            k = rng.randint(0, len(lines[i]))
            lines[i] = lines[i][:k] + rng.choice(INLINE_OPEN) + lines[i][k:]
        elif op == 7:
            k = rng.randint(0, len(lines[i]))
            lines[i] = lines[i][:k] + rng.choice(['\\', '|', '{', '}', '.', '*', '  ', '‏', '́', '\U0001F600', 'é', '"', "'", '<', '>', '&', '%',
                                                     '\u00a0', '\u2009', '\u3000', '\u00b9', '\u0301', '\u200b', '\ufeff']) + lines[i][k:]
        elif op == 8: lines.insert(i, '')
        elif op == 9: lines.insert(i, ' ' * rng.randint(0, 6) + rng.choice(ALL_KEYWORDS) + rng.choice(['', ' 1', ' - h', ' x']))
        elif op == 10: lines[i] = lines[i] + rng.choice([' ', '  ', '\t'])
        elif op == 12:
            # a line that holds nothing one can see: a format character alone (BOM, zero-width space, word joiner, soft hyphen),
            # half of the time as the very first line of the text
            j = 0 if rng.random() < 0.5 else i
            ind = len(lines[j]) - len(lines[j].lstrip(' '))
            lines.insert(j, ' ' * rng.choice([0, 0, ind]) + rng.choice(['\ufeff', '\u200b', '\u2060', '\u00ad', '\ufeff ', '\u200e']))
            if rng.random() < 0.3: lines.insert(j + 1, '')
        elif op == 13:
            # characters that Unicode normalisation, case folding or line splitting would change: not in normal form C, compatibility
            # forms, line/paragraph separators and NEL inside a line
            k = rng.randint(0, len(lines[i]))
            lines[i] = lines[i][:k] + rng.choice(['\u212a', '\u2126', '\u212b', 'e\u0301', '\ufb01', '\uf900', '\u1e9b\u0323', '\u2028', '\u2029', '\u0085',
                                                  '\u0130', '\u00df', '\u01c5']) + lines[i][k:]
        else:
            k = rng.randint(0, len(lines[i]))
            lines[i] = lines[i][:k]
    return '\n'.join(lines)

def soup(rng, unique=False):
    """Token soup in the style of tests/test_fuzzing.py, over all keywords and inline tokens."""
    W = Words(rng, unique)
    toks = []
    for _ in range(rng.randint(1, 40)):
        r = rng.random()
        if r < 0.35: toks.append(rng.choice(ALL_KEYWORDS))
        elif r < 0.5: toks.append(rng.choice(INLINE_OPEN))
        else: toks.append(W.word())
        toks.append(rng.choice(['\n  ', '\n    ', '\n', ' ', ' ', '\n      ', '']))
    return ''.join(toks)

def any_text(rng, root, unique=False):
    r = rng.random()
    if r < 0.55: return gen_doc(rng, root, unique)
    if r < 0.85: return mutate(rng, gen_doc(rng, root, unique))
    return soup(rng, unique)

# ---------------------------------------------------------------------------------------
# random AKN-shaped XML trees (as sx) for the eid / post / unp stages
# ---------------------------------------------------------------------------------------
HIER_TAGS = ['alinea', 'article', 'book', 'chapter', 'clause', 'division', 'indent', 'level', 'list', 'paragraph', 'part',
             'point', 'proviso', 'rule', 'section', 'subchapter', 'subclause', 'subdivision', 'sublist', 'subparagraph',
             'subpart', 'subrule', 'subsection', 'subtitle', 'title', 'tome', 'transitional']
PASS_TAGS = ['arguments', 'background', 'conclusions', 'decision', 'header', 'intro', 'introduction', 'motivation',
             'preamble', 'preface', 'remedies', 'wrapUp']
EXEMPT_TAGS = ['body', 'mainBody', 'judgmentBody', 'debateBody', 'attachments', 'num', 'heading', 'subheading', 'content',
               'tr', 'td', 'th', 'b', 'i', 'u', 'sup', 'sub', 'ins', 'del', 'inline', 'img', 'remark', 'span', 'abbr', 'br',
               'act', 'doc', 'judgment', 'akomaNtoso']
OTHER_TAGS = ['p', 'blockList', 'item', 'listIntroduction', 'listWrapUp', 'ul', 'li', 'table', 'hcontainer', 'crossHeading',
              'longTitle', 'block', 'blockContainer', 'embeddedStructure', 'authorialNote', 'ref', 'term', 'def', 'attachment',
              'debateSection', 'speech', 'speechGroup', 'from', 'question', 'answer', 'address', 'narrative', 'scene', 'foreign']
NUMS = ['1', '2', '(a)', '(b)', '1.2.', 'nn', '2_2', '1_2', ' 3 ', 'A.', '...', ' ', '', '1', '1', '2', '(1)(a)', 'IV', '“2.3“',
        '3a bis', '1-2', '-', '_', '\\1\\', 'é', 'א', ' ', '1 2', '⸗', '\U0001F600', '(a', 'a)', '1..2', 'x__y', 'sec_1', '١']

def rand_num(rng):
    r = rng.random()
    if r < 0.75:
        return rng.choice(NUMS)
    n = rng.randint(1, 4)
    return ''.join(chr(rng.choice([rng.randint(32, 126), rng.randint(0x2000, 0x206f), rng.randint(0x2e00, 0x2e7f), rng.randint(0xa0, 0x2ff),
                                   rng.choice([9, 10, 0x85, 0x3000, 0x1680, 95, 45, 46])])) for _ in range(n))

def rand_eid(rng, pool):
    r = rng.random()
    if r < 0.35: return None
    if r < 0.40: return ''
    if r < 0.7 and pool: return rng.choice(pool)
    e = rng.choice(['sec_1', 'sec_2', 'chp_1', 'part_A__sec_1', 'p_1', 'hcontainer_1', 'sec_1__p_1', 'x', 'sec_nn_1', 'para_a', 'chp_1__sec_2',
                    # ids as a hand-edited document may carry them: surrounding or inner whitespace, other case, odd characters
                    ' sec_1', 'sec_1__p_1 ', ' sec_2 ', 'sec 1', 'SEC_1', 'Sec_1__P_1', 'sec_1\u00a0', 'sec_\u0661', '#sec_1'])
    pool.append(e)
    return e

def gen_akn_tree(rng, depth=0, pool=None, maxdepth=5, ids=True):
    """Returns an sx element."""
    if pool is None:
        pool = []
    r = rng.random()
    if depth == 0:
        tag = rng.choice(['act', 'body', 'doc', 'akomaNtoso', 'chapter', 'section', 'mainBody'])
    elif r < 0.35: tag = rng.choice(HIER_TAGS)
    elif r < 0.5: tag = rng.choice(PASS_TAGS)
    elif r < 0.65: tag = rng.choice(EXEMPT_TAGS)
    elif r < 0.97: tag = rng.choice(OTHER_TAGS)
    else: tag = 'meta'
    attrs = []
    if rng.random() < 0.15:
        attrs.append(['class', rng.choice(['a', 'b c'])])
    if ids:
        e = rand_eid(rng, pool)
        exempt = tag in EXEMPT_TAGS or tag in PASS_TAGS
        if e is not None and (not exempt or rng.random() < 0.05):
            attrs.append(['eId', e])
    if rng.random() < 0.1:
        # (a name is data: it must not take part in the id - values with blanks, names of exempt elements, nothing)
        attrs.append(['name', rng.choice(['x', 'hcontainer', 'question time', 'heading', 'num', 'content', 'a b', '', 'intro'])])
    if ids and rng.random() < 0.12:
        # attributes that point at an eId (of this document or not): a rewrite must leave them alone
        target = rng.choice(pool) if pool and rng.random() < 0.7 else rng.choice(['sec_1', 'sec_2', 'chp_1', 'nowhere'])
        attrs.append([rng.choice(['href', 'href', 'refersTo', 'by', 'for', 'src']), '#' + target])
    kids = []
    if rng.random() < 0.1:
        kids.append(['T', rng.choice(['txt', ' ', 'a b'])])
    if (tag in HIER_TAGS or tag in ('item', 'hcontainer', 'attachment', 'debateSection')) and rng.random() < 0.75:
        numkids = []
        n = rand_num(rng)
        if rng.random() < 0.05:
            numkids.append(['E', 'b', [], [['T', 'x']]])
        if n != '':
            numkids.append(['T', n])
        if rng.random() < 0.05:
            numkids.append(['E', 'sup', [], [['T', 'y']]])
        kids.append(['E', 'num', [], numkids])
        if rng.random() < 0.05:
            kids.append(['E', 'num', [], [['T', rand_num(rng)]]])
    if tag == 'meta':
        kids.append(['E', 'identification', [['eId', 'ident']], [['E', 'FRBRWork', [['eId', rng.choice(['w', 'sec_1'])]], []]]])
        return ['E', tag, attrs, kids]
    if depth < maxdepth:
        n = rng.choice([0, 1, 1, 2, 2, 3, 4]) if depth > 0 else rng.randint(1, 5)
        for _ in range(n):
            kids.append(gen_akn_tree(rng, depth + 1, pool, maxdepth, ids))
            if rng.random() < 0.08:
                kids.append(['T', rng.choice(['tail', ' '])])
    return ['E', tag, attrs, kids]

def gen_post_tree(rng, depth=0, maxdepth=5):
    """AKN-shaped trees with footnote references/blocks (displaced), removable empties, attachments with headings,
    and text/tails everywhere - for the post stage (also trees the parser never produces)."""
    r = rng.random()
    if depth == 0:
        tag = rng.choice(['body', 'mainBody', 'act', 'doc'])
    elif r < 0.16: tag = 'displaced'
    elif r < 0.30: tag = 'authorialNote'
    elif r < 0.40: tag = rng.choice(['crossHeading', 'longTitle', 'content', 'preface', 'preamble', 'conclusions'])
    elif r < 0.48: tag = 'attachment'
    elif r < 0.70: tag = rng.choice(['p', 'section', 'paragraph', 'hcontainer', 'item', 'blockList', 'td', 'tr', 'table', 'i', 'b'])
    else: tag = rng.choice(['heading', 'num', 'intro', 'wrapUp', 'listIntroduction', 'doc', 'meta', 'ref', 'subheading'])
    attrs = []
    marker = rng.choice(['1', '2', '*', 'a', '1'])
    if tag == 'displaced':
        if rng.random() < 0.95: attrs.append(['marker', marker])
        if rng.random() < 0.97: attrs.append(['name', rng.choice(['footnote', 'footnote', 'footnote', 'endnote'])])
    elif tag == 'authorialNote':
        if rng.random() < 0.95: attrs.append(['marker', marker])
        attrs.append(['placement', 'bottom'])
        if rng.random() < 0.85: attrs.append(['displaced', rng.choice(['footnote', 'footnote', 'footnote', 'endnote'])])
    elif rng.random() < 0.1:
        attrs.append(['class', 'c'])
    kids = []
    if rng.random() < 0.25:
        kids.append(['T', rng.choice(['txt', ' ', 'lead'])])
    if tag == 'meta':
        kids.append(['E', 'identification', [], [['E', 'FRBRWork', [], [['E', 'FRBRalias', [['value', 'Untitled'], ['name', 'title']], []],
                                                                       ['E', 'FRBRalias', [['value', 'x'], ['name', rng.choice(['title', 'short'])]], []]]]]])
        return ['E', tag, attrs, kids]
    if tag == 'attachment':
        if rng.random() < 0.7:
            kids.append(['E', 'heading', [], [['T', 'Head '], ['E', 'b', [], [['T', 'bold']]], ['T', ' tail']]])
        if rng.random() < 0.2:
            kids.append(['E', 'heading', [], [['T', 'second']]])
    if depth < maxdepth:
        n = rng.choice([0, 0, 1, 1, 2, 3]) if depth > 0 else rng.randint(2, 6)
        if tag in ('crossHeading', 'longTitle', 'content', 'preface', 'preamble', 'conclusions') and rng.random() < 0.6:
            n = 0; kids = []
        for _ in range(n):
            kids.append(gen_post_tree(rng, depth + 1, maxdepth))
            if rng.random() < 0.2:
                kids.append(['T', rng.choice(['tail', ' ', 't2'])])
    return ['E', tag, attrs, kids]
