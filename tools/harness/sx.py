"""S-expression wire format shared with ocaml/driver.ml.
   atom = list of ints (code points); a Python str is an atom; a list/tuple is a list."""

def enc(x):
    if isinstance(x, str):
        return '[' + ','.join(str(ord(c)) for c in x) + ']'
    if isinstance(x, bool):
        return '[1]' if x else '[0]'
    if isinstance(x, int):
        return '[%d]' % x
    if isinstance(x, (list, tuple)):
        return '(' + ' '.join(enc(y) for y in x) + ')'
    raise TypeError(type(x))

def dec(s):
    pos = 0
    n = len(s)
    def item():
        nonlocal pos
        while pos < n and s[pos] == ' ':
            pos += 1
        c = s[pos]
        if c == '[':
            j = s.index(']', pos)
            body = s[pos + 1:j]
            pos = j + 1
            if not body:
                return ''
            return ''.join(chr(int(t)) for t in body.split(','))
        if c == '(':
            pos += 1
            out = []
            while True:
                while s[pos] == ' ':
                    pos += 1
                if s[pos] == ')':
                    pos += 1
                    return out
                out.append(item())
        raise ValueError('bad sx at %d: %r' % (pos, s[pos:pos + 20]))
    return item()

def num(a):
    """Decode an atom that holds a single number."""
    return ord(a) if a else 0
