"""Greedy shrinking of failing cases (line/char deletion for texts, subtree deletion for sx trees)."""

def shrink_text(text, still_fails, max_steps=2000):
    lines = text.split('\n')
    steps = 0
    n = max(1, len(lines) // 2)
    while n >= 1 and steps < max_steps:
        i = 0; changed = False
        while i < len(lines) and steps < max_steps:
            cand = lines[:i] + lines[i + n:]
            steps += 1
            if cand != lines and still_fails('\n'.join(cand)):
                lines = cand; changed = True
            else:
                i += n
        if not changed:
            n //= 2
    # shrink inside lines: drop words
    for li in range(len(lines)):
        words = lines[li].split(' ')
        i = 0
        while i < len(words) and steps < max_steps:
            if words[i] == '':
                i += 1; continue
            cand = words[:i] + words[i + 1:]
            t = lines[:li] + [' '.join(cand)] + lines[li + 1:]
            steps += 1
            if still_fails('\n'.join(t)):
                words = cand; lines = t
            else:
                i += 1
    return '\n'.join(lines)

def shrink_tree(tree, still_fails, max_steps=1500):
    """tree: sx ['E', tag, attrs, kids]"""
    import copy
    steps = [0]
    def paths(t, p=()):
        out = []
        for i, k in enumerate(t[3]):
            out.append(p + (i,))
            if k[0] == 'E': out.extend(paths(k, p + (i,)))
        return out
    def remove(t, path):
        t = copy.deepcopy(t); cur = t
        for i in path[:-1]: cur = cur[3][i]
        del cur[3][path[-1]]
        return t
    changed = True
    while changed and steps[0] < max_steps:
        changed = False
        for p in sorted(paths(tree), key=len):
            steps[0] += 1
            if steps[0] > max_steps: break
            try:
                cand = remove(tree, p)
            except IndexError:
                continue
            if still_fails(cand):
                tree = cand; changed = True
                break
    return tree
