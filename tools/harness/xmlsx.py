"""lxml element trees <-> the s-expression form of Base/Xml.v."""
from lxml import etree
NS = 'http://docs.oasis-open.org/legaldocml/ns/akn/3.0'

def local(tag):
    return tag.split('}', 1)[-1] if isinstance(tag, str) else '#' + str(tag)

def to_sx(el):
    kids = []
    if el.text:
        kids.append(['T', el.text])
    for c in el:
        kids.append(to_sx(c))
        if c.tail:
            kids.append(['T', c.tail])
    return ['E', local(el.tag), [[local(k), v] for k, v in el.attrib.items()], kids]

def from_sx(x, ns=NS):
    assert x[0] == 'E'
    el = etree.Element('{%s}%s' % (ns, x[1]), nsmap={None: ns})
    for k, v in x[2]:
        el.set(k, v)
    last = None
    for k in x[3]:
        if k[0] == 'T':
            if last is None:
                el.text = (el.text or '') + k[1]
            else:
                last.tail = (last.tail or '') + k[1]
        else:
            last = from_sx(k, ns)
            el.append(last)
    return el

def norm_sx(x):
    """merge adjacent text nodes, drop empty ones (both sides are normalised the same way)"""
    if x[0] == 'T':
        return x
    kids = []
    for k in x[3]:
        k = norm_sx(k)
        if k[0] == 'T':
            if k[1] == '':
                continue
            if kids and kids[-1][0] == 'T':
                kids[-1] = ['T', kids[-1][1] + k[1]]
                continue
        kids.append(k)
    return ['E', x[1], [list(a) for a in x[2]], kids]

def walk(x, path=()):
    """yield (path, element-sx) in document order"""
    if x[0] == 'E':
        yield path, x
        for i, k in enumerate(x[3]):
            yield from walk(k, path + (i,))
