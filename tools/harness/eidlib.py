"""Oracles about eIds, evaluated on implementation output (lxml trees), written independently of xml.py."""
import re, copy
from lxml import etree
from . import xmlsx

class Spec:
    """The naming convention's tables as the oracles read them: written down here (AKN naming convention as bluebell documents it), NOT
    read from xml.py - the model is regenerated from the live tables, the oracles are not, so a change to a table shows up as a
    difference between what the code does and what the convention prescribes."""
    id_exempt = {'abbr', 'act', 'akomaNtoso', 'amendment', 'amendmentBody', 'amendmentList', 'attachments', 'b', 'bill', 'body', 'br',
                 'collectionBody', 'components', 'content', 'coverPage', 'debate', 'debateBody', 'debateReport', 'del', 'doc',
                 'documentCollection', 'heading', 'i', 'img', 'inline', 'ins', 'judgment', 'judgmentBody', 'mainBody', 'meta', 'num',
                 'officialGazette', 'portion', 'portionBody', 'remark', 'span', 'statement', 'sub', 'subheading', 'sup', 'td', 'th', 'tr', 'u'}
    id_exempt_but_pass_to_children = {'arguments', 'background', 'conclusions', 'decision', 'header', 'intro', 'introduction', 'motivation',
                                      'preamble', 'preface', 'remedies', 'wrapUp'}
    num_expected = {'alinea', 'article', 'book', 'chapter', 'clause', 'division', 'indent', 'item', 'level', 'list', 'paragraph', 'part',
                    'point', 'proviso', 'rule', 'section', 'subchapter', 'subclause', 'subdivision', 'sublist', 'subparagraph', 'subpart',
                    'subrule', 'subsection', 'subtitle', 'title', 'tome', 'transitional'}
    aliases = {'alinea': 'al', 'amendmentBody': 'body', 'article': 'art', 'attachment': 'att', 'blockList': 'list', 'chapter': 'chp',
               'citation': 'cit', 'citations': 'cits', 'clause': 'cl', 'component': 'cmp', 'components': 'cmpnts', 'componentRef': 'cref',
               'debateBody': 'body', 'debateSection': 'dbsect', 'division': 'dvs', 'documentRef': 'dref', 'eventRef': 'eref',
               'judgmentBody': 'body', 'listIntroduction': 'intro', 'listWrapUp': 'wrapup', 'mainBody': 'body', 'paragraph': 'para',
               'quotedStructure': 'qstr', 'quotedText': 'qtext', 'recital': 'rec', 'recitals': 'recs', 'section': 'sec', 'subchapter': 'subchp',
               'subclause': 'subcl', 'subdivision': 'subdvs', 'subparagraph': 'subpara', 'subsection': 'subsec', 'temporalGroup': 'tmpg',
               'wrapUp': 'wrapup'}

def tables():
    return Spec

def local(el):
    return xmlsx.local(el.tag)

def iter_outside_meta(root):
    """elements in document order, skipping meta subtrees"""
    stack = [root]
    while stack:
        el = stack.pop()
        if not isinstance(el.tag, str):
            continue
        if local(el) == 'meta':
            continue
        yield el
        stack.extend(reversed(list(el)))

# the property's own list of elements that must not carry an eId (document roots, bodies, containers, inline formatting,
# num/heading/content, table rows and cells): written down here, independently of the tables in xml.py - a change to those
# tables that makes one of these elements identifiable (or another element exempt) is what the oracle has to see
NO_EID = Spec.id_exempt | Spec.id_exempt_but_pass_to_children

def c07_oracle(root, prefix, explicit_ids=False):
    """presence/absence, uniqueness, non-empty, no whitespace, prefix. Returns None or description."""
    seen = {}
    for el in iter_outside_meta(root):
        tag = local(el)
        eid = el.get('eId')
        ident = tag not in NO_EID
        if ident:
            if eid is None or eid == '':
                return 'identifiable element <%s> has no eId' % tag
            if any(c.isspace() for c in eid):
                return 'eId %r contains whitespace' % eid
            if prefix and not eid.startswith(prefix + '__'):
                return 'eId %r does not start with the prefix %r' % (eid, prefix)
        else:
            if eid is not None and not explicit_ids:
                return 'exempt element <%s> carries eId %r' % (tag, eid)
        if eid is not None and (ident or not explicit_ids):
            if eid in seen:
                return 'duplicate eId %r on <%s> and <%s>' % (eid, seen[eid], tag)
            seen[eid] = tag
    return None

_WS = None
def clean_num_ref(num):
    """independent reading of the documented algorithm (strip edge ws+punct, drop ws, punct runs -> '-')"""
    def is_ws(c): return c.isspace() or c in '\x1c\x1d\x1e\x1f'
    def is_punct(c):
        o = ord(c)
        return (0x2000 <= o <= 0x206f) or (0x2e00 <= o <= 0x2e7f) or c in '!"#$%&\'()*+,-./:;<=>?@[]^_`{|}~'
    s = num
    i = 0
    while i < len(s) and (is_ws(s[i]) or is_punct(s[i])): i += 1
    s = s[i:]
    j = len(s)
    while j > 0 and (is_ws(s[j - 1]) or is_punct(s[j - 1])): j -= 1
    s = s[:j]
    s = ''.join(c for c in s if not is_ws(c))
    out = []
    prev = False
    for c in s:
        if is_punct(c):
            if not prev: out.append('-')
            prev = True
        else:
            out.append(c); prev = False
    return ''.join(out)

def num_text(el):
    ns = el.nsmap.get(None)
    for n in el.iterchildren('{%s}num' % ns):
        return n.text or ''
    return ''

def c08_convention_oracle(root, prefix):
    """Every identified element's id = ctx + alias + '_' + n + suffixes, n by the documented rule; counters and
    suffixes in document order. Independent reference computation (two dictionaries), compared with the ids present."""
    G = tables()
    issued = {}     # candidate/issued string -> times requested
    counters = {}   # (ctx, tag) -> count
    def walk(el, ctx):
        tag = local(el)
        if tag == 'meta':
            return None
        if tag not in G.id_exempt and tag not in G.id_exempt_but_pass_to_children:
            n = clean_num_ref(num_text(el))
            nn = False
            if not n and tag in G.num_expected:
                n, nn = 'nn', True
            if not n:
                counters[(ctx, tag)] = counters.get((ctx, tag), 0) + 1
                n = str(counters[(ctx, tag)])
            cand = (ctx + '__' if ctx else '') + G.aliases.get(tag, tag) + '_' + n
            # disambiguation in document order
            while True:
                issued[cand] = issued.get(cand, 0) + 1
                k = issued[cand]
                if k == 1 and not nn:
                    break
                cand, nn = '%s_%d' % (cand, k), False
            if el.get('eId') != cand:
                return 'element <%s> has eId %r, convention gives %r' % (tag, el.get('eId'), cand)
            ctx = cand
        if tag in G.id_exempt_but_pass_to_children:
            ctx = (ctx + '__' + tag.lower()) if ctx else tag.lower()
        for k in el:
            if isinstance(k.tag, str):
                r = walk(k, ctx)
                if r: return r
        return None
    return walk(root, prefix)

def c08_first_asker_oracle(root, prefix):
    """instances of C08_clash_suffix_in_document_order, read from the output tree alone: a numbered element carries its bare candidate
    unless an earlier id (document order) is that candidate, bare or followed by _<k> suffixes"""
    import re
    G = tables()
    seen = []
    def walk(el, ctx):
        tag = local(el)
        if tag == 'meta':
            return None
        if tag not in G.id_exempt and tag not in G.id_exempt_but_pass_to_children:
            eid = el.get('eId') or ''
            n = clean_num_ref(num_text(el))
            if n:
                cand = (ctx + '__' if ctx else '') + G.aliases.get(tag, tag) + '_' + n
                pat = re.compile(re.escape(cand) + r'(_[0-9]+)*\Z')
                if eid != cand and not any(pat.match(y) for y in seen):
                    return 'element <%s> numbered %r has eId %r although no earlier id is built on %r' % (tag, n, eid, cand)
            seen.append(eid)
            ctx = eid
        if tag in G.id_exempt_but_pass_to_children:
            ctx = (ctx + '__' + tag.lower()) if ctx else tag.lower()
        for k in el:
            if isinstance(k.tag, str):
                r = walk(k, ctx)
                if r: return r
        return None
    return walk(root, prefix)

def erase_eids(el):
    el = copy.deepcopy(el)
    for x in iter_outside_meta(el):
        if 'eId' in x.attrib:
            del x.attrib['eId']
    return etree.tostring(el)

def ids_in_order(root):
    return [el.get('eId') for el in iter_outside_meta(root)]
