"""Run the extracted model (ocaml/model.exe) on a batch of requests."""
import os, subprocess, tempfile
from concurrent.futures import ThreadPoolExecutor
from . import sx

VERIF = os.path.dirname(os.path.dirname(os.path.dirname(os.path.abspath(__file__))))
EXE = os.path.join(VERIF, 'ocaml', 'model.exe')

def _run_shard(lines, timeout):
    p = subprocess.run(['bash', '-c', 'ulimit -s unlimited 2>/dev/null; exec "$0"', EXE],
                       input='\n'.join(lines) + '\n', capture_output=True, text=True, timeout=timeout)
    out = p.stdout.split('\n')
    if out and out[-1] == '':
        out.pop()
    if len(out) != len(lines):
        # the process died on some line; mark the rest
        out = out + ['("CRASH")'] * (len(lines) - len(out))
    return out

def run(requests, shards=16, timeout=900):
    """requests: list of python objects (see sx.enc). Returns the list of decoded answers."""
    if not requests:
        return []
    lines = [sx.enc(r) for r in requests]
    k = max(1, min(shards, len(lines) // 8 or 1))
    chunks = [lines[i::k] for i in range(k)]
    with ThreadPoolExecutor(max_workers=k) as ex:
        res = list(ex.map(lambda ch: _run_shard(ch, timeout), chunks))
    out = [None] * len(lines)
    for ci, ch in enumerate(res):
        for j, line in enumerate(ch):
            out[ci + j * k] = line
    dec = []
    for line in out:
        if line.startswith('("'):
            dec.append(['ERR', line.strip('()"')])
        else:
            dec.append(sx.dec(line))
    return dec

def is_err(x):
    return isinstance(x, list) and len(x) >= 1 and x[0] == 'ERR'
