"""Check driver shared by all properties: regenerate -> obligations -> correspondence ->
search -> verdict -> evidence.  See DESIGN.md section 2.7."""
import os, sys, json, time, subprocess, hashlib, re, fcntl, random, traceback, glob

VERIF = os.path.dirname(os.path.dirname(os.path.dirname(os.path.abspath(__file__))))
REPO = os.environ.get('BLUEBELL_REPO', '/repo')
COQ = os.path.join(VERIF, 'coq')
OUT = os.path.join(VERIF, 'out')
PY = '/venv/bin/python'

os.environ['PYTHONPATH'] = REPO
os.environ.setdefault('PYTHONHASHSEED', '0')
if REPO not in sys.path:
    sys.path.insert(0, REPO)

TRANSLATORS = {
    # name -> (script, output file under coq/Gen)
    'parser': ('gen_tables_parser.py', 'TablesParser.v'),
    'xml': ('gen_tables_xml.py', 'TablesXml.v'),
    'types': ('gen_tables_types.py', 'TablesTypes.v'),
    'grammar': ('gen_grammar.py', 'Grammar.v'),
    'grammarpy': ('decompile_canopy.py', 'GrammarPy.v'),
    'xsl': ('gen_tables_xsl.py', 'TablesXsl.v'),
    'libs': ('gen_tables_libs.py', 'TablesLibs.v'),
    'readme': ('gen_tables_readme.py', 'TablesReadme.v'),
}

FORBIDDEN = re.compile(r'\b(Admitted|admit|Axiom|Parameter|Conjecture|Unset\s+Guard|bypass_check|Admit\s+Obligations|type-in-type|impredicative-set)\b')

ALLOWED_AXIOMS = set()   # the development is meant to be closed under the global context


class Lock:
    def __init__(self, name):
        os.makedirs(OUT, exist_ok=True)
        self.path = os.path.join(OUT, name)
    def __enter__(self):
        self.f = open(self.path, 'w')
        fcntl.flock(self.f, fcntl.LOCK_EX)
    def __exit__(self, *a):
        fcntl.flock(self.f, fcntl.LOCK_UN)
        self.f.close()


def sh(cmd, timeout=1800, cwd=None, env=None):
    e = dict(os.environ)
    if env:
        e.update(env)
    p = subprocess.run(cmd, shell=isinstance(cmd, str), capture_output=True, text=True, timeout=timeout, cwd=cwd, env=e)
    return p.returncode, p.stdout + p.stderr


def regenerate(names=None):
    """Run the translators. Returns {name: error or None}."""
    res = {}
    for name, (script, outf) in TRANSLATORS.items():
        if names is not None and name not in names:
            continue
        path = os.path.join(VERIF, 'tools', script)
        if not os.path.exists(path):
            continue
        try:
            rc, out = sh([PY, path, os.path.join(COQ, 'Gen', outf)], timeout=600)
        except subprocess.TimeoutExpired:
            rc, out = 124, 'timeout'
        res[name] = None if rc == 0 else out.strip()[-2000:]
    return res


def tree_hash(paths, exts):
    h = hashlib.sha256()
    for root in paths:
        for dp, dn, fn in sorted(os.walk(root)):
            dn.sort()
            for f in sorted(fn):
                if f.endswith(exts):
                    p = os.path.join(dp, f)
                    h.update(p.encode())
                    with open(p, 'rb') as fh:
                        h.update(fh.read())
    return h.hexdigest()


def ensure_makefile():
    mk = os.path.join(COQ, 'Makefile')
    cp = os.path.join(COQ, '_CoqProject')
    if not os.path.exists(mk) or os.path.getmtime(mk) < os.path.getmtime(cp):
        rc, out = sh('coq_makefile -f _CoqProject -o Makefile', cwd=COQ)
        if rc != 0:
            raise RuntimeError(out)


def build_targets(targets, timeout=2400):
    """make the given .vo targets (and what they depend on). Returns (ok, log)."""
    ensure_makefile()
    try:
        rc, out = sh(['make', '-k', '-j16'] + targets, cwd=COQ, timeout=timeout)
    except subprocess.TimeoutExpired:
        return False, 'make timed out'
    return rc == 0, out


def build_model():
    """(Re)build ocaml/model.exe when the model sources changed. Returns (ok, log)."""
    stamp = os.path.join(OUT, 'model.stamp')
    h = tree_hash([os.path.join(COQ, d) for d in ('Base', 'Gen', 'Model', 'Extract')], ('.v',)) + \
        tree_hash([os.path.join(VERIF, 'ocaml')], ('driver.ml',))
    exe = os.path.join(VERIF, 'ocaml', 'model.exe')
    if os.path.exists(exe) and os.path.exists(stamp) and open(stamp).read() == h:
        return True, ''
    ok, log = build_targets(['Model/Dispatch.vo'])
    if not ok:
        return False, log
    rc, out = sh([os.path.join(VERIF, 'tools', 'build_model.sh')], timeout=900)
    if rc != 0:
        return False, out
    with open(stamp, 'w') as f:
        f.write(h)
    return True, ''


def check_property_file(pid):
    """Compile Properties/<pid>.v afresh, capture Print Assumptions output.
    Returns dict(obligations, discharged, theorems=[(name, closed/axioms)], errors=[...])."""
    src = os.path.join(COQ, 'Properties', pid + '.v')
    res = {'obligations': 0, 'discharged': 0, 'theorems': [], 'errors': []}
    if not os.path.exists(src):
        res['errors'].append('missing ' + src)
        return res
    text = open(src).read()
    names = re.findall(r'^\s*Print Assumptions\s+([A-Za-z0-9_\.\']+)\s*\.', text, re.M)
    thms = re.findall(r'^\s*(?:Theorem|Lemma|Corollary)\s+([A-Za-z0-9_\']+)', text, re.M)
    res['obligations'] = len(thms)
    missing = [t for t in thms if t not in names]
    if missing:
        res['errors'].append('theorems without Print Assumptions: ' + ', '.join(missing))
    ok, log = build_targets(['Properties/%s.vo' % pid])
    if not ok:
        res['errors'].append('build failed')
        res['log'] = log[-6000:]
        # which theorem files failed?
        res['failed_files'] = re.findall(r'^File "([^"]+)", line (\d+)', log, re.M)
        return res
    tmpd = os.path.join(OUT, 'props')
    os.makedirs(tmpd, exist_ok=True)
    rc, out = sh(['coqc', '-Q', '.', 'BB', 'Properties/%s.v' % pid, '-o', os.path.join(tmpd, pid + '.vo')], cwd=COQ, timeout=1200)
    for f in glob.glob(os.path.join(tmpd, pid + '.*')) + glob.glob(os.path.join(tmpd, '.' + pid + '.*')):
        try: os.remove(f)
        except OSError: pass
    if rc != 0:
        res['errors'].append('coqc failed on property file')
        res['log'] = out[-4000:]
        return res
    # split the output into one block per Print Assumptions
    blocks = re.split(r'(?=Closed under the global context|Axioms:)', out)
    blocks = [b for b in blocks if b.startswith('Closed') or b.startswith('Axioms:')]
    if len(blocks) != len(names):
        res['errors'].append('expected %d assumption reports, got %d' % (len(names), len(blocks)))
    for name, b in zip(names, blocks):
        if b.startswith('Closed'):
            res['theorems'].append((name, 'closed'))
            res['discharged'] += 1
        else:
            axs = re.findall(r'^([A-Za-z0-9_\.\']+)\s*:', b, re.M)
            bad = [a for a in axs if a not in ALLOWED_AXIOMS]
            res['theorems'].append((name, 'axioms: ' + ', '.join(axs)))
            if bad:
                res['errors'].append('%s depends on axioms %s' % (name, bad))
            else:
                res['discharged'] += 1
    return res


def coqchk_gate(pid):
    """thorough tier: the independent checker re-checks the property library and everything it depends on, and lists axioms"""
    rc, out = sh(['coqchk', '-silent', '-o', '-Q', '.', 'BB', 'BB.Properties.' + pid], cwd=COQ, timeout=3000)
    m = re.search(r'\* Axioms:\s*(.*?)\n\s*\n', out, re.S)
    axioms = m.group(1).strip() if m else '?'
    ok = rc == 0 and axioms == '<none>' and all(('%s: <none>' % k) in out.replace('\n', ' ') or re.search(re.escape(k) + r':\s*<none>', out)
                                                for k in ('relying on type-in-type', 'relying on unsafe (co)fixpoints', 'whose positivity is assumed'))
    return ok, axioms, out[-1500:]


def grep_gate():
    """No Admitted/Axiom/... anywhere in the development."""
    bad = []
    for dp, dn, fn in os.walk(COQ):
        for f in fn:
            if f.endswith('.v'):
                p = os.path.join(dp, f)
                for i, line in enumerate(open(p, encoding='utf-8'), 1):
                    code = re.sub(r'\(\*.*?\*\)', '', line)
                    if FORBIDDEN.search(code):
                        bad.append('%s:%d: %s' % (os.path.relpath(p, VERIF), i, line.strip()))
    cp = open(os.path.join(COQ, '_CoqProject')).read()
    if FORBIDDEN.search(cp):
        bad.append('_CoqProject has a forbidden flag')
    return bad


def load_known():
    p = os.path.join(VERIF, 'known_findings.json')
    if not os.path.exists(p):
        return []
    return json.load(open(p))


class Ctx:
    """Everything a property module needs."""
    def __init__(self, pid, tier, seed):
        self.pid, self.tier, self.seed = pid, tier, seed
        self.rng = random.Random(seed)
        self.quick = tier == 'quick'
        self.stats = {}
        self.samples = []
        self.evaluations = 0
        self.distinct = set()
        self.disagreements = []     # (stage, case, impl, model)
        self.failures = []          # (case dict, description) - oracle failures on the implementation
        self.known_hits = {}        # finding id -> count
        self.notes = []
        self.broken = []            # names of obligations / stages no longer checking

    def n(self, quick, thorough):
        return quick if self.quick else thorough

    def count(self, key, k=1):
        self.stats[key] = self.stats.get(key, 0) + k

    def sample(self, x, limit=6):
        if len(self.samples) < limit:
            self.samples.append(x)

    def nontrivial(self, key):
        self.distinct.add(hashlib.md5(repr(key).encode('utf-8', 'surrogatepass')).hexdigest())


def write_evidence(pid, ctx, level, coverage, assumptions, wall, violations):
    os.makedirs(os.path.join(VERIF, 'evidence'), exist_ok=True)
    ev = {
        'property_id': pid, 'tier': ctx.tier, 'seed': ctx.seed, 'level': level,
        'coverage': coverage, 'assumptions': assumptions, 'wall_s': round(wall, 2),
        'violations': violations,
    }
    p = os.path.join(VERIF, 'evidence', pid + '.json')
    with open(p + '.tmp', 'w') as f:
        json.dump(ev, f, indent=1, ensure_ascii=True, default=str)
    os.replace(p + '.tmp', p)


def write_replay(pid, obj):
    d = os.path.join(OUT, 'replay')
    os.makedirs(d, exist_ok=True)
    p = os.path.join(d, '%s-%d.json' % (pid, int(time.time() * 1000) % 10**10))
    with open(p, 'w') as f:
        json.dump(obj, f, indent=1, ensure_ascii=True, default=str)
    return p


def run_corpus(ctx, mod, pid):
    """the committed corpus: for every stored seeded change, the input on which the check caught it (corpus/<pid>/<seed>.json, written by
    tools/reseed.sh and verified to pass on the unchanged tree). Each is replayed on every run, before anything random decides: a
    change that was caught once is caught again whatever the generators draw"""
    d = os.path.join(VERIF, 'corpus', pid)
    if not os.path.isdir(d) or os.environ.get('RESEED_NO_CORPUS'):
        return
    import io, contextlib
    for fn in sorted(os.listdir(d)):
        if not fn.endswith('.json'): continue
        try:
            obj = json.load(open(os.path.join(d, fn)))
            with contextlib.redirect_stdout(io.StringIO()):
                rc = mod.replay(obj)
        except Exception as e:
            rc = 1; obj = {'case': {'stage': 'corpus'}, 'what': 'replay raised %s' % type(e).__name__}
        ctx.evaluations += 1; ctx.count('corpus_inputs')
        if rc:
            case = dict(obj.get('case') or {}); case['corpus'] = fn[:-5]
            ctx.failures.append((case, 'corpus input %s fails again: %s' % (fn[:-5], (obj.get('what') or '')[:300])))

def run_check(pid, tier, seed, mod):
    """mod: the property module (tools/props/<pid>.py). Returns exit code."""
    t0 = time.time()
    ctx = Ctx(pid, tier, seed)
    known = [k for k in load_known() if k.get('property') == pid and k.get('status', 'open') == 'open']
    # 1. regenerate + build, under a lock shared by all checks
    with Lock('build.lock'):
        tr = regenerate(getattr(mod, 'TRANSLATORS', None))
        for name, err in tr.items():
            if err:
                ctx.broken.append({'obligation': 'translate:' + name, 'detail': err})
        gate = grep_gate()
        for g in gate:
            ctx.broken.append({'obligation': 'grep-gate', 'detail': g})
        prop = check_property_file(pid)
        for e in prop['errors']:
            ctx.broken.append({'obligation': 'theorems:' + pid, 'detail': e, 'log': prop.get('log', '')[-3000:],
                               'files': prop.get('failed_files')})
        if tier == 'thorough' and not prop['errors']:
            okc, axioms, clog = coqchk_gate(pid)
            ctx.notes.append('coqchk -o BB.Properties.%s: axioms %s' % (pid, axioms))
            if not okc:
                ctx.broken.append({'obligation': 'coqchk:' + pid, 'detail': clog})
        ok, log = build_model()
        if not ok:
            ctx.broken.append({'obligation': 'model-build', 'detail': log[-3000:]})
    model_ok = ok
    # 2. correspondence + search
    budget = 1
    try:
        if model_ok:
            mod.correspondence(ctx)
        mod.search(ctx, budget)
        run_corpus(ctx, mod, pid)
        from . import impl as _impl
        if _impl.CRASHED:
            # a job that kills its worker process even when run alone: report it, it is never silently skipped
            ctx.stats['worker_crashes'] = [list(c) for c in _impl.CRASHED[:5]]
            ctx.broken.append({'obligation': 'harness', 'detail': 'a job kills its worker process when run alone: %s %s' % _impl.CRASHED[0]})
        if _impl.RAISED:
            # a job of the harness raised instead of answering: the check is not sound on that item, so this is reported as a broken obligation
            ctx.stats['harness_exceptions'] = [list(c) for c in _impl.RAISED[:5]]
            ctx.broken.append({'obligation': 'harness', 'detail': 'a job raised %s in %s on %s' % (_impl.RAISED[0][1], _impl.RAISED[0][0], _impl.RAISED[0][2])})
        if (ctx.broken or ctx.disagreements) and not unknown_failures(ctx, mod, known):
            # something no longer checks: look harder for a concrete failing input
            ctx.notes.append('extended search after broken obligation/correspondence')
            for stage, case, impl, model in ctx.disagreements[:50]:
                try:
                    mod.probe_disagreement(ctx, stage, case)
                except AttributeError:
                    pass
            if not unknown_failures(ctx, mod, known):
                mod.search(ctx, 8)
    except Exception:
        ctx.broken.append({'obligation': 'harness', 'detail': traceback.format_exc()[-3000:]})
    # 3. verdict
    unknown = unknown_failures(ctx, mod, known)
    rc = 0
    lines = []
    for k in known:
        hits = ctx.known_hits.get(k['id'], 0)
        if hits:
            lines.append('KNOWN-FINDING: property=%s %s [%s; %d case(s) this run]' % (pid, k['what'], k['id'], hits))
    if unknown:
        case, desc = unknown[0]
        rp = write_replay(pid, {'property': pid, 'kind': 'failing-input', 'what': desc, 'case': case,
                                'replay_cmd': './check %s --replay <this file>' % pid,
                                'also_broken': ctx.broken[:5],
                                'disagreements': [dict(stage=s, case=c, impl=i, model=m) for s, c, i, m in ctx.disagreements[:3]]})
        lines.append('VIOLATION property=%s replay=%s' % (pid, rp))
        rc = 1
    elif ctx.broken or ctx.disagreements:
        rp = write_replay(pid, {'property': pid, 'kind': 'no-longer-shown',
                                'broken_obligations': ctx.broken[:10],
                                'disagreements': [dict(stage=s, case=c, impl=i, model=m) for s, c, i, m in ctx.disagreements[:10]],
                                'note': 'a theorem, translator or correspondence stage no longer checks; the search found no input on which the property itself fails'})
        lines.append('VIOLATION property=%s replay=%s no-failing-input-found' % (pid, rp))
        rc = 1
    wall = time.time() - t0
    cov = {
        'obligations': max(prop['obligations'], 1) + len(ctx.broken),
        'discharged': prop['discharged'] if not ctx.broken else min(prop['discharged'], max(prop['obligations'], 1) + len(ctx.broken) - 1),
        'checker_cmd': 'cd /verif/coq && make Properties/%s.vo && coqc -Q . BB Properties/%s.v  (Print Assumptions under every theorem)' % (pid, pid),
        'trusted_base': getattr(mod, 'TRUSTED_BASE', []),
        'theorems': prop['theorems'],
        'evaluations': ctx.evaluations,
        'distinct_nontrivial': len(ctx.distinct),
        'rule': getattr(mod, 'RULE', ''),
        'samples': ctx.samples or ['(no samples)'],
        'stats': ctx.stats,
        'disagreements': len(ctx.disagreements),
        'oracle_failures_known': sum(ctx.known_hits.values()),
        'oracle_failures_unknown': len(unknown),
        'broken': [b['obligation'] for b in ctx.broken],
        'notes': ctx.notes,
        'exhaustive': False,
    }
    write_evidence(pid, ctx, getattr(mod, 'LEVEL', 'proof'), cov, getattr(mod, 'ASSUMPTIONS', []), wall, 1 if rc else 0)
    for l in lines:
        print(l)
    print('%s %s tier=%s seed=%d obligations=%d/%d evaluations=%d distinct=%d disagreements=%d wall=%.1fs' % (
        'FAIL' if rc else 'OK', pid, tier, seed, cov['discharged'], cov['obligations'], ctx.evaluations,
        len(ctx.distinct), len(ctx.disagreements), wall))
    if ctx.broken:
        for b in ctx.broken[:5]:
            print('  broken:', b['obligation'], '-', str(b['detail'])[:300].replace('\n', ' | '))
    return rc


def unknown_failures(ctx, mod, known):
    """Classify oracle failures against the known findings; returns the unlisted ones."""
    out = []
    ctx.known_hits = {}
    for case, desc in ctx.failures:
        hit = None
        for k in known:
            clf = getattr(mod, 'CLASSIFIERS', {}).get(k['classifier'])
            try:
                if clf and clf(case, desc):
                    hit = k
                    break
            except Exception:
                pass
        if hit:
            ctx.known_hits[hit['id']] = ctx.known_hits.get(hit['id'], 0) + 1
        else:
            out.append((case, desc))
    return out
