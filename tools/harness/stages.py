"""Correspondence stages shared by the property modules: run implementation and extracted model on the same
inputs, record disagreements in ctx."""
from . import impl, model, gen, sx, xmlsx

URIS = ['/akn/za/act/2009/1', '/akn/za-cpt/act/by-law/2010/public-places', '/akn/na/judgment/nasc/2020/5',
        '/akn/za/act/2009/10/afr@2012-06-01', '/akn/ke/act/ln/2011/5/swa@', '/akn/za/act/2009/10/eng@2010-01-01/!main']
PREFIXES = ['', '', '', 'p_1', 'chp_1__sec_2', '_tmp', 'a__']

def doc_cases(ctx, n, roots=None, unique=False):
    out = []
    for _ in range(n):
        root = ctx.rng.choice(roots or gen.ROOTS7)
        out.append((ctx.rng.choice(URIS), root, ctx.rng.choice(PREFIXES), gen.any_text(ctx.rng, root, unique)))
    return out

def norm_model_xml(y):
    return xmlsx.norm_sx(y) if (isinstance(y, list) and y and y[0] == 'E') else y

def stage_e2e(ctx, cases, keep=False):
    a = impl.pmap(impl.e2e_sx, cases, chunk=8)
    b = [norm_model_xml(y) for y in model.run([['e2e', *c] for c in cases])]
    for c, x, y in zip(cases, a, b):
        ctx.evaluations += 1; ctx.count('e2e_cases')
        ctx.count('e2e_' + (x[0] if x[0] != 'ERR' else 'ERR_' + x[1]))
        if x != y:
            ctx.disagreements.append(('e2e', {'uri': c[0], 'root': c[1], 'prefix': c[2], 'text': c[3]},
                                      x if x[0] == 'ERR' else '<xml>', y if (isinstance(y, list) and y and y[0] == 'ERR') else '<xml differs>'))
    if keep:
        ctx._e2e = (cases, a)
    return a

def stage_dict(ctx, cases):
    """cases: (rule, pre-parsed text)"""
    a = impl.pmap(impl.to_dict_stage, cases, chunk=8)
    b = model.run([['dict', r, t] for r, t in cases])
    for c, x, y in zip(cases, a, b):
        ctx.evaluations += 1; ctx.count('dict_cases')
        if x != y:
            ctx.disagreements.append(('dict', {'rule': c[0], 'text': c[1]}, x if x[0] == 'ERR' else '<dict>', y if y[0] == 'ERR' else '<dict differs>'))
    return a

def stage_post(ctx, cases):
    """cases: (step, prefix, tree sx)"""
    a = impl.pmap(impl.post_step, cases, chunk=32)
    b = [norm_model_xml(y) for y in model.run([['post', *c] for c in cases])]
    for c, x, y in zip(cases, a, b):
        ctx.evaluations += 1; ctx.count('post_cases'); ctx.count('post_' + c[0])
        if x != y:
            ctx.disagreements.append(('post', {'step': c[0], 'prefix': c[1], 'tree': c[2]}, x if x[0] == 'ERR' else '<xml>', '<differs>'))
    return a

def stage_unp(ctx, trees):
    """trees: xml sx; the whole unparser (akn_text.xsl through libxslt) against Model/UnparseDoc.v"""
    a = impl.pmap(impl.unparse_sx, trees, chunk=8)
    b = model.run([['unp', t] for t in trees])
    for t, x, y in zip(trees, a, b):
        ctx.evaluations += 1; ctx.count('unp_cases')
        if x != y:
            ctx.disagreements.append(('unp', {'unparse_tree': t}, x if isinstance(x, list) else '<text>', y if isinstance(y, list) else '<text differs>'))
    return a

def post_cases(ctx, n, steps=('displaced', 'normalise', 'titles', 'all')):
    return [(ctx.rng.choice(steps), ctx.rng.choice(['', 'p']), xmlsx.norm_sx(gen.gen_post_tree(ctx.rng))) for _ in range(n)]

def replay_stage(case):
    """re-run one recorded disagreement on both sides; returns True if they agree"""
    if 'unparse_tree' in case:
        x = impl.unparse_sx(case['unparse_tree']); y = model.run([['unp', case['unparse_tree']]])[0]
        if x != y and isinstance(x, str) and isinstance(y, str):
            i = next((i for i in range(min(len(x), len(y))) if x[i] != y[i]), min(len(x), len(y)))
            print('first difference at', i, repr(x[max(0, i - 60):i + 40]), '|', repr(y[max(0, i - 60):i + 40]))
    elif 'tree' in case and 'step' in case:
        c = (case['step'], case['prefix'], case['tree'])
        x = impl.post_step(c); y = norm_model_xml(model.run([['post', *c]])[0])
    elif 'uri' in case:
        c = (case['uri'], case['root'], case['prefix'], case['text'])
        x = impl.e2e_sx(c); y = norm_model_xml(model.run([['e2e', *c]])[0])
    elif 'rule' in case:
        c = (case['rule'], case['text'])
        x = impl.to_dict_stage(c); y = model.run([['dict', *c]])[0]
    else:
        return None
    print('implementation == model:', x == y)
    return x == y
