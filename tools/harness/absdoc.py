"""Abstract documents over the vocabulary the README documents, an independent printer to bluebell text and an
independent description of the Akoma Ntoso tree the README prescribes for them (C04's specification; also the
"clean" document generator for C05/C06).  Nothing here looks at bluebell's code or tables."""
from lxml import etree

NS = 'http://docs.oasis-open.org/legaldocml/ns/akn/3.0'

# README: hierarchical keywords and synonyms -> AKN element
HIER = {k: k.lower() for k in ['ALINEA', 'ARTICLE', 'BOOK', 'CHAPTER', 'CLAUSE', 'DIVISION', 'INDENT', 'LEVEL', 'LIST', 'PARAGRAPH', 'PART',
                               'POINT', 'PROVISO', 'RULE', 'SECTION', 'SUBCHAPTER', 'SUBCLAUSE', 'SUBDIVISION', 'SUBLIST', 'SUBPARAGRAPH',
                               'SUBPART', 'SUBRULE', 'SUBSECTION', 'SUBTITLE', 'TITLE', 'TOME', 'TRANSITIONAL']}
HIER.update({'ART': 'article', 'CHAP': 'chapter', 'PARA': 'paragraph', 'SEC': 'section', 'SUBCHAP': 'subchapter', 'SUBPARA': 'subparagraph', 'SUBSEC': 'subsection'})
SPEECH_CONTAINERS = {'ADDRESS': 'address', 'ADJOURNMENT': 'adjournment', 'ADMINISTRATIONOFOATH': 'administrationOfOath', 'COMMUNICATION': 'communication',
                     'DEBATESECTION': 'debateSection', 'DECLARATIONOFVOTE': 'declarationOfVote', 'MINISTERIALSTATEMENTS': 'ministerialStatements',
                     'NATIONALINTEREST': 'nationalInterest', 'NOTICESOFMOTION': 'noticesOfMotion', 'ORALSTATEMENTS': 'oralStatements', 'PAPERS': 'papers',
                     'PERSONALSTATEMENTS': 'personalStatements', 'PETITIONS': 'petitions', 'POINTOFORDER': 'pointOfOrder', 'PRAYERS': 'prayers',
                     'PROCEDURALMOTIONS': 'proceduralMotions', 'QUESTIONS': 'questions', 'RESOLUTIONS': 'resolutions', 'ROLLCALL': 'rollCall',
                     'WRITTENSTATEMENTS': 'writtenStatements'}
SPEECH_GROUPS = {'SPEECH': 'speech', 'QUESTION': 'question', 'ANSWER': 'answer', 'SPEECHGROUP': 'speechGroup'}
ATTACH = {'ATTACHMENT': 'attachment', 'APPENDIX': 'appendix', 'SCHEDULE': 'schedule', 'ANNEXURE': 'annexure'}
JUDGMENT_PARTS = ['INTRODUCTION', 'BACKGROUND', 'ARGUMENTS', 'REMEDIES', 'MOTIVATION', 'DECISION']
STD_INLINE = {'abbr': ('abbr', {'title': ''}), 'def': ('def', {}), 'em': ('inline', {'name': 'em'}), 'inline': ('inline', {'name': 'inline'}),
              'term': ('term', {'refersTo': ''}), '+': ('ins', {}), '-': ('del', {})}
WORDS = ['alpha', 'beta', 'gamma', 'delta', 'one', 'two', 'lorem', 'ipsum', 'été', 'אבג', 'مرحبا', '日本', '\U0001F600', 'x', 'y1', '(a)', 'semi;colon', 'q?',
         # single characters that are markup only when doubled, digits of another script, a colon and a dash inside a word, percent, quotes
         'A_Member', 'a/b', '2*3', 'co-op', 'Mr:', '50%', "o'clock", '"quoted"', '\u0663\u0664', 'a.b.c', 'x{y', 'z}w']


def E(tag, attrs=None, *kids):
    el = etree.Element('{%s}%s' % (NS, tag), nsmap={None: NS})
    for k, v in (attrs or {}).items():
        el.set(k, v)
    last = None
    for k in kids:
        if isinstance(k, str):
            if last is None: el.text = (el.text or '') + k
            else: last.tail = (last.tail or '') + k
        elif k is not None:
            el.append(k); last = k
    return el


class Gen:
    """random abstract documents; every node is (text-lines printer, expected-XML builder) built together"""
    def __init__(self, rng, footnotes=True, attrs=True, max_depth=4):
        self.rng, self.footnotes, self.attrs, self.max_depth = rng, footnotes, attrs, max_depth
        self.fn = 0

    def words(self, lo=1, hi=3):
        return ' '.join(self.rng.choice(WORDS) for _ in range(self.rng.randint(lo, hi)))

    # ---- attributes: .class{name value|name value} ----
    def attr_syntax(self, p=0.15):
        if not self.attrs or self.rng.random() > p:
            return '', {}
        # (README: .class1.class2{attr value} is {class class1 class2|attr value}: classes in the order written, repeats included)
        classes = [self.rng.choice(['cls', 'a', 'b-c']) for _ in range(self.rng.randint(0, 3))]
        pairs = {}
        if self.rng.random() < 0.5:
            pairs['title'] = self.rng.choice(['t', 'a b'])
        if self.rng.random() < 0.2:
            pairs[self.rng.choice(['border', 'status', 'period'])] = ''         # an attribute written without a value
        s = ''.join('.' + c for c in classes)
        if pairs:
            s += '{' + '|'.join(('%s %s' % kv) if kv[1] else kv[0] for kv in pairs.items()) + '}'
        attrs = dict(pairs)
        if classes:
            attrs['class'] = ' '.join(classes)
        return s, attrs

    # ---- inlines: returns (text, [xml nodes/strings]) ----
    def inlines(self, depth=0, allow_fn=True, notes=None, ban=(), ml=False):
        parts_t, parts_x = [], []
        for i in range(self.rng.randint(1, 3)):
            r = self.rng.random()
            if i > 0:
                parts_t.append(' '); parts_x.append(' ')
            if r < 0.55 or depth > 1:
                w = self.words(); parts_t.append(w); parts_x.append(w)
            elif r < 0.62 and 'b' not in ban:
                t, x = self.inlines(depth + 1, False, None, ban + ('b',), ml); parts_t.append('**' + t + '**'); parts_x.append(E('b', None, *x))
            elif r < 0.68 and 'i' not in ban:
                t, x = self.inlines(depth + 1, False, None, ban + ('i',), ml); parts_t.append('//' + t + '//'); parts_x.append(E('i', None, *x))
            elif r < 0.72 and 'u' not in ban:
                t, x = self.inlines(depth + 1, False, None, ban + ('u',), ml); parts_t.append('__' + t + '__'); parts_x.append(E('u', None, *x))
            elif r < 0.77:
                t, x = self.inlines(depth + 1, False, None, ban); parts_t.append('{{^' + t + '}}'); parts_x.append(E('sup', None, *x))
            elif r < 0.81:
                t, x = self.inlines(depth + 1, False, None, ban); parts_t.append('{{_' + t + '}}'); parts_x.append(E('sub', None, *x))
            elif r < 0.86:
                href = self.rng.choice(['http://x.y/z', '#sec_1', '/akn/za/act/2009/1'])
                t, x = self.inlines(depth + 1, False, None, ban); parts_t.append('{{>' + href + ' ' + t + '}}'); parts_x.append(E('ref', {'href': href}, *x))
            elif r < 0.89:
                t, x = self.inlines(depth + 1, False, None, ban)
                if ml and self.rng.random() < 0.5:
                    # a remark that spans lines: \x01 stands for "line break + the paragraph's indentation"
                    t2, x2 = self.inlines(depth + 1, False, None, ban)
                    t, x = t + '\x01' + t2, x + [E('br')] + x2
                parts_t.append('{{*' + t + '}}'); parts_x.append(E('remark', {'status': 'editorial'}, *x))
            elif r < 0.92:
                src = self.rng.choice(['a.png', 'http://x/y.jpg']); alt = self.rng.choice([None, 'pic', 'a b'])
                parts_t.append('{{IMG ' + src + (' ' + alt if alt else '') + '}}')
                parts_x.append(E('img', dict(src=src, **({'alt': alt} if alt else {}))))
            elif r < 0.97:
                kw = self.rng.choice(sorted(STD_INLINE))
                tag, defaults = STD_INLINE[kw]
                s, at = self.attr_syntax(0.3)
                t, x = self.inlines(depth + 1, False, None, ban)
                attrs = dict(at)
                for k, v in defaults.items():
                    if kw == 'em': attrs['name'] = 'em'
                    else: attrs.setdefault(k, v)
                parts_t.append('{{' + kw + s + ' ' + t + '}}'); parts_x.append(E(tag, attrs, *x))
            elif allow_fn and self.footnotes and notes is not None:
                self.fn += 1
                m = str(self.fn)
                ft, fx = self.inlines(2, False)
                notes.append((m, ft))
                parts_t.append('{{FOOTNOTE ' + m + '}}')
                parts_x.append(E('authorialNote', {'marker': m, 'placement': 'bottom'}, E('p', None, *fx)))
            else:
                w = self.words(); parts_t.append(w); parts_x.append(w)
        return ''.join(parts_t), parts_x

    # ---- blocks: each returns (lines, [xml]) at indentation ind ----
    def para(self, ind, plain=False):
        notes = []
        t, x = self.inlines(0, not plain, notes, (), True)
        sp = '  ' * ind
        lines = [sp + t.replace('\x01', '\n' + sp)]
        for m, ft in notes:
            lines.append(sp + 'FOOTNOTE ' + m)
            lines.append(sp + '  ' + ft)
        return lines, [E('p', None, *x)]

    def ptag(self, ind):
        s, at = self.attr_syntax(1.0)
        t, x = self.inlines(0, False)
        return ['  ' * ind + 'P' + s + ' ' + t], [E('p', at, *x)]

    def num_heading(self):
        r = self.rng.random()
        num = self.rng.choice(['1', '2', '(a)', '(b)', '3A', 'IV', '1.2', '10.']) if r < 0.8 else None
        heading = None
        if self.rng.random() < 0.5:
            heading = self.inlines(1, False)
        t = ''
        if num: t += ' ' + num
        if heading: t += ' - ' + heading[0]
        x = []
        if num: x.append(E('num', None, num))
        if heading: x.append(E('heading', None, *heading[1]))
        return t, x

    def subheading(self, ind):
        t, x = self.inlines(1, False)
        return ['  ' * ind + 'SUBHEADING ' + t], [E('subheading', None, *x)]

    def items(self, ind, depth):
        s, at = self.attr_syntax()
        sp = '  ' * ind
        lines = [sp + self.rng.choice(['ITEMS', 'BLOCKLIST']) + s]
        kids = []
        if self.rng.random() < 0.3:
            t, x = self.inlines(1, False); lines.append(sp + '  ' + t); kids.append(E('listIntroduction', None, *x))
        for _ in range(self.rng.randint(1, 3)):
            t, pre = self.num_heading()
            lines.append(sp + '  ITEM' + t)
            body = []
            if self.rng.random() < 0.85:
                # a subheading is only possible in front of content
                if self.rng.random() < 0.2:
                    l, x = self.subheading(ind + 2); lines += l; pre += x
                l, x = self.blocks(ind + 2, depth + 1, self.rng.randint(1, 2)); lines += l; body = x
            else:
                body = [E('p')]
            kids.append(E('item', None, *(pre + body)))
        if self.rng.random() < 0.2:
            t, x = self.inlines(1, False); lines.append(sp + '  ' + t); kids.append(E('listWrapUp', None, *x))
        return lines, [E('blockList', at, *kids)]

    def bullets(self, ind, depth):
        s, at = self.attr_syntax()
        sp = '  ' * ind
        lines = [sp + 'BULLETS' + s]; kids = []
        for _ in range(self.rng.randint(1, 3)):
            t, x = self.inlines(1, False)
            lines.append(sp + '  * ' + t)
            kids.append(E('li', None, E('p', None, *x)))
        return lines, [E('ul', at, *kids)]

    def table(self, ind, depth):
        s, at = self.attr_syntax()
        sp = '  ' * ind
        lines = [sp + 'TABLE' + s]; rows = []
        for _ in range(self.rng.randint(1, 2)):
            lines.append(sp + '  TR'); cells = []
            for _ in range(self.rng.randint(1, 3)):
                kw = self.rng.choice(['TH', 'TC'])
                cs, cat = ('{colspan 2}', {'colspan': '2'}) if self.rng.random() < 0.2 else ('', {})
                lines.append(sp + '    ' + kw + cs)
                if self.rng.random() < 0.85:
                    l, x = self.blocks(ind + 3, depth + 2, 1); lines += l
                else:
                    x = [E('p')]
                cells.append(E('th' if kw == 'TH' else 'td', cat, *x))
            rows.append(E('tr', None, *cells))
        return lines, [E('table', at, *rows)]

    def blocks_container(self, ind, depth):
        s, at = self.attr_syntax()
        l, x = self.blocks(ind + 1, depth + 1, self.rng.randint(1, 2))
        return ['  ' * ind + 'BLOCKS' + s] + l, [E('blockContainer', at, *x)]

    def quote(self, ind, depth):
        s, at = self.attr_syntax()
        l, x = self.blocks(ind + 1, depth + 1, self.rng.randint(1, 2))
        return ['  ' * ind + 'QUOTE' + s] + l, [E('block', {'name': 'quote'}, E('embeddedStructure', at, *x))]

    def block(self, ind, depth, speech=False):
        r = self.rng.random()
        if speech and r >= 0.88: r = 0.1          # BLOCKS and QUOTE are not speech block elements
        if r < 0.5 or depth >= self.max_depth: return self.para(ind)
        if r < 0.6: return self.ptag(ind)
        if r < 0.72: return self.items(ind, depth)
        if r < 0.80: return self.bullets(ind, depth)
        if r < 0.88: return self.table(ind, depth)
        if r < 0.94: return self.blocks_container(ind, depth)
        return self.quote(ind, depth)

    def blocks(self, ind, depth, n):
        lines, xs = [], []
        for _ in range(n):
            l, x = self.block(ind, depth); lines += l; xs += x
        return lines, xs

    # ---- hierarchical elements ----
    def hier(self, ind, depth):
        kw = self.rng.choice(sorted(HIER))
        s, at = self.attr_syntax(0.1)
        t, pre = self.num_heading()
        sp = '  ' * ind
        lines = [sp + kw + s + t]
        if self.rng.random() < 0.2:
            l, x = self.subheading(ind + 1); lines += l; pre += x
        # children: a mix of blocks, crossheadings and nested hier elements
        kinds = []
        for _ in range(self.rng.randint(0, 4)):
            r = self.rng.random()
            kinds.append('hier' if (r < 0.4 and depth < self.max_depth) else 'cross' if r < 0.48 else 'block')
        groups = []     # (is_hier_like, [xml])
        prev_blocks = []
        for k in kinds:
            if k == 'block' and prev_blocks and self.rng.random() < 0.3:
                # the same block again (a proviso repeated after each section): runs that are equal as values
                import copy
                l, x = self.rng.choice(prev_blocks); x = copy.deepcopy(x); hl = False
            elif k == 'hier':
                l, x = self.hier(ind + 1, depth + 1); hl = True
            elif k == 'cross':
                ct, cx = self.inlines(1, False); l, x = [sp + '  CROSSHEADING ' + ct], [E('crossHeading', None, *cx)]; hl = True
            else:
                l, x = self.block(ind + 1, depth + 1); hl = False
                if not any('FOOTNOTE' in ln for ln in l): prev_blocks.append((l, x))
            lines += l
            if groups and groups[-1][0] == hl: groups[-1][1].extend(x)
            else: groups.append((hl, list(x)))
        if not any(h for h, _ in groups):
            body = [E('content', None, *[x for _, g in groups for x in g])] if groups else []
        else:
            body = []; seen = False
            for i, (h, g) in enumerate(groups):
                if h: body += g; seen = True
                elif not seen: body.append(E('intro', None, *g))
                elif i == len(groups) - 1: body.append(E('wrapUp', None, *g))
                else: body.append(E('hcontainer', {'name': 'hcontainer'}, E('content', None, *g)))
        return lines, [E(HIER[kw], at, *(pre + body))]

    def body_items(self, ind, n, strict_body):
        """top-level content of body (strict_body: blocks and crossheadings are wrapped in hcontainers) or of mainBody-like containers"""
        lines, groups = [], []
        for _ in range(n):
            r = self.rng.random()
            if r < 0.45: l, x = self.hier(ind, 1); k = 'hier'
            elif r < 0.52:
                ct, cx = self.inlines(1, False); l, x = ['  ' * ind + 'CROSSHEADING ' + ct], [E('crossHeading', None, *cx)]; k = 'cross'
            else: l, x = self.block(ind, 1); k = 'content'
            lines += l
            if groups and groups[-1][0] == k: groups[-1][1].extend(x)
            else: groups.append((k, list(x)))
        out = []
        for k, g in groups:
            if k == 'hier': out += g
            elif k == 'cross': out.append(E('hcontainer', {'name': 'hcontainer'}, *g))
            elif strict_body: out.append(E('hcontainer', {'name': 'hcontainer'}, E('content', None, *g)))
            else: out += g
        return lines, out

    # ---- debates ----
    def speech_block(self, ind):
        kw = self.rng.choice(['SCENE', 'NARRATIVE', 'SUMMARY'])
        s, at = self.attr_syntax(0.1)
        t, x = self.inlines(1, False)
        return ['  ' * ind + kw + s + ' ' + t], [E(kw.lower(), at, *x)]

    def speech_children(self, ind, depth, lo):
        lines, xs = [], []
        for _ in range(self.rng.randint(lo, 3)):
            r = self.rng.random()
            if r < 0.2 and depth < 3: l, x = self.speech_container(ind, depth + 1)
            elif r < 0.5 and depth < 4: l, x = self.speech_group(ind, depth + 1)
            elif r < 0.65: l, x = self.speech_block(ind)
            else: l, x = self.block(ind, depth + 1, speech=True)
            lines += l; xs += x
        return lines, xs

    def speech_container(self, ind, depth):
        kw = self.rng.choice(sorted(SPEECH_CONTAINERS))
        s, at = self.attr_syntax(0.1)
        if kw == 'DEBATESECTION' and self.attrs and self.rng.random() < 0.3:
            s, at = '{name prayers}', {'name': 'prayers'}
        t, pre = self.num_heading()
        lines = ['  ' * ind + kw + s + t]
        if self.rng.random() < 0.2:
            l, x = self.subheading(ind + 1); lines += l; pre += x
        l, x = self.speech_children(ind + 1, depth, 1); lines += l
        attrs = dict(at)
        if kw == 'DEBATESECTION': attrs.setdefault('name', 'debateSection')      # the schema requires a name on debateSection; an explicit one stays
        return lines, [E(SPEECH_CONTAINERS[kw], attrs, *(pre + x))]

    def speech_group(self, ind, depth):
        kw = self.rng.choice(sorted(SPEECH_GROUPS))
        s, at = self.attr_syntax(0.1)
        if self.attrs and self.rng.random() < 0.25:
            s, at = self.rng.choice([('{by #spk-1}', {'by': '#spk-1'}), ('{by #hon-x|to #minister}', {'by': '#hon-x', 'to': '#minister'})])
        at = dict(at); at.setdefault('by', '?')          # '?' = derived from the FROM line: not prescribed, not compared
        t, pre = self.num_heading()
        lines = ['  ' * ind + kw + s + t]
        if self.rng.random() < 0.2:
            l, x = self.subheading(ind + 1); lines += l; pre += x
        ft, fx = self.inlines(1, False)
        lines.append('  ' * (ind + 1) + 'FROM ' + ft)
        pre.append(E('from', None, *fx))
        l, x = self.speech_children(ind + 1, depth, 1); lines += l
        return lines, [E(SPEECH_GROUPS[kw], at, *(pre + x))]

    def attachment(self, ind, depth):
        kw = self.rng.choice(sorted(ATTACH))
        sp = '  ' * ind
        heading = self.inlines(1, False) if self.rng.random() < 0.6 else None
        lines = [sp + kw + (' ' + heading[0] if heading else '')]
        pre = [E('heading', None, *heading[1])] if heading else []
        if self.rng.random() < 0.2:
            l, x = self.subheading(ind + 1); lines += l; pre += x
        l, x = self.body_items(ind + 1, self.rng.randint(1, 3), False); lines += l
        inner = []
        if depth < 2 and self.rng.random() < 0.3:
            subs = []
            for _ in range(self.rng.randint(1, 2)):
                l2, x2 = self.attachment(ind + 1, depth + 1); lines += l2; subs += x2
            inner = [E('attachments', None, *subs)]
        doc = E('doc', {'name': ATTACH[kw]}, E('mainBody', None, *x), *inner)
        return lines, [E('attachment', None, *(pre + [doc]))]

    def document(self, root):
        """returns (text, expected root element without meta)"""
        lines, kids = [], []
        if root == 'judgment':
            parts = []
            for part in JUDGMENT_PARTS:
                if self.rng.random() < 0.5:
                    lines.append(part)
                    l, x = self.body_items(1, self.rng.randint(1, 3), False); lines += l
                    parts.append(E(part.lower(), None, *x))
            if not parts:
                return None
            kids.append(E('header'))
            kids.append(E('judgmentBody', None, *parts))
        elif root == 'debate':
            if self.rng.random() < 0.3:
                lines.append('PREFACE')
                l, x = self.blocks(1, 2, self.rng.randint(1, 2)); lines += l
                kids.append(E('preface', None, *x))
            if kids or self.rng.random() < 0.3:
                lines.append('BODY')
            xs = []
            for _ in range(self.rng.randint(1, 3)):
                l, x = self.speech_container(0, 0); lines += l; xs += x
            kids.append(E('debateBody', None, *xs))
        else:
            if self.rng.random() < 0.3:
                lines.append('PREFACE')
                l, x = self.blocks(1, 2, self.rng.randint(1, 2)); lines += l
                if self.rng.random() < 0.4:
                    t, ix = self.inlines(1, False); lines.append('  LONGTITLE ' + t); x.append(E('longTitle', None, E('p', None, *ix)))
                kids.append(E('preface', None, *x))
            if self.rng.random() < 0.3:
                lines.append('PREAMBLE')
                l, x = self.blocks(1, 2, self.rng.randint(1, 2)); lines += l
                kids.append(E('preamble', None, *x))
            if kids or self.rng.random() < 0.3:
                lines.append('BODY')
            strict = root in ('act', 'bill')
            l, x = self.body_items(0, self.rng.randint(1, 4), strict); lines += l
            kids.append(E('body' if strict else 'mainBody', None, *x))
        if self.rng.random() < 0.25:
            lines.append('CONCLUSIONS')
            l, x = self.blocks(1, 2, self.rng.randint(1, 2)); lines += l
            kids.append(E('conclusions', None, *x))
        if self.rng.random() < 0.3:
            atts = []
            for _ in range(self.rng.randint(1, 3)):
                l, x = self.attachment(0, 0); lines += l; atts += x
            kids.append(E('attachments', None, *atts))
        return '\n'.join(lines) + '\n', E(root, {'name': root}, *kids)


def strip_for_compare(x, expected=None):
    """canonical string of a document: no meta, no eIds, attributes sorted, no date.  With `expected` (the prescribed
    tree), a by attribute is compared only where the prescribed tree has an explicit one ('?' marks a derived one)."""
    import copy
    x = copy.deepcopy(x)
    for m in list(x.iter('{%s}meta' % NS)):
        m.getparent().remove(m)
    if expected is not None:
        for a, b in zip([e for e in x.iter() if isinstance(e.tag, str)], [e for e in expected.iter() if isinstance(e.tag, str)]):
            if b.get('by') == '?' and a.get('by') is not None:
                a.set('by', '?')
    for el in x.iter():
        if isinstance(el.tag, str):
            el.attrib.pop('eId', None)
            items = sorted(el.attrib.items()); el.attrib.clear()
            for k, v in items: el.set(k, v)
    return etree.tostring(x, encoding='unicode')
