#!/bin/bash
# usage: reseed.sh [<seed-name>...]   (default: every directory under seeded/)
# Re-validates seeded changes against the current checks: for each seed a scratch worktree of /repo is created under /tmp,
# the patch applied, the property's quick check run with BLUEBELL_REPO pointing at it, and the worktree removed.
# Prints one line per seed: DETECTED (with or without a failing input) or MISSED.  /repo is never touched.
cd "$(dirname "$0")/.."
names=("$@"); [ ${#names[@]} -eq 0 ] && names=($(ls seeded))
for n in "${names[@]}"; do
  d=seeded/$n; [ -f $d/patch.diff ] || continue
  pid=$(python3 -c "import json;print(json.load(open('$d/meta.json'))['property'])")
  wt=/tmp/reseed_$$_$n
  git -C /repo worktree add --detach $wt HEAD >/dev/null 2>&1 || { echo "$n: cannot create worktree"; continue; }
  if git -C $wt apply $PWD/$d/patch.diff 2>/dev/null; then
    out=$(BLUEBELL_REPO=$wt RESEED_NO_CORPUS=1 ./check $pid --tier quick 2>&1 | grep -E "^VIOLATION|^OK|^FAIL")
    # the input on which the seed was caught goes to the corpus (verified on the unchanged tree at the end)
    rp=$(echo "$out" | grep "^VIOLATION" | grep -v no-failing-input-found | sed 's/.*replay=\([^ ]*\).*/\1/' | head -1)
    if [ -n "$rp" ] && [ -f "$rp" ]; then mkdir -p corpus/$pid; cp "$rp" corpus/$pid/$n.json; fi
    if echo "$out" | grep -q "^VIOLATION.*no-failing-input-found"; then echo "$n: DETECTED (no failing input) [$pid]"
    elif echo "$out" | grep -q "^VIOLATION"; then echo "$n: DETECTED [$pid]"
    else echo "$n: MISSED [$pid] $(echo $out | cut -c1-100)"; fi
  else
    echo "$n: patch does not apply to the current tree (the code it changes was repaired since)"
  fi
  git -C /repo worktree remove --force $wt >/dev/null 2>&1
done
git -C /repo worktree prune
git checkout -- evidence 2>/dev/null
# leave the generated tables and the model in the state of /repo itself
tools/setup.sh >/dev/null 2>&1
# every corpus entry must pass on the unchanged tree; one that does not is dropped (and named)
# (RESEED_VERIFY_NEW=1: only the entries of the seeds named on the command line)
for f in corpus/*/*.json; do
  [ -f "$f" ] || continue
  if [ -n "$RESEED_VERIFY_NEW" ]; then b=$(basename $f .json); case " ${names[*]} " in *" $b "*) ;; *) continue;; esac; fi
  pid=$(basename $(dirname $f))
  if ! timeout 300 ./check $pid --replay $f >/dev/null 2>&1; then echo "corpus entry $f fails on the unchanged tree: dropped"; rm -f $f; fi
done
