#!/bin/bash
# Extract the model to OCaml (ExtrOcamlBasic only) and compile it with the driver.
set -e
cd "$(dirname "$0")/.."
mkdir -p ocaml/gen
cd ocaml/gen
rm -f *.ml *.mli *.cm* *.o
coqc -Q ../../coq BB ../../coq/Extract/Extract.v >/dev/null
rm -f ../../coq/Extract/Extract.vo ../../coq/Extract/Extract.glob ../../coq/Extract/.Extract.aux ../../coq/Extract/Extract.vok ../../coq/Extract/Extract.vos
cp ../driver.ml .
ocamlfind ocamlopt -w -a $(ocamlfind ocamldep -sort *.ml *.mli) -o ../model.exe
