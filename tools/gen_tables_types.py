#!/venv/bin/python
"""Class-level data of bluebell/types.py, by reflection on the imported module."""
import sys, os, re, inspect
sys.path.insert(0, os.path.dirname(__file__))
from coqgen import *

def chr_ok(c):
    return not (0xD800 <= c <= 0xDFFF)

def assoc(d):
    return coq_list([f'({coq_str(k)}, {coq_str(v)})' for k, v in d.items()])

def main(out):
    import bluebell.types as T
    classes = {n: c for n, c in vars(T).items() if inspect.isclass(c) and c.__module__ == T.__name__}
    txt = HEADER % 'gen_tables_types.py'
    # every class, with the names of its bases inside the module, most specific first (the MRO)
    txt += 'Definition type_mro : list (str * list str) :=\n  ' + coq_list(
        ['(%s, [%s])' % (coq_str(n), '; '.join(coq_str(b.__name__) for b in c.__mro__ if b.__module__ == T.__name__))
         for n, c in sorted(classes.items())]) + '.\n'
    def str_attr(attr):
        rows = []
        for n, c in sorted(classes.items()):
            v = getattr(c, attr, None)
            if isinstance(v, str):
                rows.append(f'({coq_str(n)}, {coq_str(v)})')
        return coq_list(rows)
    txt += 'Definition class_name_attr : list (str * str) :=\n  ' + str_attr('name') + '.\n'
    txt += 'Definition class_type_attr : list (str * str) :=\n  ' + str_attr('type') + '.\n'
    txt += 'Definition class_name_element : list (str * str) :=\n  ' + str_attr('name_element') + '.\n'
    txt += 'Definition class_content_element : list (str * str) :=\n  ' + str_attr('content_element') + '.\n'
    def dict_attr(attr, only=None):
        rows = []
        for n, c in sorted(classes.items()):
            v = getattr(c, attr, None)
            if isinstance(v, dict) and all(isinstance(k, str) and isinstance(x, str) for k, x in v.items()):
                rows.append(f'({coq_str(n)}, {assoc(v)})')
        return coq_list(rows)
    txt += 'Definition class_synonyms : list (str * list (str * str)) :=\n  ' + dict_attr('synonyms') + '.\n'
    txt += 'Definition class_names_map : list (str * list (str * str)) :=\n  ' + dict_attr('names') + '.\n'
    txt += 'Definition class_default_attribs : list (str * list (str * str)) :=\n  ' + dict_attr('default_attribs') + '.\n'
    sd = T.StandardInline.default_attribs
    if not all(isinstance(v, dict) for v in sd.values()):
        raise TranslateError('StandardInline.default_attribs is not a dict of dicts')
    txt += 'Definition std_inline_defaults : list (str * list (str * str)) :=\n  ' + coq_list(
        [f'({coq_str(k)}, {assoc(v)})' for k, v in sd.items()]) + '.\n'
    rows, req = [], []
    for n, c in sorted(classes.items()):
        if issubclass(c, T.DocumentRoot):
            rows.append('(%s, [%s])' % (coq_str(n), '; '.join(coq_str(x) for x in c.children)))
            req.append('(%s, [%s])' % (coq_str(n), '; '.join(coq_str(x) for x in sorted(c.required_children))))
    txt += 'Definition doc_children : list (str * list str) :=\n  ' + coq_list(rows) + '.\n'
    txt += 'Definition doc_required : list (str * list str) :=\n  ' + coq_list(req) + '.\n'
    txt += 'Definition doc_is_root : list str :=\n  ' + coq_list([coq_str(n) for n, c in sorted(classes.items()) if getattr(c, 'is_root', False)]) + '.\n'
    # which classes define which methods (hasattr)
    for meth in ('to_dict', 'to_children', 'update_dict', 'heading_to_dict'):
        txt += f'Definition has_{meth} : list str :=\n  ' + coq_list([coq_str(n) for n, c in sorted(classes.items()) if hasattr(c, meth)]) + '.\n'
    nl = T.SpeechGroup.non_letters_re
    if nl.sub('', 'a b-c_d') != 'abc_d':
        raise TranslateError('non_letters_re no longer removes single non-word characters')
    txt += f'Definition non_word_class : ranges := {coq_ranges(ranges_of(lambda c: chr_ok(c) and nl.sub("", chr(c)) == ""))}.\n'
    if T.unescape('a\\bc\\\\d\\\n') != 'abc\\d\\\n':
        raise TranslateError('unescape no longer is "drop the backslash before any character but newline"')
    e = T.empty_p(); h = T.empty_hcontainer()
    if e != {'name': 'p', 'type': 'content', 'children': []} or list(e) != ['name', 'type', 'children']:
        raise TranslateError('empty_p changed')
    if h != {'type': 'element', 'name': 'hcontainer', 'attribs': {'name': 'hcontainer'}, 'children': [{'type': 'element', 'name': 'content', 'children': [e]}]}:
        raise TranslateError('empty_hcontainer changed')
    return write_if_changed(out, txt)

if __name__ == '__main__':
    try:
        main(sys.argv[1])
    except TranslateError as e:
        print('TRANSLATE-ERROR gen_tables_types:', e); sys.exit(3)
