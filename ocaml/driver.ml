(* Hand-written driver: reads one s-expression per line, calls the extracted
   Dispatch.dispatch, prints the result.  Wire syntax:  atom = [n,n,...]  list = (x x ...) *)
open BinNums
module String = Stdlib.String
module List = Stdlib.List

let rec pos_of_int n =
  if n = 1 then Coq_xH
  else if n land 1 = 0 then Coq_xO (pos_of_int (n lsr 1)) else Coq_xI (pos_of_int (n lsr 1))
let n_of_int n = if n = 0 then N0 else Npos (pos_of_int n)
let rec int_of_pos = function Coq_xH -> 1 | Coq_xO p -> 2 * int_of_pos p | Coq_xI p -> 2 * int_of_pos p + 1
let int_of_n = function N0 -> 0 | Npos p -> int_of_pos p

let parse (s : string) : Sx.sx =
  let len = String.length s in
  let pos = ref 0 in
  let peek () = if !pos < len then s.[!pos] else '\000' in
  let rec skip () = if !pos < len && (peek () = ' ') then (incr pos; skip ()) in
  let rec item () : Sx.sx =
    skip ();
    match peek () with
    | '[' ->
        incr pos;
        let acc = ref [] in
        let cur = ref (-1) in
        let fin = ref false in
        while not !fin do
          let c = peek () in
          incr pos;
          if c >= '0' && c <= '9' then
            cur := (if !cur < 0 then 0 else !cur) * 10 + (Char.code c - 48)
          else begin
            if !cur >= 0 then acc := n_of_int !cur :: !acc;
            cur := -1;
            if c = ']' then fin := true
            else if c <> ',' then failwith "bad atom"
          end
        done;
        Sx.A (List.rev !acc)
    | '(' ->
        incr pos;
        let acc = ref [] in
        let fin = ref false in
        while not !fin do
          skip ();
          if peek () = ')' then (incr pos; fin := true)
          else acc := item () :: !acc
        done;
        Sx.L (List.rev !acc)
    | _ -> failwith "bad sx"
  in
  item ()

let rec print buf (x : Sx.sx) =
  match x with
  | Sx.A l ->
      Buffer.add_char buf '[';
      List.iteri (fun i n -> if i > 0 then Buffer.add_char buf ','; Buffer.add_string buf (string_of_int (int_of_n n))) l;
      Buffer.add_char buf ']'
  | Sx.L l ->
      Buffer.add_char buf '(';
      List.iteri (fun i y -> if i > 0 then Buffer.add_char buf ' '; print buf y) l;
      Buffer.add_char buf ')'

let () =
  let buf = Buffer.create 65536 in
  (try
    while true do
      let line = input_line stdin in
      Buffer.clear buf;
      (try print buf (Dispatch.dispatch (parse line))
       with Stack_overflow -> Buffer.add_string buf "(\"STACK\")"
          | Failure m -> Buffer.add_string buf ("(\"FAIL " ^ m ^ "\")"));
      print_string (Buffer.contents buf); print_newline ()
    done
  with End_of_file -> ())
