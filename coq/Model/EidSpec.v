(* Specification vocabulary for C07-C09. *)
Require Import BB.Base.Str BB.Base.Xml BB.Gen.TablesXml BB.Model.Eid.
Open Scope N_scope.

(* eIds carried by identifiable elements outside meta, in document order *)
Fixpoint ids_of (e : xml) : list str :=
  match e with
  | Tx _ => []
  | El tag attrs kids =>
      if str_eqb tag META then []
      else (if identifiable tag
            then match get_attr EID attrs with Some v => [v] | None => [] end
            else [])
           ++ flat_map ids_of kids
  end.

(* every eId attribute outside meta, identifiable element or not *)
Fixpoint all_ids (e : xml) : list str :=
  match e with
  | Tx _ => []
  | El tag attrs kids =>
      if str_eqb tag META then []
      else match get_attr EID attrs with Some v => [v] | None => [] end ++ flat_map all_ids kids
  end.

(* C07 presence: an element outside meta has a non-empty eId iff it is identifiable *)
Fixpoint eid_presence_ok (e : xml) : Prop :=
  match e with
  | Tx _ => True
  | El tag attrs kids =>
      if str_eqb tag META then True
      else (if identifiable tag
            then exists v, get_attr EID attrs = Some v /\ v <> []
            else get_attr EID attrs = None)
           /\ (fix all (l : list xml) : Prop :=
                 match l with [] => True | k :: r => eid_presence_ok k /\ all r end) kids
  end.

(* input condition: exempt elements carry no eId (true of everything item_to_xml builds
   from a dict without explicit eId attributes) *)
Fixpoint no_exempt_ids (e : xml) : Prop :=
  match e with
  | Tx _ => True
  | El tag attrs kids =>
      if str_eqb tag META then True
      else (if identifiable tag then True else get_attr EID attrs = None)
           /\ (fix all (l : list xml) : Prop :=
                 match l with [] => True | k :: r => no_exempt_ids k /\ all r end) kids
  end.

Definition no_ws (s : str) : Prop := Forall (fun c => is_ws c = false) s.

(* all tags of a tree, outside meta *)
Fixpoint tags_of (e : xml) : list str :=
  match e with
  | Tx _ => []
  | El tag _ kids => if str_eqb tag META then [] else tag :: flat_map tags_of kids
  end.

(* the tree with every eId attribute outside meta removed *)
Fixpoint erase_eids (e : xml) : xml :=
  match e with
  | Tx s => Tx s
  | El tag attrs kids =>
      if str_eqb tag META then e
      else El tag (remove_attr EID attrs) (map erase_eids kids)
  end.

(* ---- C09: the mapping ---- *)
Definition old_id (attrs : list (str * str)) : str :=
  match get_attr EID attrs with Some v => v | None => [] end.

(* (id before, id after) of every identifiable element outside meta, in document order,
   for a tree and its rewritten version *)
Fixpoint changes (e e' : xml) : list (str * str) :=
  match e, e' with
  | El tag attrs kids, El _ attrs' kids' =>
      if str_eqb tag META then []
      else (if identifiable tag then [(old_id attrs, old_id attrs')] else [])
           ++ (fix go (l l' : list xml) : list (str * str) :=
                 match l, l' with
                 | k :: r, k' :: r' => changes k k' ++ go r r'
                 | _, _ => []
                 end) kids kids'
  | _, _ => []
  end.

(* what the documentation says the mapping records: the first new id of every old id that
   was present and changed *)
Definition record (m : list (str * str)) (on : str * str) : list (str * str) :=
  let (o, n) := on in
  if str_eqb o n then m else match o with [] => m | _ => maps_setdefault m o n end.

(* ---- C08: the naming convention ---- *)
Definition candidate (p name n : str) : str :=
  ((match p with [] => [] | _ => p ++ DUSCORE end) ++ alias_of name) ++ USCORE :: n.

(* r is eid, or eid followed by _<decimal> suffixes *)
Inductive suffixed (eid : str) : str -> Prop :=
| suf_base : suffixed eid eid
| suf_step r n : suffixed eid r -> suffixed eid (r ++ USCORE :: nat_dec n).

(* the number part of an id: the cleaned num; or nn for elements that expect a num; or a
   position counter *)
Definition num_part (tag num n : str) : Prop :=
  (clean_num num <> [] /\ n = clean_num num)
  \/ (clean_num num = [] /\ mem_str tag num_expected = true /\ n = NN)
  \/ (clean_num num = [] /\ mem_str tag num_expected = false /\ exists k, (1 <= k)%nat /\ n = nat_dec k).

(* the prefix an element hands to its children *)
Definition child_prefix (q tag own : str) : str :=
  if identifiable tag then own
  else if mem_str tag id_exempt_but_pass_to_children
       then match q with [] => lower tag | _ => q ++ DUSCORE ++ lower tag end
       else q.

Fixpoint convention_ok (q : str) (e : xml) : Prop :=
  match e with
  | Tx _ => True
  | El tag attrs kids =>
      if str_eqb tag META then True
      else (identifiable tag = true ->
              exists n, suffixed (candidate q tag n) (old_id attrs) /\ num_part tag (first_num_text kids) n)
           /\ (fix all (l : list xml) : Prop :=
                 match l with
                 | [] => True
                 | k :: r => convention_ok (child_prefix q tag (old_id attrs)) k /\ all r
                 end) kids
  end.

(* the id a provision gets from the names and numbers along its ancestor path alone:
   path = (tag, num text) of every element from the root down to the provision *)
Fixpoint path_eid (q : str) (path : list (str * str)) : str :=
  match path with
  | [] => q
  | (tag, num) :: r => path_eid (child_prefix q tag (candidate q tag (clean_num num))) r
  end.

(* the provision reached by a list of child indices, with the labels along the way *)
Fixpoint path_labels (e : xml) (pi : list nat) : option (list (str * str) * xml) :=
  match e with
  | Tx _ => None
  | El tag attrs kids =>
      match pi with
      | [] => Some ([(tag, first_num_text kids)], e)
      | i :: r =>
          match nth_error kids i with
          | None => None
          | Some k => match path_labels k r with
                      | Some (l, x) => Some ((tag, first_num_text kids) :: l, x)
                      | None => None
                      end
          end
      end
  end.

(* along the path, every identifiable element took its id from its own non-empty cleaned
   num and was the first to ask for it (its id carries no _k suffix) *)
Fixpoint path_unsuffixed (q : str) (e' : xml) (pi : list nat) : Prop :=
  match e' with
  | Tx _ => False
  | El tag attrs kids =>
      str_eqb tag META = false
      /\ (identifiable tag = true ->
            clean_num (first_num_text kids) <> []
            /\ old_id attrs = candidate q tag (clean_num (first_num_text kids)))
      /\ match pi with
         | [] => True
         | i :: r => match nth_error kids i with
                     | None => False
                     | Some k => path_unsuffixed (child_prefix q tag (old_id attrs)) k r
                     end
         end
  end.
