(* Model of bluebell/xml.py: XmlGenerator.post_process and its steps
   (resolve_displaced_content, normalise, generate_eids, set_attachment_titles), plus wrap_akn/add_meta.
   Definitions only.  lxml's text/tail rule is part of the model: removing an element also removes
   the text node that directly follows it; moving an element carries that text node along. *)
Require Import BB.Base.Str BB.Base.Xml BB.Base.Dict BB.Model.Types BB.Model.Eid BB.Model.XmlGen.
Open Scope N_scope.

(* ---- elements with identity: ids are assigned in document order ---- *)
Inductive ixml :=
| IEl (id : nat) (tag : str) (attrs : list (str * str)) (kids : list ixml)
| ITx (s : str).

Fixpoint number (fuel : nat) (x : xml) (next : nat) : ixml * nat :=
  match fuel with
  | O => (ITx [], next)
  | S f =>
    match x with
    | Tx s => (ITx s, next)
    | El tag attrs kids =>
        let '(kids', n') :=
          (fix go (l : list xml) (n : nat) : list ixml * nat :=
             match l with
             | [] => ([], n)
             | k :: r => let '(k', n1) := number f k n in let '(r', n2) := go r n1 in (k' :: r', n2)
             end) kids (S next) in
        (IEl next tag attrs kids', n')
    end
  end.

Fixpoint forget (fuel : nat) (x : ixml) : xml :=
  match fuel with
  | O => Tx []
  | S f =>
    match x with
    | ITx s => Tx s
    | IEl _ tag attrs kids => El tag attrs (map (forget f) kids)
    end
  end.

Fixpoint xsize (x : xml) : nat :=
  match x with
  | Tx _ => 1%nat
  | El _ _ kids => S (fold_left (fun n k => (n + xsize k)%nat) kids 0%nat)
  end.

Definition DISPLACED : str := of_string "displaced".
Definition MARKER : str := of_string "marker".
Definition NAME : str := of_string "name".

Definition opt_str_eqb (a b : option str) : bool :=
  match a, b with
  | Some x, Some y => str_eqb x y
  | None, None => true
  | _, _ => false
  end.

Section Displaced.
  Variable fuel : nat.

  (* ids of the elements that carry a displaced attribute, in document order:  //a:*[@displaced] *)
  Fixpoint refs_of (f : nat) (x : ixml) : list nat :=
    match f with
    | O => []
    | S f' =>
      match x with
      | ITx _ => []
      | IEl id _ attrs kids =>
          (match get_attr DISPLACED attrs with Some _ => [id] | None => [] end) ++ flat_map (refs_of f') kids
      end
    end.

  (* the chain of subtrees from the root down to the element with the given id (root first) *)
  Fixpoint chain_to (f : nat) (id : nat) (x : ixml) : option (list ixml) :=
    match f with
    | O => None
    | S f' =>
      match x with
      | ITx _ => None
      | IEl i _ _ kids =>
          if Nat.eqb i id then Some [x]
          else (fix go (l : list ixml) : option (list ixml) :=
                  match l with
                  | [] => None
                  | k :: r => match chain_to f' id k with Some c => Some (x :: c) | None => go r end
                  end) kids
      end
    end.

  Definition id_of (x : ixml) : option nat := match x with IEl i _ _ _ => Some i | ITx _ => None end.

  (* parent.iter('displaced'): the first displaced element in the subtree, the subtree's root
     included, with the wanted marker and name, that is not one of the excluded (ancestor) ids *)
  Fixpoint first_displaced (f : nat) (marker : option str) (name : str) (excl : list nat) (x : ixml) : option nat :=
    match f with
    | O => None
    | S f' =>
      match x with
      | ITx _ => None
      | IEl i tag attrs kids =>
          if str_eqb tag DISPLACED && opt_str_eqb (get_attr MARKER attrs) marker
             && opt_str_eqb (get_attr NAME attrs) (Some name) && negb (existsb (Nat.eqb i) excl)
          then Some i
          else (fix go (l : list ixml) : option nat :=
                  match l with
                  | [] => None
                  | k :: r => match first_displaced f' marker name excl k with Some j => Some j | None => go r end
                  end) kids
      end
    end.

  (* remove the element with the given id together with the text node that follows it;
     returns the new tree and the removed element's children *)
  Fixpoint remove_id (f : nat) (id : nat) (x : ixml) : ixml * option (list ixml) :=
    match f with
    | O => (x, None)
    | S f' =>
      match x with
      | ITx _ => (x, None)
      | IEl i tag attrs kids =>
          let '(kids', got) :=
            (fix go (l : list ixml) : list ixml * option (list ixml) :=
               match l with
               | [] => ([], None)
               | k :: r =>
                   match k with
                   | IEl j _ _ ck =>
                       if Nat.eqb j id then
                         (match r with ITx _ :: r' => r' | _ => r end, Some ck)
                       else
                         let '(k', g) := remove_id f' id k in
                         match g with
                         | Some c => (k' :: r, Some c)
                         | None => let '(r', g') := go r in (k :: r', g')
                         end
                   | ITx _ => let '(r', g') := go r in (k :: r', g')
                   end
               end) kids in
          (IEl i tag attrs kids', got)
      end
    end.

  (* apply an edit to the element with the given id *)
  Fixpoint update_id (f : nat) (id : nat) (upd : ixml -> ixml) (x : ixml) : ixml :=
    match f with
    | O => x
    | S f' =>
      match x with
      | ITx _ => x
      | IEl i tag attrs kids =>
          if Nat.eqb i id then upd x else IEl i tag attrs (map (update_id f' id upd) kids)
      end
    end.

  (* for child in content: ref.append(child): element children move with their tails; the
     text before the first child element stays behind (and is dropped with the block) *)
  Fixpoint drop_leading_text (l : list ixml) : list ixml :=
    match l with ITx _ :: r => drop_leading_text r | _ => l end.

  Definition missing_p (id : nat) : ixml := IEl id (of_string "p") [] [ITx (of_string "(content missing)")].

  (* one reference; next = the next unused id (for the placeholder p) *)
  Definition resolve_ref (root : ixml) (next : nat) (rid : nat) : R (ixml * nat) :=
    match chain_to fuel rid root with
    | None => OkR (root, next)        (* the reference is no longer in the tree: cannot happen *)
    | Some chain =>
        match rev chain with
        | [] => OkR (root, next)
        | ref :: ancestors =>          (* nearest ancestor first *)
            match ref with
            | ITx _ => OkR (root, next)
            | IEl _ _ rattrs _ =>
                match get_attr DISPLACED rattrs with
                | None => ErrR E_KEY
                | Some name =>
                    let marker := get_attr MARKER rattrs in
                    let anc_ids := flat_map (fun a => match id_of a with Some i => [i] | None => [] end) ancestors in
                    let found :=
                      (fix go (l : list ixml) : option nat :=
                         match l with
                         | [] => None
                         | a :: r => match first_displaced fuel marker name anc_ids a with
                                     | Some j => Some j
                                     | None => go r
                                     end
                         end) ancestors in
                    let pop := fun x => match x with
                                        | IEl i t a k => IEl i t (remove_attr DISPLACED a) k
                                        | y => y end in
                    match found with
                    | Some cid =>
                        let '(root1, got) := remove_id fuel cid root in
                        let moved := match got with Some ck => drop_leading_text ck | None => [] end in
                        OkR (update_id fuel rid (fun x => match pop x with
                                                          | IEl i t a k => IEl i t a (k ++ moved)
                                                          | y => y end) root1, next)
                    | None =>
                        OkR (update_id fuel rid (fun x => match pop x with
                                                          | IEl i t a k => IEl i t a (k ++ [missing_p next])
                                                          | y => y end) root, S next)
                    end
                end
            end
        end
    end.

  (* unused displaced blocks become a p with "<NAME> <marker>" followed by their children *)
  Definition upper (s : str) : str := map upper_c s.
  Fixpoint splice_displaced (f : nat) (x : ixml) : R (list ixml) :=
    match f with
    | O => ErrR E_FUEL
    | S f' =>
      match x with
      | ITx _ => OkR [x]
      | IEl i tag attrs kids =>
          (* the iteration is in document order: an enclosing block is handled before the blocks inside it *)
          do _ <- (if str_eqb tag DISPLACED then
                     match get_attr NAME attrs, get_attr MARKER attrs with
                     | None, _ => ErrR E_ATTR | Some _, None => ErrR E_TYPE | _, _ => OkR tt end
                   else OkR tt);
          do kids' <-
            (* skip = the previous sibling was a displaced block: its tail text goes with it *)
            (fix go (skip : bool) (l : list ixml) : R (list ixml) :=
               match l with
               | [] => OkR []
               | k :: r =>
                   match k with
                   | IEl _ kt _ _ =>
                       do k' <- splice_displaced f' k;
                       do r' <- go (str_eqb kt DISPLACED) r; OkR (k' ++ r')
                   | ITx _ => do r' <- go false r; OkR (if skip then r' else k :: r')
                   end
               end) false kids;
          if str_eqb tag DISPLACED then
            match get_attr NAME attrs, get_attr MARKER attrs with
            | Some n, Some m =>
                OkR (IEl i (of_string "p") [] [ITx (upper n ++ SP :: m)] :: drop_leading_text kids')
            | None, _ => ErrR E_ATTR      (* None.upper() *)
            | Some _, None => ErrR E_TYPE (* str + None *)
            end
          else OkR [IEl i tag attrs kids']
      end
    end.
End Displaced.

(* fuel: every traversal is bounded by the depth of the tree it walks.  Resolution never adds an element
   except one placeholder p per reference, so the depth stays below  #elements + #references + 2 <= 2 * size + 2 *)
Definition displaced_fuel (x : xml) : nat := S (S (xsize x + xsize x)).

Definition resolve_displaced_content (x : xml) : R xml :=
  let fuel := displaced_fuel x in
  let '(ix, next) := number fuel x 0 in
  do '(ix1, _) <-
    fold_left (fun acc rid => do '(t, n) <- acc; resolve_ref fuel t n rid) (refs_of fuel ix) (OkR (ix, next));
  do l <- splice_displaced fuel ix1;
  match l with
  | [r] => OkR (normalise_text fuel (forget fuel r))
  | _ => ErrR E_XML     (* the root itself was a displaced element: addprevious on the root *)
  end.

(* normalise: remove crossHeading, longTitle, content, preface, preamble, conclusions that have
   no child node at all (the set is computed before anything is removed) *)
Definition removable : list str :=
  map of_string ["crossHeading"; "longTitle"; "content"; "preface"; "preamble"; "conclusions"].

Fixpoint normalise (fuel : nat) (x : xml) : xml :=
  match fuel with
  | O => x
  | S f =>
    match x with
    | Tx _ => x
    | El tag attrs kids =>
        El tag attrs
          ((fix go (skip : bool) (l : list xml) : list xml :=
              match l with
              | [] => []
              | k :: r =>
                  match k with
                  | Tx _ => if skip then go false r else k :: go false r
                  | El t a [] => if mem_str t removable then go true r else k :: go false r
                  | El _ _ (_ :: _) => normalise f k :: go false r
                  end
              end) false kids)
    end
  end.

(* set_attachment_titles *)
Fixpoint itertext (fuel : nat) (x : xml) : str :=
  match fuel with
  | O => []
  | S f => match x with Tx s => s | El _ _ kids => flat_map (itertext f) kids end
  end.

Definition child_named (tag : str) (kids : list xml) : option xml :=
  find (fun k => match k with El t _ _ => str_eqb t tag | Tx _ => false end) kids.

(* ./a:doc/a:meta/a:identification/a:FRBRWork/a:FRBRalias[@name="title"]: the first match in document order *)
Fixpoint set_alias (path : list str) (title : str) (x : xml) : option xml :=
  match x with
  | Tx _ => None
  | El tag attrs kids =>
      match path with
      | [] => None
      | [last] =>
          if str_eqb tag last && opt_str_eqb (get_attr NAME attrs) (Some (of_string "title"))
          then Some (El tag (set_attr (of_string "value") title attrs) kids) else None
      | step :: rest =>
          if str_eqb tag step then
            match (fix go (l : list xml) : option (list xml) :=
                     match l with
                     | [] => None
                     | k :: r => match set_alias rest title k with
                                 | Some k' => Some (k' :: r)
                                 | None => match go r with Some r' => Some (k :: r') | None => None end
                                 end
                     end) kids with
            | Some kids' => Some (El tag attrs kids')
            | None => None
            end
          else None
      end
  end.

Definition alias_path : list str :=
  map of_string ["doc"; "meta"; "identification"; "FRBRWork"; "FRBRalias"].

Fixpoint set_attachment_titles (fuel : nat) (x : xml) : xml :=
  match fuel with
  | O => x
  | S f =>
    match x with
    | Tx _ => x
    | El tag attrs kids =>
        let kids1 := map (set_attachment_titles f) kids in
        if str_eqb tag (of_string "attachment") then
          match child_named (of_string "heading") kids1 with
          | Some h =>
              let title := itertext fuel h in
              let kids2 :=
                (fix go (l : list xml) : list xml :=
                   match l with
                   | [] => []
                   | k :: r => match set_alias alias_path title k with Some k' => k' :: r | None => k :: go r end
                   end) kids1 in
              El tag attrs kids2
          | None => El tag attrs kids1
          end
        else El tag attrs kids1
    end
  end.

(* generate_eids: reset, rewrite all ids with the generator's prefix *)
Definition generate_eids (prefix : str) (x : xml) : R xml :=
  match rewrite_all_eids x prefix with
  | Some (x', _) => OkR x'
  | None => ErrR E_FUEL
  end.

Definition post_process (prefix : str) (x : xml) : R xml :=
  do x1 <- resolve_displaced_content x;
  let fuel := S (xsize x1) in
  let x2 := normalise fuel x1 in
  do x3 <- generate_eids prefix x2;
  OkR (set_attachment_titles fuel x3).

(* wrap_akn + add_meta *)
Definition wrap_with_meta (meta : xml) (x : xml) : xml :=
  match x with
  | El tag attrs kids => El (of_string "akomaNtoso") [] [El tag attrs (meta :: kids)]
  | Tx _ => x
  end.
