(* Model of bluebell/types.py: the to_dict methods of the node types, over canopy's
   observable tree interface (.text, labelled children, iteration, mixed-in types).
   Definitions only.  Every place Python can raise is an explicit error. *)
Require Import BB.Base.Str BB.Base.Xml BB.Base.Dict BB.Model.PegSyntax BB.Model.Peg.
Require Import BB.Gen.TablesTypes BB.Gen.TablesParser.
Open Scope N_scope.

Inductive R (A : Type) := OkR (a : A) | ErrR (kind : str).
Arguments OkR {A} a.
Arguments ErrR {A} kind.
Definition bind {A B} (r : R A) (f : A -> R B) : R B :=
  match r with OkR a => f a | ErrR k => ErrR k end.
Notation "'do' x <- r ; k" := (bind r (fun x => k)) (at level 200, x name, r at level 100, k at level 200).
Notation "'do' ' ( x , y ) <- r ; k" := (bind r (fun xy => let '(x, y) := xy in k))
  (at level 200, x name, y name, r at level 100, k at level 200).

Definition E_ATTR : str := of_string "AttributeError".
Definition E_KEY : str := of_string "KeyError".
Definition E_INDEX : str := of_string "IndexError".
Definition E_FUEL : str := of_string "Fuel".

Fixpoint mapR {A B} (f : A -> R B) (l : list A) : R (list B) :=
  match l with
  | [] => OkR []
  | x :: r => do y <- f x; do ys <- mapR f r; OkR (y :: ys)
  end.
Fixpoint concatMapR {A B} (f : A -> R (list B)) (l : list A) : R (list B) :=
  match l with
  | [] => OkR []
  | x :: r => do y <- f x; do ys <- concatMapR f r; OkR (y ++ ys)
  end.

Section WithInput.
  Variable inp : str.   (* the whole pre-parsed text; node.text is a slice of it *)

  Definition text (t : tree) : str := firstn (N.to_nat (t_len t)) (skipn (N.to_nat (t_off t)) inp).
  Definition has_text (t : tree) : bool := negb (t_len t =? 0).

  (* getattr(node, label): a labelled child *)
  Definition label (t : tree) (l : str) : R tree :=
    match assoc_str l (t_labels t) with
    | Some i => match nth_error (t_kids t) i with Some k => OkR k | None => ErrR E_ATTR end
    | None => ErrR E_ATTR
    end.
  Definition has_label (t : tree) (l : str) : bool :=
    match assoc_str l (t_labels t) with Some _ => true | None => false end.

  (* method resolution: Python's MRO of the class canopy builds by repeated mix-in; the first
     mixed-in type wins unless a later one is a subclass of it *)
  Definition mro (ty : str) : list str := match assoc_str ty type_mro with Some l => l | None => [] end.
  Definition node_type (t : tree) : option str :=
    match t_types t with
    | [] => None
    | t0 :: r => Some (fold_left (fun cur ty => if mem_str cur (mro ty) then ty else cur) r t0)
    end.
  Definition is_a (t : tree) (cls : str) : bool :=
    match node_type t with Some ty => mem_str cls (mro ty) | None => false end.
  Definition has_method (t : tree) (table : list str) : bool :=
    match node_type t with Some ty => mem_str ty table | None => false end.
  (* class attribute lookup along the MRO *)
  Definition class_attr {A} (table : list (str * A)) (t : tree) : option A :=
    match node_type t with
    | None => None
    | Some ty =>
        (fix go (l : list str) : option A :=
           match l with
           | [] => None
           | c :: r => match assoc_str c table with Some v => Some v | None => go r end
           end) (mro ty)
    end.
  Definition class_attrR {A} (table : list (str * A)) (t : tree) : R A :=
    match class_attr table t with Some x => OkR x | None => ErrR E_ATTR end.

  Definition S_ (s : String.string) : str := of_string s.

  Definition elem (name : str) (attribs : option (list (str * str))) (kids : list dnode) : dnode :=
    DNode (S_ "element") name attribs None None None None None (Some kids).
  Definition empty_p : dnode :=
    DNode (S_ "content") (S_ "p") None None None None None None (Some []).
  Definition hcontainer_attrs : list (str * str) := [(S_ "name", S_ "hcontainer")].
  Definition hcontainer (kids : list dnode) : dnode := elem (S_ "hcontainer") (Some hcontainer_attrs) kids.
  Definition empty_hcontainer : dnode := hcontainer [elem (S_ "content") None [empty_p]].

  (* unescape: ESCAPE_RE.sub('\\1', s) with ESCAPE_RE = \\(.)  ('.' does not match a newline) *)
  Fixpoint unescape (s : str) : str :=
    match s with
    | c :: r =>
        if c =? 92 then
          match r with
          | d :: r' => if d =? NL then c :: unescape r else d :: unescape r'
          | [] => [c]
          end
        else c :: unescape r
    | [] => []
    end.

  Definition py_strip (s : str) : str := strip (fun c => in_ranges c py_isspace_class) s.
  Definition lower (s : str) : str := map lower_c s.

  Definition d_name (d : dnode) : R str :=
    match d with DNode _ n _ _ _ _ _ _ _ => OkR n | DText _ => ErrR E_KEY end.
  Definition d_kindR (d : dnode) : R str :=
    match d with DNode k _ _ _ _ _ _ _ _ => OkR k | DText _ => OkR (S_ "text") end.

  (* itertools.groupby on a key function *)
  Fixpoint groupby {A} (key : A -> str) (l : list A) : list (str * list A) :=
    match l with
    | [] => []
    | x :: r =>
        match groupby key r with
        | (k, grp) :: rest => if str_eqb (key x) k then (k, x :: grp) :: rest else (key x, [x]) :: (k, grp) :: rest
        | [] => [(key x, [x])]
        end
    end.

  (* ---- BlockAttr / BlockAttrs: plain attribute dicts ---- *)
  Definition block_attr_to_dict (t : tree) : R (list (str * str)) :=
    do n <- label t (S_ "attr_name"); do v <- label t (S_ "value");
    OkR [(text n, py_strip (text v))].

  Definition block_attrs_to_dict (t : tree) : R (list (str * str)) :=
    do pairs <- label t (S_ "pairs");
    do attrs <-
      (if has_text pairs then
         do first <- label pairs (S_ "first");
         do a0 <- (if has_text first then block_attr_to_dict first else OkR []);
         do rest <- label pairs (S_ "rest");
         do upd <- concatMapR (fun el => do a <- label el (S_ "attr");
                                         if has_text a then block_attr_to_dict a else OkR []) (t_kids rest);
         OkR (dict_update (dict_update [] a0) upd)
       else OkR []);
    do classes <- label t (S_ "classes");
    let cls := if has_text classes
               then flat_map (fun c => match text c with _ :: (_ :: _) as tl => [tl] | _ => [] end) (t_kids classes)
               else [] in
    match cls with
    | [] => OkR attrs
    | _ =>
        match assoc_str (S_ "class") attrs with
        | Some old => OkR (dict_set (S_ "class") (old ++ SP :: join_on SP cls) attrs)
        | None => OkR (dict_set (S_ "class") (join_on SP cls) attrs)
        end
    end.

  (* "if self.attrs.text: info['attribs'] = self.attrs.to_dict()" *)
  Definition opt_attrs (t : tree) : R (option (list (str * str))) :=
    do a <- label t (S_ "attrs");
    if has_text a then do d <- block_attrs_to_dict a; OkR (Some d) else OkR None.

  Definition kids_label (t0 : tree) (l : str) : R (list tree) := mapR (fun c => label c l) (t_kids t0).

  (* ---- open recursion: td is to_dict at smaller fuel ---- *)
  Section Open.
    Variable td : tree -> R dnode.

    (* many_to_dict(items) *)
    Fixpoint many_to_dict (g : nat) (items : list tree) : R (list dnode) :=
      match g with
      | O => ErrR E_FUEL
      | S g' =>
          concatMapR (fun item =>
            if has_method item has_to_dict then do d <- td item; OkR [d]
            else do c <- label item (S_ "content"); many_to_dict g' (t_kids c)) items
      end.

    (* InlineText.many_to_dict(items) *)
    Fixpoint inline_go (items : list tree) (txt : list str) : R (list dnode) :=
      let flush := match txt with [] => [] | _ => [DText (concat (rev txt))] end in
      match items with
      | [] => OkR flush
      | it :: r =>
          if has_method it has_to_dict then
            do d <- td it; do rest <- inline_go r []; OkR (flush ++ d :: rest)
          else
            match text it with
            | [] => ErrR E_INDEX
            | c :: tl => inline_go r ((if c =? 92 then tl else c :: tl) :: txt)
            end
      end.
    Definition inline_many (items : list tree) : R (list dnode) := inline_go items [].

    (* Subheading.to_dict / From.to_dict return lists *)
    Definition subheading_list (t : tree) : R (list dnode) :=
      do body <- label t (S_ "body");
      if has_text body then do c <- label body (S_ "content"); inline_many (t_kids c) else OkR [].
    Definition from_list (t : tree) : R (list dnode) :=
      do c <- label t (S_ "content"); inline_many (t_kids c).

    (* HierElementHeading.heading_to_dict / update_dict; AttachmentHeading.heading_to_dict *)
    Definition hier_heading_to_dict (h : tree) : R (option (list dnode)) :=
      do hh <- label h (S_ "heading");
      if has_label hh (S_ "heading_content") then
        do hc <- label hh (S_ "heading_content");
        if has_text hc then do c <- label hc (S_ "content"); do l <- inline_many (t_kids c); OkR (Some l)
        else OkR None
      else OkR None.
    Definition truthy_list (o : option (list dnode)) : option (list dnode) :=
      match o with Some [] => None | x => x end.
    Definition update_dict (h : tree) : R (option str * option (list dnode)) :=
      if has_text h then
        do n <- label h (S_ "num");
        do num <- (if has_label n (S_ "content")
                   then do c <- label n (S_ "content");
                        let u := unescape (text c) in
                        OkR (match u with [] => None | _ => Some u end)
                   else OkR None);
        do hd <- hier_heading_to_dict h;
        OkR (num, truthy_list hd)
      else OkR (None, None).
    Definition attachment_heading_to_dict (h : tree) : R (option (list dnode)) :=
      do c <- label h (S_ "content");
      if has_text c then do l <- inline_many (t_kids c); OkR (Some l) else OkR None.

    Variable fuel : nat.   (* budget for many_to_dict's own recursion *)

    (* HierElement.to_dict *)
    Definition hier_to_dict (t0 : tree) : R dnode :=
      do ne <- class_attrR class_name_element t0;
      do nm <- label t0 ne;
      let name0 := lower (text nm) in
      let name := match class_attr class_synonyms t0 with
                  | Some syn => match assoc_str name0 syn with Some x => x | None => name0 end
                  | None => name0 end in
      do body <- label t0 (S_ "body");
      do kids <- (if has_text body then do c <- label body (S_ "content"); many_to_dict fuel (t_kids c) else OkR []);
      do hd <- label t0 (S_ "heading");
      do '(num, heading) <- (if has_text hd then update_dict hd else OkR (None, None));
      do sub <- (if has_text body then
                   do sh <- label body (S_ "subheading");
                   if has_text sh then do d <- subheading_list sh; OkR (Some d) else OkR None
                 else OkR None);
      do attrs <- opt_attrs t0;
      do ty <- class_attrR class_type_attr t0;
      OkR (DNode ty name attrs None num heading sub None (Some kids)).

    Definition set_default_attr (k v : str) (d : dnode) : dnode :=
      match d with
      | DNode ty n a aa num h sh fr ch =>
          match a with
          | Some l => match assoc_str k l with
                      | Some _ => d
                      | None => DNode ty n (Some (l ++ [(k, v)])) aa num h sh fr ch
                      end
          | None => DNode ty n (Some [(k, v)]) aa num h sh fr ch
          end
      | DText _ => d
      end.

    (* SpeechContainer.to_dict *)
    Definition speech_container_to_dict (t0 : tree) : R dnode :=
      do info <- hier_to_dict t0;
      do n <- d_name info;
      if str_eqb n (S_ "debateSection") then OkR (set_default_attr (S_ "name") (S_ "debateSection") info)
      else OkR info.

    (* SpeechGroup.to_dict *)
    Definition speech_group_to_dict (t0 : tree) : R dnode :=
      do info <- speech_container_to_dict t0;
      do body <- label t0 (S_ "body");
      do sf <- label body (S_ "speech_from");
      do fr <- from_list sf;
      let by_attr := 35 :: filter (fun c => negb (in_ranges c non_word_class)) (text sf) in
      match info with
      | DNode ty n a aa num h sh _ ch => OkR (set_default_attr (S_ "by") by_attr (DNode ty n a aa num h sh (Some fr) ch))
      | DText _ => ErrR E_KEY
      end.

    (* MainContentElement.wrap_children with the class's classify *)
    Definition classify (is_body : bool) (d : dnode) : R str :=
      match d with
      | DText _ => ErrR E_KEY
      | DNode k n _ _ _ _ _ _ _ =>
          if is_body then
            if str_eqb k (S_ "hier") then OkR (S_ "hier")
            else if str_eqb n (S_ "crossHeading") then OkR (S_ "crossHeading") else OkR (S_ "content")
          else if str_eqb n (S_ "crossHeading") then OkR (S_ "crossHeading") else OkR []   (* None *)
      end.
    Definition wrap_children (is_body : bool) (kids : list dnode) : R (list dnode) :=
      do keyed <- mapR (fun d => do k <- classify is_body d; OkR (k, d)) kids;
      let groups := groupby (fun kd : str * dnode => fst kd) keyed in
      OkR (flat_map (fun g : str * list (str * dnode) =>
             let grp := map snd (snd g) in
             if str_eqb (fst g) (S_ "crossHeading") then [hcontainer grp]
             else if str_eqb (fst g) (S_ "content") then [hcontainer [elem (S_ "content") None grp]]
             else grp) groups).

    Definition main_content_to_dict (t0 : tree) : R dnode :=
      do ce <- class_attrR class_content_element t0;
      do name <- class_attrR class_name_attr t0;
      do c <- label t0 (S_ "content");
      do items <- kids_label c ce;
      do kids <- many_to_dict fuel items;
      let is_body := is_a t0 (S_ "Body") in
      do kids <- wrap_children is_body kids;
      OkR (elem name None (match kids with [] => [if is_body then empty_hcontainer else empty_p] | _ => kids end)).

    Definition att_marker_name (t0 : tree) : R str :=
      do m <- label t0 (S_ "attachment_marker"); OkR (lower (text m)).

    (* Attachment.to_dict *)
    Definition attachment_to_dict (t0 : tree) : R dnode :=
      do ind <- label t0 (S_ "indented");
      do kids1 <- (if has_label ind (S_ "content")
                   then do c <- label ind (S_ "content"); do items <- kids_label c (S_ "hier_block_element"); many_to_dict fuel items
                   else OkR []);
      do c2 <- label t0 (S_ "content");
      do items2 <- kids_label c2 (S_ "hier_block_indent");
      do kids2 <- many_to_dict fuel items2;
      do kids <- wrap_children false (kids1 ++ kids2);
      do atts <- (if has_label ind (S_ "attachments")
                  then do a <- label ind (S_ "attachments");
                       if has_text a then do d <- td a; OkR (Some d) else OkR None
                  else OkR None);
      do nm <- att_marker_name t0;
      do at_attrs <- opt_attrs t0;
      do hd <- label t0 (S_ "heading");
      do heading <- (if has_text hd then do h <- attachment_heading_to_dict hd; OkR (truthy_list h) else OkR None);
      do sub <- (if has_text ind then
                   do sh <- label ind (S_ "subheading");
                   if has_text sh then do d <- subheading_list sh; OkR (Some d) else OkR None
                 else OkR None);
      let main := elem (S_ "mainBody") None (match kids with [] => [empty_p] | _ => kids end) in
      let children := main :: match atts with Some a => [a] | None => [] end in
      OkR (DNode (S_ "element") (S_ "attachment") (Some [(S_ "name", nm)]) at_attrs None heading sub None (Some children)).

    (* BlockIndentElement: Preface, Preamble, Conclusions *)
    Definition block_indent_to_dict (t0 : tree) : R dnode :=
      do name <- class_attrR class_name_attr t0;
      do c <- label t0 (S_ "content");
      do items <- kids_label c (S_ "block_element");
      do kids <- many_to_dict fuel items;
      do attrs <- (if has_label t0 (S_ "attrs") then opt_attrs t0 else OkR None);
      OkR (elem name attrs kids).

    Definition judgment_body_to_dict (t0 : tree) : R dnode :=
      do parts <- mapR (fun l => label t0 l)
                    [S_ "introduction"; S_ "background"; S_ "arguments"; S_ "remedies"; S_ "motivation"; S_ "decision"];
      do kids <- mapR td (filter has_text parts);
      OkR (elem (S_ "judgmentBody") None kids).

    Definition longtitle_to_dict (t0 : tree) : R dnode :=
      do body <- label t0 (S_ "body");
      do kids <- (if has_text body
                  then do c <- label body (S_ "content"); do l <- inline_many (t_kids c);
                       OkR [DNode (S_ "content") (S_ "p") None None None None None None (Some l)]
                  else OkR []);
      OkR (elem (S_ "longTitle") None kids).

    Definition crossheading_to_dict (t0 : tree) : R dnode :=
      do body <- label t0 (S_ "body");
      do kids <- (if has_text body then do c <- label body (S_ "content"); inline_many (t_kids c) else OkR []);
      do attrs <- opt_attrs t0;
      OkR (elem (S_ "crossHeading") attrs kids).

    Definition attachments_to_dict (t0 : tree) : R dnode :=
      do kids <- mapR td (t_kids t0); OkR (elem (S_ "attachments") None kids).

    (* ---- block elements ---- *)
    Definition block (name : str) (attrs : option (list (str * str))) (kids : list dnode) : dnode :=
      DNode (S_ "block") name attrs None None None None None (Some kids).

    Definition line_to_dict (t0 : tree) : R dnode :=
      do c <- label t0 (S_ "content"); do l <- inline_many (t_kids c);
      OkR (DNode (S_ "content") (S_ "p") None None None None None None (Some l)).

    Definition p_to_dict (t0 : tree) : R dnode :=
      do c <- label t0 (S_ "content"); do l <- inline_many (t_kids c);
      do attrs <- opt_attrs t0;
      OkR (DNode (S_ "content") (S_ "p") attrs None None None None None (Some l)).

    Definition speech_block_to_dict (t0 : tree) : R dnode :=
      do n <- label t0 (S_ "speech_block_name");
      do c <- label t0 (S_ "content"); do l <- inline_many (t_kids c);
      do attrs <- opt_attrs t0;
      OkR (elem (lower (text n)) attrs l).

    Definition block_list_intro_to_dict (t0 : tree) : R dnode :=
      do name <- class_attrR class_name_attr t0;
      do ln <- label t0 (S_ "line");
      do info <- td ln;
      do fn <- label t0 (S_ "footnotes");
      do extra <- mapR td (t_kids fn);
      match info with
      | DNode ty _ a aa num h sh fr (Some ch) => OkR (DNode ty name a aa num h sh fr (Some (ch ++ extra)))
      | DNode ty _ a aa num h sh fr None =>
          match extra with [] => OkR (DNode ty name a aa num h sh fr None) | _ => ErrR E_KEY end
      | DText _ => ErrR E_KEY
      end.

    Definition block_list_to_dict (t0 : tree) : R dnode :=
      do intro <- label t0 (S_ "intro");
      do k1 <- (if has_text intro then do d <- td intro; OkR [d] else OkR []);
      do items <- label t0 (S_ "items");
      do k2 <- mapR td (t_kids items);
      do wrapup <- label t0 (S_ "wrapup");
      do k3 <- (if has_text wrapup then do d <- td wrapup; OkR [d] else OkR []);
      do attrs <- opt_attrs t0;
      OkR (block (S_ "blockList") attrs (k1 ++ k2 ++ k3)).

    Definition block_list_item_to_dict (t0 : tree) : R dnode :=
      do c <- label t0 (S_ "content");
      do kids <- (if has_text c then
                    do ch <- label c (S_ "children");
                    if has_text ch then many_to_dict fuel (t_kids ch) else OkR [empty_p]
                  else OkR [empty_p]);
      do hd <- label t0 (S_ "heading");
      do '(num, heading) <- (if has_text hd then update_dict hd else OkR (None, None));
      do sub <- (if has_text c then
                   do sh <- label c (S_ "subheading");
                   if has_text sh then do d <- subheading_list sh; OkR (Some d) else OkR None
                 else OkR None);
      OkR (DNode (S_ "block") (S_ "item") None None num heading sub None (Some kids)).

    Definition bullet_list_to_dict (t0 : tree) : R dnode :=
      do items <- label t0 (S_ "items");
      do kids <- mapR td (t_kids items);
      do attrs <- opt_attrs t0;
      OkR (block (S_ "ul") attrs kids).

    Definition bullet_list_item_to_dict (t0 : tree) : R dnode :=
      do ini <- label t0 (S_ "initial");
      do k1 <- (if has_method ini has_to_dict then do d <- td ini; OkR [d] else OkR [empty_p]);
      do c <- label t0 (S_ "content");
      do k2 <- (if has_text c then
                  do sib <- label c (S_ "siblings");
                  concatMapR (fun kid =>
                    if has_method kid has_to_dict then do d <- td kid; OkR [d]
                    else if has_method kid has_to_children
                         then do cc <- label kid (S_ "content"); many_to_dict fuel (t_kids cc)
                         else ErrR E_ATTR) (t_kids sib)
                else OkR []);
      OkR (elem (S_ "li") None (k1 ++ k2)).

    Definition block_container_to_dict (t0 : tree) : R dnode :=
      do c <- label t0 (S_ "content");
      do kids <- (if has_text c then many_to_dict fuel (t_kids c) else OkR [empty_p]);
      do attrs <- opt_attrs t0;
      OkR (block (S_ "blockContainer") attrs kids).

    Definition table_to_dict (t0 : tree) : R dnode :=
      do rows <- label t0 (S_ "rows");
      do kids <- mapR td (t_kids rows);
      do attrs <- opt_attrs t0;
      OkR (elem (S_ "table") attrs kids).

    Definition table_row_to_dict (t0 : tree) : R dnode :=
      do cells <- label t0 (S_ "cells");
      do kids <- mapR td (t_kids cells);
      OkR (elem (S_ "tr") None kids).

    Definition table_cell_to_dict (t0 : tree) : R dnode :=
      do c <- label t0 (S_ "content");
      do kids <- (if has_text c then do cc <- label c (S_ "content"); many_to_dict fuel (t_kids cc) else OkR [empty_p]);
      do nm <- label t0 (S_ "name");
      do names <- class_attrR class_names_map t0;
      do name <- match assoc_str (text nm) names with Some x => OkR x | None => ErrR E_KEY end;
      do attrs <- opt_attrs t0;
      OkR (elem name attrs kids).

    Definition block_quote_to_dict (t0 : tree) : R dnode :=
      do c <- label t0 (S_ "content");
      do kids <- many_to_dict fuel (t_kids c);
      do attrs <- opt_attrs t0;
      OkR (elem (S_ "block") (Some [(S_ "name", S_ "quote")]) [elem (S_ "embeddedStructure") attrs kids]).

    Definition footnote_ref_to_dict (t0 : tree) : R dnode :=
      do m <- label t0 (S_ "marker");
      OkR (DNode (S_ "element") (S_ "authorialNote")
             (Some [(S_ "marker", py_strip (text m)); (S_ "placement", S_ "bottom"); (S_ "displaced", S_ "footnote")])
             None None None None None None).

    Definition footnote_to_dict (t0 : tree) : R dnode :=
      do m <- label t0 (S_ "marker");
      do c <- label t0 (S_ "content");
      do kids <- many_to_dict fuel (t_kids c);
      OkR (elem (S_ "displaced") (Some [(S_ "marker", py_strip (text m)); (S_ "name", S_ "footnote")]) kids).

    (* ---- inlines ---- *)
    Definition inline_text_to_dict (t0 : tree) : R dnode :=
      if has_label t0 (S_ "inline_marker") then do m <- label t0 (S_ "inline_marker"); td m
      else OkR (DText (match t_kids t0 with k :: _ => text k | [] => text t0 end)).

    Definition inline_node (name : str) (attribs : list (str * str)) (kids : list dnode) : dnode :=
      DNode (S_ "inline") name (match attribs with [] => None | _ => Some attribs end) None None None None None (Some kids).

    Definition inline_children (t0 : tree) (l : str) : R (list dnode) :=
      do c <- label t0 (S_ "content"); do items <- kids_label c l; inline_many items.

    Definition default_attribs_of (t0 : tree) : list (str * str) :=
      match class_attr class_default_attribs t0 with Some d => d | None => [] end.

    (* Inline.to_dict (Sup, Sub) *)
    Definition inline_to_dict (t0 : tree) : R dnode :=
      do name <- class_attrR class_name_attr t0;
      do kids <- inline_children t0 (S_ "inline_nested");
      OkR (inline_node name (default_attribs_of t0) kids).

    (* SymmetricInline.to_dict (Bold, Italics, Underline) *)
    Definition symmetric_inline_to_dict (t0 : tree) : R dnode :=
      do name <- class_attrR class_name_attr t0;
      do kids <- inline_children t0 (S_ "inline");
      OkR (inline_node name (default_attribs_of t0) kids).

    Definition ref_to_dict (t0 : tree) : R dnode :=
      do name <- class_attrR class_name_attr t0;
      do kids <- inline_children t0 (S_ "inline_nested");
      do h <- label t0 (S_ "href");
      OkR (inline_node name [(S_ "href", text h)] kids).

    (* Remark.to_dict: newlines become <br>, the runs between them are merged as inlines *)
    Fixpoint remark_go (content : list tree) (batch : list tree) : R (list dnode) :=
      match content with
      | [] => match batch with [] => OkR [] | _ => inline_many (rev batch) end
      | kid :: r =>
          if str_eqb (text kid) [NL] then
            do k1 <- inline_many (rev batch);
            do rest <- remark_go r [];
            OkR (k1 ++ DNode (S_ "element") (S_ "br") None None None None None None None :: rest)
          else do c <- label kid (S_ "content"); remark_go r (c :: batch)
      end.
    Definition remark_to_dict (t0 : tree) : R dnode :=
      do name <- class_attrR class_name_attr t0;
      do c <- label t0 (S_ "content");
      do kids <- remark_go (t_kids c) [];
      OkR (inline_node name (default_attribs_of t0) kids).

    Definition image_to_dict (t0 : tree) : R dnode :=
      do h <- label t0 (S_ "href");
      do c <- label t0 (S_ "content");
      let attribs := (S_ "src", text h) :: (if has_text c then [(S_ "alt", py_strip (text c))] else []) in
      OkR (DNode (S_ "marker") (S_ "img") (Some attribs) None None None None None None).

    (* StandardInline.to_dict *)
    Definition standard_inline_to_dict (t0 : tree) : R dnode :=
      do tg <- label t0 (S_ "tag");
      let name := text tg in
      do a <- label t0 (S_ "attrs");
      do attribs0 <- (if has_text a then block_attrs_to_dict a else OkR []);
      let defaults := match assoc_str name std_inline_defaults with Some d => d | None => [] end in
      let attribs := fold_left (fun acc kv => dict_setdefault (fst kv) (snd kv) acc) defaults attribs0 in
      do kids <- inline_children t0 (S_ "inline_nested");
      let info := inline_node name attribs kids in
      if str_eqb name (S_ "em") then
        match info with
        | DNode ty _ at_ aa num h sh fr ch =>
            OkR (DNode ty (S_ "inline") (Some (dict_set (S_ "name") (S_ "em") (match at_ with Some l => l | None => [] end)))
                   aa num h sh fr ch)
        | d => OkR d
        end
      else if str_eqb name [43] then
        match info with DNode ty _ at_ aa num h sh fr ch => OkR (DNode ty (S_ "ins") at_ aa num h sh fr ch) | d => OkR d end
      else if str_eqb name [45] then
        match info with DNode ty _ at_ aa num h sh fr ch => OkR (DNode ty (S_ "del") at_ aa num h sh fr ch) | d => OkR d end
      else OkR info.

    (* ---- DocumentRoot.to_dict ---- *)
    Definition make_empty (t0 : tree) (tag : str) : dnode :=
      if is_a t0 (S_ "HierarchicalStructure") && str_eqb tag (S_ "body") then elem tag None [empty_hcontainer]
      else if is_a t0 (S_ "Judgment") && str_eqb tag (S_ "judgmentBody")
           then elem tag None [elem (S_ "introduction") None [empty_p]]
      else if is_a t0 (S_ "OpenStructure") && str_eqb tag (S_ "mainBody") then elem tag None [empty_p]
      else if is_a t0 (S_ "DebateStructure") && str_eqb tag (S_ "debateBody")
           then elem tag None [elem (S_ "debateSection") (Some [(S_ "name", S_ "debateSection")]) [empty_p]]
      else DNode (S_ "element") tag None None None None None None None.

    Definition document_root_to_dict (t0 : tree) : R dnode :=
      do name <- class_attrR class_name_attr t0;
      do children <- class_attrR doc_children t0;
      do required <- class_attrR doc_required t0;
      do kids <- concatMapR (fun tag =>
                   if has_label t0 tag then
                     do node <- label t0 tag;
                     if has_text node then do d <- td node; OkR [d]
                     else if mem_str tag required then OkR [make_empty t0 tag] else OkR []
                   else if mem_str tag required then OkR [make_empty t0 tag] else OkR []) children;
      OkR (elem name (Some [(S_ "name", name)]) kids).

    (* the method table: which to_dict a node's class resolves to *)
    Definition dispatch (t0 : tree) : R dnode :=
      let is c := is_a t0 (S_ c) in
      if is "DocumentRoot" then document_root_to_dict t0
      else if is "JudgmentBody" then judgment_body_to_dict t0
      else if is "BlockIndentElement" then block_indent_to_dict t0
      else if is "Longtitle" then longtitle_to_dict t0
      else if is "Crossheading" then crossheading_to_dict t0
      else if is "Attachment" then attachment_to_dict t0
      else if is "MainContentElement" then main_content_to_dict t0
      else if is "SpeechGroup" then speech_group_to_dict t0
      else if is "SpeechContainer" then speech_container_to_dict t0
      else if is "HierElement" then hier_to_dict t0
      else if is "Attachments" then attachments_to_dict t0
      else if is "BlockList" then block_list_to_dict t0
      else if is "BlockListIntro" then block_list_intro_to_dict t0
      else if is "BlockListItem" then block_list_item_to_dict t0
      else if is "BulletList" then bullet_list_to_dict t0
      else if is "BulletListItem" then bullet_list_item_to_dict t0
      else if is "BlockContainer" then block_container_to_dict t0
      else if is "Table" then table_to_dict t0
      else if is "TableRow" then table_row_to_dict t0
      else if is "TableCell" then table_cell_to_dict t0
      else if is "SpeechBlock" then speech_block_to_dict t0
      else if is "P" then p_to_dict t0
      else if is "Line" then line_to_dict t0
      else if is "BlockQuote" then block_quote_to_dict t0
      else if is "FootnoteRef" then footnote_ref_to_dict t0
      else if is "Footnote" then footnote_to_dict t0
      else if is "InlineText" then inline_text_to_dict t0
      else if is "Remark" then remark_to_dict t0
      else if is "Ref" then ref_to_dict t0
      else if is "StandardInline" then standard_inline_to_dict t0
      else if is "SymmetricInline" then symmetric_inline_to_dict t0
      else if is "Inline" then inline_to_dict t0
      else if is "Image" then image_to_dict t0
      else ErrR E_ATTR.   (* no to_dict that returns a node: BlockAttrs, Subheading, From, headings, nested blocks *)
  End Open.

  Fixpoint to_dict (fuel : nat) (t : tree) {struct fuel} : R dnode :=
    match fuel with
    | O => ErrR E_FUEL
    | S f => dispatch (to_dict f) f t
    end.

  Fixpoint depth (fuel : nat) (t : tree) : nat :=
    match fuel with
    | O => O
    | S f => S (fold_left (fun m k => Nat.max m (depth f k)) (t_kids t) O)
    end.

  Definition is_root (t : tree) : bool :=
    match node_type t with Some ty => mem_str ty doc_is_root | None => false end.
End WithInput.

Definition tree_to_dict (inp : str) (t : tree) : R dnode :=
  to_dict inp (2 * S (length inp) + 50) t.
