(* PEG interpreter with canopy's tree-building rules (DESIGN.md appendix A).  Definitions only.
   Positions are suffixes of the input plus the offset, so a character test is O(1). *)
Require Import BB.Base.Str BB.Model.PegSyntax.
Open Scope N_scope.

(* canopy's observable node: text span, mixed-in types, labelled children, children *)
Inductive tree :=
| Node (off len : N) (types : list str) (labels : list (str * nat)) (kids : list tree).

Definition t_off (t : tree) : N := match t with Node o _ _ _ _ => o end.
Definition t_len (t : tree) : N := match t with Node _ l _ _ _ => l end.
Definition t_types (t : tree) : list str := match t with Node _ _ ty _ _ => ty end.
Definition t_labels (t : tree) : list (str * nat) := match t with Node _ _ _ l _ => l end.
Definition t_kids (t : tree) : list tree := match t with Node _ _ _ _ k => k end.

Definition leaf (off len : N) : tree := Node off len [] [] [].
Definition add_type (t : tree) (ty : str) : tree :=
  match t with Node o l tys lb k => Node o l (tys ++ [ty]) lb k end.

Inductive res :=
| Fail
| OutOfFuel
| Ok (rest : str) (off : N) (t : tree).

Definition len_N (s : str) : N := N.of_nat (length s).

(* the three iteration schemes, with the recursive call passed in *)
Definition seq_loop (step : expr -> str -> N -> res) (off : N) (labels : list (str * nat)) :=
  fix seq (es : list expr) (s1 : str) (off1 : N) (acc : list tree) : res :=
    match es with
    | [] => Ok s1 off1 (Node off (off1 - off) [] labels (rev_append acc []))
    | e1 :: r =>
        match step e1 s1 off1 with
        | Ok s2 off2 t => seq r s2 off2 (t :: acc)
        | Fail => Fail
        | OutOfFuel => OutOfFuel
        end
    end.

Definition alt_loop (step : expr -> res) :=
  fix alt (es : list expr) : res :=
    match es with
    | [] => Fail
    | e1 :: r => match step e1 with Fail => alt r | x => x end
    end.

(* e* / e+ : iterate until e fails; an iteration that consumes nothing would loop forever in
   canopy, here the iteration budget k (input length + 1) runs out *)
Definition rep_loop (step : str -> N -> res) (off : N) (min : nat) :=
  fix loop (k : nat) (s1 : str) (off1 : N) (acc : list tree) : res :=
    match k with
    | O => OutOfFuel
    | S k' =>
        match step s1 off1 with
        | Ok s2 off2 t => loop k' s2 off2 (t :: acc)
        | Fail =>
            if Nat.leb min (length acc)
            then Ok s1 off1 (Node off (off1 - off) [] [] (rev_append acc []))
            else Fail
        | OutOfFuel => OutOfFuel
        end
    end.

Section Run.
  Variable g : grammar.

  Fixpoint run (fuel : nat) (e : expr) (s : str) (off : N) {struct fuel} : res :=
    match fuel with
    | O => OutOfFuel
    | S f =>
        match e with
        | Lit l =>
            match strip_prefix l s with
            | Some rest => Ok rest (off + len_N l) (leaf off (len_N l))
            | None => Fail
            end
        | Cls rs =>
            match s with
            | c :: rest => if in_ranges c rs then Ok rest (off + 1) (leaf off 1) else Fail
            | [] => Fail
            end
        | Ref r =>
            match lookup g r with
            | Some body => run f body s off
            | None => Fail
            end
        | Seq es labels => seq_loop (run f) off labels es s off []
        | Alt es => alt_loop (fun e1 => run f e1 s off) es
        | Opt e1 =>
            match run f e1 s off with
            | Fail => Ok s off (leaf off 0)
            | x => x
            end
        | Star e1 => rep_loop (run f e1) off 0%nat (S (length s)) s off []
        | Plus e1 => rep_loop (run f e1) off 1%nat (S (length s)) s off []
        | And e1 =>
            match run f e1 s off with
            | Ok _ _ _ => Ok s off (leaf off 0)
            | x => x
            end
        | Not e1 =>
            match run f e1 s off with
            | Ok _ _ _ => Fail
            | Fail => Ok s off (leaf off 0)
            | OutOfFuel => OutOfFuel
            end
        | Typed e1 ty =>
            match run f e1 s off with
            | Ok s2 off2 t => Ok s2 off2 (add_type t ty)
            | x => x
            end
        end
    end.
End Run.

(* parse_with_failure: the root rule must succeed and consume the whole input *)
Inductive parse_result := PFail | PFuel | POk (t : tree).

Definition default_fuel (s : str) : nat := (1000 + 16 * length s)%nat.

Definition parse (g : grammar) (root : str) (s : str) : parse_result :=
  match run g (default_fuel s) (Ref root) s 0 with
  | Ok [] _ t => POk t
  | Ok _ _ _ => PFail
  | Fail => PFail
  | OutOfFuel => PFuel
  end.

(* wire format of parse trees *)
Require Import BB.Base.Sx.
Fixpoint tree_to_sx (t : tree) : sx :=
  match t with
  | Node o l tys lbs kids =>
      L [A [o]; A [l]; L (map A tys);
         L (map (fun li => L [A (fst li); A [N.of_nat (snd li)]]) lbs);
         L (map tree_to_sx kids)]
  end.

Definition run_rule_sx (g : grammar) (rule : str) (s : str) : sx :=
  match run g (default_fuel s) (Ref rule) s 0 with
  | Ok _ off t => L [A (of_string "OK"); A [off]; tree_to_sx t]
  | Fail => L [A (of_string "FAIL")]
  | OutOfFuel => L [A (of_string "FUEL")]
  end.
