(* Model of bluebell/xml.py: XmlGenerator.item_to_xml_* (dict tree -> XML), with the
   attachment naming state and lxml's refusal of illegal characters and attribute names.
   Definitions only. *)
Require Import BB.Base.Str BB.Base.Xml BB.Base.Dict BB.Model.Types BB.Model.Eid.
Require Import BB.Gen.TablesLibs.
Open Scope N_scope.

Definition E_XML : str := of_string "ValueError".
Definition E_TYPE : str := of_string "TypeError".

Definition xml_char_ok (c : N) : bool := in_ranges c xml_char_class.
Definition valid_text (s : str) : bool := forallb xml_char_ok s.
Definition valid_name (s : str) : bool :=
  match s with
  | c :: r => in_ranges c xml_name_start_class && forallb (fun x => in_ranges x xml_name_char_class) r
  | [] => false
  end.

(* lxml's ElementMaker call  m(name, *kids, **attribs) *)
Definition mk_elem (name : str) (attrs : list (str * str)) (kids : list xml) : R xml :=
  if forallb (fun kv => valid_text (fst kv) && valid_name (fst kv) && valid_text (snd kv)) attrs
     && forallb (fun k => match k with Tx s => valid_text s | El _ _ _ => true end) kids
  then OkR (El name attrs kids)
  else ErrR E_XML.

(* generator state that outlives one element: the attachment counters (kept in the id
   generator's counter table under the reserved prefix __attachments) and the stack of
   enclosing attachment names *)
Record gstate := mkG { g_counters : list (str * counter); g_stack : list str }.

Definition ATTACHMENTS_KEY : str := of_string "__attachments".
Definition SLASH : N := 47.

Definition S_ (s : String.string) : str := of_string s.

Definition truthy_str (o : option str) : option str := match o with Some [] => None | x => x end.
Definition truthy_l {A} (o : option (list A)) : option (list A) := match o with Some [] => None | x => x end.

Definition attachment_name (attribs : option (list (str * str))) (g : gstate) : str * gstate :=
  let name := match attribs with
              | Some a => match assoc_str (S_ "name") a with Some n => n | None => S_ "attachment" end
              | None => S_ "attachment" end in
  let parent := match g_stack g with p :: _ => Some p | [] => None end in
  let key := match parent with Some p => p ++ DUSCORE ++ name | None => name end in
  let '(cs, n) := incr_in (g_counters g) ATTACHMENTS_KEY key in
  let full := match parent with
              | Some p => p ++ SLASH :: name ++ USCORE :: nat_dec n
              | None => name ++ USCORE :: nat_dec n end in
  (full, mkG cs (g_stack g)).

Section Gen.
  Variable meta_for : str -> xml.   (* make_meta(attachment_frbr_uri(name), False) *)

  Definition is_hier_child (d : dnode) : R bool :=
    match d with
    | DText _ => ErrR E_KEY     (* x['name'] on a text node *)
    | DNode k n _ _ _ _ _ _ _ => OkR (str_eqb k (S_ "hier") || str_eqb n (S_ "crossHeading"))
    end.

  (* consecutive runs of equal flags, as itertools.groupby *)
  Fixpoint group_flags {A} (l : list (bool * A)) : list (bool * list A) :=
    match l with
    | [] => []
    | (b, x) :: r =>
        match group_flags r with
        | (b', grp) :: rest => if Bool.eqb b b' then (b, x :: grp) :: rest else (b, [x]) :: (b', grp) :: rest
        | [] => [(b, [x])]
        end
    end.

  (* open recursion: rec is item_to_xml at smaller fuel *)
  Section OpenGen.
    Variable rec : dnode -> gstate -> R (xml * gstate).

    Fixpoint items (l : list dnode) (g : gstate) : R (list xml * gstate) :=
      match l with
      | [] => OkR ([], g)
      | x :: r => do '(x', g1) <- rec x g; do '(r', g2) <- items r g1; OkR (x' :: r', g2)
      end.

    Definition kids_of (ch : option (list dnode)) : list dnode := match ch with Some l => l | None => [] end.
    Definition attrs_of (a : option (list (str * str))) : list (str * str) := match a with Some l => l | None => [] end.

    (* an optional wrapper element around a list of items: heading, subheading, from *)
    Definition wrapped (tag : str) (o : option (list dnode)) (g : gstate) : R (list xml * gstate) :=
      match o with
      | Some l => do '(k, g1) <- items l g; do e <- mk_elem tag [] k; OkR ([e], g1)
      | None => OkR ([], g)
      end.

    (* add_num_heading_subheading *)
    Definition pre (num : option str) (h sh : option (list dnode)) (g : gstate) : R (list xml * gstate) :=
      do n <- match truthy_str num with Some n => do e <- mk_elem (S_ "num") [] [Tx n]; OkR [e] | None => OkR [] end;
      do '(hx, g1) <- wrapped (S_ "heading") (truthy_l h) g;
      do '(sx, g2) <- wrapped (S_ "subheading") (truthy_l sh) g1;
      OkR (n ++ hx ++ sx, g2).

    (* the groups of a hier element with mixed children: intro / hier as they are / hcontainer / wrapUp *)
    Fixpoint hier_groups (n : nat) (gs : list (bool * list dnode)) (i : nat) (seen : bool) (g : gstate)
      : R (list xml * gstate) :=
      match gs with
      | [] => OkR ([], g)
      | (is_hier, grp) :: r =>
          do '(k, g1) <- items grp g;
          do '(here, seen') <-
            (if is_hier then OkR (k, true)
             else if seen then
               if Nat.eqb i (n - 1) then do e <- mk_elem (S_ "wrapUp") [] k; OkR ([e], seen)
               else do c <- mk_elem (S_ "content") [] k;
                    do e <- mk_elem (S_ "hcontainer") [(S_ "name", S_ "hcontainer")] [c]; OkR ([e], seen)
             else do e <- mk_elem (S_ "intro") [] k; OkR ([e], seen));
          do '(rest, g2) <- hier_groups n r (S i) seen' g1;
          OkR (here ++ rest, g2)
      end.

    Definition item_body (d : dnode) (g : gstate) : R (xml * gstate) :=
      match d with
      | DText v => OkR (Tx v, g)
      | DNode kind name attribs att_attribs num h sh fr ch =>
          if str_eqb kind (S_ "hier") then
            let children := kids_of ch in
            do flags <- mapR (fun k => do b <- is_hier_child k; OkR (b, k)) children;
            do '(kids, g1) <-
              (if forallb (fun bk : bool * dnode => negb (fst bk)) flags then
                 do '(k, g1) <- items children g; do c <- mk_elem (S_ "content") [] k; OkR ([c], g1)
               else
                 let groups := group_flags flags in
                 hier_groups (length groups) groups 0%nat false g);
            do '(p, g2) <- pre num h sh g1;
            do e <- mk_elem name (attrs_of attribs) (p ++ kids); OkR (e, g2)
          else if str_eqb kind (S_ "block") then
            do '(p, g1) <- pre num h sh g;
            do '(k, g2) <- items (kids_of ch) g1;
            do kids <- match p ++ k with [] => do e <- mk_elem (S_ "p") [] []; OkR [e] | l => OkR l end;
            do e <- mk_elem name (attrs_of attribs) kids; OkR (e, g2)
          else if str_eqb kind (S_ "speechhier") then
            do '(p, g1) <- pre num h sh g;
            do '(frx, g2) <- wrapped (S_ "from") fr g1;
            do '(k, g3) <- items (kids_of ch) g2;
            do e <- mk_elem name (attrs_of attribs) (p ++ frx ++ k); OkR (e, g3)
          else if str_eqb kind (S_ "content") || str_eqb kind (S_ "inline") then
            do '(k, g1) <- items (kids_of ch) g;
            do e <- mk_elem name (attrs_of attribs) k; OkR (e, g1)
          else if str_eqb kind (S_ "marker") then
            do e <- mk_elem name (attrs_of attribs) []; OkR (e, g)
          else if str_eqb kind (S_ "element") then
            if str_eqb name (S_ "attachment") then
              let '(aname, g0) := attachment_name attribs g in
              do '(hx, g1) <- wrapped (S_ "heading") (truthy_l h) g0;
              do '(sx, g2) <- wrapped (S_ "subheading") (truthy_l sh) g1;
              do children <- match ch with Some l => OkR l | None => ErrR E_KEY end;
              do '(k, g3) <- items children (mkG (g_counters g2) (aname :: g_stack g2));
              do doc <- mk_elem (S_ "doc") (attrs_of attribs) (meta_for aname :: k);
              do e <- mk_elem (S_ "attachment") (attrs_of att_attribs) (hx ++ sx ++ [doc]);
              OkR (e, mkG (g_counters g3) (g_stack g2))
            else
              do '(k, g1) <- items (kids_of ch) g;
              do e <- mk_elem name (attrs_of attribs) k; OkR (e, g1)
          else ErrR E_ATTR
      end.
  End OpenGen.

  Fixpoint item_to_xml (fuel : nat) (d : dnode) (g : gstate) {struct fuel} : R (xml * gstate) :=
    match fuel with
    | O => ErrR E_FUEL
    | S f => item_body (item_to_xml f) d g
    end.
End Gen.

(* etree.fromstring(etree.tostring(x)): adjacent text nodes merge, empty ones vanish *)
Fixpoint normalise_text (fuel : nat) (x : xml) : xml :=
  match fuel with
  | O => x
  | S f =>
    match x with
    | Tx s => Tx s
    | El tag attrs kids =>
        El tag attrs
          ((fix go (l : list xml) : list xml :=
              match l with
              | [] => []
              | Tx [] :: r => go r
              | Tx a :: r =>
                  match go r with
                  | Tx b :: r' => Tx (a ++ b) :: r'
                  | r' => Tx a :: r'
                  end
              | k :: r => normalise_text f k :: go r
              end) kids)
    end
  end.
