(* The whole pipeline: AkomaNtosoParser.parse_to_xml(text, root) for a parser object created
   with a given FRBR URI and eId prefix.  Definitions only. *)
Require Import BB.Base.Str BB.Base.Xml BB.Base.Dict BB.Base.Sx.
Require Import BB.Model.PreParse BB.Model.PegSyntax BB.Model.Peg BB.Model.Types BB.Model.Eid BB.Model.XmlGen BB.Model.Post.
Require Import BB.Gen.Grammar BB.Gen.TablesParser BB.Gen.TablesLibs.
Open Scope N_scope.

Definition E_PARSE : str := of_string "ParseError".

Definition resolve_root (root : str) : str :=
  match assoc_str root root_aliases with Some r => r | None => root end.

(* parse(text, root) *)
Definition parse_text (root text : str) : R (str * tree) :=
  match pre_parse default_indent_size text with
  | None => ErrR E_INDEX
  | Some pre =>
      match parse akn_peg (resolve_root root) pre with
      | PFail => ErrR E_PARSE
      | PFuel => ErrR E_FUEL
      | POk t => OkR (pre, t)
      end
  end.

Definition meta_of (uri : str) : R (xml * (str -> xml)) :=
  match assoc_str uri meta_templates with Some m => OkR m | None => ErrR (of_string "UnknownUri") end.

Definition dsize_fuel (inp : str) : nat := (4 * S (length inp) + 100)%nat.

(* xml_from_dict(tree, is_root) starting from a given generator state; returns the state too *)
Definition xml_from_dict (uri prefix : str) (fuel : nat) (d : dnode) (root : bool) (g : gstate) : R (xml * gstate) :=
  do '(root_meta, att_meta) <- meta_of uri;
  do '(x, g1) <- item_to_xml att_meta fuel d g;
  let x0 := normalise_text (S (xsize x)) x in
  let x1 := if root then wrap_with_meta root_meta x0 else x0 in
  do x2 <- post_process prefix x1;
  OkR (x2, g1).

Definition g0 : gstate := mkG [] [].

Definition convert (uri root prefix text : str) : R xml :=
  do '(pre, t) <- parse_text root text;
  do d <- tree_to_dict pre t;
  do '(x, _) <- xml_from_dict uri prefix (dsize_fuel pre) d (is_root t) g0;
  OkR x.

Definition r_xml_sx (r : R xml) : sx :=
  match r with OkR x => xml_to_sx x | ErrR k => L [A (of_string "ERR"); A k] end.
