(* Model of bluebell/cli.py: main() as a function of the arguments and the file's text into
   (stdout, exit status).  Serialisation (lxml tostring, json.dumps) is outside /repo: it is a
   section variable here, and the same library functions are used by the cli stage's oracle. *)
Require Import BB.Base.Str BB.Base.Xml BB.Base.Dict.
Require Import BB.Model.Types BB.Model.Convert BB.Model.PegSyntax BB.Model.Peg.
Open Scope N_scope.

Record cli_args := { a_uri : str; a_root : str; a_json : bool; a_pretty : bool }.

Section Cli.
  Variable ser_xml : bool -> xml -> str.     (* ET.tostring(xml, pretty_print=pretty, encoding='unicode') *)
  Variable ser_json : dnode -> str.          (* json.dumps(tree.to_dict()) *)

  (* exit status: 0 = normal return, 1 = uncaught exception (traceback on stderr) *)
  Definition main (a : cli_args) (file_text : str) : str * nat :=
    match parse_text (a_root a) file_text with
    | ErrR _ => ([], 1%nat)                   (* ParseError: numbered lines to stderr, re-raised *)
    | OkR (pre, t) =>
        if a_json a then
          match tree_to_dict pre t with
          | OkR d => (ser_json d ++ [NL], 0%nat)
          | ErrR _ => ([], 1%nat)
          end
        else
          match (do d <- tree_to_dict pre t;
                 xml_from_dict (a_uri a) [] (dsize_fuel pre) d (is_root t) g0) with
          | OkR (x, _) => (ser_xml (a_pretty a) x ++ [NL], 0%nat)
          | ErrR _ => ([], 1%nat)
          end
    end.

  (* the library's answer for the same arguments *)
  Definition lib_xml (a : cli_args) (text : str) : R xml := convert (a_uri a) (a_root a) [] text.
  Definition lib_json (a : cli_args) (text : str) : R dnode :=
    do '(pre, t) <- parse_text (a_root a) text; tree_to_dict pre t.

  Theorem cli_prints_library_xml a text x :
    a_json a = false -> lib_xml a text = OkR x -> main a text = (ser_xml (a_pretty a) x ++ [NL], 0%nat).
  Proof.
    unfold lib_xml, convert, main. intros Hj H. rewrite Hj.
    destruct (parse_text (a_root a) text) as [[pre t]|k]; [|discriminate]. cbn [bind] in *.
    destruct (tree_to_dict pre t) as [d|k]; [|discriminate]. cbn [bind] in *.
    destruct (xml_from_dict (a_uri a) [] (dsize_fuel pre) d (is_root t) g0) as [[x' g]|k]; [|discriminate].
    cbn [bind] in H. inversion H; subst. reflexivity.
  Qed.

  Theorem cli_prints_library_json a text d :
    a_json a = true -> lib_json a text = OkR d -> main a text = (ser_json d ++ [NL], 0%nat).
  Proof.
    unfold lib_json, main. intros Hj H. rewrite Hj.
    destruct (parse_text (a_root a) text) as [[pre t]|k]; [|discriminate]. cbn [bind] in *.
    rewrite H. reflexivity.
  Qed.

  (* if the grammar rejects the input nothing is printed and the exit status is non-zero *)
  Theorem cli_parse_error a text k :
    parse_text (a_root a) text = ErrR k -> main a text = ([], 1%nat).
  Proof. unfold main. intros H. rewrite H. reflexivity. Qed.

  (* the root alias is resolved before parsing: debatereport behaves as debateReport *)
  Theorem cli_root_alias uri j p text :
    main {| a_uri := uri; a_root := of_string "debatereport"; a_json := j; a_pretty := p |} text =
    main {| a_uri := uri; a_root := of_string "debateReport"; a_json := j; a_pretty := p |} text.
  Proof. reflexivity. Qed.
End Cli.
