(* The parser object as a state machine (C16): AkomaNtosoParser / XmlGenerator / IdGenerator keep
   three dicts and a stack between calls.  A call that raises may leave the dicts in any state;
   the stack is restored by try/finally. *)
Require Import BB.Base.Str BB.Base.Xml BB.Base.Dict.
Require Import BB.Model.Types BB.Model.Eid BB.Model.XmlGen BB.Model.Post BB.Model.Convert BB.Model.PreParse.
Open Scope N_scope.

Record ostate := mkO { o_ids : st; o_stack : list str }.
Definition fresh : ostate := mkO st0 [].

Inductive call :=
| CParseToXml (root text : str)                 (* parse_to_xml / parse + tree_to_xml *)
| CXmlFromDict (d : dnode) (is_root : bool)
| CRewriteAll (x : xml) (prefix : str)          (* generator.ids.rewrite_all_eids *)
| CPreParse (text : str).                        (* pure helpers: pre_parse, parse, unparse *)

Inductive outcome :=
| OXml (x : xml)
| OXmlMap (x : xml) (m : list (str * str))
| OText (s : str)
| OErr (kind : str).

(* xml_from_dict on an object: self.ids.reset() first (fix: commit a6c62e2), then the generator runs
   with the object's counter table and attachment stack *)
Definition obj_xml_from_dict (uri prefix : str) (fuel : nat) (o : ostate) (d : dnode) (root : bool) : R (xml * gstate) :=
  let ids0 := st0 in
  xml_from_dict uri prefix fuel d root (mkG (counters ids0) (o_stack o)).

Definition obj_convert (uri prefix : str) (o : ostate) (root text : str) : R (xml * gstate) :=
  do '(pre, t) <- parse_text root text;
  do d <- tree_to_dict pre t;
  obj_xml_from_dict uri prefix (dsize_fuel pre) o d (is_root t).


Section Step.
  Variables uri prefix : str.

  Inductive step : ostate -> call -> ostate -> outcome -> Prop :=
  | step_convert_ok o root text x g ids' :
      obj_convert uri prefix o root text = OkR (x, g) ->
      step o (CParseToXml root text) (mkO ids' (o_stack o)) (OXml x)
  | step_convert_err o root text k ids' :
      obj_convert uri prefix o root text = ErrR k ->
      step o (CParseToXml root text) (mkO ids' (o_stack o)) (OErr k)
  | step_dict_ok o d r x g ids' fuel :
      obj_xml_from_dict uri prefix fuel o d r = OkR (x, g) ->
      step o (CXmlFromDict d r) (mkO ids' (o_stack o)) (OXml x)
  | step_dict_err o d r k ids' fuel :
      obj_xml_from_dict uri prefix fuel o d r = ErrR k ->
      step o (CXmlFromDict d r) (mkO ids' (o_stack o)) (OErr k)
  | step_rewrite o x p x' m ids' :
      rewrite_all_eids x p = Some (x', m) ->
      step o (CRewriteAll x p) (mkO ids' (o_stack o)) (OXmlMap x' m)
  | step_pre o text s :
      pre_parse 2 text = Some s ->
      step o (CPreParse text) o (OText s).

  (* a history on one object *)
  Inductive reach : ostate -> Prop :=
  | reach_fresh : reach fresh
  | reach_step o c o' out : reach o -> step o c o' out -> reach o'.
End Step.
