(* The PEG abstract syntax shared by Gen/Grammar.v (from akn.peg) and Gen/GrammarPy.v
   (decompiled from akn.py), with decidable equality. *)
Require Import BB.Base.Str.
Open Scope N_scope.

Inductive expr :=
| Lit (s : str)
| Cls (rs : ranges)                                   (* one code point in the (tabulated) class *)
| Ref (r : str)
| Seq (es : list expr) (labels : list (str * nat))    (* labels: name -> index of the element *)
| Alt (es : list expr)
| Opt (e : expr)
| Star (e : expr)
| Plus (e : expr)
| And (e : expr)
| Not (e : expr)
| Typed (e : expr) (t : str).

Definition grammar := list (str * expr).

Fixpoint ranges_eqb (a b : ranges) : bool :=
  match a, b with
  | [], [] => true
  | (x1, y1) :: a', (x2, y2) :: b' => (x1 =? x2) && (y1 =? y2) && ranges_eqb a' b'
  | _, _ => false
  end.

Fixpoint labels_eqb (a b : list (str * nat)) : bool :=
  match a, b with
  | [], [] => true
  | (l1, i1) :: a', (l2, i2) :: b' => str_eqb l1 l2 && Nat.eqb i1 i2 && labels_eqb a' b'
  | _, _ => false
  end.

Fixpoint expr_eqb (a b : expr) : bool :=
  let fix list_eqb (l1 l2 : list expr) : bool :=
    match l1, l2 with
    | [], [] => true
    | x :: r1, y :: r2 => expr_eqb x y && list_eqb r1 r2
    | _, _ => false
    end in
  match a, b with
  | Lit s1, Lit s2 => str_eqb s1 s2
  | Cls r1, Cls r2 => ranges_eqb r1 r2
  | Ref r1, Ref r2 => str_eqb r1 r2
  | Seq e1 l1, Seq e2 l2 => list_eqb e1 e2 && labels_eqb l1 l2
  | Alt e1, Alt e2 => list_eqb e1 e2
  | Opt x, Opt y | Star x, Star y | Plus x, Plus y | And x, And y | Not x, Not y => expr_eqb x y
  | Typed x t1, Typed y t2 => expr_eqb x y && str_eqb t1 t2
  | _, _ => false
  end.

Fixpoint grammar_eqb (g1 g2 : grammar) : bool :=
  match g1, g2 with
  | [], [] => true
  | (n1, e1) :: r1, (n2, e2) :: r2 => str_eqb n1 n2 && expr_eqb e1 e2 && grammar_eqb r1 r2
  | _, _ => false
  end.

Fixpoint lookup (g : grammar) (r : str) : option expr :=
  match g with
  | [] => None
  | (n, e) :: g' => if str_eqb r n then Some e else lookup g' r
  end.
