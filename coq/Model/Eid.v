(* Model of bluebell/xml.py: class IdGenerator (lines 8-206).  Definitions only. *)
Require Import BB.Base.Str BB.Base.Xml BB.Gen.TablesXml.
Open Scope N_scope.

Definition is_lead (c : N) : bool := in_ranges c lead_class.
Definition is_trail (c : N) : bool := in_ranges c trail_class.
Definition is_ws (c : N) : bool := in_ranges c ws_class.
Definition is_punct (c : N) : bool := in_ranges c punct_class.

Definition HYPHEN : N := 45.
Definition USCORE : N := 95.

(* punct_re.sub('-', s): every maximal run of punctuation becomes one hyphen *)
Fixpoint collapse_punct (s : str) : str :=
  match s with
  | [] => []
  | c :: r =>
      if is_punct c then
        match r with
        | c2 :: _ => if is_punct c2 then collapse_punct r else HYPHEN :: collapse_punct r
        | [] => [HYPHEN]
        end
      else c :: collapse_punct r
  end.

Definition clean_num (num : str) : str :=
  collapse_punct (filter (fun c => negb (is_ws c)) (rstrip is_trail (lstrip is_lead num))).

(* ---- state ---- *)
Definition counter := list (str * nat).
Fixpoint cget (c : counter) (k : str) : nat :=
  match c with
  | [] => O
  | (k', n) :: r => if str_eqb k k' then n else cget r k
  end.
Fixpoint cset (c : counter) (k : str) (n : nat) : counter :=
  match c with
  | [] => [(k, n)]
  | (k', n') :: r => if str_eqb k k' then (k, n) :: r else (k', n') :: cset r k n
  end.

Record st := mkSt {
  counters : list (str * counter);   (* self.counters : prefix -> name -> int *)
  eids : counter;                    (* self.eid_counter *)
  maps : list (str * str)            (* self.mappings, in insertion order *)
}.
Definition st0 : st := mkSt [] [] [].

Definition nat_dec (n : nat) : str := dec (N.of_nat n).

(* ensure_unique: the recursion is on ever longer strings; fuel is shown sufficient in
   Proofs/EidUnique.v (ensure_unique_total) *)
Fixpoint ensure_unique_f (fuel : nat) (c : counter) (eid : str) (nn : bool) : option (counter * str) :=
  match fuel with
  | O => None
  | S f =>
      let count := S (cget c eid) in
      let c' := cset c eid count in
      if Nat.eqb count 1 && negb nn then Some (c', eid)
      else ensure_unique_f f c' (eid ++ USCORE :: nat_dec count) false
  end.
Definition ensure_unique (c : counter) (eid : str) (nn : bool) : option (counter * str) :=
  ensure_unique_f (S (S (length c))) c eid nn.

(* incr(prefix, name) *)
Fixpoint incr_in (cs : list (str * counter)) (prefix name : str) : list (str * counter) * nat :=
  match cs with
  | [] => ([(prefix, [(name, 1%nat)])], 1%nat)
  | (p, sub) :: r =>
      if str_eqb prefix p then
        let n := S (cget sub name) in ((p, cset sub name n) :: r, n)
      else let '(r', n) := incr_in r prefix name in ((p, sub) :: r', n)
  end.

Definition NN : str := of_string "nn".

(* get_num: returns (state, num, nn) *)
Definition get_num (s : st) (prefix name num : str) : st * str * bool :=
  let num1 := match num with [] => [] | _ => clean_num num end in
  match num1 with
  | _ :: _ => (s, num1, false)
  | [] =>
      if mem_str name num_expected then (s, NN, true)
      else let '(cs, n) := incr_in (counters s) prefix name in
           (mkSt cs (eids s) (maps s), nat_dec n, false)
  end.

Definition alias_of (name : str) : str :=
  match assoc_str name aliases with Some a => a | None => name end.

Definition DUSCORE : str := [USCORE; USCORE].

(* get_eid: None = Python None (exempt elements); Some None = out of fuel *)
Definition get_eid (s : st) (prefix name num : str) : option (st * option str) :=
  if mem_str name id_exempt then Some (s, None)
  else
    let eid := (match prefix with [] => [] | _ => prefix ++ DUSCORE end) ++ alias_of name in
    if negb (mem_str name id_exempt_but_pass_to_children) then
      let '(s1, n, nn) := get_num s prefix name num in
      match ensure_unique (eids s1) (eid ++ USCORE :: n) nn with
      | None => None
      | Some (c', r) => Some (mkSt (counters s1) c' (maps s1), Some r)
      end
    else Some (s, Some eid).

Definition EID : str := of_string "eId".
Definition META : str := of_string "meta".
Definition NUM : str := of_string "num".

Definition lower (s : str) : str := map lower_c s.

(* n.text of the first <num> child: the text before its first child element *)
Definition elem_text (kids : list xml) : str :=
  match kids with Tx s :: _ => s | _ => [] end.
Fixpoint first_num_text (kids : list xml) : str :=
  match kids with
  | [] => []
  | El tag _ ks :: r => if str_eqb tag NUM then elem_text ks else first_num_text r
  | Tx _ :: r => first_num_text r
  end.

Fixpoint maps_setdefault (m : list (str * str)) (k v : str) : list (str * str) :=
  match m with
  | [] => [(k, v)]
  | (k', v') :: r => if str_eqb k k' then m else (k', v') :: maps_setdefault r k v
  end.

(* for kid in element.iterchildren(): f(kid), threading the generator state *)
Definition map_st (f : xml -> st -> option (xml * st)) : list xml -> st -> option (list xml * st) :=
  fix go (ks : list xml) (s : st) : option (list xml * st) :=
  match ks with
  | [] => Some ([], s)
  | k :: r =>
      match f k s with
      | None => None
      | Some (k', s') =>
          match go r s' with
          | None => None
          | Some (r', s'') => Some (k' :: r', s'')
          end
      end
  end.

Definition identifiable (tag : str) : bool :=
  negb (mem_str tag id_exempt) && negb (mem_str tag id_exempt_but_pass_to_children).

(* the part of rewrite_eid that concerns the element itself:
   returns (new attributes, state, prefix for the children) *)
Definition rewrite_own (tag : str) (attrs : list (str * str)) (kids : list xml) (prefix : str) (s : st)
  : option (list (str * str) * st * str) :=
  let step1 :=
    if identifiable tag then
      let old := match get_attr EID attrs with Some v => v | None => [] end in
      match get_eid s prefix tag (first_num_text kids) with
      | None => None
      | Some (s1, r) =>
          let new := match r with Some x => x | None => [] end in
          let '(attrs1, s2) :=
            if str_eqb old new then (attrs, s1)
            else (set_attr EID new attrs,
                  match old with
                  | [] => s1
                  | _ => mkSt (counters s1) (eids s1) (maps_setdefault (maps s1) old new)
                  end) in
          Some (attrs1, s2, match new with [] => prefix | _ => new end)
      end
    else Some (attrs, s, prefix) in
  match step1 with
  | None => None
  | Some (attrs1, s2, prefix1) =>
      let prefix2 :=
        if mem_str tag id_exempt_but_pass_to_children then
          match prefix1 with [] => lower tag | _ => prefix1 ++ DUSCORE ++ lower tag end
        else prefix1 in
      Some (attrs1, s2, prefix2)
  end.

(* rewrite_eid(element, prefix) *)
Fixpoint rewrite_eid (e : xml) (prefix : str) (s : st) : option (xml * st) :=
  match e with
  | Tx _ => Some (e, s)
  | El tag attrs kids =>
      if str_eqb tag META then Some (e, s)
      else
        match rewrite_own tag attrs kids prefix s with
        | None => None
        | Some (attrs1, s2, prefix2) =>
            match map_st (fun k s => rewrite_eid k prefix2 s) kids s2 with
            | None => None
            | Some (kids', s3) => Some (El tag attrs1 kids', s3)
            end
        end
  end.

(* rewrite_all_eids: reset, rewrite, return the mappings *)
Definition rewrite_all_eids (e : xml) (prefix : str) : option (xml * list (str * str)) :=
  match rewrite_eid e prefix st0 with
  | None => None
  | Some (e', s) => Some (e', maps s)
  end.
