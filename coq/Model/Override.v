(* Model of bluebell/parser.py: Parser._read_non_inline_start (lines 17-61), the hand-optimised
   replacement of the generated rule: one greedy regex match instead of a loop over characters. *)
Require Import BB.Base.Str BB.Gen.TablesParser BB.Model.PegSyntax BB.Model.Peg.
Open Scope N_scope.

(* NON_INLINE_START_RE.match(chunk): the longest prefix of characters in the class *)
Fixpoint take_class (rs : ranges) (s : str) : nat * str :=
  match s with
  | c :: r => if in_ranges c rs then let '(n, rest) := take_class rs r in (S n, rest) else (O, s)
  | [] => (O, [])
  end.

Definition read_non_inline_start (s : str) (off : N) : res :=
  match take_class non_inline_start_class s with
  | (O, _) => Fail
  | (n, rest) =>
      let len := N.of_nat n in
      Ok rest (off + len) (Node off len [] [] [leaf off len])
  end.
