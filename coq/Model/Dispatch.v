(* Entry point of the extracted model: one request (an s-expression) in, one out. *)
Require Import BB.Base.Str BB.Base.Sx BB.Base.Xml BB.Model.PreParse BB.Model.Eid BB.Model.PegSyntax BB.Model.Peg BB.Gen.Grammar BB.Base.Dict BB.Model.Types BB.Model.XmlGen BB.Model.Post BB.Model.Convert BB.Model.Unparse BB.Model.UnparseDoc.
Open Scope N_scope.

Definition opt_str_sx (o : option str) : sx :=
  match o with Some s => A s | None => sx_err "Index" end.

Definition dispatch (req : sx) : sx :=
  match req with
  | L (A stage :: args) =>
      if str_eqb stage (of_string "pre") then
        match args with
        | [A [size]; A text] => opt_str_sx (pre_parse (N.to_nat size) text)
        | _ => sx_err "BadRequest"
        end
      else if str_eqb stage (of_string "eid") then
        match args with
        | [A prefix; x] =>
            match xml_of_sx x with
            | None => sx_err "BadXml"
            | Some e =>
                match rewrite_all_eids e prefix with
                | None => sx_err "OutOfFuel"
                | Some (e', m) => L [xml_to_sx e'; L (map (fun kv => L [A (fst kv); A (snd kv)]) m)]
                end
            end
        | _ => sx_err "BadRequest"
        end
      else if str_eqb stage (of_string "peg") then
        match args with
        | [A rule; A text] => run_rule_sx akn_peg rule text
        | _ => sx_err "BadRequest"
        end
      else if str_eqb stage (of_string "dict") then
        match args with
        | [A rule; A text] =>
            match parse akn_peg rule text with
            | PFail => sx_err "ParseError"
            | PFuel => sx_err "Fuel"
            | POk t =>
                match tree_to_dict text t with
                | OkR d => dnode_to_sx d
                | ErrR k => L [A (of_string "ERR"); A k]
                end
            end
        | _ => sx_err "BadRequest"
        end
      else if str_eqb stage (of_string "e2e") then
        match args with
        | [A uri; A root; A prefix; A text] => r_xml_sx (convert uri root prefix text)
        | _ => sx_err "BadRequest"
        end
      else if str_eqb stage (of_string "post") then
        match args with
        | [A step; A prefix; x] =>
            match xml_of_sx x with
            | None => sx_err "BadXml"
            | Some e =>
                let fuel := S (xsize e) in
                if str_eqb step (of_string "displaced") then r_xml_sx (resolve_displaced_content e)
                else if str_eqb step (of_string "normalise") then xml_to_sx (normalise fuel e)
                else if str_eqb step (of_string "titles") then xml_to_sx (set_attachment_titles fuel e)
                else if str_eqb step (of_string "all") then r_xml_sx (post_process prefix e)
                else sx_err "BadRequest"
            end
        | _ => sx_err "BadRequest"
        end
      else if str_eqb stage (of_string "xslstr") then
        match args with
        | [A fn; A s] =>
            if str_eqb fn (of_string "escape-inlines") then A (escape_inlines s)
            else if str_eqb fn (of_string "escape-prefixes") then A (escape_prefixes s)
            else if str_eqb fn (of_string "escape-num") then A (escape_num s)
            else if str_eqb fn (of_string "string-ltrim") then A (string_ltrim s)
            else if str_eqb fn (of_string "start-end-00") then A (escape_start_end (fun _ => false) (fun _ => false) s)
            else if str_eqb fn (of_string "start-end-b") then A (escape_start_end (fun c => c =? 42) (fun c => c =? 42) s)
            else if str_eqb fn (of_string "start-end-i") then A (escape_start_end (fun c => c =? 47) (fun c => c =? 47) s)
            else if str_eqb fn (of_string "start-end-u") then A (escape_start_end (fun c => c =? 95) (fun c => c =? 95) s)
            else if str_eqb fn (of_string "start-end-sup") then A (escape_start_end (fun _ => false) (fun c => c =? 125) s)
            else sx_err "BadRequest"
        | _ => sx_err "BadRequest"
        end
      else if str_eqb stage (of_string "unp") then
        match args with
        | [x] => match xml_of_sx x with Some t => A (unparse_doc t) | None => sx_err "BadRequest" end
        | _ => sx_err "BadRequest"
        end
      else if str_eqb stage (of_string "clean_num") then
        match args with
        | [A n] => A (clean_num n)
        | _ => sx_err "BadRequest"
        end
      else sx_err "UnknownStage"
  | _ => sx_err "BadRequest"
  end.
