(* Entry point of the extracted model: one request (an s-expression) in, one out. *)
Require Import BB.Base.Str BB.Base.Sx BB.Model.PreParse.
Open Scope N_scope.

Definition opt_str_sx (o : option str) : sx :=
  match o with Some s => A s | None => sx_err "Index" end.

Definition dispatch (req : sx) : sx :=
  match req with
  | L (A stage :: args) =>
      if str_eqb stage (of_string "pre") then
        match args with
        | [A [size]; A text] => opt_str_sx (pre_parse (N.to_nat size) text)
        | _ => sx_err "BadRequest"
        end
      else sx_err "UnknownStage"
  | _ => sx_err "BadRequest"
  end.
