(* Model of the string templates of bluebell/akn_text.xsl (the escaping the unparser does),
   and of the keyword choice of its hierarchical-element template.  Definitions only. *)
Require Import BB.Base.Str BB.Base.Xml BB.Gen.TablesXsl.
Open Scope N_scope.

(* string-replace-all: leftmost, non-overlapping occurrences of value, left to right.
   [skip] counts the characters of the current occurrence still to be dropped. *)
Fixpoint replace_go (value repl : str) (skip : nat) (s : str) : str :=
  match s with
  | [] => []
  | c :: r =>
      match skip with
      | S k => replace_go value repl k r
      | O => if starts_with value s
             then repl ++ replace_go value repl (length value - 1) r
             else c :: replace_go value repl 0 r
      end
  end.
Definition replace_all (value repl text : str) : str :=
  match value with [] => text | _ => replace_go value repl 0 text end.

(* translate($text, '\r\n', '  ') *)
Definition nl_to_space (s : str) : str := map (fun c => if (c =? 13) || (c =? 10) then SP else c) s.

(* escape-inlines: the chain of replacements read from the stylesheet, innermost first *)
Definition escape_inlines (s : str) : str :=
  fold_left (fun acc vr => replace_all (fst vr) (snd vr) acc) xsl_escape_chain (nl_to_space s).

(* string-ltrim with the default trim set *)
Definition is_trim (c : N) : bool := (c =? 9) || (c =? 10) || (c =? 13) || (c =? 32).
Definition string_ltrim (s : str) : str := lstrip is_trim s.

(* prefix-run / suffix-run: the run of the first (last) character *)
Fixpoint run_of (ch : N) (s : str) : nat :=
  match s with c :: r => if c =? ch then S (run_of ch r) else O | [] => O end.
Definition prefix_run_len (s : str) : nat := match s with c :: _ => run_of c s | [] => O end.
Definition suffix_run_len (s : str) : nat := prefix_run_len (rev s).

(* escape-prefixes *)
Definition needs_prefix_escape (s : str) : bool :=
  existsb (str_eqb s) xsl_escape_equals || existsb (fun p => starts_with p s) xsl_escape_starts.
Definition escape_prefixes (s : str) : str := if needs_prefix_escape s then 92 :: s else s.

(* escape-hyphens (escape-slashes (num)) *)
Definition escape_num (s : str) : str := replace_all [45] [92; 45] (replace_all [92] [92; 92] s).

(* escape-inlines-start-end; the two context conditions (b/i/u adjacent) are parameters *)
Definition first_c (s : str) : option N := match s with c :: _ => Some c | [] => None end.
Definition last_c' (s : str) : option N := first_c (rev s).
Definition removelast_n (s : str) : str := rev (tl (rev s)).

Definition escape_start_end (ctx_prefix ctx_suffix : N -> bool) (s : str) : str :=
  let odd_p := Nat.odd (prefix_run_len s) in
  let odd_s := Nat.odd (suffix_run_len s) in
  let ep := match first_c s with Some c => odd_p && ctx_prefix c | None => false end in
  let es := match last_c' s with Some c => odd_s && ctx_suffix c | None => false end in
  match s with
  | [] => escape_inlines s
  | c0 :: r0 =>
      if ep && es then
        92 :: c0 :: (match r0 with
                     | [] => []
                     | _ => escape_inlines (removelast_n r0) ++ 92 :: (match last_c' s with Some c => [c] | None => [] end)
                     end)
      else if ep then 92 :: c0 :: escape_inlines r0
      else if es then escape_inlines (removelast_n s) ++ 92 :: (match last_c' s with Some c => [c] | None => [] end)
      else escape_inlines s
  end.

(* the keyword the hierarchical template prints for an element *)
Definition upper (s : str) : str := map upper_c s.
Definition hier_keyword (elem : str) : str :=
  match assoc_str elem xsl_hier_synonyms with Some k => k | None => upper elem end.
