(* Specification vocabulary for C11/C12: the normal form of pre-parsed text. *)
Require Import BB.Base.Str BB.Gen.TablesParser BB.Model.PreParse.
Open Scope N_scope.

Definition unlines (ls : list str) : str := flat_map (fun l => l ++ [NL]) ls.

Definition is_ind_line (l : str) : bool := str_eqb l [INDENT_C].
Definition is_ded_line (l : str) : bool := str_eqb l [DEDENT_C].
Definition is_marker_line (l : str) : bool := is_ind_line l || is_ded_line l.

Definition mem_c (c : N) (l : str) : bool := existsb (N.eqb c) l.

Definition last_c (l : str) : option N := match rev l with c :: _ => Some c | [] => None end.

(* a single line of the normal form *)
Definition line_ok (l : str) : bool :=
  negb (mem_c TAB l) && negb (mem_c NL l)
  && match l with c :: _ => negb (c =? SP) | [] => true end
  && match last_c l with Some c => negb (c =? SP) | None => true end
  && (is_marker_line l || (negb (mem_c INDENT_C l) && negb (mem_c DEDENT_C l))).

(* markers read as brackets: never negative, balanced at the end, no empty block
   ([prev_ind] = the previous line was an INDENT line) *)
Fixpoint wf_markers (depth : nat) (prev_ind : bool) (ls : list str) : bool :=
  match ls with
  | [] => Nat.eqb depth 0 && negb prev_ind
  | l :: r =>
      if is_ind_line l then wf_markers (S depth) true r
      else if is_ded_line l then
        negb prev_ind && match depth with O => false | S d => wf_markers d false r end
      else wf_markers depth false r
  end.

Definition NFlines (ls : list str) : Prop :=
  match ls with [] => False | l0 :: _ => l0 <> [] end
  /\ forallb line_ok ls = true
  /\ wf_markers 0 false ls = true.

Definition NF (o : str) : Prop := o = [] \/ exists ls, o = unlines ls /\ NFlines ls.

(* the input alphabet of C11: no marker characters, and the only characters Python calls
   whitespace are space, tab and newline *)
Definition alphabet_ok (s : str) : bool :=
  forallb (fun c => negb (c =? INDENT_C) && negb (c =? DEDENT_C)
                    && (negb (py_isspace c) || (c =? SP) || (c =? TAB) || (c =? NL))) s.

Definition content_lines (ls : list str) : list str := filter (fun l => negb (is_marker_line l)) ls.

(* trimming as the property describes it *)
Definition is_sp_tab (c : N) : bool := (c =? SP) || (c =? TAB).
Definition trim (l : str) : str := strip is_sp_tab l.
Fixpoint drop_blank (ls : list str) : list str :=
  match ls with [] => [] | l :: r => match l with [] => drop_blank r | _ => ls end end.
Definition trim_blank_ends (ls : list str) : list str := rev (drop_blank (rev (drop_blank ls))).

(* ---- C12: depth of every content line, and the indentation it had ---- *)

(* depth of each non-blank content line of a pre-parsed text, reading markers as brackets *)
Fixpoint line_depths (d : nat) (ls : list str) : list nat :=
  match ls with
  | [] => []
  | l :: r =>
      if is_ind_line l then line_depths (S d) r
      else if is_ded_line l then line_depths (pred d) r
      else match l with [] => line_depths d r | _ :: _ => d :: line_depths d r end
  end.

(* indentation width of each non-blank line of the cleaned input *)
Definition levels (ls : list str) : list Z :=
  flat_map (fun l => let '(n, body) := span_sp l in
                     match body with [] => [] | _ :: _ => [Z.of_nat n] end) ls.

(* what C12 says about two consecutive non-blank lines: deeper -> exactly one more level,
   same -> same block, less -> never deeper *)
Fixpoint follows (w0 : Z) (d0 : nat) (ws : list Z) (ds : list nat) : Prop :=
  match ws, ds with
  | w :: ws', d :: ds' =>
      (((w0 < w)%Z -> d = S d0) /\ (w = w0 -> d = d0) /\ ((w < w0)%Z -> (d <= d0)%nat))
      /\ follows w d ws' ds'
  | [], [] => True
  | _, _ => False
  end.
