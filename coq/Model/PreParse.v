(* Model of bluebell/parser.py: AkomaNtosoParser.pre_parse (lines 93-159).
   Definitions only; proofs live in Proofs/PreParse*.v. *)
Require Import BB.Base.Str BB.Gen.TablesParser.
Open Scope N_scope.

Definition is_sp (c : N) : bool := c =? SP.
Definition py_isspace (c : N) : bool := in_ranges c py_isspace_class.

(* text.replace('\t', ' ' * indent_size) *)
Definition expand_tabs (size : nat) (s : str) : str :=
  flat_map (fun c => if c =? TAB then repeat SP size else [c]) s.

(* trailing_ws_re.sub('', text): ' +$' with re.M removes the run of spaces before every
   newline and at the end of the string *)
Definition strip_trailing (s : str) : str :=
  join_on NL (map (rstrip is_sp) (split_on NL s)).

Fixpoint ends_with_nl (s : str) : bool :=
  match s with
  | [] => false
  | c :: r => match r with [] => c =? NL | _ :: _ => ends_with_nl r end
  end.

Definition ensure_nl (s : str) : str := if ends_with_nl s then s else s ++ [NL].

(* leading spaces of a line and the rest *)
Fixpoint span_sp (l : str) : nat * str :=
  match l with
  | c :: r => if is_sp c then let '(n, b) := span_sp r in (S n, b) else (O, l)
  | [] => (O, [])
  end.

(* the dedent loop:
     while True:
         s += DEDENT
         if level >= stack[-1] or len(stack) == 2: break
         stack.pop()
     stack[-1] = level
   returns the number of DEDENT lines and the stack; None = IndexError on an empty stack *)
Fixpoint dedent_loop (level : Z) (stack : list Z) (acc : nat) : option (nat * list Z) :=
  match stack with
  | [] => None
  | top :: rest =>
      if (level >=? top)%Z || Nat.eqb (length stack) 2 then Some (S acc, level :: rest)
      else dedent_loop level rest (S acc)
  end.

Inductive marker := MInd | MDed.

(* handle_indent: stack head = stack[-1]; levels are the numerators len(group 1)
   (the code compares len/indent_size as floats: same order) *)
Definition handle (level : Z) (stack : list Z) : option (list marker * list Z) :=
  match stack with
  | [] => None
  | top :: rest =>
      if (level =? top)%Z then Some ([], stack)
      else if (level >? top)%Z then Some ([MInd], level :: stack)
      else (* stack.pop() *)
        match rest with
        | [] => None
        | top2 :: _ =>
            if (level >? top2)%Z then Some ([], level :: rest)
            else match dedent_loop level rest 0 with
                 | Some (k, st) => Some (repeat MDed k, st)
                 | None => None
                 end
        end
  end.

Definition marker_char (m : marker) : N := match m with MInd => INDENT_C | MDed => DEDENT_C end.
Definition marker_line (m : marker) : str := [marker_char m].

(* line_re.sub(handle_indent, text), line by line: a line that has a body gets its
   indentation replaced by marker lines; other lines are kept as they are *)
Fixpoint process (stack : list Z) (ls : list str) : option (list str * list Z) :=
  match ls with
  | [] => Some ([], stack)
  | l :: r =>
      let '(n, body) := span_sp l in
      match body with
      | [] => match process stack r with
              | Some (out, st) => Some (l :: out, st)
              | None => None
              end
      | _ :: _ =>
          match handle (Z.of_nat n) stack with
          | None => None
          | Some (ms, st1) =>
              match process st1 r with
              | Some (out, st) => Some (map marker_line ms ++ body :: out, st)
              | None => None
              end
          end
      end
  end.

(* text[skip:-skip] *)
Definition slice_both (k : nat) (s : str) : str := skipn k (firstn (length s - k) s).

Definition pre_parse (size : nat) (text : str) : option str :=
  let t1 := expand_tabs size text in
  let t2 := strip py_isspace t1 in
  let t3 := ensure_nl (strip_trailing t2) in
  match process [(-1)%Z] (split_on NL t3) with
  | None => None
  | Some (out, st) =>
      let t4 := join_on NL out ++ flat_map (fun _ => [DEDENT_C; NL]) (seq 0 (length st - 1)) in
      Some (slice_both 2 t4)
  end.
