(* Model of the element templates of bluebell/akn_text.xsl: the whole unparser, XML tree -> text.
   One namespace (Akoma Ntoso); comments and processing instructions are not modelled.
   Definitions only.  The string templates are in Model/Unparse.v. *)
Require Import BB.Base.Str BB.Base.Xml BB.Gen.TablesXsl BB.Model.Unparse.
Open Scope N_scope.

Definition T_ (s : String.string) : str := of_string s.
Definition tag_in (t : str) (l : list String.string) : bool := existsb (fun x => str_eqb t (T_ x)) l.

(* xsl:strip-space elements="*" + xsl:preserve-space: whitespace-only text nodes are dropped from
   the source tree unless their parent is in the preserve list *)
Definition is_xml_ws (c : N) : bool := (c =? 32) || (c =? 9) || (c =? 10) || (c =? 13).
Definition ws_only (s : str) : bool := forallb is_xml_ws s.
Definition strip_kids (tag : str) (kids : list xml) : list xml :=
  if mem_str tag xsl_preserve_space then kids
  else filter (fun k => match k with Tx s => negb (ws_only s) | El _ _ _ => true end) kids.

Definition tag_of (x : xml) : option str := match x with El t _ _ => Some t | Tx _ => None end.
Definition elem_tags (l : list xml) : list str :=
  flat_map (fun k => match k with El t _ _ => [t] | Tx _ => [] end) l.

(* what a template can see of its surroundings *)
Record ctx := mkC {
  c_parent : option str;
  c_prevs : list str;        (* tags of the preceding element siblings, nearest first *)
  c_nexts : list str;        (* tags of the following element siblings, nearest first *)
  c_next_node : bool         (* is there any following sibling node *)
}.
Definition root_ctx : ctx := mkC None [] [] false.
Definition parent_is (c : ctx) (t : String.string) : bool :=
  match c_parent c with Some p => str_eqb p (T_ t) | None => false end.
Definition hd_is (l : list str) (t : String.string) : bool :=
  match l with x :: _ => str_eqb x (T_ t) | [] => false end.

Fixpoint indent_str (n : nat) : str := match n with O => [] | S k => SP :: SP :: indent_str k end.

(* block-attrs *)
Definition shown_attr (el : str) (kv : str * str) : bool :=
  let k := fst kv in
  negb (str_eqb k (T_ "eId")) && negb (str_eqb k (T_ "class")) && negb (str_eqb k (T_ "by"))
  && negb (str_eqb k (T_ "name") && str_eqb (snd kv) el)
  && negb (str_eqb el (T_ "inline") && str_eqb k (T_ "name") && str_eqb (snd kv) (T_ "em")).
Fixpoint attr_pairs (first : bool) (l : list (str * str)) : str :=
  match l with
  | [] => []
  | (k, v) :: r => (if first then [] else [124]) ++ k ++ SP :: v ++ attr_pairs false r
  end.
Definition block_attrs (el : str) (attrs : list (str * str)) : str :=
  (match get_attr (T_ "class") attrs with
   | Some c => 46 :: map (fun x => if x =? SP then 46 else x) c
   | None => [] end)
  ++ (match filter (shown_attr el) attrs with
      | [] => []
      | l => 123 :: attr_pairs true l ++ [125] end).

Definition attr_or_empty (k : String.string) (attrs : list (str * str)) : str :=
  match get_attr (T_ k) attrs with Some v => v | None => [] end.

Definition brace_parents : list String.string :=
  ["abbr"; "def"; "del"; "inline"; "ins"; "ref"; "remark"; "sub"; "sup"; "term"].

Definition text_ctx_prefix (c : ctx) (ch : N) : bool :=
  let at_start := match c_prevs c with [] => true | _ => false end in
  ((ch =? 42) && ((parent_is c "b" && at_start) || hd_is (c_prevs c) "b"))
  || ((ch =? 47) && ((parent_is c "i" && at_start) || hd_is (c_prevs c) "i"))
  || ((ch =? 95) && ((parent_is c "u" && at_start) || hd_is (c_prevs c) "u")).
Definition text_ctx_suffix (c : ctx) (ch : N) : bool :=
  let at_end := match c_nexts c with [] => true | _ => false end in
  ((ch =? 42) && ((parent_is c "b" && at_end) || hd_is (c_nexts c) "b"))
  || ((ch =? 47) && ((parent_is c "i" && at_end) || hd_is (c_nexts c) "i"))
  || ((ch =? 95) && ((parent_is c "u" && at_end) || hd_is (c_nexts c) "u"))
  || ((ch =? 125) && negb (c_next_node c)
      && match c_parent c with Some p => tag_in p brace_parents | None => false end).

(* the three text() templates *)
Definition text_out (c : ctx) (s : str) : str :=
  if parent_is c "remark" && hd_is (c_prevs c) "br"
  then escape_start_end (text_ctx_prefix c) (text_ctx_suffix c) (string_ltrim s)
  else if (parent_is c "p" || parent_is c "listIntroduction" || parent_is c "listWrapUp")
          && match c_prevs c with [] => true | _ => false end
  then escape_prefixes (escape_start_end (text_ctx_prefix c) (text_ctx_suffix c) (string_ltrim s))
  else escape_start_end (text_ctx_prefix c) (text_ctx_suffix c) s.

Definition containers : list String.string :=
  ["arguments"; "background"; "conclusions"; "decision"; "introduction"; "motivation"; "preamble"; "preface"; "remedies"].
Definition bodies : list String.string := ["body"; "mainBody"; "judgmentBody"; "debateBody"].
Definition std_inlines : list String.string := ["abbr"; "def"; "term"; "inline"; "ins"; "del"].
Definition speech_blocks : list String.string := ["scene"; "narrative"; "summary"].

Definition replace_sp (s : str) : str := replace_all [SP] (T_ "%20") s.

(* apply-templates over a list of (already stripped) sibling nodes: each selected child is given its real
   sibling context; [rec] is the template dispatcher at smaller fuel *)
Fixpoint apply_sibs (rec : ctx -> nat -> xml -> str) (parent : str) (ind : nat) (sel : xml -> bool)
                    (prevs : list str) (l : list xml) : str :=
  match l with
  | [] => []
  | k :: r =>
      (if sel k then rec (mkC (Some parent) prevs (elem_tags r) (match r with [] => false | _ => true end)) ind k else [])
      ++ apply_sibs rec parent ind sel (match k with El t _ _ => t :: prevs | Tx _ => prevs end) r
  end.

(* a footnote's content block (mode="content") *)
Definition note_block_fn (rec : ctx -> nat -> xml -> str) (ind : nat) (n : xml) : str :=
  match n with
  | El nt na nk =>
      indent_str ind ++ T_ "FOOTNOTE " ++ attr_or_empty "marker" na ++ [NL]
      ++ apply_sibs rec nt (S ind) (fun _ => true) [] (strip_kids nt nk)
  | Tx _ => []
  end.

Section Un.
  (* string value of a node in the stripped tree *)
  Fixpoint string_value (fuel : nat) (x : xml) : str :=
    match fuel with
    | O => []
    | S f => match x with
             | Tx s => s
             | El t _ kids => concat (map (string_value f) (strip_kids t kids))
             end
    end.

  (* descendant authorialNotes in document order; [through_p = false]: do not descend through p elements
     (.//a:authorialNote[count(ancestor::a:p) = $cnt] from a p) *)
  Fixpoint notes_in (fuel : nat) (through_p : bool) (tag : str) (kids : list xml) : list xml :=
    match fuel with
    | O => []
    | S f =>
        flat_map (fun k => match k with
                           | Tx _ => []
                           | El t a ks =>
                               (if str_eqb t (T_ "authorialNote") then [k] else [])
                               ++ (if negb through_p && str_eqb t (T_ "p") then [] else notes_in f through_p t ks)
                           end) (strip_kids tag kids)
    end.

  Definition sub_notes (fuel : nat) (through_p : bool) (sub : list xml) : list xml :=
    flat_map (fun k => match k with El t _ ks => notes_in fuel through_p t ks | Tx _ => [] end) sub.

  Definition first_child (t : String.string) (kids : list xml) : option xml :=
    find (fun k => match k with El x _ _ => str_eqb x (T_ t) | Tx _ => false end) kids.
  Definition children_named (t : String.string) (kids : list xml) : list xml :=
    filter (fun k => match k with El x _ _ => str_eqb x (T_ t) | Tx _ => false end) kids.
  Definition has_child (t : String.string) (kids : list xml) : bool :=
    match first_child t kids with Some _ => true | None => false end.

  Fixpoint un (fuel : nat) (c : ctx) (indent : nat) (x : xml) {struct fuel} : str :=
    match fuel with
    | O => []
    | S f =>
      match x with
      | Tx s => text_out c s
      | El tag attrs kids0 =>
        let kids := strip_kids tag kids0 in
        let all := fun ind => apply_sibs (un f) tag ind (fun _ => true) [] kids in
        let apply_sel := fun (sel : xml -> bool) (ind : nat) => apply_sibs (un f) tag ind sel [] kids in
        let is_named := fun (t : String.string) (k : xml) => match k with El x _ _ => str_eqb x (T_ t) | Tx _ => false end in
        let note_block := note_block_fn (un f) in
        let notes_of := fun (through_p : bool) (ind : nat) (sub : list xml) =>
          concat (map (note_block ind) (sub_notes f through_p sub)) in
        let own_notes := fun (through_p : bool) (ind : nat) => concat (map (note_block ind) (notes_in f through_p tag kids0)) in
        if str_eqb tag (T_ "meta") || (str_eqb tag (T_ "header") && parent_is c "judgment") then []
        else if tag_in tag containers then
          indent_str indent ++ upper tag ++ block_attrs tag attrs ++ [NL; NL] ++ all (S indent)
        else if tag_in tag bodies then
          (if existsb (fun t => str_eqb t (T_ "preface") || str_eqb t (T_ "preamble")) (c_prevs c)
           then indent_str indent ++ T_ "BODY" ++ [NL; NL] else [])
          ++ all indent
        else if mem_str tag xsl_hier_elements then
          indent_str indent ++ hier_keyword tag ++ block_attrs tag attrs
          ++ (match first_child "num" kids with
              | Some n => SP :: escape_num (string_value f n)
              | None => [] end)
          ++ (if has_child "heading" kids then T_ " - " ++ apply_sel (is_named "heading") 0%nat else [])
          ++ (if has_child "subheading" kids then NL :: apply_sel (is_named "subheading") (S indent) else [])
          ++ (if has_child "from" kids then NL :: apply_sel (is_named "from") (S indent) else [])
          ++ [NL] ++ (if str_eqb tag (T_ "item") then [] else [NL])
          ++ notes_of true (S indent) (filter (fun k => is_named "heading" k || is_named "subheading" k || is_named "from" k) kids)
          (* select="./*[...]": element children only - text directly inside a hierarchical element is not written *)
          ++ apply_sel (fun k => match k with Tx _ => false | El _ _ _ =>
                                   negb (is_named "num" k || is_named "heading" k || is_named "subheading" k || is_named "from" k) end) (S indent)
        else if str_eqb tag (T_ "blockList") then
          indent_str indent ++ T_ "ITEMS" ++ block_attrs tag attrs ++ [NL] ++ all (S indent)
        else if str_eqb tag (T_ "listIntroduction") || str_eqb tag (T_ "listWrapUp") then
          indent_str indent ++ all indent ++ [NL; NL] ++ own_notes true indent
        else if str_eqb tag (T_ "ul") then
          indent_str indent ++ T_ "BULLETS" ++ block_attrs tag attrs ++ [NL] ++ all (S indent) ++ [NL]
        else if str_eqb tag (T_ "li") then
          indent_str indent ++ T_ "* " ++ all (S indent)
        else if str_eqb tag (T_ "embeddedStructure") then
          indent_str indent ++ T_ "QUOTE" ++ block_attrs tag attrs ++ [NL] ++ all (S indent)
        else if str_eqb tag (T_ "authorialNote") then
          T_ "{{FOOTNOTE " ++ attr_or_empty "marker" attrs ++ T_ "}}"
        else if str_eqb tag (T_ "blockContainer") then
          indent_str indent ++ T_ "BLOCKS" ++ block_attrs tag attrs ++ [NL] ++ all (S indent)
        else if str_eqb tag (T_ "table") then
          indent_str indent ++ T_ "TABLE" ++ block_attrs tag attrs ++ [NL] ++ all (S indent)
        else if str_eqb tag (T_ "tr") then
          indent_str indent ++ T_ "TR" ++ [NL] ++ all (S indent)
        else if str_eqb tag (T_ "th") || str_eqb tag (T_ "td") then
          indent_str indent ++ (if str_eqb tag (T_ "th") then T_ "TH" else T_ "TC") ++ block_attrs tag attrs ++ [NL] ++ all (S indent)
        else if str_eqb tag (T_ "attachment") then
          indent_str indent
          ++ upper (match first_child "doc" kids with Some (El _ da _) => attr_or_empty "name" da | _ => [] end)
          ++ block_attrs tag attrs
          ++ (if has_child "heading" kids then SP :: apply_sel (is_named "heading") 0%nat else [])
          ++ (if has_child "subheading" kids then NL :: apply_sel (is_named "subheading") (S indent) else [])
          ++ [NL; NL]
          ++ notes_of true (S indent) (filter (fun k => is_named "heading" k || is_named "subheading" k) kids)
          ++ apply_sel (is_named "doc") (S indent)
        else if str_eqb tag (T_ "p") then
          (if parent_is c "li" && negb (existsb (fun t => str_eqb t (T_ "p")) (c_prevs c)) then [] else indent_str indent)
          ++ (match filter (fun kv => negb (str_eqb (fst kv) (T_ "eId"))) attrs with
              | [] => []
              | _ => 80 :: block_attrs tag attrs ++ [SP] end)
          ++ all indent
          ++ [NL] ++ (if parent_is c "li" then [] else [NL])
          ++ own_notes false indent
        else if str_eqb tag (T_ "subheading") then
          indent_str indent ++ T_ "SUBHEADING " ++ all indent
        else if str_eqb tag (T_ "crossHeading") then
          indent_str indent ++ T_ "CROSSHEADING" ++ block_attrs tag attrs ++ [SP] ++ all indent ++ [NL; NL] ++ own_notes true indent
        else if str_eqb tag (T_ "from") then
          indent_str indent ++ T_ "FROM " ++ all indent
        else if tag_in tag speech_blocks then
          indent_str indent ++ upper tag ++ block_attrs tag attrs ++ [SP] ++ all indent ++ [NL; NL] ++ own_notes true indent
        else if str_eqb tag (T_ "longTitle") then
          indent_str indent ++ T_ "LONGTITLE " ++ all 0%nat ++ [NL; NL]
        else if str_eqb tag (T_ "remark") then
          T_ "{{*" ++ all indent ++ T_ "}}"
        else if str_eqb tag (T_ "br") && parent_is c "remark" then
          NL :: indent_str indent
        else if str_eqb tag (T_ "ref") then
          T_ "{{>" ++ replace_sp (attr_or_empty "href" attrs) ++ [SP] ++ all indent ++ T_ "}}"
        else if str_eqb tag (T_ "img") then
          T_ "{{IMG " ++ replace_sp (attr_or_empty "src" attrs)
          ++ (match get_attr (T_ "alt") attrs with Some a => SP :: a | None => [] end) ++ T_ "}}"
        else if str_eqb tag (T_ "i") then T_ "//" ++ all indent ++ T_ "//"
        else if str_eqb tag (T_ "b") then T_ "**" ++ all indent ++ T_ "**"
        else if str_eqb tag (T_ "u") then T_ "__" ++ all indent ++ T_ "__"
        else if str_eqb tag (T_ "sup") then T_ "{{^" ++ all indent ++ T_ "}}"
        else if str_eqb tag (T_ "sub") then T_ "{{_" ++ all indent ++ T_ "}}"
        else if tag_in tag std_inlines then
          T_ "{{"
          ++ (if str_eqb tag (T_ "inline") && match get_attr (T_ "name") attrs with Some v => str_eqb v (T_ "em") | None => false end
              then T_ "em"
              else if str_eqb tag (T_ "ins") then [43] else if str_eqb tag (T_ "del") then [45] else tag)
          ++ block_attrs tag attrs ++ [SP] ++ all indent ++ T_ "}}"
        else if str_eqb tag (T_ "eol") then NL :: indent_str indent
        else all indent
      end
    end.
End Un.

(* depth bound used as fuel *)
Fixpoint xdepth (x : xml) : nat :=
  match x with
  | Tx _ => 1
  | El _ _ kids => S (fold_left (fun m k => Nat.max m (xdepth k)) kids 0%nat)
  end.

Definition unparse_doc (x : xml) : str := un (2 + xdepth x) root_ctx 0%nat x.
