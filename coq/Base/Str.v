(* Strings as lists of Unicode scalar values (binary N). *)
From Coq Require Export List NArith ZArith Bool Lia.
From Coq Require String Ascii.
Export Coq.Strings.String.StringSyntax.
Open Scope string_scope.
Export ListNotations.
Open Scope N_scope.

Definition str := list N.

Definition SP : N := 32.
Definition NL : N := 10.
Definition TAB : N := 9.
Definition IND : N := 14.
Definition DED : N := 15.

Fixpoint of_string (s : String.string) : str :=
  match s with
  | String.EmptyString => []
  | String.String a r => Ascii.N_of_ascii a :: of_string r
  end.

Fixpoint str_eqb (a b : str) : bool :=
  match a, b with
  | [], [] => true
  | x :: a', y :: b' => (x =? y) && str_eqb a' b'
  | _, _ => false
  end.

Lemma str_eqb_spec a b : str_eqb a b = true <-> a = b.
Proof.
  revert b; induction a as [|x a IH]; intros [|y b]; simpl; split; intro H;
    try discriminate; try reflexivity.
  - apply andb_true_iff in H as [H1 H2]. apply N.eqb_eq in H1. apply IH in H2. congruence.
  - inversion H; subst. rewrite N.eqb_refl. simpl. apply IH. reflexivity.
Qed.

Lemma str_eqb_refl a : str_eqb a a = true.
Proof. apply str_eqb_spec. reflexivity. Qed.

(* character classes as sorted range lists *)
Definition ranges := list (N * N).
Fixpoint in_ranges (c : N) (rs : ranges) : bool :=
  match rs with
  | [] => false
  | (lo, hi) :: r => ((lo <=? c) && (c <=? hi)) || in_ranges c r
  end.

(* prefix test; returns the remainder *)
Fixpoint strip_prefix (p s : str) : option str :=
  match p, s with
  | [], _ => Some s
  | x :: p', y :: s' => if x =? y then strip_prefix p' s' else None
  | _ :: _, [] => None
  end.

Definition starts_with (p s : str) : bool :=
  match strip_prefix p s with Some _ => true | None => false end.

Lemma strip_prefix_app p s r : strip_prefix p s = Some r -> s = p ++ r.
Proof.
  revert s; induction p as [|x p IH]; intros s H; simpl in *.
  - congruence.
  - destruct s as [|y s]; [discriminate|]. destruct (N.eqb_spec x y); [|discriminate].
    subst. f_equal. apply IH. exact H.
Qed.

(* python-style strip with a character predicate *)
Fixpoint lstrip (p : N -> bool) (s : str) : str :=
  match s with
  | [] => []
  | c :: r => if p c then lstrip p r else s
  end.
Fixpoint rstrip (p : N -> bool) (s : str) : str :=
  match s with
  | [] => []
  | c :: r => match rstrip p r with
              | [] => if p c then [] else [c]
              | r' => c :: r'
              end
  end.
Definition strip (p : N -> bool) (s : str) : str := rstrip p (lstrip p s).

(* split on a separator character: always a non-empty list, like str.split(sep) *)
Fixpoint split_on (sep : N) (s : str) : list str :=
  match s with
  | [] => [[]]
  | c :: r =>
      if c =? sep then [] :: split_on sep r
      else match split_on sep r with
           | [] => [[c]]   (* unreachable *)
           | l :: ls => (c :: l) :: ls
           end
  end.

Fixpoint join_on (sep : N) (ls : list str) : str :=
  match ls with
  | [] => []
  | [l] => l
  | l :: r => l ++ sep :: join_on sep r
  end.

Lemma split_on_nonempty sep s : split_on sep s <> [].
Proof.
  induction s as [|c r IH]; simpl; [discriminate|].
  destruct (c =? sep); [discriminate|]. destruct (split_on sep r); discriminate.
Qed.

Lemma join_split sep s : join_on sep (split_on sep s) = s.
Proof.
  induction s as [|c r IH]; simpl; [reflexivity|].
  destruct (N.eqb_spec c sep).
  - subst. simpl. destruct (split_on sep r) eqn:E.
    + exfalso. eapply split_on_nonempty; eauto.
    + simpl in *. rewrite IH. reflexivity.
  - destruct (split_on sep r) as [|l ls] eqn:E.
    + exfalso. eapply split_on_nonempty; eauto.
    + simpl in *. destruct ls; simpl in *; rewrite <- IH; reflexivity.
Qed.

(* decimal rendering of naturals, by fuel *)
Fixpoint dec_aux (fuel : nat) (n : N) (acc : str) : str :=
  match fuel with
  | O => acc
  | S f =>
      let d := (48 + n mod 10) in
      if n <? 10 then d :: acc else dec_aux f (n / 10) (d :: acc)
  end.
Definition dec (n : N) : str := dec_aux (S (N.to_nat (N.log2 n))) n [].

Definition lower_c (c : N) : N := if (65 <=? c) && (c <=? 90) then c + 32 else c.
Definition upper_c (c : N) : N := if (97 <=? c) && (c <=? 122) then c - 32 else c.
