(* XML element trees (one namespace; lxml's text/tail mapped to mixed children). *)
Require Import BB.Base.Str BB.Base.Sx.
Open Scope N_scope.

Inductive xml :=
| El (tag : str) (attrs : list (str * str)) (kids : list xml)
| Tx (s : str).

(* a usable induction principle for the nested type *)
Section xml_ind2.
  Variable P : xml -> Prop.
  Hypothesis HEl : forall tag attrs kids, Forall P kids -> P (El tag attrs kids).
  Hypothesis HTx : forall s, P (Tx s).
  Fixpoint xml_ind2 (x : xml) : P x :=
    match x with
    | El tag attrs kids =>
        HEl tag attrs kids
          ((fix go (l : list xml) : Forall P l :=
              match l with
              | [] => Forall_nil P
              | k :: r => Forall_cons k (xml_ind2 k) (go r)
              end) kids)
    | Tx s => HTx s
    end.
End xml_ind2.

Fixpoint get_attr (k : str) (attrs : list (str * str)) : option str :=
  match attrs with
  | [] => None
  | (k', v) :: r => if str_eqb k k' then Some v else get_attr k r
  end.

(* element.set(k, v): replace in place, or append *)
Fixpoint set_attr (k v : str) (attrs : list (str * str)) : list (str * str) :=
  match attrs with
  | [] => [(k, v)]
  | (k', v') :: r => if str_eqb k k' then (k, v) :: r else (k', v') :: set_attr k v r
  end.

Fixpoint remove_attr (k : str) (attrs : list (str * str)) : list (str * str) :=
  match attrs with
  | [] => []
  | (k', v') :: r => if str_eqb k k' then remove_attr k r else (k', v') :: remove_attr k r
  end.

Definition mem_str (x : str) (l : list str) : bool := existsb (str_eqb x) l.

Fixpoint assoc_str {A} (k : str) (l : list (str * A)) : option A :=
  match l with
  | [] => None
  | (k', v) :: r => if str_eqb k k' then Some v else assoc_str k r
  end.

(* wire format *)
Fixpoint xml_to_sx (x : xml) : sx :=
  match x with
  | Tx s => L [A (of_string "T"); A s]
  | El tag attrs kids =>
      L [A (of_string "E"); A tag;
         L (map (fun kv => L [A (fst kv); A (snd kv)]) attrs);
         L (map xml_to_sx kids)]
  end.

Definition attrs_of_sx (l : list sx) : option (list (str * str)) :=
  fold_right (fun x acc =>
    match x, acc with
    | L [A k; A v], Some r => Some ((k, v) :: r)
    | _, _ => None
    end) (Some []) l.

Fixpoint xml_of_sx (x : sx) : option xml :=
  match x with
  | L [A t; A s] => if str_eqb t (of_string "T") then Some (Tx s) else None
  | L [A t; A tag; L attrs; L kids] =>
      if str_eqb t (of_string "E") then
        match attrs_of_sx attrs with
        | None => None
        | Some a =>
            let fix go (l : list sx) : option (list xml) :=
              match l with
              | [] => Some []
              | k :: r => match xml_of_sx k, go r with
                          | Some k', Some r' => Some (k' :: r')
                          | _, _ => None
                          end
              end in
            match go kids with Some ks => Some (El tag a ks) | None => None end
        end
      else None
  | _ => None
  end.
