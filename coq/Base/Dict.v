(* The intermediate dict tree (the published contract of to_dict, README "intermediate JSON"). *)
Require Import BB.Base.Str BB.Base.Sx BB.Base.Xml.
Open Scope N_scope.

(* a node is a text node or a structured node; every documented key is explicit, with its
   presence/absence (option) because xml.py tests presence and truthiness *)
Inductive dnode :=
| DText (value : str)
| DNode (kind : str)                          (* type: hier block speechhier content inline marker element *)
        (name : str)
        (attribs : option (list (str * str)))
        (att_attribs : option (list (str * str)))
        (num : option str)
        (heading subheading from_ : option (list dnode))
        (children : option (list dnode)).

Definition d_elem (kind name : str) (kids : list dnode) : dnode :=
  DNode kind name None None None None None None (Some kids).

Definition d_kind (d : dnode) : str := match d with DNode k _ _ _ _ _ _ _ _ => k | DText _ => of_string "text" end.

(* dict.update / item assignment on an insertion-ordered dict *)
Fixpoint dict_set (k v : str) (d : list (str * str)) : list (str * str) :=
  match d with
  | [] => [(k, v)]
  | (k', v') :: r => if str_eqb k k' then (k, v) :: r else (k', v') :: dict_set k v r
  end.
Definition dict_update (d upd : list (str * str)) : list (str * str) :=
  fold_left (fun acc kv => dict_set (fst kv) (snd kv) acc) upd d.
Definition dict_setdefault (k v : str) (d : list (str * str)) : list (str * str) :=
  match assoc_str k d with Some _ => d | None => d ++ [(k, v)] end.

(* wire format: (T value) | (N kind name attribs att_attribs num heading subheading from children),
   an absent key is the atom [] wrapped as (), a present one is (x) *)
Definition opt_sx {A} (f : A -> sx) (o : option A) : sx :=
  match o with None => L [] | Some a => L [f a] end.
Definition attrs_sx (a : list (str * str)) : sx := L (map (fun kv => L [A (fst kv); A (snd kv)]) a).

Fixpoint dnode_to_sx (d : dnode) : sx :=
  match d with
  | DText v => L [A (of_string "T"); A v]
  | DNode k n a aa num h sh fr ch =>
      let lst (l : list dnode) : sx := L (map dnode_to_sx l) in
      L [A (of_string "N"); A k; A n; opt_sx attrs_sx a; opt_sx attrs_sx aa; opt_sx A num;
         opt_sx lst h; opt_sx lst sh; opt_sx lst fr; opt_sx lst ch]
  end.
