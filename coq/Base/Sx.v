(* S-expressions: the wire format between the extracted model and the harness. *)
Require Import BB.Base.Str.
Open Scope string_scope.

Inductive sx := A (s : str) | L (l : list sx).

Definition sx_nat (n : nat) : sx := A [N.of_nat n].
Definition sx_N (n : N) : sx := A [n].
Definition sx_bool (b : bool) : sx := A [if b then 1 else 0].
Definition sx_err (kind : String.string) : sx := L [A (of_string "ERR"); A (of_string kind)].
Definition sx_tag (t : String.string) (args : list sx) : sx := L (A (of_string t) :: args).

Definition sx_get_N (x : sx) : option N :=
  match x with A [n] => Some n | _ => None end.
Definition sx_get_str (x : sx) : option str :=
  match x with A s => Some s | _ => None end.
