(* Extraction: ExtrOcamlBasic only (bool, option, unit, prod, list, sumbool as OCaml types);
   N, Z, positive, nat stay the extracted inductive types.  Run from ocaml/gen. *)
Require Extraction.
Require Import ExtrOcamlBasic.
Require Import BB.Model.Dispatch.
Extraction Language OCaml.
Separate Extraction BB.Model.Dispatch.dispatch.
