(* C04 - Documented markup yields the documented element tree.
   Statements only; proofs in Proofs/Tables.v, Proofs/KeywordElement.v, Proofs/HierShape.v.
   The whole-document statement (text -> tree for every abstract document) is decided by the
   specification oracle tools/harness/absdoc.py against the implementation and, through the e2e
   stage, against this model; the theorems below are the parts of it that hold for every input. *)
Require Import BB.Base.Str BB.Base.Xml BB.Base.Dict BB.Model.PegSyntax BB.Model.Peg BB.Model.Types BB.Model.XmlGen.
Require Import BB.Gen.Grammar BB.Gen.TablesTypes BB.Gen.TablesXsl BB.Gen.TablesReadme.
Require Import BB.Proofs.Tables BB.Proofs.KeywordElement BB.Proofs.HierShape.
Require Import BB.Model.Eid BB.Model.EidSpec BB.Model.PreParse BB.Model.Convert BB.Gen.TablesParser BB.Gen.TablesLibs BB.Proofs.EscapeLossless.
Require Import BB.Proofs.PegEscape BB.Proofs.PegPlain BB.Proofs.PegLine BB.Proofs.LineRule BB.Proofs.PlainLine BB.Proofs.PlainLineConvert BB.Proofs.HierElement BB.Proofs.HierElementConvert BB.Proofs.HierNoHeading BB.Proofs.HierNoHeadingConvert BB.Proofs.CrossheadingConvert BB.Proofs.HierChain BB.Proofs.PreParseStair BB.Proofs.HierChainConvert.

(* README.md against akn.peg and types.py (all three regenerated from /repo on every run) *)
Theorem C04_readme_keywords_in_grammar : subset readme_line_keywords (keywords akn_peg) = true.
Proof. exact readme_keywords_in_grammar. Qed.
Print Assumptions C04_readme_keywords_in_grammar.

Theorem C04_readme_synonyms :
  forallb (fun sf : str * str =>
             mem_str (fst sf) hier_kws && mem_str (snd sf) hier_kws
             && str_eqb (kw_to_elem (syn_of "HierElement") (fst sf)) (lower (snd sf))) readme_synonyms = true.
Proof. exact readme_synonyms_ok. Qed.
Print Assumptions C04_readme_synonyms.

Theorem C04_readme_attachment_keywords :
  subset readme_attachment_keywords attachment_kws && subset attachment_kws readme_attachment_keywords = true.
Proof. exact readme_attachment_keywords_ok. Qed.
Print Assumptions C04_readme_attachment_keywords.

Theorem C04_readme_inlines_in_grammar : subset readme_inline_openers (grammar_lits akn_peg) = true.
Proof. exact readme_inlines_in_grammar. Qed.
Print Assumptions C04_readme_inlines_in_grammar.

(* ordered choice never shadows a longer keyword *)
Theorem C04_keyword_order :
  no_shadow hier_kws && no_shadow speech_container_kws && no_shadow speech_group_kws && no_shadow attachment_kws
  && no_shadow (rule_lits akn_peg "standard_inline_marker") && no_shadow (rule_lits akn_peg "speech_block_name") = true.
Proof. exact keyword_order_ok. Qed.
Print Assumptions C04_keyword_order.

(* for every parse tree: the element a hierarchical keyword becomes is the synonym table's answer *)
Theorem C04_hier_keyword_element : forall inp td fuel t0 d nm,
  node_type t0 = Some (Types.S_ "HierElement") ->
  label t0 (Types.S_ "hier_element_name") = OkR nm ->
  hier_to_dict inp td fuel t0 = OkR d ->
  exists a num h sh kids,
    d = DNode (Types.S_ "hier") (kw_to_elem (syn_of "HierElement") (text inp nm)) a None num h sh None (Some kids).
Proof. exact hier_keyword_element. Qed.
Print Assumptions C04_hier_keyword_element.

Theorem C04_speech_keyword_element : forall inp td fuel t0 d nm,
  node_type t0 = Some (Types.S_ "SpeechContainer") ->
  label t0 (Types.S_ "speech_container_name") = OkR nm ->
  speech_container_to_dict inp td fuel t0 = OkR d ->
  exists a num h sh kids,
    d = DNode (Types.S_ "speechhier") (kw_to_elem (syn_of "SpeechContainer") (text inp nm)) a None num h sh None (Some kids).
Proof. exact speech_keyword_element. Qed.
Print Assumptions C04_speech_keyword_element.

(* ... and it is an element the unparser knows as hierarchical *)
Theorem C04_hier_keyword_known_element : forall kw,
  In kw hier_kws -> In (kw_to_elem (syn_of "HierElement") kw) xsl_hier_elements.
Proof. exact hier_keyword_known_element. Qed.
Print Assumptions C04_hier_keyword_known_element.

(* for every dict node of a hierarchical element: name and attributes as given, num/heading/subheading
   first, the children converted in one left-to-right pass and wrapped as content, or as
   intro / hcontainer / wrapUp around the runs between hierarchical children *)
Theorem C04_hier_item_shape : forall meta_for rec name attribs aa num h sh fr ch g x g',
  item_body meta_for rec (DNode (XmlGen.S_ "hier") name attribs aa num h sh fr ch) g = OkR (x, g') ->
  exists flags ks g1 p,
    map snd flags = kids_of ch
    /\ items rec (kids_of ch) g = OkR (concat ks, g1)
    /\ pre rec num h sh g1 = OkR (p, g')
    /\ x = El name (attrs_of attribs)
             (p ++ if forallb (fun bk : bool * dnode => negb (fst bk)) flags
                   then [El (XmlGen.S_ "content") [] (concat ks)]
                   else wrap_spec (length (group_flags flags)) (combine (map fst (group_flags flags)) ks) 0 false).
Proof. exact hier_item_shape. Qed.
Print Assumptions C04_hier_item_shape.

(* the wrappers only add intro / hcontainer-content / wrapUp around runs: reading them off again
   gives the converted children back in order *)
Theorem C04_wrappers_lose_nothing : forall n gs i seen, flatten_spec n gs i seen (wrap_spec n gs i seen).
Proof. exact wrap_spec_flatten. Qed.
Print Assumptions C04_wrappers_lose_nothing.

(* non-vacuity: the tables are not empty and a real group list goes through the wrapper *)
Example C04_example :
  (length hier_kws, length speech_container_kws, length speech_group_kws, length readme_synonyms) = (34, 20, 4, 7)%nat
  /\ wrap_spec 3 [(false, [Tx [97]]); (true, [Tx [98]]); (false, [Tx [99]])] 0 false
     = [El (XmlGen.S_ "intro") [] [Tx [97]]; Tx [98]; El (XmlGen.S_ "wrapUp") [] [Tx [99]]].
Proof. split; vm_compute; reflexivity. Qed.

(* Text to tree for a whole hierarchical element, first at the grammar and dict stages: for each of the 34 keywords, every num
   without blank or backslash (not starting with a dash), every heading and every content line given as plain or escaped
   characters ([text_units]), in any context (pre, rest): rule hier_element reads `KEYWORD num - heading`, the indent, the line
   and the dedent as one element, and to_dict gives the hier node with the keyword's element name, that num, that heading and
   one paragraph holding the line - with any number b of blank lines between the keyword line and the content (Proofs/HierElement.v). *)
Theorem C04_hier_element_yields_hier_node : forall f f' pre kw n uh b ul rest rest' o6 td,
  In kw hier_keywords -> num_ok n -> text_units uh -> text_units ul ->
  (match encode uh with c :: _ => c <> 32 | [] => True end) ->
  let L := encode ul ++ NL :: 15 :: NL :: rest in
  none_starts block_lits L = true -> p_safe L = true -> starts_with SUBH L = false -> no_ctl_start (encode ul) = true ->
  let off := len_N pre in
  let o5' := off + len_N kw + 1 + len_N n + 3 + len_N (encode uh) + 1 + N.of_nat b + 2 + len_N (encode ul) + 1 in
  run akn_peg (8 + (25 + f)) (Ref (of_string "dedent")) (15 :: NL :: rest) o5' = Ok rest' o6 td -> o5' < o6 ->
  exists tree hds lds,
    run akn_peg (40 + f) (Ref (of_string "hier_element")) (hier_text kw n uh b ul rest) off = Ok rest' o6 tree
    /\ to_dict (pre ++ hier_text kw n uh b ul rest) (3 + f') tree = OkR (hier_dnode kw n hds lds)
    /\ Forall is_dtext hds /\ concat (map dval hds) = decode uh
    /\ Forall is_dtext lds /\ concat (map dval lds) = decode ul
    /\ is_root tree = false.
Proof. exact hier_element_yields_hier_node. Qed.
Print Assumptions C04_hier_element_yields_hier_node.

(* ... and through the WHOLE pipeline model: for every known FRBR URI, every eId prefix, each of the 34 keywords, every such num,
   every plain heading and every plain line indented by any number of blanks,
       KEYWORD num - heading
         line
   converts to  <tag eId="<prefix__>abbr_num"><num>num</num><heading>heading</heading><content><p eId="...__p_1">line</p></content></tag>
   where tag is the keyword's element (synonyms resolved) and abbr its abbreviation: pre_parse, grammar, to_dict, XML builder,
   text normalisation, footnote resolution, empty-element removal, eId generation, attachment titles (Proofs/HierElementConvert.v). *)
Theorem C04_hier_element_converts : forall uri prefix kw n h t k root_meta att_meta,
  assoc_str uri meta_templates = Some (root_meta, att_meta) ->
  In kw hier_keywords ->
  num_ok n -> Forall (fun c => c <> TAB) n -> clean_num n <> [] -> valid_text n = true ->
  plain_text h -> plain_text t ->
  let L := t ++ NL :: 15 :: [NL] in
  none_starts block_lits L = true -> p_safe L = true -> starts_with SUBH L = false -> no_ctl_start t = true ->
  (1 <= k)%nat ->
  let tag := hier_name kw in
  let cand := candidate prefix tag (clean_num n) in
  convert uri (of_string "hier_element") prefix (kw ++ 32 :: n ++ 32 :: 45 :: 32 :: h ++ NL :: repeat SP k ++ t ++ [NL])
  = OkR (hier_x tag [(EID, cand)] [(EID, cand ++ DUSCORE ++ P1)] n h t).
Proof. exact hier_element_converts. Qed.
Print Assumptions C04_hier_element_converts.

(* the same for heading and line given as units - plain characters and backslash escapes mixed *)
Theorem C04_hier_element_converts_units : forall uri prefix kw n uh ut k root_meta att_meta,
  assoc_str uri meta_templates = Some (root_meta, att_meta) ->
  In kw hier_keywords ->
  num_ok n -> Forall (fun c => c <> TAB) n -> clean_num n <> [] -> valid_text n = true ->
  written_text uh -> written_text ut ->
  let L := encode ut ++ NL :: 15 :: [NL] in
  none_starts block_lits L = true -> p_safe L = true -> starts_with SUBH L = false -> no_ctl_start (encode ut) = true ->
  (1 <= k)%nat ->
  let tag := hier_name kw in
  let cand := candidate prefix tag (clean_num n) in
  convert uri (of_string "hier_element") prefix (kw ++ 32 :: n ++ 32 :: 45 :: 32 :: encode uh ++ NL :: repeat SP k ++ encode ut ++ [NL])
  = OkR (hier_x tag [(EID, cand)] [(EID, cand ++ DUSCORE ++ P1)] n (decode uh) (decode ut)).
Proof. exact hier_element_converts_units. Qed.
Print Assumptions C04_hier_element_converts_units.

(* ... and with any number b of blank lines between the keyword line and its content: the document is the same *)
Theorem C04_hier_element_converts_blank_lines : forall uri prefix kw n uh ut k b root_meta att_meta,
  assoc_str uri meta_templates = Some (root_meta, att_meta) ->
  In kw hier_keywords ->
  num_ok n -> Forall (fun c => c <> TAB) n -> clean_num n <> [] -> valid_text n = true ->
  written_text uh -> written_text ut ->
  let L := encode ut ++ NL :: 15 :: [NL] in
  none_starts block_lits L = true -> p_safe L = true -> starts_with SUBH L = false -> no_ctl_start (encode ut) = true ->
  (1 <= k)%nat ->
  let tag := hier_name kw in
  let cand := candidate prefix tag (clean_num n) in
  convert uri (of_string "hier_element") prefix
          (kw ++ 32 :: n ++ 32 :: 45 :: 32 :: encode uh ++ NL :: repeat NL b ++ repeat SP k ++ encode ut ++ [NL])
  = OkR (hier_x tag [(EID, cand)] [(EID, cand ++ DUSCORE ++ P1)] n (decode uh) (decode ut)).
Proof. exact hier_element_converts_units_b. Qed.
Print Assumptions C04_hier_element_converts_blank_lines.

(* ... and the commonest form in legislation, the element WITHOUT a heading (subsections, paragraphs):
       KEYWORD num
         line
   converts to <tag eId="<prefix__>abbr_num"><num>num</num><content><p eId="...__p_1">line</p></content></tag> - no heading element,
   the same eIds - for each of the 34 keywords, any number of blank lines in between, any indentation (Proofs/HierNoHeading.v: the num
   loop stops at the line end, `hier_element_heading_heading` fails there and leaves the heading empty; Proofs/HierNoHeadingConvert.v). *)
Theorem C04_hier_element_without_heading_converts : forall uri prefix kw n ut k b root_meta att_meta,
  assoc_str uri meta_templates = Some (root_meta, att_meta) ->
  In kw hier_keywords ->
  num_ok n -> Forall (fun c => c <> TAB) n -> py_isspace (last n 0) = false -> clean_num n <> [] -> valid_text n = true ->
  written_text ut ->
  let L := encode ut ++ NL :: 15 :: [NL] in
  none_starts block_lits L = true -> p_safe L = true -> starts_with SUBH L = false -> no_ctl_start (encode ut) = true ->
  (1 <= k)%nat ->
  let tag := hier_name kw in
  let cand := candidate prefix tag (clean_num n) in
  convert uri (of_string "hier_element") prefix (kw ++ 32 :: n ++ NL :: repeat NL b ++ repeat SP k ++ encode ut ++ [NL])
  = OkR (hier_x_nh tag [(EID, cand)] [(EID, cand ++ DUSCORE ++ P1)] n (decode ut)).
Proof. exact hier_element_converts_nh. Qed.
Print Assumptions C04_hier_element_without_heading_converts.

Example C04_hier_element_without_heading_example :
  convert (of_string "/akn/za/act/2009/1") (of_string "hier_element") (of_string "sec_4")
          (of_string "SUBSEC (2)" ++ NL :: NL :: of_string "    The Minister may / delegate 50% of_them" ++ [NL])
  = OkR (hier_x_nh (of_string "subsection") [(EID, of_string "sec_4__subsec_2")] [(EID, of_string "sec_4__subsec_2__p_1")]
                   (of_string "(2)") (of_string "The Minister may / delegate 50% of_them")).
Proof. vm_compute. reflexivity. Qed.

(* A crossheading through the WHOLE pipeline model: `CROSSHEADING text` - the text given as plain characters and escapes - converts, as a
   fragment, to <crossHeading eId="<prefix__>crossHeading_1">text</crossHeading> (Proofs/CrossheadingConvert.v). *)
Theorem C04_crossheading_converts : forall uri prefix ut root_meta att_meta,
  assoc_str uri meta_templates = Some (root_meta, att_meta) ->
  written_text ut ->
  convert uri (of_string "hier_element") prefix (CH ++ 32 :: encode ut ++ [NL])
  = OkR (El CHT [(EID, candidate prefix CHT (of_string "1"))] [Tx (decode ut)]).
Proof. exact crossheading_converts. Qed.
Print Assumptions C04_crossheading_converts.

Example C04_crossheading_example :
  convert (of_string "/akn/za/act/2009/1") (of_string "hier_element") (of_string "chp_1") (of_string "CROSSHEADING Powers * of \*\* the {Minister}" ++ [NL])
  = OkR (El CHT [(EID, of_string "chp_1__crossHeading_1")] [Tx (of_string "Powers * of ** the {Minister}")]).
Proof. vm_compute. reflexivity. Qed.

(* the instance the theorem predicts, evaluated: a synonym keyword, a num with punctuation, three blanks of indentation *)
Example C04_hier_element_converts_example :
  convert (of_string "/akn/za/act/2009/1") (of_string "hier_element") (of_string "chp_2")
          (of_string "SUBSEC (3A) - Powers * of the {Minister}" ++ NL :: of_string "   may / delegate 50% of_them" ++ [NL])
  = OkR (hier_x (of_string "subsection") [(EID, of_string "chp_2__subsec_3A")] [(EID, of_string "chp_2__subsec_3A__p_1")]
                (of_string "(3A)") (of_string "Powers * of the {Minister}") (of_string "may / delegate 50% of_them")).
Proof. vm_compute. reflexivity. Qed.

(* Indentation nesting becomes element nesting, to ANY depth: a chain of hierarchical elements - each `KEYWORD num - heading`, each
   nested in the one before, any of the 34 keywords at every level - around one plain line.  Rule hier_element of the regenerated
   grammar reads the whole nest and leaves nothing over, and to_dict gives the hier nodes nested in the same way ([dn_spec]: at each
   level the keyword's element, the num, the heading and the next level as only child; innermost the paragraph).  By induction over
   the depth, on top of the one-level theorem with its child left abstract (Proofs/HierChain.v). *)
Theorem C04_hier_chain_yields_nested_nodes : forall kw n hs c' ls pre f f',
  Forall level_ok ((kw, n, hs) :: c') -> line_segs_ok ls ->
  exists tree d,
    run akn_peg (40 + (10 * length c' + f)) (Ref (of_string "hier_element")) (chain_text ((kw, n, hs) :: c') ls) (len_N pre)
    = Ok [] (len_N pre + len_N (chain_text ((kw, n, hs) :: c') ls)) tree
    /\ is_root tree = false
    /\ to_dict (pre ++ chain_text ((kw, n, hs) :: c') ls) (3 + (length c' + f')) tree = OkR d
    /\ dn_spec ((kw, n, hs) :: c') ls d.
Proof. exact hier_chain_yields_nested_nodes. Qed.
Print Assumptions C04_hier_chain_yields_nested_nodes.

(* ... and through the WHOLE pipeline model, to ANY depth and with ANY indentation widths: a first line `KEYWORD num - heading`, then any
   number of further such lines, each indented deeper than the one before, then a plain line indented deeper still, converts - for
   every known FRBR URI and every eId prefix - to the elements nested in the same way ([nest true]): each level the keyword's element
   with <num> and <heading>, the innermost holding <content><p>line</p></content>, every eId the parent's eId + "__" + abbreviation +
   "_" + cleaned number, the paragraph's "...__p_1".  pre_parse of the staircase, the grammar by induction over the depth, to_dict,
   the XML builder, text merging, and post-processing - which on such a tree is eId generation and nothing else
   (Proofs/HierChainConvert.v, with PreParseStair.v, HierChain.v and PostQuiet.v). *)
Theorem C04_hier_chain_converts : forall uri prefix l0 (lv : list (nat * plevel)) kt t root_meta att_meta,
  assoc_str uri meta_templates = Some (root_meta, att_meta) ->
  Forall plevel_full (l0 :: map snd lv) ->
  growing 0 (map (fun kl => (fst kl, header (snd kl))) lv ++ [(kt, t)]) ->
  plain_text t -> none_starts block_lits t = true -> p_safe t = true -> starts_with SUBH t = false -> no_ctl_start t = true ->
  convert uri (of_string "hier_element") prefix (stair_text ((0%nat, header l0) :: rows_of lv kt t))
  = OkR (nest true prefix (l0 :: map snd lv) t).
Proof. exact hier_chain_converts. Qed.
Print Assumptions C04_hier_chain_converts.

(* the model on a nest of three, through the whole pipeline (an evaluation, for orientation) *)
Example C04_nest_of_three :
  convert (of_string "/akn/za/act/2009/1") (of_string "hier_element") []
          (of_string "PART 1 - One" ++ NL :: of_string "  CHAP 2 - Two" ++ NL :: of_string "      SEC 3. - Three" ++ NL :: of_string "         text" ++ [NL])
  = OkR (El (of_string "part") [(EID, of_string "part_1")]
          [El (of_string "num") [] [Tx (of_string "1")]; El (of_string "heading") [] [Tx (of_string "One")];
           El (of_string "chapter") [(EID, of_string "part_1__chp_2")]
             [El (of_string "num") [] [Tx (of_string "2")]; El (of_string "heading") [] [Tx (of_string "Two")];
              hier_x (of_string "section") [(EID, of_string "part_1__chp_2__sec_3")] [(EID, of_string "part_1__chp_2__sec_3__p_1")]
                     (of_string "3.") (of_string "Three") (of_string "text")]]).
Proof. vm_compute. reflexivity. Qed.
