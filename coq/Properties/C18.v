(* C18 - A provision parsed alone equals the provision parsed in context.
   [partial] Proved: the provision's own eId is the same in the whole document and in the fragment
   parsed with the enclosing element's eId as prefix, whenever it is derived from its number and
   unsuffixed in both (a function of the path labels alone).  Not yet proved: that the ids inside the
   provision coincide too (needs a simulation between the two generator states on keys extending the
   provision's id) and that the grammar parses the provision's lines alone as it does in context.
   Both are decided by the fragment oracle on the implementation. *)
Require Import BB.Base.Str BB.Base.Xml BB.Gen.TablesXml BB.Model.Eid BB.Model.EidSpec.
Require Import BB.Proofs.EidConvention.

(* whole document e1 (provision at path pi1 under prefix q) and fragment e2 (the provision as root,
   pi2 = [], parsed with prefix q2 = the prefix the document hands down to it): if the labels agree
   and both are unsuffixed, the provision gets the same id *)
Theorem C18_provision_id_agrees : forall e1 e2 q pi1 pi2 labels tag1 a1 k1 tag2 a2 k2,
  path_labels e1 pi1 = Some (labels, El tag1 a1 k1) -> path_unsuffixed q e1 pi1 ->
  path_labels e2 pi2 = Some (labels, El tag2 a2 k2) -> path_unsuffixed q e2 pi2 ->
  identifiable tag1 = true -> identifiable tag2 = true -> old_id a1 = old_id a2.
Proof. exact eid_stable_under_edit. Qed.
Print Assumptions C18_provision_id_agrees.

(* every id inside the fragment follows the convention relative to the prefix it was given *)
Theorem C18_fragment_follows_convention : forall e q s e' s',
  rewrite_eid e q s = Some (e', s') -> convention_ok q e'.
Proof. exact rewrite_convention. Qed.
Print Assumptions C18_fragment_follows_convention.
