(* C18 - A provision parsed alone equals the provision parsed in context.
   [partial] Proved: the provision's own eId is the same in the whole document and in the fragment
   parsed with the enclosing element's eId as prefix, whenever it is derived from its number and
   unsuffixed in both (a function of the path labels alone); and the ids inside the provision coincide too:
   eId generation for a subtree is local to the keys under its prefix (C18_rewrite_is_local), so a numbered
   provision rewritten in context - from whatever generator state the earlier part of the document left,
   as long as no earlier key extends the provision's own id - and rewritten alone from a fresh generator
   with the same prefix is the same tree, ids of all descendants included (C18_provision_ids_agree).
   Not proved: that the grammar parses the provision's lines alone as it does in context, and that an
   earlier id never extends a later provision's id (unique decomposition of ids at underscores); both are
   decided by the fragment oracle on the implementation. *)
Require Import BB.Base.Str BB.Base.Xml BB.Gen.TablesXml BB.Model.Eid BB.Model.EidSpec.
Require Import BB.Proofs.EidConvention BB.Proofs.EidLocal.

(* whole document e1 (provision at path pi1 under prefix q) and fragment e2 (the provision as root,
   pi2 = [], parsed with prefix q2 = the prefix the document hands down to it): if the labels agree
   and both are unsuffixed, the provision gets the same id *)
Theorem C18_provision_id_agrees : forall e1 e2 q pi1 pi2 labels tag1 a1 k1 tag2 a2 k2,
  path_labels e1 pi1 = Some (labels, El tag1 a1 k1) -> path_unsuffixed q e1 pi1 ->
  path_labels e2 pi2 = Some (labels, El tag2 a2 k2) -> path_unsuffixed q e2 pi2 ->
  identifiable tag1 = true -> identifiable tag2 = true -> old_id a1 = old_id a2.
Proof. exact eid_stable_under_edit. Qed.
Print Assumptions C18_provision_id_agrees.

(* every id inside the fragment follows the convention relative to the prefix it was given *)
Theorem C18_fragment_follows_convention : forall e q s e' s',
  rewrite_eid e q s = Some (e', s') -> convention_ok q e'.
Proof. exact rewrite_convention. Qed.
Print Assumptions C18_fragment_follows_convention.

(* eId generation is local: rewriting a subtree under prefix q reads and writes the generator only at keys
   under q (q itself or q__...); two generator states that agree on a set of keys P containing those give
   the same tree and agree on P afterwards *)
Theorem C18_rewrite_is_local : forall (P : str -> Prop) e q s t e' s1,
  closed P q -> agree P s t -> rewrite_eid e q s = Some (e', s1) ->
  exists t1, rewrite_eid e q t = Some (e', t1) /\ agree P s1 t1.
Proof. exact rewrite_eid_local. Qed.
Print Assumptions C18_rewrite_is_local.

(* a provision that takes its number from its own num: rewritten in context (prefix q, generator state s
   left by the earlier part of the document, in which no key extends the provision's id) and rewritten
   alone (rewrite_all_eids: fresh generator, same prefix) it is the same tree - its own id and every id
   inside it *)
Theorem C18_provision_ids_agree : forall tag attrs kids q s e1 s1,
  identifiable tag = true -> clean_num (first_num_text kids) <> [] ->
  fresh_for s (candidate q tag (clean_num (first_num_text kids))) ->
  rewrite_eid (El tag attrs kids) q s = Some (e1, s1) ->
  exists m, rewrite_all_eids (El tag attrs kids) q = Some (e1, m).
Proof. exact provision_ids_local. Qed.
Print Assumptions C18_provision_ids_agree.

(* non-vacuity: after section 1 (with a subsection and a paragraph) under chp_1, the state is fresh for
   section 2's id, and not for section 1's *)
Definition sec (n : str) : xml :=
  El (of_string "section") [] [El (of_string "num") [] [Tx n];
    El (of_string "subsection") [] [El (of_string "num") [] [Tx (of_string "(1)")];
      El (of_string "content") [] [El (of_string "p") [] [Tx (of_string "text")]]]].
Example C18_fresh_example :
  match rewrite_eid (sec (of_string "1.")) (of_string "chp_1") st0 with
  | Some (_, s) => freshb s (candidate (of_string "chp_1") (of_string "section") (clean_num (of_string "2.")))
                   && negb (freshb s (candidate (of_string "chp_1") (of_string "section") (clean_num (of_string "1."))))
  | None => false
  end = true.
Proof. vm_compute. reflexivity. Qed.
