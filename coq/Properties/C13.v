(* C13 - A backslash makes the next character literal, everywhere.
   Statements only; proofs in Proofs/PegEscape.v (on the grammar regenerated from akn.peg). *)
Require Import BB.Base.Str BB.Base.Dict BB.Model.PegSyntax BB.Model.Peg BB.Model.Types BB.Gen.Grammar.
Require Import BB.Proofs.Totality BB.Proofs.PegEscape BB.Proofs.EscapedLine BB.Proofs.EscapedHeading BB.Proofs.EscapedNum.
Require Import BB.Base.Xml BB.Model.Eid BB.Model.EidSpec BB.Model.PreParse BB.Model.XmlGen BB.Model.Convert BB.Gen.TablesParser BB.Gen.TablesLibs BB.Proofs.PlainLineConvert BB.Proofs.HierElement BB.Proofs.HierElementConvert BB.Proofs.HierNoHeading BB.Proofs.HierNoHeadingConvert BB.Proofs.CrossheadingConvert BB.Proofs.CrossheadingRoundTrip.

(* grammar level, for every non-empty string of scalar values without a newline, every position
   and any sufficient fuel: inline+ on the character-by-character escaped string consumes exactly
   the escaped string, stops at the line end, and builds one (backslash, character) node per
   character - none of the ten inline markers, however the string spells them *)
Theorem C13_escaped_inlines_parse : forall f s rest off,
  Forall okc s -> s <> [] ->
  run akn_peg (13 + f) (Plus (Ref (of_string "inline"))) (esc s ++ NL :: rest) off
  = Ok (NL :: rest) (off + 2 * len_N s) (Node off (2 * len_N s) [] [] (esc_nodes off s)).
Proof. exact escaped_inlines_parse. Qed.
Print Assumptions C13_escaped_inlines_parse.

(* dict level: those nodes are read back as the single text node holding the string itself:
   the escaping backslashes are gone and nothing became markup *)
Theorem C13_escaped_inlines_literal : forall td s pre post,
  s <> [] -> inline_many (pre ++ esc s ++ post) td (esc_nodes (len_N pre) s) = OkR [DText s].
Proof. exact escaped_inlines_literal. Qed.
Print Assumptions C13_escaped_inlines_literal.

(* line level: a fully escaped line becomes one paragraph with exactly that text.  For every non-empty
   string of scalar values without a line break, at any position of any input: hier_block_element on the
   escaped string up to the line end succeeds (every keyword block fails on the leading backslash, rule
   line takes it) and to_dict turns the tree into a p whose only child is the text node holding the string *)
Theorem C13_escaped_line_is_paragraph : forall s pre rest f f',
  Forall okc s -> s <> [] ->
  let e := esc s in
  let inp := pre ++ e ++ NL :: rest in
  exists rest' off' tree,
    run akn_peg (26 + f) (Ref (of_string "hier_block_element")) (e ++ NL :: rest) (len_N pre) = Ok rest' off' tree
    /\ to_dict inp (2 + f') tree = OkR (DNode (Types.S_ "content") (Types.S_ "p") None None None None None None (Some [DText s])).
Proof. exact escaped_line_is_paragraph. Qed.
Print Assumptions C13_escaped_line_is_paragraph.

(* in headings: after the " - " that separates num and heading, the escaped string up to the line end is read by rule
   hier_element_heading_heading (the heading of every hierarchical element, speech container, speech group and list
   item) as one (backslash, character) node per character ... *)
Theorem C13_escaped_heading_parses : forall f s rest off,
  Forall okc s -> s <> [] ->
  run akn_peg (18 + f) (Ref (of_string "hier_element_heading_heading")) (32 :: 45 :: 32 :: esc s ++ NL :: rest) off
  = Ok (NL :: rest) (off + 3 + 2 * len_N s) (heading_node off s).
Proof. exact escaped_heading_parses. Qed.
Print Assumptions C13_escaped_heading_parses.

(* ... and the heading's dict is the single text node holding the string: for every heading tree whose heading part is
   that node *)
Theorem C13_escaped_heading_literal : forall td s pre post h,
  s <> [] -> label h (Types.S_ "heading") = OkR (heading_node (len_N pre) s) ->
  hier_heading_to_dict (pre ++ 32 :: 45 :: 32 :: esc s ++ post) td h = OkR (Some [DText s]).
Proof. exact escaped_heading_literal. Qed.
Print Assumptions C13_escaped_heading_literal.

(* in numbers: after the keyword's space, the escaped string up to the line end is read by rule hier_element_heading_num
   as one escape node per character (the heading separator cannot start at a backslash) ... *)
Theorem C13_escaped_num_parses : forall f s rest off,
  Forall okc s -> s <> [] ->
  run akn_peg (11 + f) (Ref (of_string "hier_element_heading_num")) (32 :: esc s ++ NL :: rest) off
  = Ok (NL :: rest) (off + 1 + 2 * len_N s) (num_node off s).
Proof. exact escaped_num_parses. Qed.
Print Assumptions C13_escaped_num_parses.

(* ... and the num the dict stage takes from it - the unescaped text of the content node - is the string itself *)
Theorem C13_escaped_num_literal : forall s pre post,
  Forall okc s -> unescape (text (pre ++ 32 :: esc s ++ post) (num_content_node (len_N pre + 1) s)) = s.
Proof. exact escaped_num_literal. Qed.
Print Assumptions C13_escaped_num_literal.

(* non-vacuity: a string made of markers and keywords *)
Example C13_example :
  Forall okc (of_string "**{{^PART}}\ //") /\ of_string "**{{^PART}}\ //" <> [].
Proof.
  split; [|discriminate]. repeat constructor; try (unfold scalar; lia); try discriminate.
Qed.

(* Through the WHOLE pipeline model: in a hierarchical element - any of the 34 keywords, any num - a heading and a content line written
   with every character behind a backslash come out as exactly those characters, whatever they spell (keywords, markers, braces,
   dashes, backslashes), for every string of scalar values without tab / line break that does not end in a blank
   (Proofs/HierElementConvert.v; the trailing blank is finding F9). *)
Theorem C13_escaped_hier_element_converts : forall uri prefix kw n h t k root_meta att_meta,
  assoc_str uri meta_templates = Some (root_meta, att_meta) ->
  In kw hier_keywords ->
  num_ok n -> Forall (fun c => c <> TAB) n -> clean_num n <> [] -> valid_text n = true ->
  escapable h -> escapable t -> (1 <= k)%nat ->
  let tag := hier_name kw in
  let cand := candidate prefix tag (clean_num n) in
  convert uri (of_string "hier_element") prefix (kw ++ 32 :: n ++ 32 :: 45 :: 32 :: esc h ++ NL :: repeat SP k ++ esc t ++ [NL])
  = OkR (hier_x tag [(EID, cand)] [(EID, cand ++ DUSCORE ++ P1)] n h t).
Proof. exact escaped_hier_element_converts. Qed.
Print Assumptions C13_escaped_hier_element_converts.

Example C13_escaped_hier_element_example :
  convert (of_string "/akn/za/act/2009/1") (of_string "hier_element") []
          (of_string "PART 2 - " ++ esc (of_string "**{{ SEC - \\ }}") ++ NL :: of_string "  " ++ esc (of_string "PART 1 - //x// {{^") ++ [NL])
  = OkR (hier_x (of_string "part") [(EID, of_string "part_2")] [(EID, of_string "part_2__p_1")]
                (of_string "2") (of_string "**{{ SEC - \\ }}") (of_string "PART 1 - //x// {{^")).
Proof. vm_compute. reflexivity. Qed.


(* ... and in the element without a heading (`KEYWORD num`, any number of blank lines, the indented line) *)
Theorem C13_escaped_hier_element_without_heading_converts : forall uri prefix kw n t k b root_meta att_meta,
  assoc_str uri meta_templates = Some (root_meta, att_meta) ->
  In kw hier_keywords ->
  num_ok n -> Forall (fun c => c <> TAB) n -> py_isspace (last n 0) = false -> clean_num n <> [] -> valid_text n = true ->
  escapable t -> (1 <= k)%nat ->
  let tag := hier_name kw in
  let cand := candidate prefix tag (clean_num n) in
  convert uri (of_string "hier_element") prefix (kw ++ 32 :: n ++ NL :: repeat NL b ++ repeat SP k ++ esc t ++ [NL])
  = OkR (hier_x_nh tag [(EID, cand)] [(EID, cand ++ DUSCORE ++ P1)] n t).
Proof. exact escaped_hier_element_converts_nh. Qed.
Print Assumptions C13_escaped_hier_element_without_heading_converts.


(* ... and in a crossheading: `CROSSHEADING ` followed by the text with every character behind a backslash converts to the crossheading
   holding exactly those characters (Proofs/CrossheadingRoundTrip.v, on top of C04_crossheading_converts) *)
Theorem C13_escaped_crossheading_converts : forall uri prefix t root_meta att_meta,
  assoc_str uri meta_templates = Some (root_meta, att_meta) ->
  escapable t ->
  convert uri (of_string "hier_element") prefix (CH ++ 32 :: esc t ++ [NL])
  = OkR (El CHT [(EID, candidate prefix CHT (of_string "1"))] [Tx t]).
Proof. exact escaped_crossheading_converts. Qed.
Print Assumptions C13_escaped_crossheading_converts.

Example C13_escaped_crossheading_example :
  convert (of_string "/akn/za/act/2009/1") (of_string "hier_element") (of_string "chp_1")
          (of_string "CROSSHEADING " ++ esc (of_string "**{{ SEC 1 - \\ }} //x") ++ [NL])
  = OkR (El CHT [(EID, of_string "chp_1__crossHeading_1")] [Tx (of_string "**{{ SEC 1 - \\ }} //x")]).
Proof. vm_compute. reflexivity. Qed.
