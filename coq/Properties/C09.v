(* C09 - Rewriting eIds is idempotent, history-free and touches nothing else.
   Statements only; proofs in Proofs/EidRewrite.v. *)
Require Import BB.Base.Str BB.Base.Xml BB.Gen.TablesXml BB.Model.Eid BB.Model.EidSpec.
Require Import BB.Proofs.EidRewrite BB.Proofs.EidTop.

(* only eId attributes outside meta change: erasing them before or after gives the same tree *)
Theorem C09_only_eids_change : forall e p s e' s',
  rewrite_eid e p s = Some (e', s') -> erase_eids e' = erase_eids e.
Proof. exact rewrite_only_eids. Qed.
Print Assumptions C09_only_eids_change.

(* the new ids do not depend on the ids that were there before (missing, wrong, duplicated) *)
Theorem C09_history_free : forall e1 e2 p e1' m1,
  erase_eids e1 = erase_eids e2 -> rewrite_all_eids e1 p = Some (e1', m1) ->
  exists e2' m2, rewrite_all_eids e2 p = Some (e2', m2) /\ ids_of e1' = ids_of e2'
                 /\ erase_eids e1' = erase_eids e2'.
Proof. exact rewrite_ignores_old_ids. Qed.
Print Assumptions C09_history_free.

(* a second run changes nothing and reports an empty mapping; since generate_eids is this
   rewrite, parser output is a fixed point *)
Theorem C09_idempotent : forall e p e' m,
  rewrite_all_eids e p = Some (e', m) -> rewrite_all_eids e' p = Some (e', []).
Proof. exact rewrite_idempotent. Qed.
Print Assumptions C09_idempotent.

(* the mapping is exactly "first new id of every old id that was present and changed", never
   sends an id to itself and never has the empty id as a key *)
Theorem C09_mapping_spec : forall e p e' m,
  rewrite_all_eids e p = Some (e', m) ->
  m = fold_left record (changes e e') []
  /\ (forall k v, In (k, v) m -> k <> v /\ k <> []).
Proof. exact rewrite_all_mapping. Qed.
Print Assumptions C09_mapping_spec.

(* hence an old id present on exactly one changed element is sent to that element's new id *)
Theorem C09_mapping_unique : forall l1 o n l2 m,
  Forall (fun on => fst on <> o) (l1 ++ l2) -> assoc_str o m = None -> o <> n -> o <> [] ->
  assoc_str o (fold_left record (l1 ++ (o, n) :: l2) m) = Some n.
Proof. exact record_unique. Qed.
Print Assumptions C09_mapping_unique.
