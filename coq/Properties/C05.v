(* C05 - XML to text to XML round trip is the identity on generated documents.
   Statements only; proofs in Proofs/Tables.v.  The round trip itself (unparse is an XSLT program of
   about a thousand lines run by libxslt) is decided by running the implementation on the documents of
   the C04 specification generator; the theorems tie the hand-maintained keyword tables of the
   stylesheet to the grammar and the synonym tables, for all of their entries. *)
Require Import BB.Base.Str BB.Base.Xml BB.Model.PegSyntax BB.Model.Unparse.
Require Import BB.Gen.Grammar BB.Gen.TablesTypes BB.Gen.TablesXsl.
Require Import BB.Proofs.Tables BB.Model.UnparseDoc BB.Proofs.UnparseText.
Require Import BB.Model.EidSpec BB.Proofs.UnparseEids.
Require Import BB.Base.Dict BB.Model.Types BB.Model.Peg BB.Gen.TablesParser BB.Model.Convert BB.Model.Eid BB.Model.EidSpec BB.Model.PreParse BB.Model.XmlGen BB.Gen.TablesLibs BB.Proofs.Totality BB.Proofs.PlainLineConvert BB.Proofs.ParagraphRoundTrip BB.Proofs.HierElement BB.Proofs.HierElementConvert BB.Proofs.HierNoHeading BB.Proofs.HierNoHeadingConvert BB.Proofs.SectionRoundTrip BB.Proofs.CrossheadingConvert BB.Proofs.CrossheadingRoundTrip BB.Proofs.RoundTripEids.

(* every element of the hierarchical template is printed with a keyword the parser reads back as
   the same element (other has no keyword: listed gap, it is unparsed by the catch-all template) *)
Theorem C05_unparsed_keyword_parses_back :
  forallb (fun e =>
             mem_str e unparse_only_elements
             || (str_eqb e (of_string "item") && mem_str (hier_keyword e) (keywords akn_peg))
             || (mem_str (hier_keyword e) hier_kws && str_eqb (kw_to_elem (syn_of "HierElement") (hier_keyword e)) e)
             || (mem_str (hier_keyword e) (speech_container_kws ++ speech_group_kws)
                 && str_eqb (kw_to_elem (syn_of "SpeechContainer") (hier_keyword e)) e))
          xsl_hier_elements = true.
Proof. exact unparsed_keyword_parses_back. Qed.
Print Assumptions C05_unparsed_keyword_parses_back.

(* and conversely every hierarchical / speech keyword of the grammar gives an element that template matches *)
Theorem C05_keywords_have_templates :
  forallb (fun k => mem_str (kw_to_elem (syn_of "HierElement") k) xsl_hier_elements) hier_kws
  && forallb (fun k => mem_str (kw_to_elem (syn_of "SpeechContainer") k) xsl_hier_elements) (speech_container_kws ++ speech_group_kws) = true.
Proof. exact keywords_have_elements. Qed.
Print Assumptions C05_keywords_have_templates.

(* the model of the unparser (Model/UnparseDoc.v) has a branch for exactly the element names the
   stylesheet has a template for (header and br are matched through path patterns there) *)
Theorem C05_templates_are_modelled :
  forallb (fun t => existsb (fun m => str_eqb t (T_ m)) model_tags || mem_str t xsl_hier_elements) xsl_elements_with_template
  && forallb (fun m => mem_str (T_ m) xsl_elements_with_template) model_tags
  && forallb (fun m => negb (mem_str (T_ m) xsl_elements_with_template)) model_path_tags = true.
Proof. exact templates_are_modelled. Qed.
Print Assumptions C05_templates_are_modelled.

(* the text the unparser writes does not depend on eIds: two trees that are equal up to their eId
   attributes unparse, in every context and at every indentation, to the same text; in particular a
   document and the same document without eIds.  So the eIds of a round-tripped document are exactly
   what the id generator assigns to the re-parsed text, and for parser output those are the ids it
   already had (C09_idempotent). *)
Theorem C05_unparse_up_to_eids : forall f c i x y, eid_eq x y -> un f c i x = un f c i y.
Proof. exact un_eid_eq. Qed.
Print Assumptions C05_unparse_up_to_eids.

Theorem C05_unparse_ignores_eids : forall x, unparse_doc (erase_eids x) = unparse_doc x.
Proof. exact unparse_ignores_eids. Qed.
Print Assumptions C05_unparse_ignores_eids.

Example C05_example : (length xsl_hier_elements = 53)%nat /\ hier_keyword (of_string "subsection") = of_string "SUBSEC".
Proof. split; vm_compute; reflexivity. Qed.

(* The round trip of a paragraph through the WHOLE pipeline model.  For every FRBR URI the model knows, every eId prefix and
   every text s without tab or line break, without blanks at its ends and made of characters XML can hold - whatever it spells:
   keywords, markers, braces, backslashes - unparsing <p eId="<prefix>__p_1">s</p> and converting the written text (pre_parse,
   grammar, to_dict, XML builder, footnote resolution, normalisation, eId generation, attachment titles) gives that very element. *)
Theorem C05_paragraph_round_trip : forall uri prefix s root_meta att_meta,
  assoc_str uri meta_templates = Some (root_meta, att_meta) ->
  Forall scalar s -> Forall (fun c => c <> TAB /\ c <> 10 /\ c <> 13) s -> edge_ok s -> valid_text s = true ->
  let x := para (candidate prefix P_TAG (of_string "1")) s in
  convert uri (of_string "hier_block_element") prefix (unparse_doc x) = OkR x.
Proof. exact paragraph_round_trip. Qed.
Print Assumptions C05_paragraph_round_trip.

(* the instance the theorem predicts, evaluated: a paragraph that spells a keyword line with every kind of marker *)
Example C05_round_trip_example :
  let s := of_string "PART 1 - **x** {{^y}} \\ //z__ P{a b} {{*r}}" in
  let x := para (of_string "sec_2__p_1") s in
  convert (of_string "/akn/za/act/2009/1") (of_string "hier_block_element") (of_string "sec_2") (unparse_doc x) = OkR x.
Proof. vm_compute. reflexivity. Qed.

(* The round trip of a hierarchical element through the WHOLE pipeline model.  For each of the 34 keywords' elements, every num
   without blank, dash or backslash, every heading h and paragraph text t without tab or line break and without blanks at their ends
   ([line_text]) - whatever they spell -: unparsing
       <tag eId="<prefix__>abbr_num"><num>n</num><heading>h</heading><content><p eId="...__p_1">t</p></content></tag>
   (keyword line, blank line, indented paragraph, blank line) and converting the written text gives that very element: the keyword
   the unparser prints names the same element (a table check over the regenerated stylesheet tables), the blank line after the keyword
   line is layout, num, heading and text read back as themselves (Proofs/SectionRoundTrip.v). *)
Theorem C05_section_round_trip : forall uri prefix kw n h t root_meta att_meta,
  assoc_str uri meta_templates = Some (root_meta, att_meta) ->
  In kw hier_keywords ->
  num_ok n -> Forall (fun c => c <> TAB /\ c <> 13 /\ c <> 45) n -> clean_num n <> [] -> valid_text n = true ->
  line_text h -> line_text t ->
  let tag := hier_name kw in
  let cand := candidate prefix tag (clean_num n) in
  let x := hier_x tag [(EID, cand)] [(EID, cand ++ DUSCORE ++ P1)] n h t in
  convert uri (of_string "hier_element") prefix (unparse_doc x) = OkR x.
Proof. exact section_round_trip. Qed.
Print Assumptions C05_section_round_trip.

(* the instance the theorem predicts, evaluated: a subsection whose heading and text spell keywords and markers *)
Example C05_section_round_trip_example :
  let x := hier_x (of_string "subsection") [(EID, of_string "chp_2__subsec_3A")] [(EID, of_string "chp_2__subsec_3A__p_1")]
                  (of_string "(3A)") (of_string "PART 1 - **x** {{^y}} \\ //z") (of_string "SUBHEADING P{a b} __u__ {{*r}}") in
  convert (of_string "/akn/za/act/2009/1") (of_string "hier_element") (of_string "chp_2") (unparse_doc x) = OkR x.
Proof. vm_compute. reflexivity. Qed.


(* ... and for the element without a heading (`KEYWORD num`, blank line, indented paragraph): the same round trip *)
Theorem C05_section_round_trip_no_heading : forall uri prefix kw n t root_meta att_meta,
  assoc_str uri meta_templates = Some (root_meta, att_meta) ->
  In kw hier_keywords ->
  num_ok n -> Forall (fun c => c <> TAB /\ c <> 13 /\ c <> 45) n -> py_isspace (last n 0) = false -> clean_num n <> [] -> valid_text n = true ->
  line_text t ->
  let tag := hier_name kw in
  let cand := candidate prefix tag (clean_num n) in
  let x := hier_x_nh tag [(EID, cand)] [(EID, cand ++ DUSCORE ++ P1)] n t in
  convert uri (of_string "hier_element") prefix (unparse_doc x) = OkR x.
Proof. exact section_round_trip_nh. Qed.
Print Assumptions C05_section_round_trip_no_heading.

Example C05_section_round_trip_no_heading_example :
  let x := hier_x_nh (of_string "paragraph") [(EID, of_string "sec_1__para_a")] [(EID, of_string "sec_1__para_a__p_1")]
                     (of_string "(a)") (of_string "SEC 2. - **x** {{^y}} \\ //z P{a b}") in
  convert (of_string "/akn/za/act/2009/1") (of_string "hier_element") (of_string "sec_1") (unparse_doc x) = OkR x.
Proof. vm_compute. reflexivity. Qed.


(* ... and for a crossheading (`CROSSHEADING text`, blank line): unparsing <crossHeading eId="<prefix__>crossHeading_1">t</crossHeading> and
   converting the written text back - first alternative of rule hier_element, to_dict, XML builder, post-processing, eIds - gives that very
   element, for every text without tab or line break and without blanks at its ends, whatever it spells (Proofs/CrossheadingRoundTrip.v).
   The empty crossheading is excluded by [line_text]: it does not survive the trip (known finding F7a). *)
Theorem C05_crossheading_round_trip : forall uri prefix s root_meta att_meta,
  assoc_str uri meta_templates = Some (root_meta, att_meta) ->
  line_text s ->
  let x := El CHT [(EID, candidate prefix CHT (of_string "1"))] [Tx s] in
  convert uri (of_string "hier_element") prefix (unparse_doc x) = OkR x.
Proof. exact crossheading_round_trip. Qed.
Print Assumptions C05_crossheading_round_trip.

Example C05_crossheading_round_trip_example :
  let x := El CHT [(EID, of_string "part_1__crossHeading_1")] [Tx (of_string "CROSSHEADING PART 1 - **x** {{^y}} \\ //z P{a b} }}")] in
  convert (of_string "/akn/za/act/2009/1") (of_string "hier_element") (of_string "part_1") (unparse_doc x) = OkR x.
Proof. vm_compute. reflexivity. Qed.


(* Wherever the round trip holds it does not depend on the ids the document carried: the unparser ignores eId attributes, so a copy
   with stale, scrambled or missing eIds is written as the same text and converts to the document with the generated ids
   (Proofs/RoundTripEids.v). *)
Theorem C05_round_trip_regenerates_eids : forall uri root prefix x y,
  convert uri root prefix (unparse_doc x) = OkR x ->
  erase_eids y = erase_eids x ->
  convert uri root prefix (unparse_doc y) = OkR x.
Proof. exact round_trip_regenerates_eids. Qed.
Print Assumptions C05_round_trip_regenerates_eids.

(* ... for the basic hierarchical element: whatever eId attributes (any number, any values, or none) the element and its paragraph carry *)
Theorem C05_section_round_trip_any_eids : forall uri prefix kw n h t a1 a2 root_meta att_meta,
  assoc_str uri meta_templates = Some (root_meta, att_meta) ->
  In kw hier_keywords ->
  num_ok n -> Forall (fun c => c <> TAB /\ c <> 13 /\ c <> 45) n -> clean_num n <> [] -> valid_text n = true ->
  line_text h -> line_text t ->
  Forall (fun kv => fst kv = EID) a1 -> Forall (fun kv => fst kv = EID) a2 ->
  let tag := hier_name kw in
  let cand := candidate prefix tag (clean_num n) in
  convert uri (of_string "hier_element") prefix (unparse_doc (hier_x tag a1 a2 n h t))
  = OkR (hier_x tag [(EID, cand)] [(EID, cand ++ DUSCORE ++ P1)] n h t).
Proof. exact section_round_trip_any_eids. Qed.
Print Assumptions C05_section_round_trip_any_eids.

Example C05_section_round_trip_any_eids_example :
  convert (of_string "/akn/za/act/2009/1") (of_string "hier_element") (of_string "chp_2")
          (unparse_doc (hier_x (of_string "subsection") [] [(EID, of_string "stale_7")] (of_string "(3A)") (of_string "PART 1 - **x**") (of_string "SUBHEADING {{*r}}")))
  = OkR (hier_x (of_string "subsection") [(EID, of_string "chp_2__subsec_3A")] [(EID, of_string "chp_2__subsec_3A__p_1")]
                (of_string "(3A)") (of_string "PART 1 - **x**") (of_string "SUBHEADING {{*r}}")).
Proof. vm_compute. reflexivity. Qed.


(* ... and for a crossheading *)
Theorem C05_crossheading_round_trip_any_eids : forall uri prefix s a root_meta att_meta,
  assoc_str uri meta_templates = Some (root_meta, att_meta) ->
  line_text s ->
  Forall (fun kv => fst kv = EID) a ->
  convert uri (of_string "hier_element") prefix (unparse_doc (El CHT a [Tx s]))
  = OkR (El CHT [(EID, candidate prefix CHT (of_string "1"))] [Tx s]).
Proof. exact crossheading_round_trip_any_eids. Qed.
Print Assumptions C05_crossheading_round_trip_any_eids.
