(* C07 - Every identifiable element gets exactly one eId, unique in the document.
   Statements only; proofs in Proofs/Eid*.v.  The model is coq/Model/Eid.v (IdGenerator). *)
Require Import BB.Base.Str BB.Base.Xml BB.Gen.TablesXml BB.Model.Eid BB.Model.EidSpec.
Require Import BB.Proofs.EidUnique BB.Proofs.EidTree BB.Proofs.EidTop.

(* the disambiguation loop always terminates within its fuel *)
Theorem C07_ensure_unique_terminates : forall c eid nn, exists r, ensure_unique c eid nn = Some r.
Proof. exact ensure_unique_total. Qed.
Print Assumptions C07_ensure_unique_terminates.

(* for every tree and prefix the rewriter returns, and the ids it issues are pairwise distinct *)
Theorem C07_rewrite_total_unique : forall e p,
  exists e' m, rewrite_all_eids e p = Some (e', m) /\ NoDup (ids_of e').
Proof. exact rewrite_unique. Qed.
Print Assumptions C07_rewrite_total_unique.

(* if exempt elements carry no eId beforehand (true of every tree the generator builds from a
   dict without explicit eId attributes), then afterwards an element outside meta has a
   non-empty eId iff it is identifiable, and no two elements outside meta share one *)
Theorem C07_presence_and_uniqueness : forall e p e' m,
  rewrite_all_eids e p = Some (e', m) -> no_exempt_ids e ->
  eid_presence_ok e' /\ NoDup (all_ids e').
Proof. exact rewrite_all_presence_unique. Qed.
Print Assumptions C07_presence_and_uniqueness.

(* every issued id is non-empty, has no whitespace (given that the caller's prefix and the
   element names have none) and starts with the caller's prefix followed by __ *)
Theorem C07_charset_and_prefix : forall e p e' m,
  rewrite_all_eids e p = Some (e', m) -> no_ws p -> Forall no_ws (tags_of e) ->
  forall r, In r (ids_of e') -> r <> [] /\ no_ws r /\ (p <> [] -> exists t, r = p ++ DUSCORE ++ t).
Proof. exact rewrite_all_charset. Qed.
Print Assumptions C07_charset_and_prefix.

(* non-vacuity: two sections numbered 1, one of them holding two unnumbered paragraphs *)
Definition ex_tree : xml :=
  El (of_string "body") []
    [El (of_string "section") [] [El (of_string "num") [] [Tx (of_string "1.")];
                                   El (of_string "paragraph") [] []; El (of_string "paragraph") [] []];
     El (of_string "section") [(of_string "eId", of_string "sec_1")] [El (of_string "num") [] [Tx (of_string "(1)")]]].
Example C07_example :
  option_map (fun r => ids_of (fst r)) (rewrite_all_eids ex_tree (of_string "chp_2")) =
  Some [of_string "chp_2__sec_1"; of_string "chp_2__sec_1__para_nn_1"; of_string "chp_2__sec_1__para_nn_2";
        of_string "chp_2__sec_1_2"]
  /\ no_exempt_ids ex_tree.
Proof. split; [vm_compute; reflexivity|vm_compute; repeat split]. Qed.
