(* C16 - Results depend only on the arguments, not on what was parsed before.
   Statements only; proofs in Proofs/ObjectProofs.v.  Model: Model/Object.v. *)
Require Import BB.Base.Str BB.Base.Xml BB.Base.Dict.
Require Import BB.Model.Types BB.Model.Eid BB.Model.XmlGen BB.Model.Convert BB.Model.Object.
Require Import BB.Proofs.ObjectProofs.

(* For every history of calls on a parser object - conversions that succeeded or raised (a call
   that raises may leave the three id-generator dictionaries in ANY state), xml_from_dict, eId
   rewrites, pure helpers - a conversion on that object equals the same conversion on a fresh
   object.  Holds for the repaired code (fix: commit a6c62e2: the generator is reset at the start
   of xml_from_dict); before it, a failed conversion inside an attachment changed the numbering
   of the next one. *)
Theorem C16_probe_after_any_history : forall uri prefix o root text,
  reach uri prefix o ->
  obj_convert uri prefix o root text = obj_convert uri prefix fresh root text.
Proof. exact probe_after_any_history. Qed.
Print Assumptions C16_probe_after_any_history.

(* every outcome (document, mapping, text or exception kind) observable on a used object is
   observable on a fresh one: no call's result depends on the object's past *)
Theorem C16_outcome_history_free : forall uri prefix o c o' out,
  reach uri prefix o -> step uri prefix o c o' out -> exists o'', step uri prefix fresh c o'' out.
Proof. exact outcome_history_free. Qed.
Print Assumptions C16_outcome_history_free.

(* non-vacuity: a state reached through a failing conversion (illegal character inside an
   attachment) followed by a successful one *)
Example C16_history_example :
  exists o, reach (of_string "/akn/za/act/2009/1") [] o /\ o <> fresh.
Proof.
  exists (mkO (mkSt [(of_string "__attachments", [(of_string "attachment", 1%nat)])] [] []) []).
  split; [|discriminate].
  eapply reach_step; [apply reach_fresh|].
  eapply step_convert_err with (root := of_string "act") (text := of_string "ATTACHMENT
  foo" ++ [1%N; NL]) (k := of_string "ValueError").
  vm_compute. reflexivity.
Qed.
