(* C19 - The command-line tool prints exactly what the library returns.
   Statements only; the (short) proofs are next to the model in Model/Cli.v. *)
Require Import BB.Base.Str BB.Base.Xml BB.Base.Dict BB.Model.Types BB.Model.Convert BB.Model.Cli.

Theorem C19_cli_xml : forall ser_xml ser_json a text x,
  a_json a = false -> lib_xml a text = OkR x ->
  main ser_xml ser_json a text = (ser_xml (a_pretty a) x ++ [NL], 0%nat).
Proof. exact cli_prints_library_xml. Qed.
Print Assumptions C19_cli_xml.

Theorem C19_cli_json : forall ser_xml ser_json a text d,
  a_json a = true -> lib_json a text = OkR d ->
  main ser_xml ser_json a text = (ser_json d ++ [NL], 0%nat).
Proof. exact cli_prints_library_json. Qed.
Print Assumptions C19_cli_json.

Theorem C19_cli_parse_error : forall ser_xml ser_json a text k,
  parse_text (a_root a) text = ErrR k -> main ser_xml ser_json a text = ([], 1%nat).
Proof. exact cli_parse_error. Qed.
Print Assumptions C19_cli_parse_error.

Theorem C19_cli_root_alias : forall ser_xml ser_json uri j p text,
  main ser_xml ser_json {| a_uri := uri; a_root := of_string "debatereport"; a_json := j; a_pretty := p |} text =
  main ser_xml ser_json {| a_uri := uri; a_root := of_string "debateReport"; a_json := j; a_pretty := p |} text.
Proof. exact cli_root_alias. Qed.
Print Assumptions C19_cli_root_alias.
