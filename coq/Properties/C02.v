(* C02 - Output always validates against the Akoma Ntoso 3.0 schema.
   [partial] Whole-schema validity is not proved (and is false of the code as it stands in the
   listed families of known findings); what is proved is the structure the generator itself is
   responsible for, for EVERY dict tree.  Proofs in Proofs/XmlShape.v. *)
Require Import BB.Base.Str BB.Base.Xml BB.Base.Dict BB.Model.Types BB.Model.Eid BB.Model.XmlGen.
Require Import BB.Proofs.XmlShape.
Require Import BB.Model.Post BB.Proofs.PostQuiet.

(* block elements (blockList, item, ul, blockContainer) are never empty: the schema requires
   at least one child and the generator supplies an empty p if there is none *)
Theorem C02_block_never_empty : forall meta_for rec name a aa num h sh fr ch g x g',
  item_body meta_for rec (DNode (S_ "block") name a aa num h sh fr ch) g = OkR (x, g') ->
  tag_x x = name /\ kids_x x <> [].
Proof. exact block_never_empty. Qed.
Print Assumptions C02_block_never_empty.

(* an attachment is  heading? subheading? doc , and the nested doc starts with its own meta *)
Theorem C02_attachment_shape : forall meta_for rec a aa num h sh fr ch g x g',
  item_body meta_for rec (DNode (S_ "element") (S_ "attachment") a aa num h sh fr ch) g = OkR (x, g') ->
  exists hx sx attrs k aname,
    x = El (S_ "attachment") (attrs_of aa) (hx ++ sx ++ [El (S_ "doc") attrs (meta_for aname :: k)])
    /\ (hx = [] \/ exists hk, hx = [El (S_ "heading") [] hk])
    /\ (sx = [] \/ exists sk, sx = [El (S_ "subheading") [] sk])
    /\ aname = fst (attachment_name a g).
Proof. exact attachment_shape. Qed.
Print Assumptions C02_attachment_shape.

(* the model refuses exactly what lxml refuses: an element is built iff every attribute name is
   a legal XML name and every attribute value and text child consists of legal characters *)
Theorem C02_element_built_iff_legal : forall n a k e, mk_elem n a k = OkR e -> e = El n a k.
Proof. exact mk_elem_inv. Qed.
Print Assumptions C02_element_built_iff_legal.

(* the clean-up pass removes childless crossHeading / longTitle / content / preface / preamble / conclusions and nothing else: a tree
   without such an element comes out as it went in, for every tree and fuel *)
Theorem C02_normalise_removes_empties_only : forall f x, no_empties x = true -> normalise f x = x.
Proof. exact normalise_quiet. Qed.
Print Assumptions C02_normalise_removes_empties_only.
