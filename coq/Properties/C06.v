(* C06 - Unparsing escapes text so it can never turn into markup.
   Statements only; proofs in Proofs/Tables.v.  The string functions of the stylesheet (escape-inlines,
   escape-prefixes, escape-num, string-ltrim, escape-inlines-start-end) are modelled in Model/Unparse.v
   and tied to the stylesheet by the xslstr correspondence stage. *)
Require Import BB.Base.Str BB.Base.Xml BB.Model.PegSyntax BB.Model.Unparse.
Require Import BB.Gen.Grammar BB.Gen.TablesXsl.
Require Import BB.Base.Dict BB.Model.Peg BB.Model.Types BB.Proofs.Tables BB.Proofs.EscapeLossless.
Require Import BB.Proofs.Totality BB.Proofs.PegPlain BB.Proofs.EscapedTextParses.
Require Import BB.Model.UnparseDoc BB.Proofs.UnparseText BB.Proofs.PegLine BB.Proofs.WrittenText BB.Proofs.LineRule.
Require Import BB.Base.Dict BB.Model.Types BB.Model.Peg BB.Gen.TablesParser BB.Model.Convert BB.Model.Eid BB.Model.EidSpec BB.Model.PreParse BB.Model.XmlGen BB.Gen.TablesLibs BB.Proofs.Totality BB.Proofs.PlainLineConvert BB.Proofs.ParagraphRoundTrip BB.Proofs.HierElement BB.Proofs.HierElementConvert BB.Proofs.HierNoHeading BB.Proofs.HierNoHeadingConvert BB.Proofs.SectionRoundTrip BB.Proofs.CrossheadingConvert BB.Proofs.CrossheadingRoundTrip.

(* the hand-maintained keyword list of escape-prefixes covers every keyword literal of the grammar,
   except the committed gaps *)
Theorem C06_escape_prefixes_complete :
  forallb (fun k => covered k || mem_str k escape_gaps) (keywords akn_peg) = true
  /\ forallb (fun p => mem_str p xsl_escape_starts) [of_string "P "; of_string "P."; of_string "P{"] = true.
Proof. exact escape_prefixes_complete. Qed.
Print Assumptions C06_escape_prefixes_complete.

Theorem C06_escape_chain_shape :
  xsl_escape_chain =
  [([92], [92; 92]); ([42; 42], [92; 42; 92; 42]); ([47; 47], [92; 47; 92; 47]); ([95; 95], [92; 95; 92; 95]);
   ([123; 123], [92; 123; 92; 123]); ([125; 125], [92; 125; 92; 125])]%N.
Proof. exact escape_chain_shape. Qed.
Print Assumptions C06_escape_chain_shape.

Theorem C06_inline_openers_escaped :
  subset [of_string "**"; of_string "//"; of_string "__"; of_string "{{"; of_string "}}"] (grammar_lits akn_peg)
  && subset [of_string "**"; of_string "//"; of_string "__"; of_string "{{"; of_string "}}"] (map fst xsl_escape_chain) = true.
Proof. exact inline_openers_escaped. Qed.
Print Assumptions C06_inline_openers_escaped.

(* for every string: what the parser's unescape reads back from escape-inlines' output is the text
   itself (line breaks as spaces) ... *)
Theorem C06_escape_inlines_lossless : forall s, unescape (escape_inlines s) = nl_to_space s.
Proof. exact escape_inlines_lossless. Qed.
Print Assumptions C06_escape_inlines_lossless.

(* ... and, read the way the grammar reads (a backslash takes the next character), no two consecutive
   unescaped * / _ { } remain: none of ** // __ {{ }} can open or close an inline *)
Theorem C06_escape_inlines_no_live_marker : forall s, has_live (escape_inlines s) = false.
Proof. exact escape_inlines_no_live_marker. Qed.
Print Assumptions C06_escape_inlines_no_live_marker.

(* the chain, for every non-empty string s of scalar values, anywhere on a line of any input: the
   grammar regenerated from akn.peg reads escape-inlines(s) up to the line end as a run of inlines,
   and the dict stage turns that run into text nodes only - no inline element - whose values spell s
   again (line breaks as spaces).  Escaped text cannot become inline markup. *)
Theorem C06_escaped_text_parses_as_text : forall s pre rest f f',
  Forall scalar s -> s <> [] ->
  let e := escape_inlines s in
  let inp := pre ++ e ++ NL :: rest in
  exists ns ds,
    run akn_peg (13 + f) (Plus (Ref (of_string "inline"))) (e ++ NL :: rest) (len_N pre)
      = Ok (NL :: rest) (len_N pre + len_N e) (Node (len_N pre) (len_N e) [] [] ns)
    /\ inline_many inp (to_dict inp (S f')) ns = OkR ds
    /\ Forall is_dtext ds
    /\ concat (map dval ds) = nl_to_space s.
Proof. exact escaped_text_parses_as_text. Qed.
Print Assumptions C06_escaped_text_parses_as_text.

Example C06_example_chain : Forall scalar (of_string "a **b** {{^c}} \\ PART //") /\ of_string "a **b** {{^c}} \\ PART //" <> [].
Proof.
  split; [|discriminate].
  repeat (apply Forall_cons; [left; apply N.leb_le; vm_compute; reflexivity|]). apply Forall_nil.
Qed.

(* every text node, in every context (Model/UnparseDoc.v models all templates of the stylesheet and is
   tied to libxslt by the unp stage): what the unparser writes for it reads back, with the parser's
   unescape, as the text itself - line breaks as spaces, leading whitespace trimmed exactly where the
   stylesheet trims it (first text of p / list introduction / wrap-up, after a line break in a remark) *)
Theorem C06_text_node_lossless : forall c s,
  unescape (text_out c s) = nl_to_space (if trimmed c then string_ltrim s else s).
Proof. exact text_out_lossless. Qed.
Print Assumptions C06_text_node_lossless.

(* the same chain for every text node as the unparser writes it (text_out: escape-inlines-start-end in
   its context, escape-prefixes where it applies): the grammar reads it up to the line end as a run of
   inlines that the dict stage turns into text nodes only, spelling the text *)
Theorem C06_written_text_parses_as_text : forall c s pre rest f f',
  let t := if trimmed c then string_ltrim s else s in
  Forall scalar t -> t <> [] ->
  let e := text_out c s in
  let inp := pre ++ e ++ NL :: rest in
  exists ns ds,
    run akn_peg (13 + f) (Plus (Ref (of_string "inline"))) (e ++ NL :: rest) (len_N pre)
      = Ok (NL :: rest) (len_N pre + len_N e) (Node (len_N pre) (len_N e) [] [] ns)
    /\ inline_many inp (to_dict inp (S f')) ns = OkR ds
    /\ Forall is_dtext ds
    /\ concat (map dval ds) = nl_to_space t.
Proof. exact written_text_parses_as_text. Qed.
Print Assumptions C06_written_text_parses_as_text.

(* block level: whatever text y a paragraph starts with (not the indent control character), the line
   the unparser writes for it - escape-prefixes(y) up to the line end - is dispatched by
   hier_block_element to rule `line`: crossheading, the 34 hierarchical keywords, nested blocks, lists,
   tables, LONGTITLE, FOOTNOTE, QUOTE, BLOCKS and P all fail on it, because every literal they can start
   with has an entry of the stylesheet's list as a prefix (computed FIRST analysis of the grammar) *)
Theorem C06_escaped_first_text_is_a_line : forall f y rest off,
  not_indent_start y = true ->
  run akn_peg (18 + f) (Ref (of_string "hier_block_element")) (escape_prefixes y ++ NL :: rest) off
  = run akn_peg (12 + f) (Ref (of_string "line")) (escape_prefixes y ++ NL :: rest) off.
Proof. exact escaped_first_text_is_a_line. Qed.
Print Assumptions C06_escaped_first_text_is_a_line.

(* composed: the first text s of a p / list introduction / wrap-up (first_text context), as the unparser
   writes it, followed by the line end, anywhere in any input: hier_block_element accepts it - through
   rule line - and to_dict turns the tree into a p whose children are text nodes only, spelling s with
   its leading whitespace trimmed and line breaks as spaces.  Text cannot turn into markup there. *)
Theorem C06_written_first_text_is_paragraph : forall c s pre rest f f',
  first_text c = true ->
  let t := string_ltrim s in
  Forall scalar t -> t <> [] -> no_ctl_start (text_out c s) = true ->
  let e := text_out c s in
  let inp := pre ++ e ++ NL :: rest in
  exists rest' off' tree ds,
    run akn_peg (26 + f) (Ref (of_string "hier_block_element")) (e ++ NL :: rest) (len_N pre) = Ok rest' off' tree
    /\ to_dict inp (2 + f') tree = OkR (DNode (Types.S_ "content") (Types.S_ "p") None None None None None None (Some ds))
    /\ Forall is_dtext ds
    /\ concat (map dval ds) = nl_to_space t.
Proof. exact written_first_text_is_paragraph. Qed.
Print Assumptions C06_written_first_text_is_paragraph.

Example C06_example_block : (length block_lits = 44)%nat /\ escape_prefixes (of_string "PART of") = of_string "\PART of"
  /\ escape_prefixes (of_string "Paris") = of_string "Paris".
Proof. repeat split; vm_compute; reflexivity. Qed.

Example C06_example_live : has_live (of_string "a **b** c") = true /\ has_live (of_string "a \**b") = false.
Proof. split; vm_compute; reflexivity. Qed.

Example C06_example : (length (keywords akn_peg) = 94)%nat /\ covered (of_string "SUBPARA") = true /\ covered (of_string "ITEM") = true /\ covered (of_string "IMG") = false.
Proof. repeat split; vm_compute; reflexivity. Qed.

(* The round trip of a paragraph through the WHOLE pipeline model.  For every FRBR URI the model knows, every eId prefix and
   every text s without tab or line break, without blanks at its ends and made of characters XML can hold - whatever it spells:
   keywords, markers, braces, backslashes - unparsing <p eId="<prefix>__p_1">s</p> and converting the written text (pre_parse,
   grammar, to_dict, XML builder, footnote resolution, normalisation, eId generation, attachment titles) gives that very element. *)
Theorem C06_paragraph_round_trip : forall uri prefix s root_meta att_meta,
  assoc_str uri meta_templates = Some (root_meta, att_meta) ->
  Forall scalar s -> Forall (fun c => c <> TAB /\ c <> 10 /\ c <> 13) s -> edge_ok s -> valid_text s = true ->
  let x := para (candidate prefix P_TAG (of_string "1")) s in
  convert uri (of_string "hier_block_element") prefix (unparse_doc x) = OkR x.
Proof. exact paragraph_round_trip. Qed.
Print Assumptions C06_paragraph_round_trip.

(* the instance the theorem predicts, evaluated: a paragraph that spells a keyword line with every kind of marker *)
Example C06_round_trip_example :
  let s := of_string "PART 1 - **x** {{^y}} \\ //z__ P{a b} {{*r}}" in
  let x := para (of_string "sec_2__p_1") s in
  convert (of_string "/akn/za/act/2009/1") (of_string "hier_block_element") (of_string "sec_2") (unparse_doc x) = OkR x.
Proof. vm_compute. reflexivity. Qed.

(* The round trip of a hierarchical element through the WHOLE pipeline model.  For each of the 34 keywords' elements, every num
   without blank, dash or backslash, every heading h and paragraph text t without tab or line break and without blanks at their ends
   ([line_text]) - whatever they spell -: unparsing
       <tag eId="<prefix__>abbr_num"><num>n</num><heading>h</heading><content><p eId="...__p_1">t</p></content></tag>
   (keyword line, blank line, indented paragraph, blank line) and converting the written text gives that very element: the keyword
   the unparser prints names the same element (a table check over the regenerated stylesheet tables), the blank line after the keyword
   line is layout, num, heading and text read back as themselves (Proofs/SectionRoundTrip.v). *)
Theorem C06_section_round_trip : forall uri prefix kw n h t root_meta att_meta,
  assoc_str uri meta_templates = Some (root_meta, att_meta) ->
  In kw hier_keywords ->
  num_ok n -> Forall (fun c => c <> TAB /\ c <> 13 /\ c <> 45) n -> clean_num n <> [] -> valid_text n = true ->
  line_text h -> line_text t ->
  let tag := hier_name kw in
  let cand := candidate prefix tag (clean_num n) in
  let x := hier_x tag [(EID, cand)] [(EID, cand ++ DUSCORE ++ P1)] n h t in
  convert uri (of_string "hier_element") prefix (unparse_doc x) = OkR x.
Proof. exact section_round_trip. Qed.
Print Assumptions C06_section_round_trip.

(* the instance the theorem predicts, evaluated: a subsection whose heading and text spell keywords and markers *)
Example C06_section_round_trip_example :
  let x := hier_x (of_string "subsection") [(EID, of_string "chp_2__subsec_3A")] [(EID, of_string "chp_2__subsec_3A__p_1")]
                  (of_string "(3A)") (of_string "PART 1 - **x** {{^y}} \\ //z") (of_string "SUBHEADING P{a b} __u__ {{*r}}") in
  convert (of_string "/akn/za/act/2009/1") (of_string "hier_element") (of_string "chp_2") (unparse_doc x) = OkR x.
Proof. vm_compute. reflexivity. Qed.


(* ... and for the element without a heading (`KEYWORD num`, blank line, indented paragraph): the same round trip *)
Theorem C06_section_round_trip_no_heading : forall uri prefix kw n t root_meta att_meta,
  assoc_str uri meta_templates = Some (root_meta, att_meta) ->
  In kw hier_keywords ->
  num_ok n -> Forall (fun c => c <> TAB /\ c <> 13 /\ c <> 45) n -> py_isspace (last n 0) = false -> clean_num n <> [] -> valid_text n = true ->
  line_text t ->
  let tag := hier_name kw in
  let cand := candidate prefix tag (clean_num n) in
  let x := hier_x_nh tag [(EID, cand)] [(EID, cand ++ DUSCORE ++ P1)] n t in
  convert uri (of_string "hier_element") prefix (unparse_doc x) = OkR x.
Proof. exact section_round_trip_nh. Qed.
Print Assumptions C06_section_round_trip_no_heading.

Example C06_section_round_trip_no_heading_example :
  let x := hier_x_nh (of_string "paragraph") [(EID, of_string "sec_1__para_a")] [(EID, of_string "sec_1__para_a__p_1")]
                     (of_string "(a)") (of_string "SEC 2. - **x** {{^y}} \\ //z P{a b}") in
  convert (of_string "/akn/za/act/2009/1") (of_string "hier_element") (of_string "sec_1") (unparse_doc x) = OkR x.
Proof. vm_compute. reflexivity. Qed.


(* ... and for a crossheading (`CROSSHEADING text`, blank line): unparsing <crossHeading eId="<prefix__>crossHeading_1">t</crossHeading> and
   converting the written text back - first alternative of rule hier_element, to_dict, XML builder, post-processing, eIds - gives that very
   element, for every text without tab or line break and without blanks at its ends, whatever it spells (Proofs/CrossheadingRoundTrip.v).
   The empty crossheading is excluded by [line_text]: it does not survive the trip (known finding F7a). *)
Theorem C06_crossheading_round_trip : forall uri prefix s root_meta att_meta,
  assoc_str uri meta_templates = Some (root_meta, att_meta) ->
  line_text s ->
  let x := El CHT [(EID, candidate prefix CHT (of_string "1"))] [Tx s] in
  convert uri (of_string "hier_element") prefix (unparse_doc x) = OkR x.
Proof. exact crossheading_round_trip. Qed.
Print Assumptions C06_crossheading_round_trip.

Example C06_crossheading_round_trip_example :
  let x := El CHT [(EID, of_string "part_1__crossHeading_1")] [Tx (of_string "CROSSHEADING PART 1 - **x** {{^y}} \\ //z P{a b} }}")] in
  convert (of_string "/akn/za/act/2009/1") (of_string "hier_element") (of_string "part_1") (unparse_doc x) = OkR x.
Proof. vm_compute. reflexivity. Qed.

