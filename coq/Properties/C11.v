(* C11 - Pre-parsing yields a normal form and keeps every line.
   Only statements here; proofs are in Proofs/PreParse*.v. *)
Require Import BB.Base.Str BB.Gen.TablesParser BB.Model.PreParse BB.Model.PreParseSpec.
Require Import BB.Proofs.PreParseNF BB.Proofs.PreParseLines.

(* For every indent size and every text over the property's alphabet, pre_parse returns, and
   what it returns is empty or a sequence of newline-terminated lines whose first line is not
   blank, none of which has a tab, a leading or a trailing space, where marker characters only
   occur alone on their line, and whose markers are balanced, never negative and never open an
   empty block. *)
Theorem C11_pre_parse_nf : forall size s,
  alphabet_ok s = true -> exists o, pre_parse size s = Some o /\ NF o.
Proof. exact pre_parse_nf. Qed.
Print Assumptions C11_pre_parse_nf.

(* The output is empty exactly for blank input; otherwise, removing the marker lines gives
   the lines of the tab-expanded, stripped text, each trimmed of spaces, in order.
   (An intermediate form: C11_keeps_lines below removes the reference to the stripped text.) *)
Theorem C11_keeps_lines_partial : forall size s,
  alphabet_ok s = true ->
  exists o, pre_parse size s = Some o /\
    match cleaned size s with
    | [] => o = []
    | _ :: _ => exists ls, o = unlines ls /\ NFlines ls
                  /\ content_lines ls = map (fun l => lstrip is_sp (rstrip is_sp l)) (split_on NL (cleaned size s))
    end.
Proof. exact pre_parse_keeps_lines. Qed.
Print Assumptions C11_keeps_lines_partial.

(* The full statement: removing the marker lines from the output gives exactly the lines of the
   tab-expanded input, each trimmed of spaces, without the blank lines at both ends, in order;
   nothing else is dropped, added or reordered.  For blank input both sides are empty. *)
Theorem C11_keeps_lines : forall size s,
  alphabet_ok s = true ->
  exists o, pre_parse size s = Some o /\
    match cleaned size s with
    | [] => o = []
    | _ :: _ => exists ls, o = unlines ls /\ NFlines ls
                  /\ content_lines ls = trim_blank_ends (map trimsp (split_on NL (expand_tabs size s)))
    end.
Proof. exact pre_parse_keeps_lines_full. Qed.
Print Assumptions C11_keeps_lines.

Theorem C11_blank_input_has_no_lines : forall size s,
  alphabet_ok s = true -> cleaned size s = [] ->
  trim_blank_ends (map trimsp (split_on NL (expand_tabs size s))) = [].
Proof. exact blank_text_no_lines. Qed.
Print Assumptions C11_blank_input_has_no_lines.

(* non-vacuity: an over-indented, multi-dedent text with tabs and trailing spaces is in the alphabet *)
Example C11_alphabet_example :
  alphabet_ok (of_string "a
    b  
	c
  d

 e") = true.
Proof. reflexivity. Qed.
