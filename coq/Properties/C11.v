(* C11 - Pre-parsing yields a normal form and keeps every line.
   Only statements here; proofs are in Proofs/PreParse*.v. *)
Require Import BB.Base.Str BB.Gen.TablesParser BB.Model.PreParse BB.Model.PreParseSpec.
Require Import BB.Proofs.PreParseNF.

(* For every indent size and every text over the property's alphabet, pre_parse returns, and
   what it returns is empty or a sequence of newline-terminated lines whose first line is not
   blank, none of which has a tab, a leading or a trailing space, where marker characters only
   occur alone on their line, and whose markers are balanced, never negative and never open an
   empty block. *)
Theorem C11_pre_parse_nf : forall size s,
  alphabet_ok s = true -> exists o, pre_parse size s = Some o /\ NF o.
Proof. exact pre_parse_nf. Qed.
Print Assumptions C11_pre_parse_nf.

(* The output is empty exactly for blank input; otherwise, removing the marker lines gives
   the lines of the tab-expanded, stripped text, each trimmed of spaces, in order.
   [partial]: the step from "lines of the stripped text" to "the input's lines without the
   leading and trailing blank ones" is not proved here; it is covered by the pre stage. *)
Theorem C11_keeps_lines_partial : forall size s,
  alphabet_ok s = true ->
  exists o, pre_parse size s = Some o /\
    match cleaned size s with
    | [] => o = []
    | _ :: _ => exists ls, o = unlines ls /\ NFlines ls
                  /\ content_lines ls = map (fun l => lstrip is_sp (rstrip is_sp l)) (split_on NL (cleaned size s))
    end.
Proof. exact pre_parse_keeps_lines. Qed.
Print Assumptions C11_keeps_lines_partial.

(* non-vacuity: an over-indented, multi-dedent text with tabs and trailing spaces is in the alphabet *)
Example C11_alphabet_example :
  alphabet_ok (of_string "a
    b  
	c
  d

 e") = true.
Proof. reflexivity. Qed.
