(* C10 - The shipped parser recognises exactly the language of the PEG grammar.
   Statements only; proofs in Proofs/GrammarEq.v, OverrideEquiv.v, PegMono.v. *)
Require Import BB.Base.Str BB.Gen.TablesParser BB.Model.PegSyntax BB.Model.Peg BB.Model.Override.
Require Import BB.Gen.Grammar BB.Gen.GrammarPy.
Require Import BB.Proofs.GrammarEq BB.Proofs.OverrideEquiv BB.Proofs.PegMono.

(* the grammar reconstructed from the generated parser's code (all rules, in order: literals,
   tabulated character classes, sequence labels, node types) is the grammar of akn.peg.
   Re-evaluated by the kernel on the values regenerated from /repo on every run. *)
Theorem C10_grammar_py_eq_peg : akn_py = akn_peg.
Proof. exact grammar_py_eq_peg. Qed.
Print Assumptions C10_grammar_py_eq_peg.

(* for every input, every offset and any sufficient fuel: the hand-optimised plain-text rule and
   the grammar's rule agree on success, remaining input, end offset and node span/types/labels *)
Theorem C10_override_equiv : forall f s off,
  same_span (read_non_inline_start s off)
            (run akn_peg (S (S (S f))) (Ref (of_string "non_inline_start")) s off).
Proof. exact override_equiv. Qed.
Print Assumptions C10_override_equiv.

(* parser.INDENT/DEDENT are the characters the grammar's indent/dedent rules start with *)
Theorem C10_indent_chars_match :
  match lookup akn_peg (of_string "indent"), lookup akn_peg (of_string "dedent") with
  | Some (Seq (Lit [i] :: _) _), Some (Seq (Lit [d] :: _) _) => (i =? INDENT_C)%N && (d =? DEDENT_C)%N
  | _, _ => false
  end = true.
Proof. exact indent_chars_match. Qed.
Print Assumptions C10_indent_chars_match.

(* what the PEG prescribes for an input is well defined: the interpreter's Ok/Fail answer does not
   depend on the fuel, for every grammar, expression, input and offset *)
Theorem C10_prescription_deterministic : forall g e s off r1 r2,
  prescribes g e s off r1 -> prescribes g e s off r2 -> r1 = r2.
Proof. exact prescribes_deterministic. Qed.
Print Assumptions C10_prescription_deterministic.

(* non-vacuity: the interpreter accepts a small act and builds a typed tree *)
Example C10_example :
  match parse akn_peg (of_string "act") (of_string "SEC 1. - Title
" ++ [INDENT_C; NL] ++ of_string "some **bold** text
" ++ [DEDENT_C; NL]) with POk t => t_types t | _ => [] end
  = [of_string "HierarchicalStructure"; of_string "Act"].
Proof. vm_compute. reflexivity. Qed.
