(* C14 - Footnotes: every reference gets one note and no content vanishes.
   Statements only; proofs in Proofs/PostDisplaced.v.  Model: Model/Post.v. *)
Require Import BB.Base.Str BB.Base.Xml BB.Model.Types BB.Model.Post.
Require Import BB.Proofs.PostDisplaced.

(* for every XML tree (not only parser output): if footnote resolution returns, no internal
   placeholder element is left anywhere in the result *)
Theorem C14_no_displaced_element_survives : forall x y,
  resolve_displaced_content x = OkR y -> forall g, no_displaced_x g y = true.
Proof. exact no_displaced_survives. Qed.
Print Assumptions C14_no_displaced_element_survives.

(* non-vacuity: a reference with a matching block, a reference without one, and a surplus block *)
Definition ex14 : xml :=
  El (of_string "body") []
    [El (of_string "p") [] [Tx (of_string "a"); El (of_string "authorialNote") [(of_string "marker", of_string "1"); (of_string "displaced", of_string "footnote")] []];
     El (of_string "p") [] [El (of_string "authorialNote") [(of_string "marker", of_string "9"); (of_string "displaced", of_string "footnote")] []];
     El (of_string "displaced") [(of_string "marker", of_string "1"); (of_string "name", of_string "footnote")] [El (of_string "p") [] [Tx (of_string "note one")]];
     El (of_string "displaced") [(of_string "marker", of_string "2"); (of_string "name", of_string "footnote")] [El (of_string "p") [] [Tx (of_string "unused")]]].
Example C14_example :
  resolve_displaced_content ex14 = OkR
  (El (of_string "body") []
    [El (of_string "p") [] [Tx (of_string "a"); El (of_string "authorialNote") [(of_string "marker", of_string "1")] [El (of_string "p") [] [Tx (of_string "note one")]]];
     El (of_string "p") [] [El (of_string "authorialNote") [(of_string "marker", of_string "9")] [El (of_string "p") [] [Tx (of_string "(content missing)")]]];
     El (of_string "p") [] [Tx (of_string "FOOTNOTE 2")]; El (of_string "p") [] [Tx (of_string "unused")]]).
Proof. vm_compute. reflexivity. Qed.
