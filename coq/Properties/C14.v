(* C14 - Footnotes: every reference gets one note and no content vanishes.
   Statements only; proofs in Proofs/PostDisplaced.v.  Model: Model/Post.v. *)
Require Import BB.Base.Str BB.Base.Xml BB.Model.Types BB.Model.Post.
Require Import Permutation.
Require Import BB.Proofs.PostDisplaced BB.Proofs.PostConserve BB.Proofs.PostAttr.
Require Import BB.Model.XmlGen BB.Proofs.PostQuiet.

(* for every XML tree (not only parser output): if footnote resolution returns, no internal
   placeholder element is left anywhere in the result *)
Theorem C14_no_displaced_element_survives : forall x y,
  resolve_displaced_content x = OkR y -> forall g, no_displaced_x g y = true.
Proof. exact no_displaced_survives. Qed.
Print Assumptions C14_no_displaced_element_survives.

(* No content vanishes.  The signature of an element is (tag, attributes without the internal displaced attribute,
   its direct text).  For every tree of the shape the XML builder produces (wfDx: a <displaced> block holds elements
   only, carries no displaced attribute and is not followed by a text node): the elements of the result are, as a
   multiset, the elements of the input - every unused block retagged as the paragraph "<NAME> <marker>" that
   stays in the document as ordinary content - minus the blocks that were used (their children are all kept: they
   are now inside the note), plus one "(content missing)" paragraph per reference without a block.  So every
   element that is not an internal block is in the output exactly once, with its attributes and its text. *)
Theorem C14_no_content_vanishes : forall x y,
  wfDx x = true -> resolve_displaced_content x = OkR y ->
  exists used phs,
    Permutation (xsigs y ++ map retag_sig used) (map retag_sig (xsigs x) ++ phs)
    /\ Forall (fun s => fst (fst s) = DISPLACED) used /\ Forall (fun s => s = ph_sig) phs.
Proof. exact displaced_conserves. Qed.
Print Assumptions C14_no_content_vanishes.

(* ... and no internal placeholder attribute either: every element that carries a displaced attribute is one of the
   references collected at the start, each of them is reached (the fuel suffices for every traversal) and loses the
   attribute, and nothing ever gains one.  For every tree of the builder's shape. *)
Theorem C14_no_displaced_attribute_survives : forall x y,
  wfDx x = true -> resolve_displaced_content x = OkR y -> no_dattr_x y = true.
Proof. exact no_displaced_attribute_survives. Qed.
Print Assumptions C14_no_displaced_attribute_survives.

(* non-vacuity: a reference with a matching block, a reference without one, and a surplus block *)
Definition ex14 : xml :=
  El (of_string "body") []
    [El (of_string "p") [] [Tx (of_string "a"); El (of_string "authorialNote") [(of_string "marker", of_string "1"); (of_string "displaced", of_string "footnote")] []];
     El (of_string "p") [] [El (of_string "authorialNote") [(of_string "marker", of_string "9"); (of_string "displaced", of_string "footnote")] []];
     El (of_string "displaced") [(of_string "marker", of_string "1"); (of_string "name", of_string "footnote")] [El (of_string "p") [] [Tx (of_string "note one")]];
     El (of_string "displaced") [(of_string "marker", of_string "2"); (of_string "name", of_string "footnote")] [El (of_string "p") [] [Tx (of_string "unused")]]].
Example C14_example :
  resolve_displaced_content ex14 = OkR
  (El (of_string "body") []
    [El (of_string "p") [] [Tx (of_string "a"); El (of_string "authorialNote") [(of_string "marker", of_string "1")] [El (of_string "p") [] [Tx (of_string "note one")]]];
     El (of_string "p") [] [El (of_string "authorialNote") [(of_string "marker", of_string "9")] [El (of_string "p") [] [Tx (of_string "(content missing)")]]];
     El (of_string "p") [] [Tx (of_string "FOOTNOTE 2")]; El (of_string "p") [] [Tx (of_string "unused")]]).
Proof. vm_compute. reflexivity. Qed.

Example C14_example_is_well_formed : wfDx ex14 = true.
Proof. vm_compute. reflexivity. Qed.

(* Resolution has nothing to do where there are no footnotes: a tree in which no element carries the displaced attribute and none is a
   displaced block comes out as it went in - up to the merging of adjacent text nodes that the serialise / re-parse step of the
   builder does ([normalise_text]).  For every tree (Proofs/PostQuiet.v). *)
Theorem C14_footnote_free_tree_is_left_alone : forall x,
  quiet x = true -> resolve_displaced_content x = OkR (normalise_text (displaced_fuel x) x).
Proof. exact resolve_quiet. Qed.
Print Assumptions C14_footnote_free_tree_is_left_alone.

(* ... and with it: on a tree without footnotes, without childless removable containers, without attachments and with merged text
   nodes, the whole of post-processing is eId generation - nothing else is touched *)
Theorem C14_post_processing_is_eid_generation : forall prefix x,
  quiet x = true -> text_merged x = true -> no_empties x = true -> no_attachment x = true ->
  post_process prefix x = generate_eids prefix x.
Proof. exact post_process_is_eid_generation. Qed.
Print Assumptions C14_post_processing_is_eid_generation.

Example C14_quiet_example :
  let x := El (of_string "section") [] [El (of_string "num") [] [Tx (of_string "1")]; El (of_string "content") [] [El (of_string "p") [] [Tx (of_string "a"); El (of_string "b") [] [Tx (of_string "c")]; Tx (of_string "d")]]] in
  quiet x = true /\ text_merged x = true /\ no_empties x = true /\ no_attachment x = true.
Proof. vm_compute. repeat split. Qed.
