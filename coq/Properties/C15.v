(* C15 - Attachments are separately identified, correctly nested documents.
   Statements only; proofs in Proofs/Attach.v.  Model: Model/XmlGen.v (attachment_name, item_to_xml). *)
Require Import BB.Base.Str BB.Base.Xml BB.Base.Dict BB.Model.Types BB.Model.Eid BB.Model.XmlGen.
Require Import BB.Gen.TablesXml BB.Model.EidSpec BB.Proofs.Attach BB.Proofs.EidNest.
Require Import BB.Model.Post BB.Proofs.PostQuiet.

(* for every generator state: the component is <parent component>/<keyword>_<n>, with n one more
   than the number of earlier attachments under the same parent with the same keyword; nothing else
   in the generator state moves *)
Theorem C15_attachment_name_spec : forall attribs g,
  let '(name, key) := att_key attribs g in
  let '(full, g') := attachment_name attribs g in
  let n := S (count (g_counters g) ATTACHMENTS_KEY key) in
  full = match g_stack g with
         | p :: _ => p ++ SLASH :: name ++ USCORE :: nat_dec n
         | [] => name ++ USCORE :: nat_dec n
         end
  /\ g_stack g' = g_stack g
  /\ count (g_counters g') ATTACHMENTS_KEY key = n
  /\ (forall k2, k2 <> key -> count (g_counters g') ATTACHMENTS_KEY k2 = count (g_counters g) ATTACHMENTS_KEY k2).
Proof. exact attachment_name_spec. Qed.
Print Assumptions C15_attachment_name_spec.

(* non-vacuity: two schedules, the second with a nested annexure *)
Example C15_example :
  let '(n1, g1) := attachment_name (Some [(of_string "name", of_string "schedule")]) (mkG [] []) in
  let '(n2, g2) := attachment_name (Some [(of_string "name", of_string "schedule")]) g1 in
  let '(n3, _) := attachment_name (Some [(of_string "name", of_string "annexure")]) (mkG (g_counters g2) [n2]) in
  (n1, n2, n3) = (of_string "schedule_1", of_string "schedule_2", of_string "schedule_2/annexure_1").
Proof. vm_compute. reflexivity. Qed.

(* the eIds of an attachment's content live under its own att_<n> id - as do the ids below every identified
   element, at every depth: in every tree the generator returns, from any prefix and any generator state, each id
   below an identified element is that element's id followed by "__..." *)
Theorem C15_ids_live_under_their_container : forall e q s e' s',
  rewrite_eid e q s = Some (e', s') -> ids_nested e'.
Proof. exact rewrite_ids_nested. Qed.
Print Assumptions C15_ids_live_under_their_container.

(* non-vacuity: an attachment with a heading and a nested document holding a paragraph and a nested attachment *)
Definition ex15 : xml :=
  El (of_string "attachments") []
    [El (of_string "attachment") []
       [El (of_string "heading") [] [Tx (of_string "First")];
        El (of_string "doc") [] [El (of_string "mainBody") []
           [El (of_string "p") [] [Tx (of_string "text")];
            El (of_string "attachments") [] [El (of_string "attachment") [] [El (of_string "doc") [] [El (of_string "mainBody") [] [El (of_string "p") [] []]]]]]]]].
Example C15_nesting_example :
  option_map (fun r => ids_of (fst r)) (rewrite_all_eids ex15 []) =
  Some [of_string "att_1"; of_string "att_1__p_1"; of_string "att_1__att_1"; of_string "att_1__att_1__p_1"].
Proof. vm_compute. reflexivity. Qed.

(* setting attachment titles touches attachments only: a tree without any comes out as it went in, for every tree and fuel *)
Theorem C15_titles_touch_attachments_only : forall f x, no_attachment x = true -> set_attachment_titles f x = x.
Proof. exact titles_quiet. Qed.
Print Assumptions C15_titles_touch_attachments_only.
