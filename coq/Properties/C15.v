(* C15 - Attachments are separately identified, correctly nested documents.
   Statements only; proofs in Proofs/Attach.v.  Model: Model/XmlGen.v (attachment_name, item_to_xml). *)
Require Import BB.Base.Str BB.Base.Xml BB.Base.Dict BB.Model.Types BB.Model.Eid BB.Model.XmlGen.
Require Import BB.Proofs.Attach.

(* for every generator state: the component is <parent component>/<keyword>_<n>, with n one more
   than the number of earlier attachments under the same parent with the same keyword; nothing else
   in the generator state moves *)
Theorem C15_attachment_name_spec : forall attribs g,
  let '(name, key) := att_key attribs g in
  let '(full, g') := attachment_name attribs g in
  let n := S (count (g_counters g) ATTACHMENTS_KEY key) in
  full = match g_stack g with
         | p :: _ => p ++ SLASH :: name ++ USCORE :: nat_dec n
         | [] => name ++ USCORE :: nat_dec n
         end
  /\ g_stack g' = g_stack g
  /\ count (g_counters g') ATTACHMENTS_KEY key = n
  /\ (forall k2, k2 <> key -> count (g_counters g') ATTACHMENTS_KEY k2 = count (g_counters g) ATTACHMENTS_KEY k2).
Proof. exact attachment_name_spec. Qed.
Print Assumptions C15_attachment_name_spec.

(* non-vacuity: two schedules, the second with a nested annexure *)
Example C15_example :
  let '(n1, g1) := attachment_name (Some [(of_string "name", of_string "schedule")]) (mkG [] []) in
  let '(n2, g2) := attachment_name (Some [(of_string "name", of_string "schedule")]) g1 in
  let '(n3, _) := attachment_name (Some [(of_string "name", of_string "annexure")]) (mkG (g_counters g2) [n2]) in
  (n1, n2, n3) = (of_string "schedule_1", of_string "schedule_2", of_string "schedule_2/annexure_1").
Proof. vm_compute. reflexivity. Qed.
