(* C12 - Nesting follows indentation order; layout noise is irrelevant.
   Only statements here; proofs are in Proofs/PreParse*.v. *)
Require Import BB.Base.Str BB.Gen.TablesParser BB.Model.PreParse BB.Model.PreParseSpec.
Require Import BB.Proofs.PreParseNF BB.Proofs.PreParseInvariance BB.Proofs.PreParseScale BB.Proofs.PreParseTrailing.
Require Import BB.Base.Xml BB.Model.Convert BB.Gen.TablesLibs BB.Proofs.PegLine BB.Proofs.LineRule BB.Proofs.PlainLineConvert BB.Proofs.PreParseStair BB.Proofs.HierElement BB.Proofs.HierElementConvert BB.Proofs.HierChainConvert BB.Proofs.EscapeLossless BB.Proofs.HierNoHeading BB.Proofs.HierNoHeadingConvert BB.Proofs.Totality BB.Model.Eid BB.Model.EidSpec BB.Model.XmlGen BB.Base.Dict BB.Model.PegSyntax BB.Model.Peg BB.Model.Types BB.Proofs.LayoutDocument.

(* For every text over the alphabet: the first content line is at depth 0 and, for every two
   consecutive non-blank lines with indentation widths w, w' and depths d, d' (depth = number of
   INDENT minus DEDENT lines before the line in the pre-parsed text):
     w < w' -> d' = d + 1      w' = w -> d' = d      w' < w -> d' <= d
   ([follows], Model/PreParseSpec.v). Holds for the code after the fix: commit (before it the last
   two clauses were false: a/····b/········c/··d/··e nested e under d). *)
Theorem C12_nesting_follows_indentation : forall size s,
  alphabet_ok s = true ->
  exists o, pre_parse size s = Some o /\
    (cleaned size s = [] \/
     exists ls, o = unlines ls /\ nesting_ok (map (rstrip is_sp) (split_on NL (cleaned size s))) ls).
Proof. exact pre_parse_nesting. Qed.
Print Assumptions C12_nesting_follows_indentation.

(* a tab is the same as indent_size spaces, anywhere, for all texts *)
Theorem C12_tab_is_spaces : forall size a b,
  pre_parse size (a ++ TAB :: b) = pre_parse size (a ++ repeat SP size ++ b).
Proof. exact tab_is_spaces. Qed.
Print Assumptions C12_tab_is_spaces.

(* blank lines (any whitespace) before and after the text are irrelevant, for all texts *)
Theorem C12_outer_whitespace_irrelevant : forall size a s b,
  forallb py_isspace a = true -> forallb py_isspace b = true ->
  pre_parse size (a ++ s ++ b) = pre_parse size s.
Proof. exact outer_whitespace_irrelevant. Qed.
Print Assumptions C12_outer_whitespace_irrelevant.

(* spaces at the end of a line are irrelevant, for all texts, every line break in them and any number of
   spaces in front of it (spaces at the very end of the text are covered by the theorem above) *)
Theorem C12_trailing_spaces_irrelevant : forall size a n b,
  pre_parse size (a ++ repeat SP n ++ NL :: b) = pre_parse size (a ++ NL :: b).
Proof. exact trailing_spaces_irrelevant. Qed.
Print Assumptions C12_trailing_spaces_irrelevant.

(* multiplying all indentation by a constant k >= 1 changes nothing, for every text in cleaned form
   (lines without tab, not ending in a space, first and last character of the text not blank) and every
   indent size: the indentation pass only compares levels, so any strictly monotone renumbering of
   them gives the same markers (process_scale) *)
Theorem C12_indent_scaling : forall size k ls,
  (1 <= k)%nat -> good_lines ls ->
  pre_parse size (join_on NL (map (scale_line k) ls)) = pre_parse size (join_on NL ls).
Proof. exact indent_scaling. Qed.
Print Assumptions C12_indent_scaling.

Example C12_scaling_example :
  good_lines [of_string "a"; of_string "  b"; of_string "      c"; of_string " d"]
  /\ map (scale_line 3) [of_string "a"; of_string "  b"; of_string " d"] = [of_string "a"; of_string "      b"; of_string "   d"].
Proof.
  split; [|reflexivity]. split; [|split].
  - repeat (apply Forall_cons; [split; [repeat (apply Forall_cons; [split; discriminate|]); apply Forall_nil|right]|]); try apply Forall_nil.
    + exists [], 97%N. split; reflexivity.
    + exists (of_string "  "), 98%N. split; reflexivity.
    + exists (of_string "      "), 99%N. split; reflexivity.
    + exists (of_string " "), 100%N. split; reflexivity.
  - exists 97%N, [], [of_string "  b"; of_string "      c"; of_string " d"]. split; reflexivity.
  - exists [of_string "a"; of_string "  b"; of_string "      c"], (of_string " "), 100%N. split; reflexivity.
Qed.

(* non-vacuity: the shape that used to break (multi-dedent landing between two levels) *)
Example C12_between_levels :
  pre_parse 2 (of_string "a
    b
        c
  d
  e
 f
") = Some (of_string "a
" ++ [INDENT_C; NL] ++ of_string "b
" ++ [INDENT_C; NL] ++ of_string "c
" ++ [DEDENT_C; NL; DEDENT_C; NL] ++ of_string "d
e
f
").
Proof. reflexivity. Qed.

(* A staircase of any height: lines with strictly growing indentation - any number of them, any widths, each line without tab or line
   break and not blank at its ends - are pre-parsed into as many nested blocks: an indent marker line before every line after the
   first, all the dedent marker lines at the end.  There is no depth at which nesting stops and no width beyond which indentation is
   read differently (Proofs/PreParseStair.v). *)
Theorem C12_staircase_of_any_height : forall size r0 rows,
  fst r0 = 0%nat -> growing 0 rows -> Forall (fun r => line_ok (snd r)) (r0 :: rows) ->
  pre_parse size (stair_text (r0 :: rows)) = Some (stair_out (r0 :: rows)).
Proof. exact pre_parse_stair. Qed.
Print Assumptions C12_staircase_of_any_height.

Example C12_staircase_example :
  let rows := [(0%nat, of_string "a"); (1%nat, of_string "b c"); (9%nat, of_string "d"); (50%nat, of_string "e")] in
  growing 0 (tl rows) /\ Forall (fun r => line_ok (snd r)) rows
  /\ pre_parse 2 (stair_text rows) = Some (of_string "a" ++ [NL; INDENT_C; NL] ++ of_string "b c" ++ [NL; INDENT_C; NL] ++ of_string "d" ++ [NL; INDENT_C; NL] ++ of_string "e"
                                         ++ [NL; DEDENT_C; NL; DEDENT_C; NL; DEDENT_C; NL]).
Proof.
  split; [cbn; repeat split; lia|]. split; [|vm_compute; reflexivity].
  repeat constructor; try (unfold TAB, NL; cbn; discriminate); cbn; try reflexivity.
Qed.

(* At the level of the DOCUMENT, through the whole pipeline model, for nests of hierarchical elements of any depth: only the order of the
   indentation widths matters.  The same levels and the same line, indented by any two strictly growing sequences of widths (scaled by
   a constant, shifted, irregular), convert to the same document (Proofs/HierChainConvert.v). *)
Theorem C12_nested_document_ignores_indentation_widths : forall uri prefix l0 (lv lv' : list (nat * plevel)) kt kt' t root_meta att_meta,
  assoc_str uri meta_templates = Some (root_meta, att_meta) ->
  map snd lv = map snd lv' ->
  Forall plevel_full (l0 :: map snd lv) ->
  growing 0 (map (fun kl => (fst kl, header (snd kl))) lv ++ [(kt, t)]) ->
  growing 0 (map (fun kl => (fst kl, header (snd kl))) lv' ++ [(kt', t)]) ->
  plain_text t -> none_starts block_lits t = true -> p_safe t = true -> starts_with SUBH t = false -> no_ctl_start t = true ->
  convert uri (of_string "hier_element") prefix (stair_text ((0%nat, header l0) :: rows_of lv kt t))
  = convert uri (of_string "hier_element") prefix (stair_text ((0%nat, header l0) :: rows_of lv' kt' t)).
Proof. exact nest_ignores_widths. Qed.
Print Assumptions C12_nested_document_ignores_indentation_widths.


(* Blank lines are layout too: in a hierarchical element - with a heading or without - the number of blank lines between the keyword
   line and its content, and the width of the content's indentation, do not change the document (corollaries of the whole-pipeline
   conversion theorems, Proofs/HierElementConvert.v and Proofs/HierNoHeadingConvert.v). *)
Theorem C12_hier_element_layout_irrelevant : forall uri prefix kw n uh ut k1 b1 k2 b2 root_meta att_meta,
  assoc_str uri meta_templates = Some (root_meta, att_meta) ->
  In kw hier_keywords ->
  num_ok n -> Forall (fun c => c <> TAB) n -> clean_num n <> [] -> valid_text n = true ->
  written_text uh -> written_text ut ->
  let L := encode ut ++ NL :: 15 :: [NL] in
  none_starts block_lits L = true -> p_safe L = true -> starts_with SUBH L = false -> no_ctl_start (encode ut) = true ->
  (1 <= k1)%nat -> (1 <= k2)%nat ->
  convert uri (of_string "hier_element") prefix (kw ++ 32 :: n ++ 32 :: 45 :: 32 :: encode uh ++ NL :: repeat NL b1 ++ repeat SP k1 ++ encode ut ++ [NL])
  = convert uri (of_string "hier_element") prefix (kw ++ 32 :: n ++ 32 :: 45 :: 32 :: encode uh ++ NL :: repeat NL b2 ++ repeat SP k2 ++ encode ut ++ [NL]).
Proof. exact hier_element_layout_irrelevant. Qed.
Print Assumptions C12_hier_element_layout_irrelevant.

Theorem C12_hier_element_without_heading_layout_irrelevant : forall uri prefix kw n ut k1 b1 k2 b2 root_meta att_meta,
  assoc_str uri meta_templates = Some (root_meta, att_meta) ->
  In kw hier_keywords ->
  num_ok n -> Forall (fun c => c <> TAB) n -> py_isspace (last n 0) = false -> clean_num n <> [] -> valid_text n = true ->
  written_text ut ->
  let L := encode ut ++ NL :: 15 :: [NL] in
  none_starts block_lits L = true -> p_safe L = true -> starts_with SUBH L = false -> no_ctl_start (encode ut) = true ->
  (1 <= k1)%nat -> (1 <= k2)%nat ->
  convert uri (of_string "hier_element") prefix (kw ++ 32 :: n ++ NL :: repeat NL b1 ++ repeat SP k1 ++ encode ut ++ [NL])
  = convert uri (of_string "hier_element") prefix (kw ++ 32 :: n ++ NL :: repeat NL b2 ++ repeat SP k2 ++ encode ut ++ [NL]).
Proof. exact hier_element_layout_irrelevant_nh. Qed.
Print Assumptions C12_hier_element_without_heading_layout_irrelevant.


(* ---------- the same at DOCUMENT level, for every text ----------
   The pipeline model reads its input only through pre_parse, so each invariance above is an invariance of the converted document -
   or of the error when the conversion fails: both sides fail alike.  Every URI, every root rule, every prefix, every text
   (Proofs/LayoutDocument.v).  The model is tied to the code by the e2e stage; the C12 check runs the same four variations on the
   implementation's documents. *)
Theorem C12_document_tab_is_spaces : forall uri root prefix a b,
  convert uri root prefix (a ++ TAB :: b) = convert uri root prefix (a ++ repeat SP default_indent_size ++ b).
Proof. exact document_tab_is_spaces. Qed.
Print Assumptions C12_document_tab_is_spaces.

Theorem C12_document_outer_whitespace_irrelevant : forall uri root prefix a s b,
  forallb py_isspace a = true -> forallb py_isspace b = true ->
  convert uri root prefix (a ++ s ++ b) = convert uri root prefix s.
Proof. exact document_outer_whitespace_irrelevant. Qed.
Print Assumptions C12_document_outer_whitespace_irrelevant.

Theorem C12_document_trailing_spaces_irrelevant : forall uri root prefix a n b,
  convert uri root prefix (a ++ repeat SP n ++ NL :: b) = convert uri root prefix (a ++ NL :: b).
Proof. exact document_trailing_spaces_irrelevant. Qed.
Print Assumptions C12_document_trailing_spaces_irrelevant.

Theorem C12_document_indent_scaling : forall uri root prefix k ls,
  (1 <= k)%nat -> good_lines ls ->
  convert uri root prefix (join_on NL (map (scale_line k) ls)) = convert uri root prefix (join_on NL ls).
Proof. exact document_indent_scaling. Qed.
Print Assumptions C12_document_indent_scaling.

(* not vacuous: a document that converts, written with a tab, trailing spaces and blank lines around it *)
Example C12_document_layout_example :
  exists x,
    convert (of_string "/akn/za/act/2009/1") (of_string "hier_element") [] (of_string "SEC 1. - h
  SUBSEC (a)
    text
") = OkR x
    /\ convert (of_string "/akn/za/act/2009/1") (of_string "hier_element") []
         ([NL; SP; NL] ++ of_string "SEC 1. - h   
" ++ TAB :: of_string "SUBSEC (a)
    text  

 
") = OkR x.
Proof. eexists. split; vm_compute; reflexivity. Qed.
