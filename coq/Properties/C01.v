(* C01 - Conversion is total: no input text is ever refused.
   [partial] The full statement is FALSE of the code as it stands: three refutation witnesses are
   proved on the model (and replayed on the implementation by the check).  What is proved: the
   pre-parse stage is total, and the grammar's fallback rule never fails on a non-newline character.
   Totality of the whole grammar stage is decided by the search.  Proofs in Proofs/Totality.v. *)
Require Import BB.Base.Str BB.Base.Xml BB.Model.PreParse BB.Model.PreParseSpec BB.Model.PegSyntax BB.Model.Peg.
Require Import BB.Model.Types BB.Model.XmlGen BB.Model.Eid BB.Model.EidSpec BB.Model.Convert BB.Gen.Grammar BB.Gen.TablesParser BB.Gen.TablesLibs.
Require Import BB.Base.Dict BB.Proofs.Totality BB.Proofs.PegEscape BB.Proofs.EscapeLossless BB.Proofs.PegPlain BB.Proofs.PegLine BB.Proofs.LineRule BB.Proofs.PlainLine BB.Proofs.PlainLineConvert.

Theorem C01_pre_parse_total : forall size s, alphabet_ok s = true -> exists o, pre_parse size s = Some o.
Proof. exact pre_parse_total. Qed.
Print Assumptions C01_pre_parse_total.

Theorem C01_inline_never_fails : forall f c rest off,
  scalar c -> c <> NL ->
  run akn_peg (S (S (S (S f)))) (Ref (of_string "inline")) (c :: rest) off <> Fail.
Proof. exact inline_never_fails. Qed.
Print Assumptions C01_inline_never_fails.

(* "Text the parser does not understand is kept as plain paragraphs": a line that starts with none of the block
   keywords (the FIRST literals of every block rule of the regenerated grammar, nor P followed by a space, a dot or a
   brace), holds no backslash and no doubled inline marker (two stars, slashes, underscores or braces) is accepted by hier_block_element - through the fallback
   rule line - up to its line end, and to_dict turns it into ONE p whose text children spell exactly the line.
   For every such line, every context (pre, rest) and any sufficient fuel. *)
Theorem C01_unrecognised_line_is_a_paragraph : forall s pre rest f f',
  s <> [] -> Forall okc s -> Forall (fun c => c <> EscapeLossless.BS) s -> has_double s = false ->
  none_starts block_lits (s ++ NL :: rest) = true -> p_safe (s ++ NL :: rest) = true -> no_ctl_start s = true ->
  exists rest' off' tree ds,
    run akn_peg (26 + f) (Ref (of_string "hier_block_element")) (s ++ NL :: rest) (len_N pre) = Ok rest' off' tree
    /\ to_dict (pre ++ s ++ NL :: rest) (2 + f') tree
       = OkR (DNode (Types.S_ "content") (Types.S_ "p") None None None None None None (Some ds))
    /\ Forall is_dtext ds /\ concat (map dval ds) = s.
Proof. exact plain_line_is_paragraph. Qed.
Print Assumptions C01_unrecognised_line_is_a_paragraph.

(* non-vacuity: a line with a stray star, braces and a word that merely resembles a keyword *)
Example C01_plain_line_example :
  let s := of_string "Partly * cloudy {x} SECtion 2/3" in
  has_double s = false /\ none_starts block_lits (s ++ [NL]) = true /\ p_safe (s ++ [NL]) = true /\ no_ctl_start s = true.
Proof. vm_compute. repeat split. Qed.

(* The same through the WHOLE pipeline - pre_parse, grammar, to_dict, XML builder, footnote resolution, normalisation, eId
   generation, attachment titles: for every FRBR URI the model knows, every eId prefix and every line that starts with no block
   keyword, holds no backslash, no doubled marker and no tab, has no blank at either end and only characters XML can hold,
   conversion as a fragment completes and returns exactly one paragraph holding that line, with the eId the naming convention gives
   the first paragraph under the caller's prefix. *)
Theorem C01_plain_line_converts : forall uri prefix s root_meta att_meta,
  assoc_str uri meta_templates = Some (root_meta, att_meta) ->
  s <> [] -> Forall okc s -> Forall (fun c => c <> EscapeLossless.BS) s -> has_double s = false ->
  none_starts block_lits (s ++ [NL]) = true -> p_safe (s ++ [NL]) = true -> no_ctl_start s = true ->
  Forall (fun c => c <> TAB) s -> edge_ok s -> valid_text s = true ->
  convert uri (of_string "hier_block_element") prefix (s ++ [NL])
  = OkR (para (candidate prefix P_TAG (of_string "1")) s).
Proof. exact plain_line_converts. Qed.
Print Assumptions C01_plain_line_converts.

(* the instance the theorem predicts, evaluated *)
Example C01_plain_line_converts_example :
  let s := of_string "Partly * cloudy {x} SECtion 2/3" in
  convert (of_string "/akn/za/act/2009/1") (of_string "hier_block_element") (of_string "chp_1") (s ++ [NL])
  = OkR (El (of_string "p") [(of_string "eId", of_string "chp_1__p_1")] [Tx s])
  /\ edge_ok s /\ valid_text s = true.
Proof. split; [vm_compute; reflexivity|]. split; [split|]; vm_compute; reflexivity. Qed.

(* known finding F1 *)
Theorem C01_refuted_attachment_keyword_with_junk :
  convert URI1 (of_string "act") [] (of_string "SCHEDULES
") = ErrR E_PARSE.
Proof. exact refuted_attachment_keyword_with_junk. Qed.
Print Assumptions C01_refuted_attachment_keyword_with_junk.

(* known finding F2 *)
Theorem C01_refuted_illegal_character :
  convert URI1 (of_string "doc") [] [97; 1; 98; 10]%N = ErrR E_XML.
Proof. exact refuted_illegal_character. Qed.
Print Assumptions C01_refuted_illegal_character.

(* known finding F3 *)
Theorem C01_refuted_illegal_attribute_name :
  convert URI1 (of_string "act") [] (of_string "P{1 x} foo
") = ErrR E_XML.
Proof. exact refuted_illegal_attribute_name. Qed.
Print Assumptions C01_refuted_illegal_attribute_name.
