(* C01 - Conversion is total: no input text is ever refused.
   [partial] The full statement is FALSE of the code as it stands: three refutation witnesses are
   proved on the model (and replayed on the implementation by the check).  What is proved: the
   pre-parse stage is total, and the grammar's fallback rule never fails on a non-newline character.
   Totality of the whole grammar stage is decided by the search.  Proofs in Proofs/Totality.v. *)
Require Import BB.Base.Str BB.Base.Xml BB.Model.PreParse BB.Model.PreParseSpec BB.Model.PegSyntax BB.Model.Peg.
Require Import BB.Model.Types BB.Model.XmlGen BB.Model.Convert BB.Gen.Grammar.
Require Import BB.Proofs.Totality.

Theorem C01_pre_parse_total : forall size s, alphabet_ok s = true -> exists o, pre_parse size s = Some o.
Proof. exact pre_parse_total. Qed.
Print Assumptions C01_pre_parse_total.

Theorem C01_inline_never_fails : forall f c rest off,
  scalar c -> c <> NL ->
  run akn_peg (S (S (S (S f)))) (Ref (of_string "inline")) (c :: rest) off <> Fail.
Proof. exact inline_never_fails. Qed.
Print Assumptions C01_inline_never_fails.

(* known finding F1 *)
Theorem C01_refuted_attachment_keyword_with_junk :
  convert URI1 (of_string "act") [] (of_string "SCHEDULES
") = ErrR E_PARSE.
Proof. exact refuted_attachment_keyword_with_junk. Qed.
Print Assumptions C01_refuted_attachment_keyword_with_junk.

(* known finding F2 *)
Theorem C01_refuted_illegal_character :
  convert URI1 (of_string "doc") [] [97; 1; 98; 10]%N = ErrR E_XML.
Proof. exact refuted_illegal_character. Qed.
Print Assumptions C01_refuted_illegal_character.

(* known finding F3 *)
Theorem C01_refuted_illegal_attribute_name :
  convert URI1 (of_string "act") [] (of_string "P{1 x} foo
") = ErrR E_XML.
Proof. exact refuted_illegal_attribute_name. Qed.
Print Assumptions C01_refuted_illegal_attribute_name.
