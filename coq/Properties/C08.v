(* C08 - eIds follow the naming convention and are stable under unrelated edits.
   Statements only; proofs in Proofs/EidConvention.v. *)
Require Import BB.Base.Str BB.Base.Xml BB.Gen.TablesXml BB.Model.Eid BB.Model.EidSpec.
Require Import BB.Proofs.EidConvention BB.Proofs.EidTop BB.Proofs.EidLocal BB.Proofs.EidNest.

(* For every tree, prefix and generator state: every identified element's id is
   <prefix handed down>__<abbreviation>_<number part>, possibly followed by _k suffixes, where the
   number part is the cleaned num, or nn, or a position counter, and the prefix handed down is the
   nearest identified ancestor's id extended by __<name> for each transparent container
   ([convention_ok], Model/EidSpec.v). *)
Theorem C08_naming_convention : forall e q s e' s',
  rewrite_eid e q s = Some (e', s') -> convention_ok q e'.
Proof. exact rewrite_convention. Qed.
Print Assumptions C08_naming_convention.

(* [partial] If every identified element along the ancestor path of a provision takes its number
   from its own non-empty cleaned num and carries no _k suffix, its id is [path_eid] of the
   (name, num) labels along the path: a function of the path alone.  Not proved here: that
   "uniquely numbered" implies "no suffix" (needs unique decomposition of ids at underscores). *)
Theorem C08_path_determined_partial : forall pi e' q labels x,
  path_labels e' pi = Some (labels, x) -> path_unsuffixed q e' pi ->
  match x with
  | El tag a _ => identifiable tag = true -> old_id a = path_eid q labels
  | Tx _ => False
  end.
Proof. exact eid_path_determined. Qed.
Print Assumptions C08_path_determined_partial.

Theorem C08_stable_under_edit_partial : forall e1 e2 q pi1 pi2 labels tag1 a1 k1 tag2 a2 k2,
  path_labels e1 pi1 = Some (labels, El tag1 a1 k1) -> path_unsuffixed q e1 pi1 ->
  path_labels e2 pi2 = Some (labels, El tag2 a2 k2) -> path_unsuffixed q e2 pi2 ->
  identifiable tag1 = true -> identifiable tag2 = true -> old_id a1 = old_id a2.
Proof. exact eid_stable_under_edit. Qed.
Print Assumptions C08_stable_under_edit_partial.

(* Stability under unrelated edits, for whole subtrees: the ids given to a subtree under prefix q depend on
   the generator state only through the keys under q (q itself or q__...).  An edit elsewhere in the
   document changes the state the generator is in when it reaches the subtree, but if the two states agree
   on those keys the subtree's ids - all of them - are the same. *)
Theorem C08_subtree_ids_local : forall e q s t e' s1,
  agree (under q) s t -> rewrite_eid e q s = Some (e', s1) ->
  exists t1, rewrite_eid e q t = Some (e', t1) /\ agree (under q) s1 t1.
Proof. intros e q s t e' s1. apply rewrite_eid_local. intros k Hk. exact Hk. Qed.
Print Assumptions C08_subtree_ids_local.

(* the naming convention, read from the tree alone: below every identified element, every id is that element's id
   followed by "__...", at every depth *)
Theorem C08_ids_nest : forall e q s e' s', rewrite_eid e q s = Some (e', s') -> ids_nested e'.
Proof. exact rewrite_ids_nested. Qed.
Print Assumptions C08_ids_nest.
