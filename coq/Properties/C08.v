(* C08 - eIds follow the naming convention and are stable under unrelated edits.
   Statements only; proofs in Proofs/EidConvention.v. *)
Require Import BB.Base.Str BB.Base.Xml BB.Gen.TablesXml BB.Model.Eid BB.Model.EidSpec.
Require Import BB.Proofs.EidConvention BB.Proofs.EidTop BB.Proofs.EidLocal BB.Proofs.EidNest BB.Proofs.EidFirst BB.Proofs.EidDecompose.

(* For every tree, prefix and generator state: every identified element's id is
   <prefix handed down>__<abbreviation>_<number part>, possibly followed by _k suffixes, where the
   number part is the cleaned num, or nn, or a position counter, and the prefix handed down is the
   nearest identified ancestor's id extended by __<name> for each transparent container
   ([convention_ok], Model/EidSpec.v). *)
Theorem C08_naming_convention : forall e q s e' s',
  rewrite_eid e q s = Some (e', s') -> convention_ok q e'.
Proof. exact rewrite_convention. Qed.
Print Assumptions C08_naming_convention.

(* [partial] If every identified element along the ancestor path of a provision takes its number
   from its own non-empty cleaned num and carries no _k suffix, its id is [path_eid] of the
   (name, num) labels along the path: a function of the path alone.  Not proved here: that
   "uniquely numbered" implies "no suffix" (needs unique decomposition of ids at underscores). *)
Theorem C08_path_determined_partial : forall pi e' q labels x,
  path_labels e' pi = Some (labels, x) -> path_unsuffixed q e' pi ->
  match x with
  | El tag a _ => identifiable tag = true -> old_id a = path_eid q labels
  | Tx _ => False
  end.
Proof. exact eid_path_determined. Qed.
Print Assumptions C08_path_determined_partial.

Theorem C08_stable_under_edit_partial : forall e1 e2 q pi1 pi2 labels tag1 a1 k1 tag2 a2 k2,
  path_labels e1 pi1 = Some (labels, El tag1 a1 k1) -> path_unsuffixed q e1 pi1 ->
  path_labels e2 pi2 = Some (labels, El tag2 a2 k2) -> path_unsuffixed q e2 pi2 ->
  identifiable tag1 = true -> identifiable tag2 = true -> old_id a1 = old_id a2.
Proof. exact eid_stable_under_edit. Qed.
Print Assumptions C08_stable_under_edit_partial.

(* Stability under unrelated edits, for whole subtrees: the ids given to a subtree under prefix q depend on
   the generator state only through the keys under q (q itself or q__...).  An edit elsewhere in the
   document changes the state the generator is in when it reaches the subtree, but if the two states agree
   on those keys the subtree's ids - all of them - are the same. *)
Theorem C08_subtree_ids_local : forall e q s t e' s1,
  agree (under q) s t -> rewrite_eid e q s = Some (e', s1) ->
  exists t1, rewrite_eid e q t = Some (e', t1) /\ agree (under q) s1 t1.
Proof. intros e q s t e' s1. apply rewrite_eid_local. intros k Hk. exact Hk. Qed.
Print Assumptions C08_subtree_ids_local.

(* the naming convention, read from the tree alone: below every identified element, every id is that element's id
   followed by "__...", at every depth *)
Theorem C08_ids_nest : forall e q s e' s', rewrite_eid e q s = Some (e', s') -> ids_nested e'.
Proof. exact rewrite_ids_nested. Qed.
Print Assumptions C08_ids_nest.

(* "clashes get a _2, _3 suffix in document order": in the output of a run, a numbered element carries its bare candidate
   <prefix>__<abbr>_<num> unless an EARLIER element - earlier in document order - was given an id built on that very candidate (the
   candidate itself, or the candidate followed by _k suffixes).  [first_ok q L e'] says this of every element of e', L being the ids
   issued before e' (Proofs/EidFirst.v). *)
Theorem C08_clash_suffix_in_document_order : forall e q e' m,
  rewrite_all_eids e q = Some (e', m) -> first_ok q [] e'.
Proof. exact first_asker_unsuffixed. Qed.
Print Assumptions C08_clash_suffix_in_document_order.

(* The second sentence of the property, no longer partial: in the output of a run, a provision all of whose identified ancestors,
   and itself, carry a num on which no earlier id is built ([path_first]) has the id spelled by the names and numbers along its
   ancestor path - nothing else in the document matters. *)
Theorem C08_path_determined : forall e q e' m pi labels tag a ks,
  rewrite_all_eids e q = Some (e', m) ->
  path_labels e' pi = Some (labels, El tag a ks) -> path_first q [] e' pi ->
  identifiable tag = true -> old_id a = path_eid q labels.
Proof. exact unique_path_determined. Qed.
Print Assumptions C08_path_determined.

(* ... and so two documents, however different, give the same id to a provision that has the same labels along its path and is
   uniquely numbered along it in both. *)
Theorem C08_stable_under_edit : forall e1 e2 q e1' m1 e2' m2 pi1 pi2 labels tag1 a1 k1 tag2 a2 k2,
  rewrite_all_eids e1 q = Some (e1', m1) -> rewrite_all_eids e2 q = Some (e2', m2) ->
  path_labels e1' pi1 = Some (labels, El tag1 a1 k1) -> path_first q [] e1' pi1 ->
  path_labels e2' pi2 = Some (labels, El tag2 a2 k2) -> path_first q [] e2' pi2 ->
  identifiable tag1 = true -> identifiable tag2 = true -> old_id a1 = old_id a2.
Proof. exact unique_path_stable. Qed.
Print Assumptions C08_stable_under_edit.

(* the premises are met: two documents that differ away from section 2(a) - an inserted section, a duplicated number, other
   content - and the subsection's id in both *)
Definition c08_num (s : String.string) : xml := El (of_string "num") [] [Tx (of_string s)].
Definition c08_sec (n : String.string) (kids : list xml) : xml := El (of_string "section") [] (c08_num n :: kids).
Definition c08_sub (n : String.string) : xml := El (of_string "subsection") [] [c08_num n; El (of_string "content") [] [El (of_string "p") [] [Tx (of_string "x")]]].
Definition c08_doc1 : xml := El (of_string "body") [] [c08_sec "1." [c08_sub "(a)"]; c08_sec "2." [c08_sub "(a)"]].
Definition c08_doc2 : xml := El (of_string "body") [] [c08_sec "1." [c08_sub "(a)"; c08_sub "(a)"]; c08_sec "1." []; c08_sec "9" [c08_sub "(b)"]; c08_sec "2." [c08_sub "(a)"; c08_sub "(a)"]].
Example C08_stable_example :
  exists e1' m1 e2' m2 a1 k1 a2 k2 labels,
    rewrite_all_eids c08_doc1 [] = Some (e1', m1) /\ rewrite_all_eids c08_doc2 [] = Some (e2', m2)
    /\ path_labels e1' [1; 1]%nat = Some (labels, El (of_string "subsection") a1 k1) /\ path_first [] [] e1' [1; 1]%nat
    /\ path_labels e2' [3; 1]%nat = Some (labels, El (of_string "subsection") a2 k2) /\ path_first [] [] e2' [3; 1]%nat
    /\ old_id a1 = of_string "sec_2__subsec_a" /\ old_id a2 = of_string "sec_2__subsec_a".
Proof.
  destruct (rewrite_all_eids c08_doc1 []) as [[e1' m1]|] eqn:E1; [|vm_compute in E1; discriminate].
  destruct (rewrite_all_eids c08_doc2 []) as [[e2' m2]|] eqn:E2; [|vm_compute in E2; discriminate].
  vm_compute in E1, E2. inversion E1; subst e1' m1. inversion E2; subst e2' m2. clear E1 E2.
  do 9 eexists. split; [reflexivity|]. split; [reflexivity|].
  split; [vm_compute; reflexivity|]. split; [apply path_firstb_sound; vm_compute; reflexivity|].
  split; [vm_compute; reflexivity|]. split; [apply path_firstb_sound; vm_compute; reflexivity|].
  split; vm_compute; reflexivity.
Qed.

(* ids decompose uniquely at underscores: an id is built on one candidate only, and a candidate determines the prefix handed down,
   the abbreviation and the number part ([wfc]: <prefix__><alias>_<number part>, alias and number part without underscore - true of
   every candidate of an element whose name holds no underscore, Proofs/EidDecompose.v) *)
Theorem C08_id_has_one_base : forall c1 c2 y, wfc c1 -> wfc c2 -> suffixed c1 y -> suffixed c2 y -> c1 = c2.
Proof. exact base_unique. Qed.
Print Assumptions C08_id_has_one_base.

Theorem C08_candidate_determines_its_parts : forall q1 t1 n1 q2 t2 n2 num1 num2,
  plain t1 -> plain t2 -> num_part t1 num1 n1 -> num_part t2 num2 n2 ->
  candidate q1 t1 n1 = candidate q2 t2 n2 -> n1 = n2 /\ alias_of t1 = alias_of t2 /\ q1 = q2.
Proof. exact candidate_inj. Qed.
Print Assumptions C08_candidate_determines_its_parts.

(* The second sentence with "uniquely numbered" spelled in names and numbers only ([path_unique]): every identified element from the
   root down to the provision has a num, and no earlier identified element of the document was handed the same prefix, has the same
   abbreviation and the same number part.  Then the provision's id is path_eid of the labels along its path, and any two documents
   agree on it.  (Element names without underscore: all of Akoma Ntoso's.) *)
Theorem C08_unique_numbering_determines_id : forall e q e' m pi labels tag a ks,
  rewrite_all_eids e q = Some (e', m) -> Forall plain (tags_of e') ->
  path_labels e' pi = Some (labels, El tag a ks) -> path_unique q [] e' pi ->
  identifiable tag = true -> old_id a = path_eid q labels.
Proof. exact unique_numbering_determines_id. Qed.
Print Assumptions C08_unique_numbering_determines_id.

Theorem C08_unique_numbering_stable : forall e1 e2 q e1' m1 e2' m2 pi1 pi2 labels tag1 a1 k1 tag2 a2 k2,
  rewrite_all_eids e1 q = Some (e1', m1) -> rewrite_all_eids e2 q = Some (e2', m2) ->
  Forall plain (tags_of e1') -> Forall plain (tags_of e2') ->
  path_labels e1' pi1 = Some (labels, El tag1 a1 k1) -> path_unique q [] e1' pi1 ->
  path_labels e2' pi2 = Some (labels, El tag2 a2 k2) -> path_unique q [] e2' pi2 ->
  identifiable tag1 = true -> identifiable tag2 = true -> old_id a1 = old_id a2.
Proof. exact unique_numbering_stable. Qed.
Print Assumptions C08_unique_numbering_stable.

(* the premises are met by the two documents above, and by every element name the generator's tables mention *)
Example C08_unique_numbering_example :
  exists e1' m1 e2' m2,
    rewrite_all_eids c08_doc1 [] = Some (e1', m1) /\ rewrite_all_eids c08_doc2 [] = Some (e2', m2)
    /\ Forall plain (tags_of e1') /\ Forall plain (tags_of e2')
    /\ path_unique [] [] e1' [1; 1]%nat /\ path_unique [] [] e2' [3; 1]%nat.
Proof.
  destruct (rewrite_all_eids c08_doc1 []) as [[e1' m1]|] eqn:E1; [|vm_compute in E1; discriminate].
  destruct (rewrite_all_eids c08_doc2 []) as [[e2' m2]|] eqn:E2; [|vm_compute in E2; discriminate].
  vm_compute in E1, E2. inversion E1; subst e1' m1. inversion E2; subst e2' m2. clear E1 E2.
  do 4 eexists. split; [reflexivity|]. split; [reflexivity|].
  split; [apply plainb_sound; vm_compute; reflexivity|]. split; [apply plainb_sound; vm_compute; reflexivity|].
  split; apply path_uniqueb_sound; vm_compute; reflexivity.
Qed.
Example C08_akn_names_are_plain :
  Forall plain (id_exempt ++ id_exempt_but_pass_to_children ++ num_expected ++ map fst aliases).
Proof. apply plainb_sound. exact tables_plain. Qed.
