(* C17 - The intermediate parse tree honours its published contract.
   Statements only; proofs in Proofs/DictContract.v.  Model: Model/Types.v, Base/Dict.v. *)
Require Import BB.Base.Str BB.Base.Dict BB.Model.PegSyntax BB.Model.Peg BB.Model.Types.
Require Import BB.Proofs.DictContract.

(* For every input text, every parse tree (of the grammar's shape or not) and every fuel: if
   to_dict returns a dict, every node in it - at any depth, including headings, subheadings and
   speaker lines - has one of the seven documented kinds, and marker nodes have no children.
   Text nodes carry a string and nothing else by the type of dnode; node keys are exactly the
   documented ones by the same type. *)
Theorem C17_dict_contract : forall inp fuel t d,
  to_dict inp fuel t = OkR d -> forall g, contract g d = true.
Proof. exact to_dict_contract. Qed.
Print Assumptions C17_dict_contract.
