(* C03 - No text is lost, duplicated or invented on the way to XML.
   Statements only; proofs in Proofs/PegSpan.v, Proofs/XmlText.v. *)
Require Import BB.Base.Str BB.Base.Xml BB.Base.Dict BB.Model.PegSyntax BB.Model.Peg BB.Model.Types BB.Model.Eid.
Require Import BB.Model.EidSpec BB.Model.XmlGen BB.Model.Post.
Require Import Permutation.
Require Import BB.Proofs.PegSpan BB.Proofs.XmlText BB.Proofs.PostConserve.
Require Import BB.Model.Convert BB.Gen.TablesLibs BB.Proofs.PegLine BB.Proofs.LineRule BB.Proofs.PlainLineConvert BB.Proofs.PreParseStair BB.Proofs.HierElement BB.Proofs.HierElementConvert BB.Proofs.HierChainConvert.

(* grammar stage, for every grammar, expression, input and offset: a successful match consumes a
   prefix of what remained, the node spans exactly that prefix, and the offset advances by its length *)
Theorem C03_match_spans_what_it_consumes : forall g f e s off, spans s off (run g f e s off).
Proof. exact run_spans. Qed.
Print Assumptions C03_match_spans_what_it_consumes.

(* acceptance means the root node spans the whole pre-parsed text: nothing lies outside the tree *)
Theorem C03_accepted_tree_covers_input : forall g root s t,
  parse g root s = POk t -> t_off t = 0%N /\ t_len t = len_N s.
Proof. exact parse_spans_input. Qed.
Print Assumptions C03_accepted_tree_covers_input.

(* XML stage, for EVERY dict tree, fuel and generator state: the text nodes of the XML, in document
   order, are exactly the text values and nums the generator reads from the dict, in the same order:
   nothing lost, duplicated, reordered or invented (the attachment meta blocks carry no text) *)
Theorem C03_xml_conserves_dict_text : forall meta_for,
  (forall n, xtexts (meta_for n) = []) ->
  forall fuel d g x g', item_to_xml meta_for fuel d g = OkR (x, g') -> xtexts x = dtexts d.
Proof. exact item_to_xml_texts. Qed.
Print Assumptions C03_xml_conserves_dict_text.

(* eId generation never touches a text node *)
Theorem C03_eids_keep_text : forall e p s e' s', rewrite_eid e p s = Some (e', s') -> xtexts e' = xtexts e.
Proof. exact rewrite_texts. Qed.
Print Assumptions C03_eids_keep_text.

(* removing empty containers keeps all text, provided no text node directly follows an element that
   is removed (lxml drops an element's tail with it; the parser never produces such a tail) *)
Theorem C03_normalise_keeps_text : forall f x,
  no_tail_after_removable f x = true -> xtexts (normalise f x) = xtexts x.
Proof. exact normalise_texts. Qed.
Print Assumptions C03_normalise_keeps_text.

(* footnote resolution keeps every element that is not an internal block, with its attributes and its direct
   text (and all text of a well-formed tree is the direct text of some element): see C14_no_content_vanishes *)
Theorem C03_footnote_resolution_keeps_content : forall x y,
  wfDx x = true -> resolve_displaced_content x = OkR y ->
  exists used phs,
    Permutation (xsigs y ++ map retag_sig used) (map retag_sig (xsigs x) ++ phs)
    /\ Forall (fun s => fst (fst s) = DISPLACED) used /\ Forall (fun s => s = ph_sig) phs.
Proof. exact displaced_conserves. Qed.
Print Assumptions C03_footnote_resolution_keeps_content.

(* Through the whole pipeline model, for nests of hierarchical elements of any depth: the text nodes of the converted document, in
   document order, are exactly the nums, the headings and the line as they were written - nothing lost, nothing invented, nothing
   reordered (Proofs/HierChainConvert.v). *)
Theorem C03_nest_conversion_keeps_text : forall uri prefix l0 (lv : list (nat * plevel)) kt t root_meta att_meta x,
  assoc_str uri meta_templates = Some (root_meta, att_meta) ->
  Forall plevel_full (l0 :: map snd lv) ->
  growing 0 (map (fun kl => (fst kl, header (snd kl))) lv ++ [(kt, t)]) ->
  plain_text t -> none_starts block_lits t = true -> p_safe t = true -> starts_with SUBH t = false -> no_ctl_start t = true ->
  convert uri (of_string "hier_element") prefix (stair_text ((0%nat, header l0) :: rows_of lv kt t)) = OkR x ->
  xtexts x = flat_map (fun l : plevel => let '(_, n, h) := l in [n; h]) (l0 :: map snd lv) ++ [t].
Proof. exact nest_conversion_keeps_text. Qed.
Print Assumptions C03_nest_conversion_keeps_text.
