(* C15 / C08: ids nest.  In every tree the generator returns, every id below an identified element is that
   element's id followed by "__...": the eIds of an attachment's content live under its own att_<n> id, those of a
   section's content under the section's id, and so on, at every depth. *)
Require Import BB.Base.Str BB.Base.Xml BB.Gen.TablesXml BB.Model.Eid BB.Model.EidSpec.
Require Import BB.Proofs.EidUnique BB.Proofs.EidTree BB.Proofs.EidRewrite BB.Proofs.EidConvention.
Open Scope N_scope.

Arguments identifiable : simpl never.
Arguments mem_str : simpl never.

Definition extends (q r : str) : Prop := exists t, r = q ++ DUSCORE ++ t.

Lemma extends_trans a b c : extends a b -> extends b c -> extends a c.
Proof. intros (t1 & ->) (t2 & ->). exists (t1 ++ DUSCORE ++ t2). rewrite <- !app_assoc. reflexivity. Qed.

Lemma candidate_extends q tag n r : q <> [] -> suffixed (candidate q tag n) r -> extends q r.
Proof.
  intros Hq Hs. apply suffixed_prefix in Hs. destruct Hs as (t & ->). unfold candidate. destruct q as [|c0 q0]; [contradiction|].
  eexists. rewrite <- !app_assoc. reflexivity.
Qed.

(* all ids of a tree that follows the convention under prefix q extend q *)
Lemma conv_ids_under e : forall q, convention_ok q e -> q <> [] -> Forall (extends q) (ids_of e).
Proof.
  induction e as [tag attrs kids IH|tx] using xml_ind2; intros q Hc Hq; [|constructor].
  cbn [convention_ok ids_of] in *. destruct (str_eqb tag META); [constructor|]. destruct Hc as [Hown Hkids].
  apply conv_all_Forall in Hkids. apply Forall_app. split.
  - destruct (identifiable tag) eqn:Hi; [|constructor]. destruct (Hown eq_refl) as (n & Hs & _). unfold old_id in Hs.
    destruct (get_attr EID attrs) as [v|]; [|constructor]. constructor; [|constructor]. eapply candidate_extends; eassumption.
  - assert (Hp : child_prefix q tag (old_id attrs) = q \/ extends q (child_prefix q tag (old_id attrs))).
    { unfold child_prefix. destruct (identifiable tag) eqn:Hi.
      - right. destruct (Hown eq_refl) as (n & Hs & _). eapply candidate_extends; eassumption.
      - destruct (mem_str tag id_exempt_but_pass_to_children); [|left; reflexivity]. right.
        destruct q as [|c0 q0]; [contradiction|]. exists (lower tag). reflexivity. }
    assert (Hne : child_prefix q tag (old_id attrs) <> []).
    { destruct Hp as [->|(t & ->)]; [exact Hq|]. destruct q; [contradiction|discriminate]. }
    apply Forall_forall. intros r Hr. apply in_flat_map in Hr. destruct Hr as (kid & Hk & Hr).
    rewrite Forall_forall in IH, Hkids. specialize (IH kid Hk _ (Hkids kid Hk) Hne). rewrite Forall_forall in IH. specialize (IH r Hr).
    destruct Hp as [Ep|Hp]; [rewrite Ep in IH; exact IH|eapply extends_trans; eassumption].
Qed.

(* every identified element: the ids below it extend its own id *)
Fixpoint ids_nested (e : xml) : Prop :=
  match e with
  | Tx _ => True
  | El tag attrs kids =>
      if str_eqb tag META then True
      else (identifiable tag = true -> Forall (extends (old_id attrs)) (flat_map ids_of kids))
           /\ (fix all (l : list xml) : Prop :=
                 match l with [] => True | k :: r => ids_nested k /\ all r end) kids
  end.

Lemma conv_nested e : forall q, convention_ok q e -> ids_nested e.
Proof.
  induction e as [tag attrs kids IH|tx] using xml_ind2; intros q Hc; [|exact I].
  cbn [convention_ok ids_nested] in *. destruct (str_eqb tag META); [exact I|]. destruct Hc as [Hown Hkids].
  pose proof (proj1 (conv_all_Forall _ _) Hkids) as Hk. split.
  - intros Hi. destruct (Hown Hi) as (n & Hs & _). pose proof (candidate_nonempty _ _ _ _ Hs) as Hne.
    unfold child_prefix in Hk. rewrite Hi in Hk. apply Forall_forall. intros r Hr. apply in_flat_map in Hr. destruct Hr as (kid & Hkid & Hr).
    rewrite Forall_forall in Hk. pose proof (conv_ids_under kid _ (Hk kid Hkid) Hne) as Hu. rewrite Forall_forall in Hu. exact (Hu r Hr).
  - clear Hown Hkids. induction IH as [|k r Hkk Hr I]; [exact I|]. inversion Hk; subst. split; [eapply Hkk; eassumption|apply I; assumption].
Qed.

Theorem rewrite_ids_nested e q s e' s' : rewrite_eid e q s = Some (e', s') -> ids_nested e'.
Proof. intros H. eapply conv_nested. eapply rewrite_convention. exact H. Qed.
