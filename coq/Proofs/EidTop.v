(* Statements about rewrite_all_eids as the properties quote them. *)
Require Import BB.Base.Str BB.Base.Xml BB.Gen.TablesXml BB.Model.Eid BB.Model.EidSpec.
Require Import BB.Proofs.EidUnique BB.Proofs.EidTree BB.Proofs.EidShape BB.Proofs.EidRewrite BB.Proofs.EidConvention.
Open Scope N_scope.

Arguments identifiable : simpl never.
Arguments mem_str : simpl never.

Lemma rewrite_all_inv e p e' m :
  rewrite_all_eids e p = Some (e', m) -> exists s', rewrite_eid e p st0 = Some (e', s') /\ m = maps s'.
Proof.
  unfold rewrite_all_eids. destruct (rewrite_eid e p st0) as [[x s']|]; [|discriminate].
  intros H; inversion H; subst. eauto.
Qed.

Theorem rewrite_all_total e p : exists e' m, rewrite_all_eids e p = Some (e', m).
Proof. destruct (rewrite_unique e p) as (e' & m & H & _). eauto. Qed.

Lemma presence_all_ids e' : eid_presence_ok e' -> all_ids e' = ids_of e'.
Proof.
  induction e' as [tag attrs kids IH|tx] using xml_ind2; intros H; [|reflexivity].
  cbn [eid_presence_ok all_ids ids_of] in *. destruct (str_eqb tag META); [reflexivity|].
  destruct H as [Hown Hk]. apply presence_all_Forall in Hk. f_equal.
  - destruct (identifiable tag); [reflexivity|]. rewrite Hown. reflexivity.
  - clear Hown. induction IH as [|k r Hk1 Hr IHr]; [reflexivity|].
    inversion Hk; subst. simpl. rewrite Hk1 by assumption. rewrite IHr by assumption. reflexivity.
Qed.

(* C07: one eId on every identifiable element, none elsewhere, all distinct *)
Theorem rewrite_all_presence_unique e p e' m :
  rewrite_all_eids e p = Some (e', m) -> no_exempt_ids e ->
  eid_presence_ok e' /\ NoDup (all_ids e').
Proof.
  intros H Hn. apply rewrite_all_inv in H as (s' & H & _).
  pose proof (rewrite_presence _ _ _ _ _ H Hn) as P. split; [exact P|].
  rewrite (presence_all_ids _ P). apply (rewrite_eid_good _ _ _ _ _ H).
Qed.

Lemma ids_nonempty e : forall p s e' s' r,
  rewrite_eid e p s = Some (e', s') -> In r (ids_of e') -> r <> [].
Proof.
  induction e as [tag attrs kids IH|tx] using xml_ind2; intros p s e' s' r H Hr; cbn [rewrite_eid] in H.
  2:{ inversion H; subst. contradiction. }
  destruct (str_eqb tag META) eqn:Em.
  { inversion H; subst. cbn [ids_of] in Hr. rewrite Em in Hr. contradiction. }
  destruct (rewrite_own tag attrs kids p s) as [[[a1 s2] p2]|] eqn:E; [|discriminate].
  destruct (map_st (fun k s0 => rewrite_eid k p2 s0) kids s2) as [[ks s3]|] eqn:E2; [|discriminate].
  inversion H; subst. cbn [ids_of] in Hr. rewrite Em in Hr. apply in_app_or in Hr as [Hr|Hr].
  - destruct (identifiable tag) eqn:Hi; [|contradiction].
    destruct (rewrite_own_ident tag attrs kids p s Hi) as (b1 & b2 & r0 & n & Eo & Ga & _ & _ & _ & Sh & _).
    rewrite E in Eo. inversion Eo; subst. rewrite Ga in Hr. destruct Hr as [<-|[]].
    apply (candidate_nonempty _ _ _ _ Sh).
  - apply in_flat_map in Hr as (k' & Hk' & Hr). apply map_st_Forall2 in E2.
    clear -IH E2 Hk' Hr. induction E2 as [|k k2 r0 r0' (s0 & s1 & Hk) Hrest IH2]; [contradiction|].
    inversion IH; subst. destruct Hk' as [<-|Hk']; eauto.
Qed.

Theorem rewrite_all_charset e p e' m :
  rewrite_all_eids e p = Some (e', m) -> no_ws p -> Forall no_ws (tags_of e) ->
  forall r, In r (ids_of e') -> r <> [] /\ no_ws r /\ (p <> [] -> exists t, r = p ++ DUSCORE ++ t).
Proof.
  intros H Hp Ht r Hr. apply rewrite_all_inv in H as (s' & H & _).
  destruct (rewrite_shape p e p st0 e' s' Hp Ht H Hp (or_intror (or_introl eq_refl)) r Hr) as [A B].
  split; [|split; assumption]. eapply ids_nonempty; eauto.
Qed.
