(* C14 / C03: footnote resolution loses no content.  Every element of the tree that is not one of the
   internal <displaced> blocks is still there afterwards - same tag, same attributes (apart from the internal
   displaced attribute), same direct text - and the only additions are p elements (the visible placeholders).
   Stated for trees of the shape the XML builder produces: a <displaced> block holds elements only, carries
   no displaced attribute itself and is not followed by a text node (wfDx). *)
Require Import Permutation.
Require Import BB.Base.Str BB.Base.Xml BB.Base.Dict BB.Model.Types BB.Model.Eid BB.Model.XmlGen BB.Model.Post.
Require Import BB.Proofs.EidUnique BB.Proofs.PostDisplaced.
Open Scope N_scope.

Section ixml_ind2.
  Variable P : ixml -> Prop.
  Hypothesis HEl : forall i tag attrs kids, Forall P kids -> P (IEl i tag attrs kids).
  Hypothesis HTx : forall s, P (ITx s).
  Fixpoint ixml_ind2 (x : ixml) : P x :=
    match x with
    | IEl i tag attrs kids =>
        HEl i tag attrs kids
          ((fix go (l : list ixml) : Forall P l :=
              match l with
              | [] => Forall_nil P
              | k :: r => Forall_cons k (ixml_ind2 k) (go r)
              end) kids)
    | ITx s => HTx s
    end.
End ixml_ind2.

(* ---------- structure ---------- *)
Fixpoint subs (x : ixml) : list ixml :=
  match x with ITx _ => [] | IEl _ _ _ kids => x :: flat_map subs kids end.
Definition iid (x : ixml) : nat := match x with IEl i _ _ _ => i | ITx _ => O end.
Definition ids (x : ixml) : list nat := map iid (subs x).
Definition is_tx (k : ixml) : bool := match k with ITx _ => true | IEl _ _ _ _ => false end.
Definition is_el (k : ixml) : bool := negb (is_tx k).
Definition dtext (kids : list ixml) : str := flat_map (fun k => match k with ITx s => s | IEl _ _ _ _ => [] end) kids.
Definition sigT : Type := (str * list (str * str) * str)%type.
Definition sig_of (x : ixml) : sigT :=
  match x with IEl _ t a k => (t, remove_attr DISPLACED a, dtext k) | ITx _ => ([], [], []) end.
Definition node_of (y : ixml) : nat * sigT := (iid y, sig_of y).
Definition nodes (x : ixml) : list (nat * sigT) := map node_of (subs x).
Definition nodesl (l : list ixml) : list (nat * sigT) := flat_map nodes l.

Lemma map_flat_map {A B C} (f : B -> C) (g : A -> list B) l : map f (flat_map g l) = flat_map (fun x => map f (g x)) l.
Proof. induction l as [|a r IH]; [reflexivity|]. cbn [flat_map]. rewrite map_app, IH. reflexivity. Qed.

Lemma nodes_El i t a k : nodes (IEl i t a k) = (i, (t, remove_attr DISPLACED a, dtext k)) :: nodesl k.
Proof. unfold nodes, nodesl. cbn [subs map]. rewrite map_flat_map. reflexivity. Qed.
Lemma nodes_Tx s : nodes (ITx s) = []. Proof. reflexivity. Qed.
Lemma nodesl_app a b : nodesl (a ++ b) = nodesl a ++ nodesl b.
Proof. unfold nodesl. apply flat_map_app. Qed.
Lemma nodesl_cons k r : nodesl (k :: r) = nodes k ++ nodesl r. Proof. reflexivity. Qed.
Lemma ids_nodes x : ids x = map fst (nodes x).
Proof. unfold ids, nodes. rewrite map_map. reflexivity. Qed.

Lemma dtext_app a b : dtext (a ++ b) = dtext a ++ dtext b.
Proof. unfold dtext. apply flat_map_app. Qed.
Lemma dtext_els l : forallb is_el l = true -> dtext l = [].
Proof.
  induction l as [|k r IH]; [reflexivity|]. cbn [forallb]. intros H. apply andb_prop in H. destruct H as [H1 H2].
  destruct k; [|discriminate]. cbn [dtext flat_map app]. apply IH. exact H2.
Qed.

(* the shape the XML builder gives to placeholder blocks *)
Fixpoint no_tail (l : list ixml) : bool :=
  match l with
  | [] => true
  | k :: r => (match k, r with IEl _ t _ _, ITx _ :: _ => negb (str_eqb t DISPLACED) | _, _ => true end) && no_tail r
  end.
Definition no_dattr (a : list (str * str)) : bool := match get_attr DISPLACED a with None => true | Some _ => false end.
Fixpoint wfD (x : ixml) : bool :=
  match x with
  | ITx _ => true
  | IEl _ tag attrs kids =>
      (if str_eqb tag DISPLACED then forallb is_el kids && no_dattr attrs else true)
      && no_tail kids && forallb wfD kids
  end.

Lemma subs_trans y a x : In y (subs a) -> In a (subs x) -> In y (subs x).
Proof.
  revert a y. induction x as [i t at0 k IH|s] using ixml_ind2; intros a y Hy Ha; [|contradiction].
  cbn [subs] in Ha. destruct Ha as [<-|Ha]; [exact Hy|]. cbn [subs]. right.
  apply in_flat_map in Ha. destruct Ha as (kid & Hk & Ha). apply in_flat_map. exists kid. split; [exact Hk|].
  rewrite Forall_forall in IH. exact (IH kid Hk a y Hy Ha).
Qed.

Lemma subs_self i t a k : In (IEl i t a k) (subs (IEl i t a k)). Proof. left. reflexivity. Qed.
Lemma subs_kid y i t a k kid : In kid k -> In y (subs kid) -> In y (subs (IEl i t a k)).
Proof. intros Hk Hy. cbn [subs]. right. apply in_flat_map. exists kid. split; assumption. Qed.
Lemma subs_are_elements y x : In y (subs x) -> exists i t a k, y = IEl i t a k.
Proof.
  induction x as [i t a k IH|s] using ixml_ind2; [|contradiction]. cbn [subs]. intros [<-|H]; [eauto|].
  apply in_flat_map in H. destruct H as (kid & Hk & H). rewrite Forall_forall in IH. exact (IH kid Hk H).
Qed.

(* ---------- the loops of the model, named ---------- *)
Definition remove_kids (rec : ixml -> ixml * option (list ixml)) (id : nat) : list ixml -> list ixml * option (list ixml) :=
  fix go (l : list ixml) : list ixml * option (list ixml) :=
    match l with
    | [] => ([], None)
    | k :: r =>
        match k with
        | IEl j _ _ ck =>
            if Nat.eqb j id then (match r with ITx _ :: r' => r' | _ => r end, Some ck)
            else let '(k', g) := rec k in
                 match g with
                 | Some c => (k' :: r, Some c)
                 | None => let '(r', g') := go r in (k :: r', g')
                 end
        | ITx _ => let '(r', g') := go r in (k :: r', g')
        end
    end.
Lemma remove_id_S f id i tag attrs kids :
  remove_id (S f) id (IEl i tag attrs kids) =
  let '(kids', got) := remove_kids (remove_id f id) id kids in (IEl i tag attrs kids', got).
Proof. reflexivity. Qed.

Definition chain_kids (rec : ixml -> option (list ixml)) (x : ixml) : list ixml -> option (list ixml) :=
  fix go (l : list ixml) : option (list ixml) :=
    match l with
    | [] => None
    | k :: r => match rec k with Some c => Some (x :: c) | None => go r end
    end.
Lemma chain_to_S f id i tag attrs kids :
  chain_to (S f) id (IEl i tag attrs kids) =
  if Nat.eqb i id then Some [IEl i tag attrs kids]
  else chain_kids (chain_to f id) (IEl i tag attrs kids) kids.
Proof. reflexivity. Qed.

Definition fd_kids (rec : ixml -> option nat) : list ixml -> option nat :=
  fix go (l : list ixml) : option nat :=
    match l with
    | [] => None
    | k :: r => match rec k with Some j => Some j | None => go r end
    end.
Lemma first_displaced_S f marker name excl i tag attrs kids :
  first_displaced (S f) marker name excl (IEl i tag attrs kids) =
  if str_eqb tag DISPLACED && opt_str_eqb (get_attr MARKER attrs) marker
     && opt_str_eqb (get_attr NAME attrs) (Some name) && negb (existsb (Nat.eqb i) excl)
  then Some i else fd_kids (first_displaced f marker name excl) kids.
Proof. reflexivity. Qed.

Lemma fd_kids_some rec kids j : fd_kids rec kids = Some j -> exists kid, In kid kids /\ rec kid = Some j.
Proof.
  induction kids as [|k r IH]; [discriminate|]. cbn [fd_kids]. destruct (rec k) as [j'|] eqn:Ek.
  - intros H; inversion H; subst. exists k. split; [left; reflexivity|exact Ek].
  - intros H. destruct (IH H) as (kid & Hk & E). exists kid. split; [right; exact Hk|exact E].
Qed.

(* ---------- first_displaced: what it returns is a <displaced> block of the subtree, not an excluded one ---------- *)
Lemma first_displaced_spec f marker name excl : forall x j,
  first_displaced f marker name excl x = Some j ->
  (exists at0 ck, In (IEl j DISPLACED at0 ck) (subs x)) /\ ~ In j excl.
Proof.
  induction f as [|f IH]; intros x j H; [discriminate|]. destruct x as [i tag attrs kids|s]; [|discriminate].
  rewrite first_displaced_S in H.
  destruct (str_eqb tag DISPLACED && opt_str_eqb (get_attr MARKER attrs) marker
            && opt_str_eqb (get_attr NAME attrs) (Some name) && negb (existsb (Nat.eqb i) excl)) eqn:E.
  - inversion H; subst. apply andb_prop in E. destruct E as [E E4]. apply andb_prop in E. destruct E as [E _].
    apply andb_prop in E. destruct E as [E1 _]. apply str_eqb_spec in E1. subst tag. split.
    + exists attrs, kids. left. reflexivity.
    + intros Hin. apply negb_true_iff in E4. assert (existsb (Nat.eqb j) excl = true); [|congruence].
      apply existsb_exists. exists j. split; [exact Hin|apply Nat.eqb_refl].
  - destruct (fd_kids_some _ _ _ H) as (kid & Hk & Ek). destruct (IH kid j Ek) as ((at0 & ck & Hin) & Hex).
    split; [|exact Hex]. exists at0, ck. eapply subs_kid; eassumption.
Qed.

(* ---------- chain_to: the chain ends in the element looked for and consists of subtrees ---------- *)
Lemma chain_kids_some rec x kids c :
  chain_kids rec x kids = Some c -> exists kid c', In kid kids /\ rec kid = Some c' /\ c = x :: c'.
Proof.
  induction kids as [|k r IH]; [discriminate|]. cbn [chain_kids]. destruct (rec k) as [c0|] eqn:Ek.
  - intros H; inversion H; subst. exists k, c0. repeat split; [left; reflexivity|exact Ek].
  - intros H. destruct (IH H) as (kid & c' & Hk & E & Ec). exists kid, c'. repeat split; [right; exact Hk|exact E|exact Ec].
Qed.

Lemma chain_to_spec f rid : forall x c,
  chain_to f rid x = Some c ->
  Forall (fun y => In y (subs x)) c /\ exists init t a k, c = init ++ [IEl rid t a k].
Proof.
  induction f as [|f IH]; intros x c H; [discriminate|]. destruct x as [i tag attrs kids|s]; [|discriminate].
  rewrite chain_to_S in H. destruct (Nat.eqb i rid) eqn:E.
  - apply Nat.eqb_eq in E. subst i. inversion H; subst. split; [constructor; [left; reflexivity|constructor]|].
    exists [], tag, attrs, kids. reflexivity.
  - destruct (chain_kids_some _ _ _ _ H) as (kid & c' & Hk & Ek & ->). destruct (IH kid c' Ek) as (Hall & init & t & a & k & ->).
    split.
    + constructor; [left; reflexivity|]. eapply Forall_impl; [|exact Hall]. intros y Hy. eapply subs_kid; eassumption.
    + exists (IEl i tag attrs kids :: init), t, a, k. reflexivity.
Qed.

Lemma in_subs_ids y x : In y (subs x) -> In (iid y) (ids x).
Proof. intros H. unfold ids. apply in_map. exact H. Qed.

(* unique ids: a subtree is determined by its id *)
Lemma subs_unique x y1 y2 : NoDup (ids x) -> In y1 (subs x) -> In y2 (subs x) -> iid y1 = iid y2 -> y1 = y2.
Proof.
  unfold ids. generalize (subs x) as l. induction l as [|a r IH]; intros Hn H1 H2 E; [contradiction|].
  cbn [map] in Hn. inversion Hn as [|? ? Hna Hnr]; subst. destruct H1 as [<-|H1], H2 as [<-|H2].
  - reflexivity.
  - exfalso. apply Hna. rewrite E. apply in_map. exact H2.
  - exfalso. apply Hna. rewrite <- E. apply in_map. exact H1.
  - apply IH; assumption.
Qed.

(* well-formedness reaches every subtree *)
Lemma wfD_subs x : wfD x = true -> forall y, In y (subs x) -> wfD y = true.
Proof.
  induction x as [i t a k IH|s] using ixml_ind2; intros Hw y Hy; [|contradiction].
  cbn [subs] in Hy. destruct Hy as [<-|Hy]; [exact Hw|]. apply in_flat_map in Hy. destruct Hy as (kid & Hk & Hy).
  cbn [wfD] in Hw. apply andb_prop in Hw. destruct Hw as [_ Hw]. rewrite forallb_forall in Hw.
  rewrite Forall_forall in IH. exact (IH kid Hk (Hw kid Hk) y Hy).
Qed.
Lemma wfD_block i a k : wfD (IEl i DISPLACED a k) = true -> forallb is_el k = true /\ no_dattr a = true.
Proof.
  cbn [wfD]. rewrite str_eqb_refl. intros H. apply andb_prop in H. destruct H as [H _]. apply andb_prop in H. destruct H as [H _].
  apply andb_prop in H. exact H.
Qed.

Lemma dtext_cons_tx s r : dtext (ITx s :: r) = s ++ dtext r. Proof. reflexivity. Qed.
Lemma dtext_cons_el i t a k r : dtext (IEl i t a k :: r) = dtext r. Proof. reflexivity. Qed.

(* ---------- remove_id ---------- *)
Definition hd_tx (l : list ixml) : bool := match l with ITx _ :: _ => true | _ => false end.

Lemma remove_root f id i t a k : exists k', fst (remove_id f id (IEl i t a k)) = IEl i t a k'.
Proof.
  destruct f as [|f]; [exists k; reflexivity|]. rewrite remove_id_S.
  destruct (remove_kids (remove_id f id) id k) as [k' g]. exists k'. reflexivity.
Qed.

Lemma remove_none f id : forall x, snd (remove_id f id x) = None -> fst (remove_id f id x) = x.
Proof.
  induction f as [|f IH]; intros x H; [reflexivity|]. destruct x as [i t a kids|s]; [|reflexivity].
  rewrite remove_id_S in *. destruct (remove_kids (remove_id f id) id kids) as [kids' got] eqn:E. cbn [fst snd] in *. subst got.
  f_equal. revert kids' E. induction kids as [|k r IHk]; intros kids' E; cbn [remove_kids] in E.
  - inversion E. reflexivity.
  - destruct k as [j jt ja jck|s].
    + destruct (Nat.eqb j id); [destruct r as [|[|] ?]; discriminate|].
      destruct (remove_id f id (IEl j jt ja jck)) as [k' g] eqn:Ek. destruct g as [c|]; [discriminate|].
      destruct (remove_kids (remove_id f id) id r) as [r' g'] eqn:Er. inversion E; subst. f_equal. apply IHk. reflexivity.
    + destruct (remove_kids (remove_id f id) id r) as [r' g'] eqn:Er. inversion E; subst. f_equal. apply IHk. reflexivity.
Qed.

Definition blk_node (id : nat) (tg : str) (at0 : list (str * str)) (ck : list ixml) : nat * sigT :=
  (id, (tg, remove_attr DISPLACED at0, dtext ck)).

Lemma remove_some f id : forall x x' ck,
  wfD x = true -> remove_id f id x = (x', Some ck) ->
  exists tg at0, In (IEl id tg at0 ck) (subs x) /\
    (tg = DISPLACED -> Permutation (nodes x) (blk_node id tg at0 ck :: nodesl ck ++ nodes x') /\ wfD x' = true).
Proof.
  induction f as [|f IH]; intros x x' ck Hw H; [discriminate|]. destruct x as [i t a kids|s]; [|discriminate].
  rewrite remove_id_S in H. destruct (remove_kids (remove_id f id) id kids) as [kids' got] eqn:E. inversion H; subst x' got. clear H.
  assert (K : forall kids kids', forallb wfD kids = true -> no_tail kids = true ->
            remove_kids (remove_id f id) id kids = (kids', Some ck) ->
            exists tg at0, (exists kid, In kid kids /\ In (IEl id tg at0 ck) (subs kid)) /\
              (tg = DISPLACED -> Permutation (nodesl kids) (blk_node id tg at0 ck :: nodesl ck ++ nodesl kids')
                                 /\ forallb wfD kids' = true /\ no_tail kids' = true /\ dtext kids' = dtext kids
                                 /\ (forallb is_el kids = true -> forallb is_el kids' = true)
                                 /\ (hd_tx kids' = true -> hd_tx kids = true))).
  { clear kids kids' E Hw. induction kids as [|k r IHk]; intros kids' Hwk Hnt E; cbn [remove_kids] in E; [discriminate|].
    cbn [forallb] in Hwk. apply andb_prop in Hwk. destruct Hwk as [Hwk Hwr].
    cbn [no_tail] in Hnt. apply andb_prop in Hnt. destruct Hnt as [Hnt1 Hntr].
    destruct k as [j jt ja jck|s].
    - destruct (Nat.eqb j id) eqn:Ej.
      + apply Nat.eqb_eq in Ej. subst j. inversion E; subst. exists jt, ja. split; [exists (IEl id jt ja ck); split; left; reflexivity|].
        intros ->. rewrite str_eqb_refl in Hnt1. cbn [negb] in Hnt1.
        assert (Hr : match r with ITx _ :: r' => r' | _ => r end = r) by (destruct r as [|[|] ?]; [reflexivity|reflexivity|discriminate]).
        rewrite Hr. rewrite nodesl_cons, nodes_El. repeat split; try assumption.
        * apply Permutation_refl.
        * cbn [forallb is_el is_tx negb andb]. auto.
        * destruct r as [|[|] ?]; [discriminate|discriminate|discriminate].
      + destruct (remove_id f id (IEl j jt ja jck)) as [k' g] eqn:Ek. destruct g as [c|].
        * inversion E; subst. destruct (IH _ _ _ Hwk Ek) as (tg & at0 & Hin & Hd). exists tg, at0.
          split; [exists (IEl j jt ja jck); split; [left; reflexivity|exact Hin]|]. intros Ht. destruct (Hd Ht) as [Hp Hw'].
          destruct (remove_root f id j jt ja jck) as (k'' & Ek'). rewrite Ek in Ek'. cbn [fst] in Ek'. subst k'.
          rewrite !nodesl_cons. repeat split.
          -- rewrite Hp. cbn [app]. rewrite <- app_assoc. apply Permutation_refl.
          -- cbn [forallb]. rewrite Hw', Hwr. reflexivity.
          -- cbn [no_tail]. rewrite Hnt1, Hntr. reflexivity.
          -- intros Hel. cbn [forallb] in *. exact Hel.
          -- discriminate.
        * destruct (remove_kids (remove_id f id) id r) as [r' g'] eqn:Er. inversion E; subst.
          destruct (IHk r' Hwr Hntr eq_refl) as (tg & at0 & (kid & Hk & Hin) & Hd). exists tg, at0.
          split; [exists kid; split; [right; exact Hk|exact Hin]|]. intros Ht. destruct (Hd Ht) as (Hp & Hw' & Hn' & Hdt & Hel & Hhd).
          rewrite !nodesl_cons. repeat split.
          -- rewrite Hp. apply Permutation_sym. etransitivity; [|apply Permutation_middle].
             apply perm_skip. rewrite !app_assoc. apply Permutation_app_tail. apply Permutation_app_comm.
          -- cbn [forallb]. rewrite Hwk, Hw'. reflexivity.
          -- cbn [no_tail]. rewrite Hn', andb_true_r. destruct r' as [|[|] ?]; try reflexivity.
             specialize (Hhd eq_refl). destruct r as [|[|] ?]; try discriminate. exact Hnt1.
          -- rewrite !dtext_cons_el. exact Hdt.
          -- cbn [forallb]. intros H. apply andb_prop in H. destruct H as [H1 H2]. rewrite H1, (Hel H2). reflexivity.
          -- discriminate.
    - destruct (remove_kids (remove_id f id) id r) as [r' g'] eqn:Er. inversion E; subst.
      destruct (IHk r' Hwr Hntr eq_refl) as (tg & at0 & (kid & Hk & Hin) & Hd). exists tg, at0.
      split; [exists kid; split; [right; exact Hk|exact Hin]|]. intros Ht. destruct (Hd Ht) as (Hp & Hw' & Hn' & Hdt & Hel & Hhd).
      repeat split.
      + exact Hp.
      + exact Hw'.
      + cbn [no_tail]. exact Hn'.
      + rewrite !dtext_cons_tx, Hdt. reflexivity.
      + cbn [forallb is_el is_tx negb andb]. discriminate. }
  cbn [wfD] in Hw. apply andb_prop in Hw. destruct Hw as [Hw Hwk]. apply andb_prop in Hw. destruct Hw as [Hw1 Hnt].
  destruct (K kids kids' Hwk Hnt E) as (tg & at0 & (kid & Hk & Hin) & Hd). exists tg, at0.
  split; [eapply subs_kid; eassumption|]. intros Ht. destruct (Hd Ht) as (Hp & Hw' & Hn' & Hdt & Hel & _).
  rewrite !nodes_El, Hdt. split.
  - etransitivity; [apply perm_skip; exact Hp|]. etransitivity; [apply perm_swap|]. apply perm_skip.
    apply Permutation_middle.
  - cbn [wfD]. rewrite Hw', Hn', !andb_true_r. destruct (str_eqb t DISPLACED); [|reflexivity].
    apply andb_prop in Hw1. destruct Hw1 as [H1 H2]. rewrite (Hel H1), H2. reflexivity.
Qed.

(* ---------- the reference is still reachable after the block has been taken out ---------- *)
Lemma chain_to_tx f rid s : chain_to f rid (ITx s) = None.
Proof. destruct f; reflexivity. Qed.

Lemma chain_to_head f rid : forall x c, chain_to f rid x = Some c -> exists tl, c = x :: tl.
Proof.
  destruct f as [|f]; intros x c H; [discriminate|]. destruct x as [i t a kids|s]; [|discriminate].
  rewrite chain_to_S in H. destruct (Nat.eqb i rid); [inversion H; eauto|].
  destruct (chain_kids_some _ _ _ _ H) as (kid & c' & _ & _ & ->). eauto.
Qed.

Lemma chain_kids_root rec x y l : chain_kids rec x l = None -> chain_kids rec y l = None.
Proof. induction l as [|k r IH]; [reflexivity|]. cbn [chain_kids]. destruct (rec k); [discriminate|exact IH]. Qed.

Lemma chain_kids_after_remove f rid cid
  (IH : forall x c, chain_to f rid x = Some c -> ~ In cid (map iid c) ->
                    exists c', chain_to f rid (fst (remove_id f cid x)) = Some c') :
  forall x y kids c0 kids' got,
    chain_kids (chain_to f rid) x kids = Some (x :: c0) -> ~ In cid (map iid c0) ->
    remove_kids (remove_id f cid) cid kids = (kids', got) -> chain_kids (chain_to f rid) y kids' <> None.
Proof.
  intros x y kids c0. induction kids as [|k r IHk]; intros kids' got H Hn E; [discriminate|].
  cbn [chain_kids] in H. cbn [remove_kids] in E. destruct k as [j jt ja jck|s].
  - destruct (Nat.eqb j cid) eqn:Ej.
    + apply Nat.eqb_eq in Ej. subst j.
      destruct (chain_to f rid (IEl cid jt ja jck)) as [ck0|] eqn:Ek.
      * exfalso. inversion H; subst. destruct (chain_to_head _ _ _ _ Ek) as (tl & ->). apply Hn. left. reflexivity.
      * inversion E; subst. intros Hc. apply (chain_kids_root _ _ x) in Hc.
        destruct r as [|[|] ?]; try congruence. cbn [chain_kids] in H. rewrite chain_to_tx in H. congruence.
    + destruct (remove_id f cid (IEl j jt ja jck)) as [k' g] eqn:Erm.
      destruct (chain_to f rid (IEl j jt ja jck)) as [ck0|] eqn:Ek.
      * inversion H; subst. destruct (IH _ _ Ek Hn) as (c' & Ec'). rewrite Erm in Ec'. cbn [fst] in Ec'.
        destruct g as [cc|].
        -- inversion E; subst. cbn [chain_kids]. rewrite Ec'. discriminate.
        -- destruct (remove_kids (remove_id f cid) cid r) as [r' g']. inversion E; subst. cbn [chain_kids]. rewrite Ek. discriminate.
      * destruct g as [cc|].
        -- inversion E; subst. cbn [chain_kids]. destruct (chain_to f rid k'); [discriminate|].
           intros Hc. apply (chain_kids_root _ _ x) in Hc. congruence.
        -- destruct (remove_kids (remove_id f cid) cid r) as [r' g'] eqn:Er. inversion E; subst. cbn [chain_kids]. rewrite Ek.
           eapply IHk; [exact H|exact Hn|reflexivity].
  - rewrite chain_to_tx in H. destruct (remove_kids (remove_id f cid) cid r) as [r' g'] eqn:Er. inversion E; subst.
    cbn [chain_kids]. rewrite chain_to_tx. eapply IHk; [exact H|exact Hn|reflexivity].
Qed.

Lemma chain_after_remove f rid cid : forall x c,
  chain_to f rid x = Some c -> ~ In cid (map iid c) ->
  exists c', chain_to f rid (fst (remove_id f cid x)) = Some c'.
Proof.
  induction f as [|f IH]; intros x c H Hn; [discriminate|]. destruct x as [i t a kids|s]; [|discriminate].
  rewrite remove_id_S. destruct (remove_kids (remove_id f cid) cid kids) as [kids' got] eqn:E. cbn [fst].
  rewrite chain_to_S in *. destruct (Nat.eqb i rid); [eauto|].
  destruct (chain_kids_some _ _ _ _ H) as (kid & c' & _ & _ & ->).
  assert (Hn' : ~ In cid (map iid c')) by (intros Hin; apply Hn; right; exact Hin).
  pose proof (chain_kids_after_remove f rid cid IH _ (IEl i t a kids') kids c' kids' got H Hn' E) as K.
  destruct (chain_kids (chain_to f rid) (IEl i t a kids') kids') as [cc|]; [eauto|congruence].
Qed.

(* ---------- update_id ---------- *)
Definition upd_app (moved : list ixml) (x : ixml) : ixml :=
  match x with IEl i t a k => IEl i t (remove_attr DISPLACED a) (k ++ moved) | ITx _ => x end.

Lemma update_id_S f id upd i t a kids :
  update_id (S f) id upd (IEl i t a kids) =
  if Nat.eqb i id then upd (IEl i t a kids) else IEl i t a (map (update_id f id upd) kids).
Proof. reflexivity. Qed.

Lemma ids_El i t a k : ids (IEl i t a k) = i :: flat_map ids k.
Proof. unfold ids. cbn [subs map iid]. rewrite map_flat_map. reflexivity. Qed.

Lemma update_notin f rid upd : forall x, ~ In rid (ids x) -> update_id f rid upd x = x.
Proof.
  induction f as [|f IH]; intros x Hn; [reflexivity|]. destruct x as [i t a kids|s]; [|reflexivity].
  rewrite update_id_S. rewrite ids_El in Hn. destruct (Nat.eqb i rid) eqn:E.
  - apply Nat.eqb_eq in E. subst. exfalso. apply Hn. left. reflexivity.
  - f_equal. rewrite <- (map_id kids) at 2. apply map_ext_in. intros k Hk. apply IH. intros Hin. apply Hn. right.
    apply in_flat_map. exists k. split; assumption.
Qed.

Lemma update_shape f rid moved i t a k :
  exists a' k', update_id f rid (upd_app moved) (IEl i t a k) = IEl i t a' k'.
Proof.
  destruct f as [|f]; [exists a, k; reflexivity|]. rewrite update_id_S. destruct (Nat.eqb i rid); cbn [upd_app]; eauto.
Qed.

Lemma remove_attr_get k a : get_attr k (remove_attr k a) = None.
Proof.
  induction a as [|[k' v] r IH]; [reflexivity|]. cbn [remove_attr]. destruct (str_eqb k k') eqn:E; [exact IH|].
  cbn [get_attr]. rewrite E. exact IH.
Qed.
Lemma remove_attr_absent k a : get_attr k a = None -> remove_attr k a = a.
Proof.
  induction a as [|[k' v] r IH]; [reflexivity|]. cbn [get_attr remove_attr]. destruct (str_eqb k k'); [discriminate|].
  intros H. rewrite (IH H). reflexivity.
Qed.
Lemma remove_attr_idem k a : remove_attr k (remove_attr k a) = remove_attr k a.
Proof. apply remove_attr_absent, remove_attr_get. Qed.

Lemma NoDup_app_remove_l {A} (a b : list A) : NoDup (a ++ b) -> NoDup b.
Proof. induction a as [|z zs IH]; [auto|]. cbn [app]. intros H. inversion H; subst. apply IH. assumption. Qed.
Lemma NoDup_app_remove_r {A} (a b : list A) : NoDup (a ++ b) -> NoDup a.
Proof.
  induction a as [|z zs IH]; [constructor|]. cbn [app]. intros H. inversion H; subst. constructor; [|apply IH; assumption].
  intros Hin. apply H2. apply in_or_app. left. exact Hin.
Qed.

Lemma NoDup_app_intro {A} (a b : list A) : NoDup a -> NoDup b -> (forall x, In x a -> In x b -> False) -> NoDup (a ++ b).
Proof.
  intros Ha Hb Hd. induction a as [|z zs IH]; [exact Hb|]. cbn [app]. inversion Ha; subst. constructor.
  - intros Hin. apply in_app_or in Hin. destruct Hin as [Hin|Hin]; [contradiction|]. apply (Hd z); [left; reflexivity|exact Hin].
  - apply IH; [assumption|]. intros x Hx. apply Hd. right. exact Hx.
Qed.

Lemma nodup_mid {A} (a b c : list A) x : NoDup (a ++ b ++ c) -> In x b -> ~ In x a /\ ~ In x c.
Proof.
  intros Hn Hb. split.
  - intros Ha. induction a as [|z zs IH]; [contradiction|]. cbn [app] in Hn. inversion Hn; subst.
    destruct Ha as [->|Ha]; [apply H1; apply in_or_app; right; apply in_or_app; left; exact Hb|]. apply IH; assumption.
  - intros Hc. apply NoDup_app_remove_l in Hn. induction b as [|z zs IH]; [contradiction|]. cbn [app] in Hn. inversion Hn; subst.
    destruct Hb as [->|Hb]; [apply H1; apply in_or_app; right; exact Hc|]. apply IH; assumption.
Qed.

Lemma update_found f rid moved : forall x c,
  chain_to f rid x = Some c -> NoDup (ids x) -> forallb is_el moved = true ->
  Permutation (nodes (update_id f rid (upd_app moved) x)) (nodes x ++ nodesl moved).
Proof.
  induction f as [|f IH]; intros x c H Hnd Hm; [discriminate|]. destruct x as [i t a kids|s]; [|discriminate].
  rewrite update_id_S. rewrite chain_to_S in H. destruct (Nat.eqb i rid) eqn:E.
  - cbn [upd_app]. rewrite !nodes_El, nodesl_app, dtext_app, (dtext_els moved Hm), app_nil_r, remove_attr_idem.
    cbn [app]. apply Permutation_refl.
  - destruct (chain_kids_some _ _ _ _ H) as (kid & c' & Hk & Ek & _).
    destruct (in_split _ _ Hk) as (l1 & l2 & ->).
    destruct (chain_to_spec _ _ _ _ Ek) as (Hall & init & rt & ra & rk & ->).
    assert (Hrid : In rid (ids kid)).
    { rewrite Forall_forall in Hall. specialize (Hall (IEl rid rt ra rk)). apply in_subs_ids in Hall; [exact Hall|].
      apply in_or_app. right. left. reflexivity. }
    rewrite ids_El in Hnd. inversion Hnd as [|? ? _ Hnd']; subst. rewrite flat_map_app in Hnd'. cbn [flat_map] in Hnd'.
    destruct (nodup_mid _ _ _ _ Hnd' Hrid) as [N1 N2].
    assert (H1 : forall k, In k l1 -> ~ In rid (ids k)).
    { intros k Hk1 Hin. apply N1. apply in_flat_map. exists k. split; assumption. }
    assert (H2 : forall k, In k l2 -> ~ In rid (ids k)).
    { intros k Hk2 Hin. apply N2. apply in_flat_map. exists k. split; assumption. }
    rewrite map_app. cbn [map].
    rewrite (map_ext_in _ (fun k => k) l1) by (intros k Hk1; apply update_notin; apply H1; exact Hk1).
    rewrite (map_ext_in _ (fun k => k) l2) by (intros k Hk2; apply update_notin; apply H2; exact Hk2).
    rewrite !map_id.
    assert (Hndk : NoDup (ids kid)) by (apply NoDup_app_remove_l in Hnd'; apply NoDup_app_remove_r in Hnd'; exact Hnd').
    specialize (IH kid _ Ek Hndk Hm).
    rewrite !nodes_El, !nodesl_app, !nodesl_cons.
    assert (Hd : dtext (l1 ++ update_id f rid (upd_app moved) kid :: l2) = dtext (l1 ++ kid :: l2)).
    { rewrite !dtext_app. f_equal. destruct kid as [j jt ja jk|s]; [|destruct f; reflexivity].
      destruct (update_shape f rid moved j jt ja jk) as (a' & k' & ->). reflexivity. }
    rewrite Hd. cbn [app]. apply perm_skip. rewrite <- !app_assoc. apply Permutation_app_head.
    rewrite IH. rewrite <- !app_assoc. apply Permutation_app_head. apply Permutation_app_comm.
Qed.


Definition shape (k : ixml) : option str := match k with IEl _ t _ _ => Some t | ITx _ => None end.
Lemma no_tail_shape l1 : forall l2, map shape l1 = map shape l2 -> no_tail l1 = no_tail l2.
Proof.
  induction l1 as [|a r IH]; intros [|b r2] H; try discriminate; [reflexivity|]. cbn [map] in H. inversion H as [[Ha Hr]].
  cbn [no_tail]. rewrite (IH r2 Hr). f_equal.
  destruct a as [i t x k|s], b as [i2 t2 x2 k2|s2]; try discriminate; [|reflexivity]. cbn [shape] in Ha. inversion Ha; subst.
  destruct r as [|[|] ?], r2 as [|[|] ?]; try discriminate; reflexivity.
Qed.
Lemma is_el_shape l1 : forall l2, map shape l1 = map shape l2 -> forallb is_el l1 = forallb is_el l2.
Proof.
  induction l1 as [|a r IH]; intros [|b r2] H; try discriminate; [reflexivity|]. cbn [map] in H. inversion H as [[Ha Hr]].
  cbn [forallb]. rewrite (IH r2 Hr). f_equal. destruct a, b; try discriminate; reflexivity.
Qed.
Lemma update_shapes f rid moved l : map shape (map (update_id f rid (upd_app moved)) l) = map shape l.
Proof.
  rewrite map_map. apply map_ext. intros [i t a k|s]; [|destruct f; reflexivity].
  destruct (update_shape f rid moved i t a k) as (a' & k' & ->). reflexivity.
Qed.

Lemma no_tail_els l : forallb is_el l = true -> no_tail l = true.
Proof.
  induction l as [|k r IH]; [reflexivity|]. cbn [forallb]. intros H. apply andb_prop in H. destruct H as [H1 H2].
  cbn [no_tail]. rewrite (IH H2), andb_true_r. destruct k; [|reflexivity]. destruct r as [|[|] ?]; try reflexivity.
  cbn [forallb is_el is_tx negb andb] in H2. discriminate.
Qed.
Lemma no_tail_app_els kids moved : no_tail kids = true -> forallb is_el moved = true -> no_tail (kids ++ moved) = true.
Proof.
  intros Hk Hm. induction kids as [|k r IH]; [apply no_tail_els; exact Hm|]. cbn [no_tail app] in *.
  apply andb_prop in Hk. destruct Hk as [H1 H2]. rewrite (IH H2), andb_true_r.
  destruct k as [i t a kk|s]; [|reflexivity]. destruct r as [|[|] ?]; cbn [app]; try reflexivity; [|exact H1].
  destruct moved as [|[|] ?]; try reflexivity. cbn [forallb is_el is_tx negb andb] in Hm. discriminate.
Qed.

Lemma wfD_update f rid moved : forall x,
  wfD x = true -> forallb wfD moved = true -> forallb is_el moved = true ->
  wfD (update_id f rid (upd_app moved) x) = true.
Proof.
  induction f as [|f IH]; intros x Hw Hwm Hm; [exact Hw|]. destruct x as [i t a kids|s]; [|exact Hw].
  rewrite update_id_S. cbn [wfD] in Hw. apply andb_prop in Hw. destruct Hw as [Hw Hwk]. apply andb_prop in Hw. destruct Hw as [H1 Hnt].
  destruct (Nat.eqb i rid).
  - cbn [upd_app wfD].
    assert (A : forallb wfD (kids ++ moved) = true) by (rewrite forallb_app, Hwk, Hwm; reflexivity).
    rewrite A, (no_tail_app_els _ _ Hnt Hm), !andb_true_r.
    destruct (str_eqb t DISPLACED); [|reflexivity]. apply andb_prop in H1. destruct H1 as [H1 _].
    rewrite forallb_app, H1, Hm. unfold no_dattr. rewrite remove_attr_get. reflexivity.
  - cbn [wfD]. rewrite (no_tail_shape _ _ (update_shapes f rid moved kids)), Hnt.
    rewrite (is_el_shape _ _ (update_shapes f rid moved kids)), H1. cbn [andb].
    rewrite forallb_forall. intros k Hk. apply in_map_iff in Hk. destruct Hk as (k0 & <- & Hk0).
    apply IH; try assumption. rewrite forallb_forall in Hwk. apply Hwk. exact Hk0.
Qed.

(* ---------- one reference ---------- *)
Definition Inv (root : ixml) (next : nat) : Prop :=
  wfD root = true /\ NoDup (ids root) /\ Forall (fun i => (i < next)%nat) (ids root).
Definition ph_sig : sigT := (of_string "p", [], of_string "(content missing)").
Definition is_blk (n : nat * sigT) : Prop := fst (fst (snd n)) = DISPLACED.
Definition is_ph (n : nat * sigT) : Prop := snd n = ph_sig.

Lemma update_ext f rid u1 u2 : (forall x, u1 x = u2 x) -> forall y, update_id f rid u1 y = update_id f rid u2 y.
Proof.
  intros He. induction f as [|f IH]; intros y; [reflexivity|]. destruct y as [i t a kids|s]; [|reflexivity].
  rewrite !update_id_S. destruct (Nat.eqb i rid); [apply He|]. f_equal. apply map_ext. exact IH.
Qed.

Lemma drop_leading_els l : forallb is_el l = true -> drop_leading_text l = l.
Proof. destruct l as [|[|] ?]; try reflexivity. discriminate. Qed.

Lemma nodes_missing_p n : nodes (missing_p n) = [(n, ph_sig)].
Proof. reflexivity. Qed.

Lemma resolve_ref_unfold f root next rid :
  resolve_ref f root next rid =
  match chain_to f rid root with
  | None => OkR (root, next)
  | Some chain =>
      match rev chain with
      | [] => OkR (root, next)
      | ref :: ancestors =>
          match ref with
          | ITx _ => OkR (root, next)
          | IEl _ _ rattrs _ =>
              match get_attr DISPLACED rattrs with
              | None => ErrR E_KEY
              | Some name =>
                  let marker := get_attr MARKER rattrs in
                  let anc_ids := flat_map (fun a => match id_of a with Some i => [i] | None => [] end) ancestors in
                  match fd_kids (first_displaced f marker name anc_ids) ancestors with
                  | Some cid =>
                      let '(root1, got) := remove_id f cid root in
                      let moved := match got with Some ck => drop_leading_text ck | None => [] end in
                      OkR (update_id f rid (upd_app moved) root1, next)
                  | None => OkR (update_id f rid (upd_app [missing_p next]) root, S next)
                  end
              end
          end
      end
  end.
Proof.
  unfold resolve_ref. destruct (chain_to f rid root) as [chain|]; [|reflexivity].
  destruct (rev chain) as [|ref ancestors]; [reflexivity|]. destruct ref as [i t rattrs rk|s]; [|reflexivity].
  destruct (get_attr DISPLACED rattrs) as [name|]; [|reflexivity]. cbn zeta.
  change ((fix go (l : list ixml) : option nat :=
             match l with
             | [] => None
             | a :: r =>
                 match first_displaced f (get_attr MARKER rattrs) name
                         (flat_map (fun a0 => match id_of a0 with Some i0 => [i0] | None => [] end) ancestors) a with
                 | Some j => Some j
                 | None => go r
                 end
             end) ancestors)
    with (fd_kids (first_displaced f (get_attr MARKER rattrs) name
                     (flat_map (fun a0 => match id_of a0 with Some i0 => [i0] | None => [] end) ancestors)) ancestors).
  destruct (fd_kids _ ancestors) as [cid|].
  - destruct (remove_id f cid root) as [root1 got]. f_equal. f_equal. apply update_ext. intros [j jt ja jk|s]; reflexivity.
  - f_equal. f_equal. apply update_ext. intros [j jt ja jk|s]; reflexivity.
Qed.

Lemma inv_sub (L' L used : list (nat * sigT)) next :
  NoDup (map fst L) -> Forall (fun i => (i < next)%nat) (map fst L) -> Permutation (L' ++ used) L ->
  NoDup (map fst L') /\ Forall (fun i => (i < next)%nat) (map fst L').
Proof.
  intros Hn Hf Hp. apply (Permutation_map fst) in Hp. rewrite map_app in Hp. split.
  - apply Permutation_sym in Hp. apply (Permutation_NoDup Hp) in Hn. apply NoDup_app_remove_r in Hn. exact Hn.
  - rewrite Forall_forall in *. intros i Hi. apply Hf. eapply Permutation_in; [exact Hp|]. apply in_or_app. left. exact Hi.
Qed.

Lemma anc_ids_map l : (forall y, In y l -> exists i t a k, y = IEl i t a k) ->
  flat_map (fun a => match id_of a with Some i => [i] | None => [] end) l = map iid l.
Proof.
  induction l as [|y r IH]; intros H; [reflexivity|]. cbn [flat_map map]. rewrite IH by (intros z Hz; apply H; right; exact Hz).
  destruct (H y (or_introl eq_refl)) as (i & t & a & k & ->). reflexivity.
Qed.

Definition conserved (root root' : ixml) : Prop :=
  exists used phs, Permutation (nodes root' ++ used) (nodes root ++ phs)
                   /\ Forall is_blk used /\ Forall is_ph phs /\ (length phs <= 1)%nat.

Lemma conserved_same root root' : Permutation (nodes root') (nodes root) -> conserved root root'.
Proof. intros H. exists [], []. rewrite !app_nil_r. repeat split; auto. Qed.

Lemma inv_perm root root' next : Inv root next -> wfD root' = true -> Permutation (nodes root') (nodes root) -> Inv root' next.
Proof.
  intros (_ & Hn & Hf) Hw Hp. rewrite ids_nodes in *.
  destruct (inv_sub (nodes root') (nodes root) [] next Hn Hf) as [A B]; [rewrite app_nil_r; exact Hp|].
  split; [exact Hw|]. rewrite ids_nodes. split; assumption.
Qed.

Lemma resolve_ref_conserve f root next rid root' next' :
  Inv root next -> resolve_ref f root next rid = OkR (root', next') ->
  Inv root' next' /\ conserved root root'.
Proof.
  intros HI H. pose proof HI as (Hw & Hnd & Hlt). rewrite resolve_ref_unfold in H.
  destruct (chain_to f rid root) as [chain|] eqn:Ec.
  2:{ inversion H; subst. split; [exact HI|apply conserved_same, Permutation_refl]. }
  destruct (rev chain) as [|ref ancestors] eqn:Er.
  { inversion H; subst. split; [exact HI|apply conserved_same, Permutation_refl]. }
  destruct ref as [ri rt rattrs rk|s].
  2:{ inversion H; subst. split; [exact HI|apply conserved_same, Permutation_refl]. }
  destruct (get_attr DISPLACED rattrs) as [name|] eqn:Ea; [|discriminate]. cbn zeta in H.
  destruct (chain_to_spec _ _ _ _ Ec) as (Hall & init & ct & ca & ck0 & Echain).
  assert (Eref : IEl ri rt rattrs rk = IEl rid ct ca ck0 /\ ancestors = rev init).
  { rewrite Echain, rev_app_distr in Er. cbn [rev app] in Er. inversion Er. split; reflexivity. }
  destruct Eref as [Eref Eanc]. inversion Eref; subst ri ct ca ck0. clear Eref.
  rewrite Forall_forall in Hall.
  assert (Hrefin : In (IEl rid rt rattrs rk) (subs root)) by (apply Hall; rewrite Echain; apply in_or_app; right; left; reflexivity).
  assert (Hancin : forall y, In y ancestors -> In y (subs root)).
  { intros y Hy. apply Hall. rewrite Echain. apply in_or_app. left. rewrite Eanc in Hy. apply in_rev. exact Hy. }
  rewrite (anc_ids_map ancestors) in H by (intros y Hy; eapply subs_are_elements; apply Hancin; exact Hy).
  destruct (fd_kids _ ancestors) as [cid|] eqn:Ef.
  - (* a block was found *)
    destruct (remove_id f cid root) as [root1 got] eqn:Erm. inversion H; subst root' next'. clear H.
    destruct got as [ck|].
    + destruct (fd_kids_some _ _ _ Ef) as (anc & Hanc & Efd).
      destruct (first_displaced_spec _ _ _ _ _ _ Efd) as ((at0 & ck0 & Hblk) & Hnotanc).
      assert (Hblkin : In (IEl cid DISPLACED at0 ck0) (subs root)) by (eapply subs_trans; [exact Hblk|apply Hancin; exact Hanc]).
      destruct (remove_some _ _ _ _ _ Hw Erm) as (tg & at1 & Hrmin & Hd).
      pose proof (subs_unique root _ _ Hnd Hrmin Hblkin eq_refl) as Esame. inversion Esame; subst tg at1 ck0. clear Esame.
      destruct (Hd eq_refl) as [Hp Hw1]. clear Hd.
      pose proof (wfD_subs root Hw _ Hblkin) as Hwb. destruct (wfD_block _ _ _ Hwb) as [Hel Hna].
      assert (Hwck : forallb wfD ck = true).
      { cbn [wfD] in Hwb. apply andb_prop in Hwb. apply Hwb. }
      rewrite (drop_leading_els ck Hel).
      (* the block is neither the reference nor one of its ancestors *)
      assert (Hne : cid <> rid).
      { intros ->. pose proof (subs_unique root _ _ Hnd Hrefin Hblkin eq_refl) as E. inversion E; subst.
        unfold no_dattr in Hna. rewrite Ea in Hna. discriminate. }
      assert (Hnc : ~ In cid (map iid chain)).
      { rewrite Echain, map_app. intros Hin. apply in_app_or in Hin. destruct Hin as [Hin|[Hin|[]]].
        - apply Hnotanc. rewrite Eanc, map_rev. apply -> in_rev. exact Hin.
        - cbn [iid] in Hin. congruence. }
      destruct (chain_after_remove _ _ _ _ _ Ec Hnc) as (c' & Ec'). rewrite Erm in Ec'. cbn [fst] in Ec'.
      assert (Hinv1 : NoDup (ids root1)).
      { rewrite ids_nodes in *. apply (Permutation_map fst) in Hp. apply (Permutation_NoDup Hp) in Hnd.
        cbn [map] in Hnd. inversion Hnd; subst. rewrite map_app in H2. apply NoDup_app_remove_l in H2. exact H2. }
      pose proof (update_found _ _ _ _ _ Ec' Hinv1 Hel) as Hp2.
      assert (Hfin : Permutation (nodes (update_id f rid (upd_app ck) root1) ++ [blk_node cid DISPLACED at0 ck]) (nodes root)).
      { rewrite Hp2, Hp. apply Permutation_sym. apply Permutation_cons_app. rewrite app_nil_r. apply Permutation_app_comm. }
      split.
      * rewrite ids_nodes in *. destruct (inv_sub _ _ _ next Hnd Hlt Hfin) as [A B].
        split; [apply wfD_update; assumption|]. rewrite ids_nodes. split; assumption.
      * exists [blk_node cid DISPLACED at0 ck], []. rewrite app_nil_r. repeat split; auto. constructor; [reflexivity|constructor].
    + (* the block could not be taken out: nothing moves *)
      pose proof (remove_none f cid root) as Hrn. rewrite Erm in Hrn. cbn [fst snd] in Hrn. specialize (Hrn eq_refl). subst root1.
      pose proof (update_found _ _ [] _ _ Ec Hnd eq_refl) as Hp2. cbn [nodesl flat_map] in Hp2. rewrite app_nil_r in Hp2.
      split; [|apply conserved_same; exact Hp2]. eapply inv_perm; [exact HI| |exact Hp2]. apply wfD_update; auto.
  - (* no block: the placeholder *)
    inversion H; subst root' next'. clear H.
    pose proof (update_found _ _ [missing_p next] _ _ Ec Hnd eq_refl) as Hp2.
    change (nodesl [missing_p next]) with (nodes (missing_p next) ++ []) in Hp2. rewrite nodes_missing_p in Hp2. cbn [app] in Hp2.
    split.
    + split; [apply wfD_update; auto|]. rewrite ids_nodes in *. apply (Permutation_map fst) in Hp2. rewrite map_app in Hp2. cbn [map fst] in Hp2.
      split.
      * apply Permutation_sym in Hp2. apply (Permutation_NoDup Hp2). apply NoDup_app_intro.
        -- exact Hnd.
        -- constructor; [intros []|constructor].
        -- intros x Hx [<-|[]]. rewrite Forall_forall in Hlt. specialize (Hlt _ Hx). lia.
      * rewrite Forall_forall in *. intros i Hi. apply (Permutation_in _ Hp2) in Hi. apply in_app_or in Hi.
        destruct Hi as [Hi|[<-|[]]]; [specialize (Hlt _ Hi); lia|lia].
    + exists [], [(next, ph_sig)]. rewrite app_nil_r. repeat split; auto. constructor; [reflexivity|constructor].
Qed.

(* ---------- all references ---------- *)
Definition step (f : nat) (acc : R (ixml * nat)) (rid : nat) : R (ixml * nat) :=
  do '(t, n) <- acc; resolve_ref f t n rid.

Lemma fold_err f refs e : fold_left (step f) refs (ErrR e) = ErrR e.
Proof. induction refs as [|r rs IH]; [reflexivity|]. cbn [fold_left step bind]. exact IH. Qed.

Lemma fold_conserve f refs : forall root next root' next',
  Inv root next -> fold_left (step f) refs (OkR (root, next)) = OkR (root', next') ->
  Inv root' next' /\
  exists used phs, Permutation (nodes root' ++ used) (nodes root ++ phs)
                   /\ Forall is_blk used /\ Forall is_ph phs /\ (length phs <= length refs)%nat.
Proof.
  induction refs as [|rid rs IH]; intros root next root' next' HI H.
  - cbn in H. inversion H; subst. split; [exact HI|]. exists [], []. rewrite !app_nil_r. repeat split; auto.
  - cbn [fold_left] in H. unfold step at 2 in H. cbn [bind] in H.
    destruct (resolve_ref f root next rid) as [[r1 n1]|e] eqn:E; [|rewrite fold_err in H; discriminate].
    destruct (resolve_ref_conserve _ _ _ _ _ _ HI E) as (HI1 & u1 & p1 & P1 & B1 & Q1 & L1).
    destruct (IH _ _ _ _ HI1 H) as (HI2 & u2 & p2 & P2 & B2 & Q2 & L2).
    split; [exact HI2|]. exists (u2 ++ u1), (p1 ++ p2). repeat split.
    + rewrite app_assoc, P2. rewrite <- app_assoc. etransitivity; [apply Permutation_app_head, Permutation_app_comm|].
      rewrite app_assoc, P1. rewrite <- !app_assoc. apply Permutation_refl.
    + apply Forall_app. split; assumption.
    + apply Forall_app. split; assumption.
    + rewrite app_length. cbn [length]. lia.
Qed.

(* ---------- unused blocks become paragraphs ---------- *)
Definition splice_kids (rec : ixml -> R (list ixml)) : bool -> list ixml -> R (list ixml) :=
  fix go (skip : bool) (l : list ixml) : R (list ixml) :=
    match l with
    | [] => OkR []
    | k :: r =>
        match k with
        | IEl _ kt _ _ => do k' <- rec k; do r' <- go (str_eqb kt DISPLACED) r; OkR (k' ++ r')
        | ITx _ => do r' <- go false r; OkR (if skip then r' else k :: r')
        end
    end.

Lemma splice_displaced_S f i tag attrs kids :
  splice_displaced (S f) (IEl i tag attrs kids) =
  (do _ <- (if str_eqb tag DISPLACED then
              match get_attr NAME attrs, get_attr MARKER attrs with
              | None, _ => ErrR E_ATTR | Some _, None => ErrR E_TYPE | _, _ => OkR tt end
            else OkR tt);
   do kids' <- splice_kids (splice_displaced f) false kids;
   if str_eqb tag DISPLACED then
     match get_attr NAME attrs, get_attr MARKER attrs with
     | Some n, Some m => OkR (IEl i (of_string "p") [] [ITx (upper n ++ SP :: m)] :: drop_leading_text kids')
     | None, _ => ErrR E_ATTR
     | Some _, None => ErrR E_TYPE
     end
   else OkR [IEl i tag attrs kids']).
Proof. reflexivity. Qed.

Definition retag_sig (s : sigT) : sigT :=
  let '(t, a, d) := s in
  if str_eqb t DISPLACED then
    match get_attr NAME a, get_attr MARKER a with
    | Some n, Some m => (of_string "p", [], upper n ++ SP :: m)
    | _, _ => s
    end
  else s.
Definition retag (n : nat * sigT) : nat * sigT := (fst n, retag_sig (snd n)).

Lemma splice_nodes f : forall x l,
  wfD x = true -> splice_displaced f x = OkR l ->
  nodesl l = map retag (nodes x) /\ dtext l = dtext [x] /\ (is_el x = true -> forallb is_el l = true).
Proof.
  induction f as [|f IH]; intros x l Hw H; [discriminate|]. destruct x as [i tag attrs kids|s].
  2:{ cbn in H. inversion H; subst. repeat split; try discriminate. }
  rewrite splice_displaced_S in H.
  destruct (if str_eqb tag DISPLACED then _ else _) as [u|e] in H; [|discriminate]. cbn [bind] in H.
  destruct (splice_kids (splice_displaced f) false kids) as [kids'|e] eqn:EK; [|discriminate]. cbn [bind] in H.
  cbn [wfD] in Hw. apply andb_prop in Hw. destruct Hw as [Hw Hwk]. apply andb_prop in Hw. destruct Hw as [H1 Hnt].
  assert (K : forall kids skip kids', forallb wfD kids = true -> no_tail kids = true -> (skip = true -> hd_tx kids = false) ->
             splice_kids (splice_displaced f) skip kids = OkR kids' ->
             nodesl kids' = map retag (nodesl kids) /\ dtext kids' = dtext kids /\ (forallb is_el kids = true -> forallb is_el kids' = true)).
  { clear kids kids' EK Hwk Hnt H H1. induction kids as [|k r IHk]; intros skip kids' Hwk Hnt Hs E; cbn [splice_kids] in E.
    - inversion E; subst. repeat split; auto.
    - cbn [forallb] in Hwk. apply andb_prop in Hwk. destruct Hwk as [Hwk Hwr].
      cbn [no_tail] in Hnt. apply andb_prop in Hnt. destruct Hnt as [Hnt1 Hntr].
      destruct k as [j jt ja jk|s].
      + destruct (splice_displaced f (IEl j jt ja jk)) as [k'|e] eqn:Ek; [|discriminate]. cbn [bind] in E.
        destruct (splice_kids (splice_displaced f) (str_eqb jt DISPLACED) r) as [r'|e] eqn:Er; [|discriminate]. cbn [bind] in E.
        inversion E; subst. destruct (IH _ _ Hwk Ek) as (A1 & A2 & A3).
        assert (Hs' : str_eqb jt DISPLACED = true -> hd_tx r = false).
        { intros Hd. rewrite Hd in Hnt1. destruct r as [|[|] ?]; try reflexivity. discriminate. }
        destruct (IHk _ _ Hwr Hntr Hs' Er) as (B1 & B2 & B3).
        rewrite nodesl_app, nodesl_cons, map_app, A1, B1, dtext_app, A2, B2. repeat split.
        cbn [forallb]. intros Hel. apply andb_prop in Hel. destruct Hel as [_ Hel]. rewrite forallb_app, (A3 eq_refl), (B3 Hel). reflexivity.
      + destruct (splice_kids (splice_displaced f) false r) as [r'|e] eqn:Er; [|discriminate]. cbn [bind] in E.
        destruct skip; [specialize (Hs eq_refl); discriminate|]. inversion E; subst.
        destruct (IHk _ _ Hwr Hntr (fun H => False_ind _ (Bool.diff_false_true H)) Er) as (B1 & B2 & B3).
        repeat split; [exact B1|rewrite !dtext_cons_tx, B2; reflexivity|discriminate]. }
  destruct (K kids false kids' Hwk Hnt (fun H => False_ind _ (Bool.diff_false_true H)) EK) as (K1 & K2 & K3).
  destruct (str_eqb tag DISPLACED) eqn:Et.
  - apply str_eqb_spec in Et. subst tag. apply andb_prop in H1. destruct H1 as [Hel Hna].
    destruct (get_attr NAME attrs) as [n|] eqn:En; [|discriminate]. destruct (get_attr MARKER attrs) as [m|] eqn:Em; [|discriminate].
    inversion H; subst. rewrite (drop_leading_els kids' (K3 Hel)). repeat split.
    + rewrite nodesl_cons, !nodes_El. cbn [map]. unfold retag at 1. cbn [fst snd retag_sig]. rewrite str_eqb_refl.
      unfold no_dattr in Hna. destruct (get_attr DISPLACED attrs) eqn:Ed; [discriminate|]. rewrite (remove_attr_absent _ _ Ed), En, Em.
      cbn [nodesl flat_map nodes subs map app remove_attr dtext node_of iid sig_of]. rewrite !app_nil_r.
      f_equal. exact K1.
    + rewrite dtext_cons_el, K2. cbn [dtext flat_map app]. apply dtext_els. exact Hel.
    + cbn [forallb is_el is_tx negb andb]. intros _. apply K3. exact Hel.
  - inversion H; subst. repeat split. cbn [nodesl flat_map]. rewrite app_nil_r, !nodes_El. cbn [map]. unfold retag at 1. cbn [fst snd retag_sig].
    rewrite Et, K2, K1. reflexivity.
Qed.

(* ---------- back to plain trees ---------- *)
Definition xdtext (kids : list xml) : str := flat_map (fun k => match k with Tx s => s | El _ _ _ => [] end) kids.
Fixpoint xsigs (x : xml) : list sigT :=
  match x with Tx _ => [] | El t a k => (t, remove_attr DISPLACED a, xdtext k) :: flat_map xsigs k end.

Lemma idepth_El i t a k : idepth (IEl i t a k) = S (fold_right (fun k m => Nat.max (idepth k) m) 0%nat k).
Proof. reflexivity. Qed.
Lemma idepth_kids k f : (fold_right (fun k m => Nat.max (idepth k) m) 0 k <= f)%nat -> Forall (fun y => (idepth y <= f)%nat) k.
Proof. induction k as [|y r IH]; [constructor|]. cbn [fold_right]. intros H. constructor; [lia|apply IH; lia]. Qed.

Lemma forget_S f i t a k : forget (S f) (IEl i t a k) = El t a (map (forget f) k).
Proof. reflexivity. Qed.

Lemma forget_dtext f k : Forall (fun y => (idepth y <= f)%nat) k -> xdtext (map (forget f) k) = dtext k.
Proof.
  induction 1 as [|y r Hy Hr IHr]; [reflexivity|]. cbn [map]. destruct f as [|f]; [destruct y; cbn in Hy; lia|].
  destruct y as [j jt ja jk|s].
  - rewrite forget_S. cbn [xdtext flat_map app]. rewrite dtext_cons_el. exact IHr.
  - cbn [forget xdtext flat_map]. rewrite dtext_cons_tx. f_equal. exact IHr.
Qed.

Lemma forget_sigs f : forall r, (idepth r <= f)%nat -> xsigs (forget f r) = map snd (nodes r).
Proof.
  induction f as [|f IH]; intros r Hd.
  - destruct r; cbn in Hd; lia.
  - destruct r as [i t a k|s]; [|reflexivity]. rewrite forget_S, nodes_El. rewrite idepth_El in Hd.
    assert (Hk : Forall (fun y => (idepth y <= f)%nat) k) by (apply idepth_kids; lia). clear Hd.
    cbn [xsigs map snd]. rewrite (forget_dtext f k Hk).
    assert (E2 : flat_map xsigs (map (forget f) k) = map snd (nodesl k)); [|rewrite E2; reflexivity].
    clear -IH Hk. induction Hk as [|y r Hy Hr IHr]; [reflexivity|]. cbn [map flat_map]. rewrite nodesl_cons, map_app, IHr, (IH y Hy). reflexivity.
Qed.

Lemma xdtext_cons_tx s r : xdtext (Tx s :: r) = s ++ xdtext r. Proof. reflexivity. Qed.

Definition nt_kids (rec : xml -> xml) : list xml -> list xml :=
  fix go (l : list xml) : list xml :=
    match l with
    | [] => []
    | Tx [] :: r => go r
    | Tx a :: r => match go r with Tx b :: r' => Tx (a ++ b) :: r' | r' => Tx a :: r' end
    | k :: r => rec k :: go r
    end.
Lemma normalise_text_S f t a k : normalise_text (S f) (El t a k) = El t a (nt_kids (normalise_text f) k).
Proof. reflexivity. Qed.

Lemma normalise_text_El f t a k : exists k', normalise_text f (El t a k) = El t a k'.
Proof. destruct f; [exists k; reflexivity|]. rewrite normalise_text_S. eauto. Qed.

Lemma normalise_text_sigs f : forall x, xsigs (normalise_text f x) = xsigs x.
Proof.
  induction f as [|f IH]; intros x; [reflexivity|]. destruct x as [t a k|s]; [|reflexivity].
  rewrite normalise_text_S. cbn [xsigs].
  assert (K : xdtext (nt_kids (normalise_text f) k) = xdtext k /\ flat_map xsigs (nt_kids (normalise_text f) k) = flat_map xsigs k).
  { induction k as [|y r [I1 I2]]; [split; reflexivity|]. destruct y as [yt ya yk|[|c s]].
    - cbn [nt_kids]. destruct (normalise_text_El f yt ya yk) as (k' & E). split.
      + rewrite E. cbn [xdtext flat_map app] in *. exact I1.
      + cbn [flat_map]. rewrite IH, I2. reflexivity.
    - cbn [nt_kids]. cbn [xdtext flat_map xsigs app] in *. split; assumption.
    - cbn [nt_kids]. rewrite xdtext_cons_tx. cbn [flat_map xsigs app]. rewrite <- I1, <- I2.
      destruct (nt_kids (normalise_text f) r) as [|[gt ga gk|b] r'] eqn:Eg.
      + split; reflexivity.
      + split; reflexivity.
      + rewrite !xdtext_cons_tx, app_assoc. split; reflexivity. }
  destruct K as [K1 K2]. rewrite K1, K2. reflexivity.
Qed.

(* ---------- numbering the elements ---------- *)
Definition xshape (k : xml) : option str := match k with El t _ _ => Some t | Tx _ => None end.
Fixpoint no_tail_s (l : list (option str)) : bool :=
  match l with
  | [] => true
  | k :: r => (match k, r with Some t, None :: _ => negb (str_eqb t DISPLACED) | _, _ => true end) && no_tail_s r
  end.
Lemma no_tail_as_shape l : no_tail l = no_tail_s (map shape l).
Proof.
  induction l as [|k r IH]; [reflexivity|]. cbn [no_tail map no_tail_s]. rewrite IH. f_equal.
  destruct k as [i t a kk|s]; [|reflexivity]. destruct r as [|[|] ?]; reflexivity.
Qed.
Definition x_is_el (k : xml) : bool := match k with El _ _ _ => true | Tx _ => false end.

(* the shape the XML builder gives to placeholder blocks, on plain trees *)
Fixpoint wfDx (x : xml) : bool :=
  match x with
  | Tx _ => true
  | El tag attrs kids =>
      (if str_eqb tag DISPLACED then forallb x_is_el kids && no_dattr attrs else true)
      && no_tail_s (map xshape kids) && forallb wfDx kids
  end.

Fixpoint xd (x : xml) : nat :=
  match x with Tx _ => 1%nat | El _ _ k => S (fold_right (fun k m => Nat.max (xd k) m) 0%nat k) end.
Lemma xd_kids k f : (fold_right (fun k m => Nat.max (xd k) m) 0 k <= f)%nat -> Forall (fun y => (xd y <= f)%nat) k.
Proof. induction k as [|y r IH]; [constructor|]. cbn [fold_right]. intros H. constructor; [lia|apply IH; lia]. Qed.

Definition number_kids (rec : xml -> nat -> ixml * nat) : list xml -> nat -> list ixml * nat :=
  fix go (l : list xml) (n : nat) : list ixml * nat :=
    match l with
    | [] => ([], n)
    | k :: r => let '(k', n1) := rec k n in let '(r', n2) := go r n1 in (k' :: r', n2)
    end.
Lemma number_S f tag attrs kids next :
  number (S f) (El tag attrs kids) next =
  let '(kids', n') := number_kids (number f) kids (S next) in (IEl next tag attrs kids', n').
Proof. reflexivity. Qed.

Lemma is_el_as_shape l l' : map shape l = map xshape l' -> forallb is_el l = forallb x_is_el l'.
Proof.
  revert l'. induction l as [|a r IH]; intros [|b r2] H; try discriminate; [reflexivity|]. cbn [map] in H. inversion H as [[Ha Hr]].
  cbn [forallb]. rewrite (IH r2 Hr). f_equal. destruct a, b; try discriminate; reflexivity.
Qed.

Lemma number_spec f : forall x n ix n',
  (xd x <= f)%nat -> number f x n = (ix, n') ->
  map snd (nodes ix) = xsigs x /\ (n <= n')%nat /\ ids ix = seq n (n' - n) /\ wfD ix = wfDx x /\ shape ix = xshape x
  /\ match x with Tx s => ix = ITx s | El _ _ _ => True end.
Proof.
  induction f as [|f IH]; intros x n ix n' Hd H; [destruct x; cbn in Hd; lia|].
  destruct x as [tag attrs kids|s].
  2:{ cbn in H. inversion H; subst. rewrite Nat.sub_diag. repeat split; auto. }
  rewrite number_S in H. destruct (number_kids (number f) kids (S n)) as [kids' m] eqn:EK. inversion H; subst ix n'. clear H.
  cbn [xd] in Hd. assert (Hk : Forall (fun y => (xd y <= f)%nat) kids) by (apply xd_kids; lia). clear Hd.
  assert (K : forall kids n kids' m, Forall (fun y => (xd y <= f)%nat) kids -> number_kids (number f) kids n = (kids', m) ->
            map snd (nodesl kids') = flat_map xsigs kids /\ (n <= m)%nat /\ flat_map ids kids' = seq n (m - n)
            /\ forallb wfD kids' = forallb wfDx kids /\ map shape kids' = map xshape kids /\ dtext kids' = xdtext kids).
  { clear kids kids' m EK Hk n. induction kids as [|k r IHk]; intros n kids' m Hk E; cbn [number_kids] in E.
    - inversion E; subst. rewrite Nat.sub_diag. repeat split; auto.
    - inversion Hk as [|? ? Hk1 Hkr]; subst. destruct (number f k n) as [k' n1] eqn:Ek.
      destruct (number_kids (number f) r n1) as [r' n2] eqn:Er. inversion E; subst.
      destruct (IH _ _ _ _ Hk1 Ek) as (A1 & A2 & A3 & A4 & A5 & A6). destruct (IHk _ _ _ Hkr Er) as (B1 & B2 & B3 & B4 & B5 & B6).
      rewrite nodesl_cons, map_app, A1, B1. cbn [flat_map forallb map]. rewrite A3, B3, A4, B4, A5, B5.
      repeat split; try lia.
      + replace (m - n)%nat with ((n1 - n) + (m - n1))%nat by lia. rewrite seq_app. f_equal. f_equal. lia.
      + destruct k as [kt ka kk|s]; [|subst k'; rewrite dtext_cons_tx, B6; reflexivity].
        destruct k' as [j jt ja jk|s']; [|discriminate]. rewrite dtext_cons_el, B6. reflexivity. }
  destruct (K kids (S n) kids' m Hk EK) as (K1 & K2 & K3 & K4 & K5 & K6).
  rewrite nodes_El, ids_El. cbn [map snd xsigs wfD wfDx shape xshape]. rewrite K1, K3, K4, K6, no_tail_as_shape, K5, (is_el_as_shape _ _ K5).
  repeat split; try lia. replace (m - n)%nat with (S (m - S n)) by lia. reflexivity.
Qed.

(* ---------- sizes ---------- *)
Lemma fold_left_sum (g : xml -> nat) l : forall a, fold_left (fun n k => (n + g k)%nat) l a = (a + list_sum (map g l))%nat.
Proof. induction l as [|k r IH]; intros a; simpl; [lia|]. rewrite IH. lia. Qed.

Lemma xsize_El t a k : xsize (El t a k) = S (list_sum (map xsize k)).
Proof. cbn [xsize]. rewrite fold_left_sum. reflexivity. Qed.

Lemma xd_le_xsize x : (xd x <= xsize x)%nat /\ (length (xsigs x) <= xsize x)%nat.
Proof.
  induction x as [t a k IH|s] using xml_ind2; [|cbn; lia]. rewrite xsize_El. cbn [xd xsigs length].
  induction IH as [|y r [Hy1 Hy2] Hr [I1 I2]]; [cbn; lia|]. cbn [fold_right map flat_map]. rewrite app_length.
  change (list_sum (xsize y :: map xsize r)) with (xsize y + list_sum (map xsize r))%nat. lia.
Qed.

Lemma idepth_le_nodes x : (idepth x <= S (length (nodes x)))%nat.
Proof.
  induction x as [i t a k IH|s] using ixml_ind2; [|cbn; lia]. rewrite idepth_El, nodes_El. cbn [length].
  induction IH as [|y r Hy Hr I]; [cbn; lia|]. cbn [fold_right]. rewrite nodesl_cons, app_length. lia.
Qed.

Lemma refs_len f : forall x, (length (refs_of f x) <= length (nodes x))%nat.
Proof.
  induction f as [|f IH]; intros x; [cbn; lia|]. destruct x as [i t a k|s]; [|cbn; lia].
  cbn [refs_of]. rewrite nodes_El, app_length. cbn [length].
  assert (length (flat_map (refs_of f) k) <= length (nodesl k))%nat.
  { induction k as [|y r I]; [cbn; lia|]. cbn [flat_map]. rewrite nodesl_cons, !app_length. specialize (IH y). lia. }
  destruct (get_attr DISPLACED a); cbn [length]; lia.
Qed.

Lemma retag_snd L : map snd (map retag L) = map retag_sig (map snd L).
Proof. rewrite !map_map. reflexivity. Qed.

Lemma retag_ph n : is_ph n -> retag_sig (snd n) = ph_sig.
Proof. unfold is_ph. intros ->. reflexivity. Qed.

(* ---------- the theorem ---------- *)
Theorem displaced_conserves x y :
  wfDx x = true -> resolve_displaced_content x = OkR y ->
  exists used phs,
    Permutation (xsigs y ++ map retag_sig used) (map retag_sig (xsigs x) ++ phs)
    /\ Forall (fun s => fst (fst s) = DISPLACED) used /\ Forall (fun s => s = ph_sig) phs.
Proof.
  intros Hwx H. unfold resolve_displaced_content in H. remember (displaced_fuel x) as f eqn:Ef. cbn zeta in H.
  destruct (number f x 0) as [ix next] eqn:En.
  destruct (xd_le_xsize x) as [Hxd Hxl].
  assert (Hf : (xd x <= f)%nat) by (rewrite Ef; unfold displaced_fuel; lia).
  destruct (number_spec f x 0 ix next Hf En) as (N1 & N2 & N3 & N4 & _).
  assert (HI : Inv ix next).
  { split; [rewrite N4; exact Hwx|]. rewrite N3. split; [apply seq_NoDup|]. apply Forall_forall. intros i Hi. apply in_seq in Hi. lia. }
  change (fold_left _ (refs_of f ix) (OkR (ix, next))) with (fold_left (step f) (refs_of f ix) (OkR (ix, next))) in H.
  destruct (fold_left (step f) (refs_of f ix) (OkR (ix, next))) as [[ix1 n1]|e] eqn:EF; [|discriminate]. cbn [bind] in H.
  destruct (fold_conserve _ _ _ _ _ _ HI EF) as ((Hw1 & _ & _) & used & phs & P & B & Q & L).
  destruct (splice_displaced f ix1) as [l|e] eqn:ES; [|discriminate]. cbn [bind] in H.
  destruct l as [|r [|? ?]]; try discriminate. inversion H; subst y. clear H.
  destruct (splice_nodes _ _ _ Hw1 ES) as (S1 & _ & _). cbn [nodesl flat_map] in S1. rewrite app_nil_r in S1.
  (* the result is not deeper than the fuel *)
  assert (Hlen : (length (nodes r) <= xsize x + xsize x)%nat).
  { rewrite S1, map_length. apply Permutation_length in P. rewrite !app_length in P.
    pose proof (refs_len f ix) as R1. assert (length (nodes ix) = length (xsigs x)) by (rewrite <- N1, map_length; reflexivity). lia. }
  assert (Hdep : (idepth r <= f)%nat) by (pose proof (idepth_le_nodes r); rewrite Ef; unfold displaced_fuel; lia).
  rewrite normalise_text_sigs, (forget_sigs f r Hdep), S1, retag_snd.
  exists (map snd used), (map snd phs). split; [|split].
  - apply (Permutation_map snd) in P. rewrite !map_app, N1 in P. apply (Permutation_map retag_sig) in P.
    rewrite !map_app in P. rewrite P. apply Permutation_app_head.
    assert (E : map retag_sig (map snd phs) = map snd phs); [|rewrite E; apply Permutation_refl].
    clear -Q. induction Q as [|n r Hn Hr IH]; [reflexivity|]. cbn [map]. rewrite IH, (retag_ph n Hn). f_equal. symmetry. exact Hn.
  - apply Forall_forall. intros s Hs. apply in_map_iff in Hs. destruct Hs as (n & <- & Hn). rewrite Forall_forall in B. exact (B n Hn).
  - apply Forall_forall. intros s Hs. apply in_map_iff in Hs. destruct Hs as (n & <- & Hn). rewrite Forall_forall in Q. exact (Q n Hn).
Qed.
