(* C04 (XML stage): how the children of a hierarchical element are grouped.  The stateful generator
   is the pure wrapper [wrap_spec] applied to the children converted in ONE left-to-right pass:
   nothing is lost, duplicated or reordered, the first block run becomes intro, a block run after the
   last hierarchical child becomes wrapUp, the ones in between hcontainer/content, and hierarchical
   children (and crossheadings) stay as they are. *)
Require Import BB.Base.Str BB.Base.Xml BB.Base.Dict BB.Model.Types BB.Model.Eid BB.Model.XmlGen BB.Proofs.XmlShape.
Open Scope N_scope.

(* the pure shape: groups are (is_hier, converted children of the group) *)
Fixpoint wrap_spec (n : nat) (gs : list (bool * list xml)) (i : nat) (seen : bool) : list xml :=
  match gs with
  | [] => []
  | (h, k) :: r =>
      (if h then k
       else if seen then
         if Nat.eqb i (n - 1) then [El (S_ "wrapUp") [] k]
         else [El (S_ "hcontainer") [(S_ "name", S_ "hcontainer")] [El (S_ "content") [] k]]
       else [El (S_ "intro") [] k])
      ++ wrap_spec n r (S i) (seen || h)
  end.

Section Shape.
  Variable rec : dnode -> gstate -> R (xml * gstate).

  Lemma items_app : forall l1 l2 g xs g',
    items rec (l1 ++ l2) g = OkR (xs, g') <->
    exists x1 g1 x2, items rec l1 g = OkR (x1, g1) /\ items rec l2 g1 = OkR (x2, g') /\ xs = x1 ++ x2.
  Proof.
    induction l1 as [|d r IH]; intros l2 g xs g'; cbn [app items].
    - split.
      + intros H. exists [], g, xs. repeat split; auto.
      + intros (x1 & g1 & x2 & H1 & H2 & ->). inversion H1; subst. exact H2.
    - destruct (rec d g) as [[x gd]|]; cbn [bind].
      2:{ split; [discriminate|]. intros (x1 & g1 & x2 & H1 & _). discriminate. }
      split.
      + destruct (items rec (r ++ l2) gd) as [[r' g2]|] eqn:E; [|discriminate]. cbn [bind]. intros H. inversion H; subst.
        apply IH in E. destruct E as (x1 & g1 & x2 & H1 & H2 & ->).
        exists (x :: x1), g1, x2. rewrite H1. cbn [bind]. repeat split; auto.
      + intros (x1 & g1 & x2 & H1 & H2 & ->).
        destruct (items rec r gd) as [[r1 gr]|] eqn:E1; [|discriminate]. cbn [bind] in H1. inversion H1; subst.
        assert (E : items rec (r ++ l2) gd = OkR (r1 ++ x2, g')) by (apply IH; exists r1, g1, x2; auto).
        rewrite E. reflexivity.
  Qed.

  (* the stateful grouping = one pass over all children + the pure wrapper *)
  Theorem hier_groups_spec n : forall gs i seen g xs g',
    hier_groups rec n gs i seen g = OkR (xs, g') ->
    exists ks, length ks = length gs
      /\ items rec (concat (map snd gs)) g = OkR (concat ks, g')
      /\ Forall2 (fun grp k => exists g0 g1, items rec (snd grp) g0 = OkR (k, g1)) gs ks
      /\ xs = wrap_spec n (combine (map fst gs) ks) i seen.
  Proof.
    induction gs as [|[b grp] r IH]; intros i seen g xs g' H; cbn [hier_groups] in H.
    - inversion H; subst. exists []. repeat split; auto.
    - destruct (items rec grp g) as [[k g1]|] eqn:Ek; [|discriminate]. cbn [bind] in H.
      match type of H with bind ?x _ = _ => destruct x as [[here seen']|] eqn:Eh; [|discriminate] end. cbn [bind] in H.
      destruct (hier_groups rec n r (S i) seen' g1) as [[rest g2]|] eqn:Er; [|discriminate]. cbn [bind] in H.
      inversion H; subst. destruct (IH _ _ _ _ _ Er) as (ks & Hl & Hi & Hf & ->).
      exists (k :: ks). split; [cbn; congruence|]. split.
      { cbn [map concat snd]. apply items_app. exists k, g1, (concat ks). auto. }
      split. { constructor; [exists g, g1; exact Ek|exact Hf]. }
      cbn [map combine fst wrap_spec].
      assert (Hs : seen' = (seen || b)%bool /\ here =
              (if b then k else if seen then if Nat.eqb i (n - 1) then [El (S_ "wrapUp") [] k]
                 else [El (S_ "hcontainer") [(S_ "name", S_ "hcontainer")] [El (S_ "content") [] k]]
               else [El (S_ "intro") [] k])).
      { destruct b; [inversion Eh; subst; split; [destruct seen; reflexivity|reflexivity]|]. destruct seen.
        - destruct (Nat.eqb i (n - 1)).
          + destruct (mk_elem (S_ "wrapUp") [] k) as [e|] eqn:Em; [|discriminate]. cbn [bind] in Eh. inversion Eh; subst.
            rewrite (mk_elem_inv _ _ _ _ Em). split; reflexivity.
          + destruct (mk_elem (S_ "content") [] k) as [c|] eqn:Ec; [|discriminate]. cbn [bind] in Eh.
            destruct (mk_elem (S_ "hcontainer") _ [c]) as [e|] eqn:Em; [|discriminate]. cbn [bind] in Eh. inversion Eh; subst.
            rewrite (mk_elem_inv _ _ _ _ Em), (mk_elem_inv _ _ _ _ Ec). split; reflexivity.
        - destruct (mk_elem (S_ "intro") [] k) as [e|] eqn:Em; [|discriminate]. cbn [bind] in Eh. inversion Eh; subst.
          rewrite (mk_elem_inv _ _ _ _ Em). split; reflexivity. }
      destruct Hs as [-> ->]. reflexivity.
  Qed.
End Shape.

(* reading the wrappers off again gives back the converted children, in order: the wrapper only adds
   intro / hcontainer-content / wrapUp around runs and never moves anything *)
Definition is_wrapper (x : xml) : option (list xml) :=
  match x with
  | El n [] k => if str_eqb n (S_ "intro") || str_eqb n (S_ "wrapUp") then Some k else None
  | El n [(a, v)] [El c [] k] =>
      if str_eqb n (S_ "hcontainer") && str_eqb a (S_ "name") && str_eqb v (S_ "hcontainer") && str_eqb c (S_ "content")
      then Some k else None
  | _ => None
  end.

(* every element the wrapper emits is either a converted child or a wrapper around a run of them, and
   flattening in order gives exactly the children *)
Fixpoint flatten_spec (n : nat) (gs : list (bool * list xml)) (i : nat) (seen : bool) (out : list xml) : Prop :=
  match gs with
  | [] => out = []
  | (h, k) :: r =>
      if h then exists out', out = k ++ out' /\ flatten_spec n r (S i) true out'
      else exists w out', out = w :: out' /\ is_wrapper w = Some k /\ flatten_spec n r (S i) seen out'
  end.

Theorem wrap_spec_flatten n : forall gs i seen, flatten_spec n gs i seen (wrap_spec n gs i seen).
Proof.
  induction gs as [|[h k] r IH]; intros i seen; cbn [wrap_spec flatten_spec]; [reflexivity|].
  destruct h.
  - exists (wrap_spec n r (S i) (seen || true)). split; [reflexivity|]. replace (seen || true)%bool with true by (destruct seen; reflexivity). apply IH.
  - replace (seen || false)%bool with seen by (destruct seen; reflexivity).
    destruct seen; [destruct (Nat.eqb i (n - 1))|]; eexists; eexists; (split; [reflexivity|split; [|apply IH]]); vm_compute; reflexivity.
Qed.

(* the whole hierarchical element: name and attributes as given, num/heading/subheading first, then
   either one content element around all children (no hierarchical child) or the wrapper above *)
Section Item.
  Variable meta_for : str -> xml.
  Variable rec : dnode -> gstate -> R (xml * gstate).

  Lemma flags_children children flags :
    mapR (fun k => do b <- is_hier_child k; OkR (b, k)) children = OkR flags -> map snd flags = children.
  Proof.
    revert flags. induction children as [|k r IH]; intros flags H; simpl in H.
    - inversion H. reflexivity.
    - destruct (is_hier_child k) as [b|]; [|discriminate]. cbn [bind] in H.
      destruct (mapR _ r) as [fs|] eqn:E; [|discriminate]. cbn [bind] in H. inversion H; subst.
      simpl. f_equal. apply IH. reflexivity.
  Qed.

  Lemma group_flags_concat {A} (l : list (bool * A)) : concat (map snd (group_flags l)) = map snd l.
  Proof.
    induction l as [|[b x] r IH]; [reflexivity|]. cbn [group_flags].
    destruct (group_flags r) as [|[b' grp] rest] eqn:E.
    - destruct r as [|[? ?] ?]; [reflexivity|]. cbn [group_flags] in E. destruct (group_flags r); [discriminate|destruct p; destruct (Bool.eqb _ _); discriminate].
    - cbn [map concat snd] in IH. destruct (Bool.eqb b b'); cbn [map concat snd app]; rewrite <- IH; reflexivity.
  Qed.

  Theorem hier_item_shape name attribs aa num h sh fr ch g x g' :
    item_body meta_for rec (DNode (S_ "hier") name attribs aa num h sh fr ch) g = OkR (x, g') ->
    exists flags ks g1 p,
      map snd flags = kids_of ch
      /\ items rec (kids_of ch) g = OkR (concat ks, g1)
      /\ pre rec num h sh g1 = OkR (p, g')
      /\ x = El name (attrs_of attribs)
               (p ++ if forallb (fun bk : bool * dnode => negb (fst bk)) flags
                     then [El (S_ "content") [] (concat ks)]
                     else wrap_spec (length (group_flags flags)) (combine (map fst (group_flags flags)) ks) 0 false).
  Proof.
    cbn [item_body]. replace (str_eqb (S_ "hier") (S_ "hier")) with true by (vm_compute; reflexivity).
    intros H.
    destruct (mapR _ (kids_of ch)) as [flags|] eqn:Ef; [|discriminate]. cbn [bind] in H.
    pose proof (flags_children _ _ Ef) as Hc.
    match type of H with bind ?x _ = _ => destruct x as [[kids g1]|] eqn:Ek; [|discriminate] end. cbn [bind] in H.
    destruct (pre rec num h sh g1) as [[p g2]|] eqn:Ep; [|discriminate]. cbn [bind] in H.
    destruct (mk_elem name (attrs_of attribs) (p ++ kids)) as [e|] eqn:Em; [|discriminate]. cbn [bind] in H.
    inversion H; subst. rewrite (mk_elem_inv _ _ _ _ Em).
    destruct (forallb _ flags) eqn:Ea.
    - destruct (items rec (kids_of ch) g) as [[k gk]|] eqn:Ei; [|discriminate]. cbn [bind] in Ek.
      destruct (mk_elem (S_ "content") [] k) as [c|] eqn:Ec; [|discriminate]. cbn [bind] in Ek. inversion Ek; subst.
      exists flags, [k], g1, p. cbn [concat]. rewrite app_nil_r, (mk_elem_inv _ _ _ _ Ec), Ea. auto.
    - destruct (hier_groups_spec rec _ _ _ _ _ _ _ Ek) as (ks & Hl & Hi & _ & ->).
      rewrite group_flags_concat, Hc in Hi.
      exists flags, ks, g1, p. rewrite Ea. auto.
  Qed.
End Item.
