(* C08: every id follows the naming convention; an unsuffixed path determines the id. *)
Require Import BB.Base.Str BB.Base.Xml BB.Gen.TablesXml BB.Model.Eid BB.Model.EidSpec.
Require Import BB.Proofs.EidUnique BB.Proofs.EidTree BB.Proofs.EidShape BB.Proofs.EidRewrite.
Open Scope N_scope.

Arguments identifiable : simpl never.
Arguments mem_str : simpl never.

Lemma clean_num_nil : clean_num [] = []. Proof. reflexivity. Qed.

Lemma incr_in_pos cs p name : (1 <= snd (incr_in cs p name))%nat.
Proof.
  induction cs as [|[p' sub] r IH]; simpl; [lia|].
  destruct (str_eqb p p'); simpl; [lia|]. destruct (incr_in r p name). simpl in *. exact IH.
Qed.

Lemma get_num_spec s q tag num : num_part tag num (snd (fst (get_num s q tag num))).
Proof.
  unfold get_num, num_part.
  replace (match num with [] => [] | _ :: _ => clean_num num end) with (clean_num num)
    by (destruct num; reflexivity).
  destruct (clean_num num) as [|c r] eqn:E.
  - destruct (mem_str tag num_expected) eqn:M.
    + right. left. auto.
    + right. right. pose proof (incr_in_pos (counters s) q tag) as P.
      destruct (incr_in (counters s) q tag) as [cs n]. cbn [fst snd] in *. eauto 6.
  - left. split; [discriminate|reflexivity].
Qed.

Lemma rewrite_own_prefix tag attrs kids q s a1 s2 p2 :
  rewrite_own tag attrs kids q s = Some (a1, s2, p2) -> p2 = child_prefix q tag (old_id a1).
Proof.
  intros H. unfold child_prefix. destruct (identifiable tag) eqn:Hi.
  - destruct (rewrite_own_ident tag attrs kids q s Hi) as (b1 & b2 & r & n & E & Ga & _).
    rewrite H in E. inversion E; subst. unfold old_id. rewrite Ga. reflexivity.
  - unfold rewrite_own in H. rewrite Hi in H.
    destruct (mem_str tag id_exempt_but_pass_to_children); inversion H; reflexivity.
Qed.

Lemma conv_all_Forall q kids :
  (fix all (l : list xml) : Prop :=
     match l with [] => True | k :: r => convention_ok q k /\ all r end) kids
  <-> Forall (convention_ok q) kids.
Proof.
  induction kids as [|k r IH]; simpl.
  - split; intros _; [constructor|exact I].
  - split.
    + intros [H1 H2]. constructor; [exact H1|apply IH; exact H2].
    + intros H. inversion H; subst. split; [assumption|apply IH; assumption].
Qed.

(* C08, first sentence: for every tree, every prefix and every state of the generator *)
Theorem rewrite_convention e : forall q s e' s',
  rewrite_eid e q s = Some (e', s') -> convention_ok q e'.
Proof.
  induction e as [tag attrs kids IH|tx] using xml_ind2; intros q s e' s' H.
  2:{ cbn [rewrite_eid] in H. inversion H; subst. exact I. }
  pose proof (rewrite_only_eids _ _ _ _ _ H) as Her. cbn [rewrite_eid] in H.
  destruct (str_eqb tag META) eqn:Em.
  { inversion H; subst. cbn [convention_ok]. rewrite Em. exact I. }
  destruct (rewrite_own tag attrs kids q s) as [[[a1 s2] p2]|] eqn:E; [|discriminate].
  destruct (map_st (fun k s0 => rewrite_eid k p2 s0) kids s2) as [[ks s3]|] eqn:E2; [|discriminate].
  inversion H; subst. cbn [convention_ok]. rewrite Em.
  apply erase_El_inv in Her as [_ [Her|Her]]; [rewrite Her in Em; discriminate|].
  split.
  - intros Hi. destruct (rewrite_own_ident tag attrs kids q s Hi) as (b1 & b2 & r & n & Eo & Ga & _ & _ & _ & Sh & En).
    rewrite E in Eo. inversion Eo; subst b1 b2 r. exists n. unfold old_id. rewrite Ga. split; [exact Sh|].
    rewrite (erase_first_num_text _ _ Her). rewrite En. apply get_num_spec.
  - apply conv_all_Forall. rewrite <- (rewrite_own_prefix _ _ _ _ _ _ _ _ E).
    apply map_st_Forall2 in E2. clear -IH E2.
    induction E2 as [|k k' r r' (s0 & s1 & Hk) Hr IH2]; [constructor|].
    inversion IH; subst. constructor; eauto.
Qed.

(* C08, second sentence (partial): if along the ancestor path every identified element took
   its number from its own num and carries no _k suffix, the id is a function of the labels
   along the path alone *)
Theorem eid_path_determined pi : forall e' q labels x,
  path_labels e' pi = Some (labels, x) -> path_unsuffixed q e' pi ->
  match x with
  | El tag a _ => identifiable tag = true -> old_id a = path_eid q labels
  | Tx _ => False
  end.
Proof.
  induction pi as [|i r IH]; intros e' q labels x HL HU; destruct e' as [tag attrs kids|tx];
    cbn [path_labels path_unsuffixed] in *; try discriminate; destruct HU as (Em & Hown & Hrest).
  - inversion HL; subst. intros Hi. cbn [path_eid]. destruct (Hown Hi) as [_ ->].
    unfold child_prefix. rewrite Hi. reflexivity.
  - destruct (nth_error kids i) as [k|] eqn:En; [|discriminate].
    destruct (path_labels k r) as [[l x0]|] eqn:Ek; [|discriminate]. inversion HL; subst.
    specialize (IH _ _ _ _ Ek Hrest).
    destruct x; [|exact IH]. intros Hi. rewrite (IH Hi). cbn [path_eid].
    f_equal. unfold child_prefix. destruct (identifiable tag) eqn:Hit; [|reflexivity].
    destruct (Hown eq_refl) as [_ ->]. reflexivity.
Qed.

(* stability under unrelated edits: two documents in which the provision has the same
   labels along its path, both unsuffixed, give it the same id *)
Theorem eid_stable_under_edit e1 e2 q pi1 pi2 labels tag1 a1 k1 tag2 a2 k2 :
  path_labels e1 pi1 = Some (labels, El tag1 a1 k1) -> path_unsuffixed q e1 pi1 ->
  path_labels e2 pi2 = Some (labels, El tag2 a2 k2) -> path_unsuffixed q e2 pi2 ->
  identifiable tag1 = true -> identifiable tag2 = true -> old_id a1 = old_id a2.
Proof.
  intros L1 U1 L2 U2 I1 I2.
  pose proof (eid_path_determined _ _ _ _ _ L1 U1 I1) as H1.
  pose proof (eid_path_determined _ _ _ _ _ L2 U2 I2) as H2. congruence.
Qed.
