(* C06: rule `line` on a written text, and what the dict stage makes of it: a p whose children are
   text nodes only, spelling the text. *)
Require Import BB.Base.Str BB.Base.Xml BB.Base.Dict BB.Model.PegSyntax BB.Model.Peg BB.Model.Types BB.Model.Unparse BB.Model.UnparseDoc.
Require Import BB.Gen.Grammar BB.Gen.TablesTypes BB.Gen.TablesXsl.
Require Import BB.Proofs.PegMono BB.Proofs.Totality BB.Proofs.PegSpan BB.Proofs.PegEscape BB.Proofs.EscapeLossless BB.Proofs.PegPlain.
Require Import BB.Proofs.EscapedTextParses BB.Proofs.UnparseText BB.Proofs.PegLine BB.Proofs.WrittenText.
Open Scope N_scope.

Lemma rule_newline : lookup akn_peg (of_string "newline") = Some (Lit [NL]). Proof. reflexivity. Qed.
Lemma rule_empty_line : lookup akn_peg (of_string "empty_line") = Some (Ref (of_string "newline")). Proof. reflexivity. Qed.
Lemma rule_eol : exists labels, lookup akn_peg (of_string "eol") =
  Some (Seq [Ref (of_string "newline"); Star (Ref (of_string "empty_line"))] labels).
Proof. vm_compute. eexists. reflexivity. Qed.
Lemma rule_line : lookup akn_peg (of_string "line") =
  Some (Typed (Seq [Not (Ref (of_string "dedent")); Plus (Ref (of_string "inline")); Ref (of_string "eol")]
                   [(of_string "content", 1%nat); (of_string "eol", 2%nat)]) (of_string "Line")).
Proof. reflexivity. Qed.
Lemma dedent_first : first_lits akn_peg 4 (Ref (of_string "dedent")) = Some [[15]].
Proof. vm_compute. reflexivity. Qed.

(* empty_line* never fails and never runs out of its budget *)
Lemma empty_lines_loop f off0 : forall s k off acc, (length s < k)%nat ->
  exists rest' off' t, rep_loop (run akn_peg (3 + f) (Ref (of_string "empty_line"))) off0 0%nat k s off acc = Ok rest' off' t.
Proof.
  induction s as [|c r IH]; intros k off acc Hk; destruct k as [|k]; try (simpl in Hk; lia).
  - cbn [rep_loop]. change (3 + f)%nat with (S (S (S f))). rewrite run_Ref, rule_empty_line, run_Ref, rule_newline, run_Lit.
    cbn [strip_prefix Nat.leb]. eauto.
  - cbn [rep_loop]. change (3 + f)%nat with (S (S (S f))). rewrite run_Ref, rule_empty_line, run_Ref, rule_newline, run_Lit.
    cbn [strip_prefix]. destruct (NL =? c).
    + change (S (S (S f))) with (3 + f)%nat. apply IH. simpl in Hk. lia.
    + cbn [Nat.leb]. eauto.
Qed.

Lemma eol_ok f rest off :
  exists rest' off' t, run akn_peg (6 + f) (Ref (of_string "eol")) (NL :: rest) off = Ok rest' off' t.
Proof.
  destruct rule_eol as (labels & Ee).
  change (6 + f)%nat with (S (S (S (S (2 + f))))). rewrite run_Ref, Ee, run_Seq. cbn [seq_loop].
  rewrite run_Ref, rule_newline. change (S (2 + f)) with (S (S (S f))). rewrite run_Lit.
  change (strip_prefix [NL] (NL :: rest)) with (Some rest). cbv iota.
  change (S (S (S (S f)))) with (S (3 + f)). rewrite run_Star.
  destruct (empty_lines_loop f (off + len_N [NL]) rest (S (length rest)) (off + len_N [NL]) []) as (r' & o' & t & E); [lia|].
  rewrite E. eauto.
Qed.

Definition not_dedent_start (s : str) : bool := match s with c :: _ => negb (c =? 15) | [] => true end.

Lemma not_dedent_ok f s off :
  not_dedent_start s = true -> run akn_peg (6 + f) (Not (Ref (of_string "dedent"))) s off = Ok s off (leaf off 0).
Proof.
  intros H. change (6 + f)%nat with (S (5 + f)).
  assert (E : run akn_peg (5 + f) (Ref (of_string "dedent")) s off = Fail).
  { apply (first_lits_sound akn_peg 4 _ _ dedent_first); [|lia].
    cbn. unfold starts_with. destruct s as [|c r]; [reflexivity|]. cbn [strip_prefix not_dedent_start] in *.
    rewrite N.eqb_sym. apply negb_true_iff in H. rewrite H. reflexivity. }
  cbn [run]. rewrite E. reflexivity.
Qed.

(* the tree rule line builds *)
Definition line_node (off len_ : N) (inl teol : tree) (total : N) : tree :=
  add_type (Node off total [] [(of_string "content", 1%nat); (of_string "eol", 2%nat)] [leaf off 0; inl; teol]) (of_string "Line").

Theorem units_line us pre rest f :
  wf anyd us -> Forall okc (decode us) -> ulive us = false -> us <> [] -> not_dedent_start (encode us) = true ->
  let ns := seg_nodes (len_N pre) (group us) in
  exists rest' off' teol,
    run akn_peg (20 + f) (Ref (of_string "line")) (encode us ++ NL :: rest) (len_N pre)
    = Ok rest' off' (line_node (len_N pre) 0 (Node (len_N pre) (len_N (encode us)) [] [] ns) teol (off' - len_N pre))
    /\ forall f', exists ds,
         inline_many (pre ++ encode us ++ NL :: rest) (to_dict (pre ++ encode us ++ NL :: rest) (S f')) ns = OkR ds
         /\ Forall is_dtext ds /\ concat (map dval ds) = decode us.
Proof.
  intros W Ho Hl Hne Hd ns. subst ns.
  assert (Hw : wf_segs (group us)) by (apply (wf_group _ us W Ho Hl)).
  assert (Hg : group us <> []).
  { intros E. pose proof (dec_group us) as Hdg. rewrite E in Hdg. cbn in Hdg. destruct us; [contradiction|discriminate]. }
  set (e := encode us) in *.
  assert (Hd' : not_dedent_start (e ++ NL :: rest) = true).
  { destruct e as [|c r] eqn:Ee; [|exact Hd]. subst e. exfalso. apply Hg. destruct us as [|[c|c] us']; [contradiction|discriminate|discriminate]. }
  change (20 + f)%nat with (S (S (S (17 + f)))). rewrite run_Ref, rule_line, run_Typed, run_Seq. cbn [seq_loop].
  change (17 + f)%nat with (6 + (11 + f))%nat. rewrite (not_dedent_ok (11 + f) _ _ Hd').
  change (6 + (11 + f))%nat with (13 + (4 + f))%nat.
  subst e. rewrite <- raw_group.
  rewrite (plain_inlines_parse (4 + f) (group us) rest (len_N pre) Hw Hg).
  change (13 + (4 + f))%nat with (6 + (11 + f))%nat.
  destruct (eol_ok (11 + f) rest (len_N pre + len_N (raw (group us)))) as (rest' & off' & teol & Ee). rewrite Ee.
  exists rest', off', teol. split.
  - cbn [rev_append]. unfold line_node. reflexivity.
  - intros f'. destruct (plain_inlines_text f' (group us) pre (NL :: rest) Hw) as (ds & E & Hdt & Hc).
    exists ds. split; [exact E|]. split; [exact Hdt|]. rewrite Hc. apply dec_group.
Qed.

(* the dict stage on that tree *)
Lemma td_line inp f off total inl teol :
  to_dict inp (S f) (line_node off 0 inl teol total)
  = (do l <- inline_many inp (to_dict inp f) (t_kids inl);
     OkR (DNode (Types.S_ "content") (Types.S_ "p") None None None None None None (Some l))).
Proof.
  cbn [to_dict]. unfold dispatch.
  set (t0 := line_node off 0 inl teol total).
  repeat match goal with
         | |- context [is_a t0 ?c] =>
             let b := eval vm_compute in (is_a t0 c) in
             replace (is_a t0 c) with b by (vm_compute; reflexivity)
         end.
  cbv iota. unfold line_to_dict. subst t0. unfold line_node, add_type, label. cbn [t_labels t_kids].
  replace (assoc_str (Types.S_ "content") [(of_string "content", 1%nat); (of_string "eol", 2%nat)]) with (Some 1%nat) by reflexivity.
  cbn [nth_error bind]. reflexivity.
Qed.

(* C06, a whole paragraph line: for every text node as the unparser writes it, rule `line` accepts the
   written text up to the line end, and to_dict turns the resulting tree into a p whose children are text
   nodes only, spelling the (trimmed) text *)
Theorem written_line_is_paragraph c s pre rest f f' :
  let t := if trimmed c then string_ltrim s else s in
  Forall scalar t -> t <> [] -> not_dedent_start (text_out c s) = true ->
  let e := text_out c s in
  let inp := pre ++ e ++ NL :: rest in
  exists rest' off' tree ds,
    run akn_peg (20 + f) (Ref (of_string "line")) (e ++ NL :: rest) (len_N pre) = Ok rest' off' tree
    /\ to_dict inp (2 + f') tree = OkR (DNode (Types.S_ "content") (Types.S_ "p") None None None None None None (Some ds))
    /\ Forall is_dtext ds
    /\ concat (map dval ds) = nl_to_space t.
Proof.
  intros t Hs Hne Hd e inp. subst e inp.
  destruct (units_text_out c s) as (us & [He Hw Hdec Hl]). fold t in Hdec.
  rewrite He in *.
  assert (Hus : us <> []) by (intros ->; cbn in Hdec; destruct t; [contradiction|discriminate]).
  assert (Ho : Forall okc (decode us)) by (rewrite Hdec; apply nl_to_space_okc; exact Hs).
  destruct (units_line us pre rest f Hw Ho Hl Hus Hd) as (rest' & off' & teol & Hrun & Hdict).
  destruct (Hdict f') as (ds & Hi & Hdt & Hc).
  exists rest', off', (line_node (len_N pre) 0 (Node (len_N pre) (len_N (encode us)) [] [] (seg_nodes (len_N pre) (group us))) teol (off' - len_N pre)), ds.
  split; [exact Hrun|]. split.
  - change (2 + f')%nat with (S (S f')). rewrite td_line. cbn [t_kids]. rewrite Hi. reflexivity.
  - split; [exact Hdt|]. rewrite Hc. exact Hdec.
Qed.

(* ---- composed with the block-level dispatch: the first text of a paragraph ---- *)
Definition first_text (c : ctx) : bool :=
  negb (parent_is c "remark" && hd_is (c_prevs c) "br")
  && ((parent_is c "p" || parent_is c "listIntroduction" || parent_is c "listWrapUp")
      && match c_prevs c with [] => true | _ => false end).

Definition no_ctl_start (s : str) : bool := match s with c :: _ => negb (c =? 14) && negb (c =? 15) | [] => true end.

Theorem written_first_text_is_paragraph c s pre rest f f' :
  first_text c = true ->
  let t := string_ltrim s in
  Forall scalar t -> t <> [] -> no_ctl_start (text_out c s) = true ->
  let e := text_out c s in
  let inp := pre ++ e ++ NL :: rest in
  exists rest' off' tree ds,
    run akn_peg (26 + f) (Ref (of_string "hier_block_element")) (e ++ NL :: rest) (len_N pre) = Ok rest' off' tree
    /\ to_dict inp (2 + f') tree = OkR (DNode (Types.S_ "content") (Types.S_ "p") None None None None None None (Some ds))
    /\ Forall is_dtext ds
    /\ concat (map dval ds) = nl_to_space t.
Proof.
  intros Hft t Hs Hne Hctl e inp. subst e inp.
  unfold first_text in Hft. apply andb_prop in Hft. destruct Hft as [Hrb Hp]. apply negb_true_iff in Hrb.
  assert (Htr : trimmed c = true) by (unfold trimmed; rewrite Hrb, Hp; reflexivity).
  (* the written text is escape-prefixes of something *)
  set (y := escape_start_end (text_ctx_prefix c) (text_ctx_suffix c) (string_ltrim s)).
  assert (Ex : text_out c s = escape_prefixes y) by (unfold text_out; rewrite Hrb, Hp; reflexivity).
  assert (Hy : not_indent_start y = true).
  { rewrite Ex in Hctl. unfold escape_prefixes in Hctl. destruct (needs_prefix_escape y) eqn:En.
    - destruct (needs_escape_hd _ En) as (c0 & r & -> & Hu). cbn [not_indent_start].
      destruct (c0 =? 14) eqn:E; [apply N.eqb_eq in E; subst; discriminate|reflexivity].
    - destruct y as [|c0 r]; [reflexivity|]. cbn [no_ctl_start not_indent_start] in *. apply andb_prop in Hctl. apply Hctl. }
  assert (Hd : not_dedent_start (text_out c s) = true).
  { destruct (text_out c s) as [|c0 r]; [reflexivity|]. cbn [no_ctl_start not_dedent_start] in *. apply andb_prop in Hctl. apply Hctl. }
  pose proof (written_line_is_paragraph c s pre rest f f') as HL. cbv zeta in HL. rewrite Htr in HL.
  destruct (HL Hs Hne Hd) as (rest' & off' & tree & ds & Hrun & Hdict & Hdt & Hc).
  exists rest', off', tree, ds. split; [|auto].
  rewrite Ex in *. change (26 + f)%nat with (18 + (8 + f))%nat.
  rewrite (escaped_first_text_is_a_line (8 + f) y rest (len_N pre) Hy). exact Hrun.
Qed.
