(* C04, through the whole pipeline model: `KEYWORD num - heading` and an indented plain line, as a fragment, convert to
   <tag eId="<prefix__>abbr_num"><num>num</num><heading>heading</heading><content><p eId="...__p_1">line</p></content></tag>. *)
Require Import BB.Base.Str BB.Base.Xml BB.Base.Dict BB.Base.Sx.
Require Import BB.Model.PreParse BB.Model.PegSyntax BB.Model.Peg BB.Model.Types BB.Model.Eid BB.Model.EidSpec BB.Model.XmlGen BB.Model.Post BB.Model.Convert BB.Model.Unparse.
Require Import BB.Gen.Grammar BB.Gen.TablesParser BB.Gen.TablesTypes BB.Gen.TablesXml BB.Gen.TablesLibs.
Require Import BB.Proofs.StrLemmas BB.Proofs.PreParseInvariance BB.Proofs.PreParseTrailing.
Require Import BB.Proofs.Totality BB.Proofs.PegEscape BB.Proofs.EscapeLossless BB.Proofs.PegPlain BB.Proofs.EscapedTextParses BB.Proofs.UnparseText.
Require Import BB.Proofs.PegLine BB.Proofs.WrittenText BB.Proofs.LineRule BB.Proofs.PlainLine BB.Proofs.PostConserve BB.Proofs.PlainLineConvert.
Require Import BB.Proofs.EidUnique BB.Proofs.EidTree BB.Proofs.EidFirst BB.Proofs.HierElement.
Open Scope N_scope.

(* ---------- pre_parse of a line and an indented line ---------- *)
Lemma split_on_app_line sep a b : Forall (fun c => c <> sep) a -> split_on sep (a ++ sep :: b) = a :: split_on sep b.
Proof.
  induction 1 as [|c r Hc Hr IH]; cbn [app split_on].
  - rewrite N.eqb_refl. reflexivity.
  - destruct (N.eqb_spec c sep); [contradiction|]. rewrite IH. reflexivity.
Qed.

Lemma span_sp_repeat k l : match l with c :: _ => is_sp c = false | [] => True end -> span_sp (repeat SP k ++ l) = (k, l).
Proof.
  intros H. induction k as [|k IH]; cbn [repeat app].
  - destruct l as [|c r]; [reflexivity|]. cbn [span_sp]. rewrite H. reflexivity.
  - cbn [span_sp]. change (is_sp SP) with true. cbv iota. rewrite IH. reflexivity.
Qed.

Lemma forall_repeat (q : N -> Prop) c k : q c -> Forall q (repeat c k).
Proof. intros H. induction k; cbn [repeat]; constructor; assumption. Qed.

Lemma rstrip_keep_app p a s : s <> [] -> p (last s 0) = false -> rstrip p (a ++ s) = a ++ s.
Proof.
  intros Hne Hl. rewrite rstrip_app. rewrite (rstrip_keep p s Hne Hl).
  destruct (forallb p s) eqn:E; [|reflexivity]. exfalso.
  assert (Hin : In (last s 0) s).
  { clear -Hne. induction s as [|c r IH]; [contradiction|]. destruct r as [|d r']; [left; reflexivity|right; apply IH; discriminate]. }
  rewrite forallb_forall in E. rewrite (E _ Hin) in Hl. discriminate.
Qed.

Lemma last_app_ne (a s : str) : s <> [] -> last (a ++ s) 0 = last s 0.
Proof.
  intros Hne. induction a as [|c r IH]; [reflexivity|]. cbn [app]. destruct (r ++ s) as [|d l] eqn:E.
  - apply app_eq_nil in E as [_ E]. contradiction.
  - change (last (c :: d :: l) 0) with (last (d :: l) 0). exact IH.
Qed.

Lemma slice_both_2 a b (B : str) c d : slice_both 2 ([a; b] ++ B ++ [c; d]) = B.
Proof.
  unfold slice_both. replace ([a; b] ++ B ++ [c; d]) with (([a; b] ++ B) ++ [c; d]) by (rewrite <- app_assoc; reflexivity).
  change 2%nat with (length [c; d]) at 1. rewrite firstn_app_exact. reflexivity.
Qed.

Lemma pre_parse_two_lines size l1 l2 k :
  Forall (fun c => c <> TAB) l1 -> Forall (fun c => c <> NL) l1 -> edge_ok l1 ->
  Forall (fun c => c <> TAB) l2 -> Forall (fun c => c <> NL) l2 -> edge_ok l2 -> (1 <= k)%nat ->
  pre_parse size (l1 ++ NL :: repeat SP k ++ l2 ++ [NL]) = Some (l1 ++ NL :: INDENT_C :: NL :: l2 ++ NL :: DEDENT_C :: [NL]).
Proof.
  intros Ht1 Hn1 He1 Ht2 Hn2 He2 Hk.
  destruct l1 as [|a0 r1]; [destruct He1|]. cbn [edge_ok] in He1. destruct He1 as [Hf1 Hl1]. remember (a0 :: r1) as l1 eqn:E1.
  destruct l2 as [|b0 r2]; [destruct He2|]. cbn [edge_ok] in He2. destruct He2 as [Hf2 Hl2]. remember (b0 :: r2) as l2 eqn:E2.
  assert (Hne1 : l1 <> []) by (rewrite E1; discriminate). assert (Hne2 : l2 <> []) by (rewrite E2; discriminate).
  assert (Hsp_ws : forall c, py_isspace c = false -> is_sp c = false).
  { intros c Hc. unfold is_sp. destruct (N.eqb_spec c SP) as [E|]; [|reflexivity]. rewrite E in Hc. discriminate. }
  unfold pre_parse.
  assert (Ex : expand_tabs size (l1 ++ NL :: repeat SP k ++ l2 ++ [NL]) = l1 ++ NL :: repeat SP k ++ l2 ++ [NL]).
  { apply expand_tabs_none. apply Forall_app. split; [exact Ht1|]. constructor; [unfold NL, TAB; discriminate|].
    apply Forall_app. split; [apply forall_repeat; unfold SP, TAB; discriminate|]. apply Forall_app. split; [exact Ht2|].
    constructor; [unfold NL, TAB; discriminate|constructor]. }
  rewrite Ex.
  assert (Es : strip py_isspace (l1 ++ NL :: repeat SP k ++ l2 ++ [NL]) = l1 ++ NL :: repeat SP k ++ l2).
  { unfold strip. replace (lstrip py_isspace (l1 ++ NL :: repeat SP k ++ l2 ++ [NL])) with (l1 ++ NL :: repeat SP k ++ l2 ++ [NL])
      by (rewrite E1; cbn [app lstrip]; rewrite Hf1; reflexivity).
    replace (l1 ++ NL :: repeat SP k ++ l2 ++ [NL]) with ((l1 ++ NL :: repeat SP k ++ l2) ++ [NL]) by (rewrite <- !app_assoc; cbn [app]; rewrite <- !app_assoc; reflexivity).
    rewrite rstrip_app. change (forallb py_isspace [NL]) with true. cbv iota.
    replace (l1 ++ NL :: repeat SP k ++ l2) with ((l1 ++ NL :: repeat SP k) ++ l2) by (rewrite <- !app_assoc; reflexivity).
    apply rstrip_keep_app; assumption. }
  rewrite Es.
  assert (Est : strip_trailing (l1 ++ NL :: repeat SP k ++ l2) = l1 ++ NL :: repeat SP k ++ l2).
  { unfold strip_trailing. rewrite (split_on_app_line NL l1 _ Hn1).
    rewrite (split_on_none NL (repeat SP k ++ l2)) by (apply Forall_app; split; [apply forall_repeat; unfold SP, NL; discriminate|exact Hn2]).
    cbn [map join_on]. rewrite (rstrip_keep is_sp l1 Hne1 (Hsp_ws _ Hl1)). rewrite (rstrip_keep_app is_sp _ l2 Hne2 (Hsp_ws _ Hl2)). reflexivity. }
  rewrite Est.
  assert (Hnl2 : last l2 0 <> NL) by (intros E; rewrite E in Hl2; discriminate).
  assert (Een : ensure_nl (l1 ++ NL :: repeat SP k ++ l2) = l1 ++ NL :: repeat SP k ++ l2 ++ [NL]).
  { unfold ensure_nl. replace (l1 ++ NL :: repeat SP k ++ l2) with ((l1 ++ NL :: repeat SP k) ++ l2) by (rewrite <- !app_assoc; reflexivity).
    assert (Hl : last ((l1 ++ NL :: repeat SP k) ++ l2) 0 = last l2 0) by (apply last_app_ne; exact Hne2).
    assert (Hne : (l1 ++ NL :: repeat SP k) ++ l2 <> []) by (intros E; apply app_eq_nil in E as [_ E]; contradiction).
    rewrite (ends_with_nl_last _ Hne) by (rewrite Hl; exact Hnl2).
    rewrite <- !app_assoc. reflexivity. }
  rewrite Een.
  replace (l1 ++ NL :: repeat SP k ++ l2 ++ [NL]) with (l1 ++ NL :: (repeat SP k ++ l2) ++ [NL]) by (rewrite <- !app_assoc; reflexivity).
  rewrite (split_on_app_line NL l1 _ Hn1), split_on_app_sep.
  rewrite (split_on_none NL (repeat SP k ++ l2)) by (apply Forall_app; split; [apply forall_repeat; unfold SP, NL; discriminate|exact Hn2]).
  cbn [app process].
  assert (Esp1 : span_sp l1 = (0%nat, l1)) by (rewrite E1; cbn [span_sp]; rewrite (Hsp_ws _ Hf1); reflexivity).
  assert (Esp2 : span_sp (repeat SP k ++ l2) = (k, l2)) by (apply span_sp_repeat; rewrite E2; apply Hsp_ws; exact Hf2).
  rewrite Esp1, Esp2. clear Ex Es Est Een Esp1 Esp2.
  destruct l1 as [|x1 y1]; [exfalso; apply Hne1; reflexivity|]. destruct l2 as [|x2 y2]; [exfalso; apply Hne2; reflexivity|]. cbv iota.
  change (handle (Z.of_nat 0) [(-1)%Z]) with (Some ([MInd], [0%Z; (-1)%Z])). cbv iota.
  assert (Eh : handle (Z.of_nat k) [0%Z; (-1)%Z] = Some ([MInd], [Z.of_nat k; 0%Z; (-1)%Z])).
  { unfold handle. destruct (Z.eqb_spec (Z.of_nat k) 0) as [E|_]; [lia|]. destruct (Z.gtb_spec (Z.of_nat k) 0) as [_|E]; [reflexivity|lia]. }
  rewrite Eh. cbv iota. cbn [span_sp map marker_line marker_char app length].
  change (seq 0 (3 - 1)) with [0%nat; 1%nat]. cbn [flat_map app join_on].
  unfold marker_line, marker_char.
  match goal with |- Some (slice_both 2 ?X) = _ =>
    replace X with ([INDENT_C; NL] ++ ((x1 :: y1) ++ NL :: INDENT_C :: NL :: (x2 :: y2) ++ NL :: DEDENT_C :: [NL]) ++ [DEDENT_C; NL])
      by (cbn [app]; rewrite <- !app_assoc; cbn [app]; rewrite <- !app_assoc; reflexivity) end.
  rewrite slice_both_2. reflexivity.
Qed.

(* ... with b blank lines between the two *)
Lemma split_on_blanks sep b x : split_on sep (repeat sep b ++ x) = repeat [] b ++ split_on sep x.
Proof. induction b as [|b IH]; [reflexivity|]. cbn [repeat app split_on]. rewrite N.eqb_refl, IH. reflexivity. Qed.

Lemma join_on_blanks sep b r : r <> [] -> join_on sep (repeat [] b ++ r) = repeat sep b ++ join_on sep r.
Proof.
  intros Hr. induction b as [|b IH]; [reflexivity|]. cbn [repeat app]. 
  destruct (repeat [] b ++ r) as [|y ys] eqn:E.
  - apply app_eq_nil in E as [_ E]. contradiction.
  - cbn [join_on app]. cbn [join_on] in IH. rewrite IH. reflexivity.
Qed.

Lemma map_repeat_nil (f : str -> str) b : f [] = [] -> map f (repeat [] b) = repeat [] b.
Proof. intros H. induction b as [|b IH]; [reflexivity|]. cbn [repeat map]. rewrite H, IH. reflexivity. Qed.

Lemma process_blanks st b r : process st (repeat [] b ++ r) = match process st r with Some (out, st') => Some (repeat [] b ++ out, st') | None => None end.
Proof.
  induction b as [|b IH]; cbn [repeat app].
  - destruct (process st r) as [[out st']|]; reflexivity.
  - cbn [process span_sp]. rewrite IH. destruct (process st r) as [[out st']|]; reflexivity.
Qed.

Lemma pre_parse_two_lines_b size l1 l2 k b :
  Forall (fun c => c <> TAB) l1 -> Forall (fun c => c <> NL) l1 -> edge_ok l1 ->
  Forall (fun c => c <> TAB) l2 -> Forall (fun c => c <> NL) l2 -> edge_ok l2 -> (1 <= k)%nat ->
  pre_parse size (l1 ++ NL :: repeat NL b ++ repeat SP k ++ l2 ++ [NL])
  = Some (l1 ++ NL :: repeat NL b ++ INDENT_C :: NL :: l2 ++ NL :: DEDENT_C :: [NL]).
Proof.
  intros Ht1 Hn1 He1 Ht2 Hn2 He2 Hk.
  destruct l1 as [|a0 r1]; [destruct He1|]. cbn [edge_ok] in He1. destruct He1 as [Hf1 Hl1]. remember (a0 :: r1) as l1 eqn:E1.
  destruct l2 as [|b0 r2]; [destruct He2|]. cbn [edge_ok] in He2. destruct He2 as [Hf2 Hl2]. remember (b0 :: r2) as l2 eqn:E2.
  assert (Hne1 : l1 <> []) by (rewrite E1; discriminate). assert (Hne2 : l2 <> []) by (rewrite E2; discriminate).
  assert (Hsp_ws : forall c, py_isspace c = false -> is_sp c = false).
  { intros c Hc. unfold is_sp. destruct (N.eqb_spec c SP) as [E|]; [|reflexivity]. rewrite E in Hc. discriminate. }
  set (A := l1 ++ NL :: repeat NL b ++ repeat SP k).
  assert (EA : forall x, l1 ++ NL :: repeat NL b ++ repeat SP k ++ x = A ++ x).
  { intros x. subst A. rewrite <- !app_assoc. cbn [app]. rewrite <- !app_assoc. reflexivity. }
  unfold pre_parse.
  assert (Ex : expand_tabs size (l1 ++ NL :: repeat NL b ++ repeat SP k ++ l2 ++ [NL]) = l1 ++ NL :: repeat NL b ++ repeat SP k ++ l2 ++ [NL]).
  { apply expand_tabs_none. apply Forall_app. split; [exact Ht1|]. constructor; [unfold NL, TAB; discriminate|].
    apply Forall_app. split; [apply forall_repeat; unfold NL, TAB; discriminate|].
    apply Forall_app. split; [apply forall_repeat; unfold SP, TAB; discriminate|]. apply Forall_app. split; [exact Ht2|].
    constructor; [unfold NL, TAB; discriminate|constructor]. }
  rewrite Ex.
  assert (Es : strip py_isspace (l1 ++ NL :: repeat NL b ++ repeat SP k ++ l2 ++ [NL]) = A ++ l2).
  { unfold strip. replace (lstrip py_isspace (l1 ++ NL :: repeat NL b ++ repeat SP k ++ l2 ++ [NL])) with (l1 ++ NL :: repeat NL b ++ repeat SP k ++ l2 ++ [NL])
      by (rewrite E1; cbn [app lstrip]; rewrite Hf1; reflexivity).
    rewrite EA. rewrite app_assoc. rewrite rstrip_app. change (forallb py_isspace [NL]) with true. cbv iota.
    apply rstrip_keep_app; assumption. }
  rewrite Es.
  assert (Hnl_sp : Forall (fun c => c <> NL) (repeat SP k ++ l2)) by (apply Forall_app; split; [apply forall_repeat; unfold SP, NL; discriminate|exact Hn2]).
  assert (Est : strip_trailing (A ++ l2) = A ++ l2).
  { unfold strip_trailing. rewrite <- EA. rewrite (split_on_app_line NL l1 _ Hn1). rewrite split_on_blanks.
    rewrite (split_on_none NL (repeat SP k ++ l2)) by exact Hnl_sp.
    cbn [map]. rewrite map_app, (map_repeat_nil (rstrip is_sp)) by reflexivity. cbn [map].
    rewrite (rstrip_keep is_sp l1 Hne1 (Hsp_ws _ Hl1)). rewrite (rstrip_keep_app is_sp _ l2 Hne2 (Hsp_ws _ Hl2)).
    assert (J : join_on NL (l1 :: repeat [] b ++ [repeat SP k ++ l2]) = l1 ++ NL :: join_on NL (repeat [] b ++ [repeat SP k ++ l2])).
    { destruct (repeat [] b ++ [repeat SP k ++ l2]) eqn:E; [apply app_eq_nil in E as [_ E]; discriminate|reflexivity]. }
    etransitivity; [exact J|]. f_equal. f_equal. apply (join_on_blanks NL b [repeat SP k ++ l2]). discriminate. }
  rewrite Est.
  assert (Hnl2 : last l2 0 <> NL) by (intros E; rewrite E in Hl2; discriminate).
  assert (Een : ensure_nl (A ++ l2) = A ++ l2 ++ [NL]).
  { unfold ensure_nl.
    assert (Hl : last (A ++ l2) 0 = last l2 0) by (apply last_app_ne; exact Hne2).
    assert (Hne : A ++ l2 <> []) by (intros E; apply app_eq_nil in E as [_ E]; contradiction).
    rewrite (ends_with_nl_last _ Hne) by (rewrite Hl; exact Hnl2).
    rewrite <- !app_assoc. reflexivity. }
  rewrite Een. rewrite <- EA.
  replace (l1 ++ NL :: repeat NL b ++ repeat SP k ++ l2 ++ [NL]) with (l1 ++ NL :: repeat NL b ++ (repeat SP k ++ l2) ++ [NL]) by (rewrite <- !app_assoc; reflexivity).
  rewrite (split_on_app_line NL l1 _ Hn1), split_on_blanks, split_on_app_sep.
  rewrite (split_on_none NL (repeat SP k ++ l2)) by exact Hnl_sp.
  cbn [app process].
  assert (Esp1 : span_sp l1 = (0%nat, l1)) by (rewrite E1; cbn [span_sp]; rewrite (Hsp_ws _ Hf1); reflexivity).
  assert (Esp2 : span_sp (repeat SP k ++ l2) = (k, l2)) by (apply span_sp_repeat; rewrite E2; apply Hsp_ws; exact Hf2).
  rewrite Esp1. clear Ex Es Est Een Esp1.
  destruct l1 as [|x1 y1]; [exfalso; apply Hne1; reflexivity|]. cbv iota.
  change (handle (Z.of_nat 0) [(-1)%Z]) with (Some ([MInd], [0%Z; (-1)%Z])). cbv iota.
  rewrite process_blanks. cbn [process]. rewrite Esp2.
  destruct l2 as [|x2 y2]; [exfalso; apply Hne2; reflexivity|]. cbv iota.
  assert (Eh : handle (Z.of_nat k) [0%Z; (-1)%Z] = Some ([MInd], [Z.of_nat k; 0%Z; (-1)%Z])).
  { unfold handle. destruct (Z.eqb_spec (Z.of_nat k) 0) as [E|_]; [lia|]. destruct (Z.gtb_spec (Z.of_nat k) 0) as [_|E]; [reflexivity|lia]. }
  rewrite Eh. cbv iota. cbn [span_sp map marker_line marker_char app length].
  change (seq 0 (3 - 1)) with [0%nat; 1%nat]. cbn [flat_map app].
  unfold marker_line, marker_char.
  assert (J : join_on NL ([INDENT_C] :: (x1 :: y1) :: repeat [] b ++ [[INDENT_C]; x2 :: y2; []])
              = INDENT_C :: NL :: (x1 :: y1) ++ NL :: repeat NL b ++ INDENT_C :: NL :: (x2 :: y2) ++ [NL]).
  { change (join_on NL ([INDENT_C] :: (x1 :: y1) :: repeat [] b ++ [[INDENT_C]; x2 :: y2; []]))
      with ([INDENT_C] ++ NL :: join_on NL ((x1 :: y1) :: repeat [] b ++ [[INDENT_C]; x2 :: y2; []])).
    cbn [app]. f_equal. f_equal.
    assert (J2 : join_on NL ((x1 :: y1) :: repeat [] b ++ [[INDENT_C]; x2 :: y2; []])
                 = (x1 :: y1) ++ NL :: join_on NL (repeat [] b ++ [[INDENT_C]; x2 :: y2; []])).
    { destruct (repeat [] b ++ [[INDENT_C]; x2 :: y2; []]) eqn:E; [apply app_eq_nil in E as [_ E]; discriminate|reflexivity]. }
    etransitivity; [exact J2|]. cbn [app]. do 3 f_equal.
    etransitivity; [apply (join_on_blanks NL b [[INDENT_C]; x2 :: y2; []]); discriminate|]. reflexivity. }
  match goal with |- Some (slice_both 2 (?X ++ _)) = _ => replace X with (INDENT_C :: NL :: (x1 :: y1) ++ NL :: repeat NL b ++ INDENT_C :: NL :: (x2 :: y2) ++ [NL]) by (symmetry; exact J) end.
  match goal with |- Some (slice_both 2 ?X) = _ =>
    replace X with ([INDENT_C; NL] ++ ((x1 :: y1) ++ NL :: repeat NL b ++ INDENT_C :: NL :: (x2 :: y2) ++ NL :: DEDENT_C :: [NL]) ++ [DEDENT_C; NL])
      by (cbn [app]; rewrite <- !app_assoc; cbn [app]; rewrite <- !app_assoc; cbn [app]; rewrite <- !app_assoc; reflexivity) end.
  rewrite slice_both_2. reflexivity.
Qed.

(* ---------- the XML builder on the hier node ---------- *)
Definition txs (ds : list dnode) : list xml := map (fun d => Tx (dval d)) ds.

Lemma hier_xml att f tag n hds lds g :
  n <> [] -> valid_text n = true ->
  Forall is_dtext hds -> hds <> [] -> valid_text (concat (map dval hds)) = true ->
  Forall is_dtext lds -> valid_text (concat (map dval lds)) = true ->
  item_to_xml att (S (S (S f))) (DNode (Types.S_ "hier") tag None None (Some n) (Some hds) None None (Some [p_node lds])) g
  = OkR (El tag [] [El (of_string "num") [] [Tx n]; El (of_string "heading") [] (txs hds);
                    El (of_string "content") [] [El P_TAG [] (txs lds)]], g).
Proof.
  intros Hn Hvn Hhd Hhne Hvh Hld Hvl.
  change (item_to_xml att (S (S (S f))) ?X g) with (item_body att (item_to_xml att (S (S f))) X g).
  unfold item_body.
  repeat match goal with |- context [str_eqb ?a ?b] => let v := eval vm_compute in (str_eqb a b) in change (str_eqb a b) with v end.
  cbv iota. cbn [kids_of mapR]. unfold p_node at 1. cbn [is_hier_child bind].
  repeat match goal with |- context [str_eqb ?a ?b] => let v := eval vm_compute in (str_eqb a b) in change (str_eqb a b) with v end.
  cbn [orb bind forallb fst negb andb items].
  unfold p_node. rewrite (content_p_xml att f lds g Hld Hvl). cbn [bind].
  unfold mk_elem at 1. cbn [forallb andb bind].
  unfold pre. destruct n as [|c0 r0]; [contradiction|]. cbn [truthy_str bind].
  unfold mk_elem at 1. cbn [forallb andb]. rewrite Hvn. cbn [bind].
  destruct hds as [|d0 dr]; [contradiction|]. cbn [truthy_l wrapped].
  rewrite (items_texts att (S f) (d0 :: dr) g Hhd). cbn [bind].
  unfold mk_elem at 1. cbn [forallb andb]. fold (txs (d0 :: dr)). unfold txs at 1. rewrite (valid_pieces (d0 :: dr) Hvh). cbn [bind wrapped app].
  unfold mk_elem. cbn [attrs_of forallb andb app]. reflexivity.
Qed.

(* ---------- text nodes merge ---------- *)
Definition hier_x (tag : str) (a pa : list (str * str)) (n h t : str) : xml :=
  El tag a [El (of_string "num") [] [Tx n]; El (of_string "heading") [] [Tx h]; El (of_string "content") [] [El P_TAG pa [Tx t]]].

Lemma norm_hier f tag n hds lds :
  n <> [] -> concat (map dval hds) <> [] -> concat (map dval lds) <> [] ->
  normalise_text (S (S (S f))) (El tag [] [El (of_string "num") [] [Tx n]; El (of_string "heading") [] (txs hds);
                                               El (of_string "content") [] [El P_TAG [] (txs lds)]])
  = hier_x tag [] [] n (concat (map dval hds)) (concat (map dval lds)).
Proof.
  intros Hn Hh Hl. rewrite normalise_text_S. cbn [nt_kids]. rewrite !normalise_text_S. unfold txs. rewrite nt_texts.
  cbn [nt_kids]. rewrite normalise_text_S, nt_texts.
  destruct n as [|c0 r0]; [contradiction|]. destruct (concat (map dval hds)) as [|h0 hr]; [contradiction|].
  destruct (concat (map dval lds)) as [|t0 tr]; [contradiction|]. reflexivity.
Qed.

Lemma fuel_hier tag n hds lds :
  exists f, S (xsize (El tag [] [El (of_string "num") [] [Tx n]; El (of_string "heading") [] (txs hds);
                                  El (of_string "content") [] [El P_TAG [] (txs lds)]])) = S (S (S f)).
Proof. cbn [xsize fold_left Nat.add]. eexists. reflexivity. Qed.

(* ---------- eId generation on that tree ---------- *)
Arguments identifiable : simpl never.
Arguments mem_str : simpl never.

Lemma rewrite_exempt tag a kids p s :
  str_eqb tag META = false -> identifiable tag = false -> mem_str tag id_exempt_but_pass_to_children = false ->
  rewrite_eid (El tag a kids) p s
  = match map_st (fun k s0 => rewrite_eid k p s0) kids s with Some (k', s') => Some (El tag a k', s') | None => None end.
Proof. intros Hm Hi Hp. cbn [rewrite_eid]. rewrite Hm. unfold rewrite_own. rewrite Hi, Hp. reflexivity. Qed.

Lemma str_eqb_app_more a c r : str_eqb (a ++ c :: r) a = false.
Proof.
  apply str_eqb_false. intros E. apply (f_equal (@length N)) in E. rewrite app_length in E. cbn [length] in E. lia.
Qed.

Lemma nonempty_prefix (p : str) : p <> [] -> (match p with [] => [] | _ :: _ => p ++ DUSCORE end) = p ++ DUSCORE.
Proof. destruct p; [contradiction|reflexivity]. Qed.

Definition P1 : str := of_string "p_1".

(* the paragraph below an identified parent q, the first element to ask for a p there *)
Lemma rewrite_p q t cs es ms :
  q <> [] -> cget es (q ++ DUSCORE ++ P1) = O -> (forall sub, assoc_str q cs = Some sub -> False) -> (forall x, In x cs -> fst x <> q) ->
  exists cs' es', rewrite_eid (El P_TAG [] [Tx t]) q (mkSt cs es ms) = Some (El P_TAG [(EID, q ++ DUSCORE ++ P1)] [Tx t], mkSt cs' es' ms).
Proof.
  intros Hq Hfree _ Hcs. cbn [rewrite_eid]. change (str_eqb P_TAG META) with false. cbv iota.
  unfold rewrite_own. change (identifiable P_TAG) with true. cbv iota. cbn [get_attr].
  change (first_num_text [Tx t]) with (@nil N). unfold get_eid.
  change (mem_str P_TAG id_exempt) with false. change (mem_str P_TAG id_exempt_but_pass_to_children) with false. cbv iota. cbn [negb].
  unfold get_num. cbn iota. change (mem_str P_TAG num_expected) with false. cbv iota. cbn [counters].
  assert (Ei : incr_in cs q P_TAG = (cs ++ [(q, [(P_TAG, 1%nat)])], 1%nat)).
  { clear -Hcs. induction cs as [|[p0 sub] r IH]; [reflexivity|]. cbn [incr_in].
    destruct (str_eqb q p0) eqn:E; [apply str_eqb_spec in E; exfalso; apply (Hcs (p0, sub)); [left; reflexivity|symmetry; exact E]|].
    rewrite IH; [reflexivity|]. intros x Hx. apply Hcs. right. exact Hx. }
  rewrite Ei. cbn [eids maps counters].
  rewrite (nonempty_prefix q Hq). change (alias_of P_TAG) with P_TAG. change (nat_dec 1) with (of_string "1").
  replace ((q ++ DUSCORE) ++ P_TAG) with (q ++ DUSCORE ++ P_TAG) by (rewrite <- app_assoc; reflexivity).
  replace ((q ++ DUSCORE ++ P_TAG) ++ USCORE :: of_string "1") with (q ++ DUSCORE ++ P1) by (rewrite <- !app_assoc; reflexivity).
  unfold ensure_unique. cbn [ensure_unique_f]. rewrite Hfree. cbn [Nat.eqb negb andb].
  cbn [eids maps counters]. replace (str_eqb [] (q ++ DUSCORE ++ P1)) with false by (destruct q; reflexivity).
  cbn [set_attr]. replace (match q ++ DUSCORE ++ P1 with [] => q | _ :: _ => q ++ DUSCORE ++ P1 end) with (q ++ DUSCORE ++ P1) by (destruct q; reflexivity).
  cbn [map_st]. do 2 eexists. reflexivity.
Qed.

Lemma rewrite_tx x p s : rewrite_eid (Tx x) p s = Some (Tx x, s).
Proof. reflexivity. Qed.

Lemma candidate_ne p tag n : candidate p tag n <> [].
Proof. unfold candidate. intros E. apply app_eq_nil in E as [_ E]. discriminate. Qed.

Lemma eids_hier tag prefix n h t :
  identifiable tag = true -> str_eqb tag META = false -> clean_num n <> [] ->
  let cand := candidate prefix tag (clean_num n) in
  generate_eids prefix (hier_x tag [] [] n h t) = OkR (hier_x tag [(EID, cand)] [(EID, cand ++ DUSCORE ++ P1)] n h t).
Proof.
  intros Hi Hm Hcn cand. destruct (identifiable_split _ Hi) as [Hx1 Hx2].
  unfold generate_eids, rewrite_all_eids, hier_x. cbn [rewrite_eid]. rewrite Hm.
  unfold rewrite_own. rewrite Hi, Hx2. cbn [get_attr].
  change (first_num_text [El (of_string "num") [] [Tx n]; El (of_string "heading") [] [Tx h]; El (of_string "content") [] [El P_TAG [] [Tx t]]]) with n.
  unfold get_eid. rewrite Hx1, Hx2. cbn [negb]. rewrite (get_num_numbered st0 prefix tag n Hcn).
  fold (candidate prefix tag (clean_num n)). fold cand.
  unfold ensure_unique. cbn [eids st0 length ensure_unique_f cget Nat.eqb negb andb cset counters maps].
  pose proof (candidate_ne prefix tag (clean_num n)) as Hne. fold cand in Hne.
  replace (str_eqb [] cand) with false by (destruct cand; [contradiction|reflexivity]).
  cbn [set_attr]. replace (match cand with [] => prefix | _ :: _ => cand end) with cand by (destruct cand; [contradiction|reflexivity]).
  cbn [map_st].
  rewrite (rewrite_exempt (of_string "num")) by reflexivity. cbn [map_st]. rewrite rewrite_tx.
  rewrite (rewrite_exempt (of_string "heading")) by reflexivity. cbn [map_st]. rewrite rewrite_tx.
  rewrite (rewrite_exempt (of_string "content")) by reflexivity. cbn [map_st].
  destruct (rewrite_p cand t [] [(cand, 1%nat)] [] Hne) as (cs' & es' & Ep).
  - cbn [cget]. change (cand ++ DUSCORE ++ P1) with (cand ++ USCORE :: (USCORE :: P1)). rewrite str_eqb_app_more. reflexivity.
  - intros sub H. discriminate.
  - intros x [].
  - rewrite Ep. reflexivity.
Qed.

(* ---------- the steps that look at the element's name, for each of the keywords' elements ---------- *)
Definition tag_ok (tag : str) : Prop :=
  identifiable tag = true /\ str_eqb tag META = false
  /\ (forall c1 n c2 h c3 t,
        resolve_displaced_content (hier_x tag [] [] (c1 :: n) (c2 :: h) (c3 :: t)) = OkR (hier_x tag [] [] (c1 :: n) (c2 :: h) (c3 :: t)))
  /\ (forall a pa c1 n c2 h c3 t,
        set_attachment_titles (S (xsize (hier_x tag [] [] (c1 :: n) (c2 :: h) (c3 :: t)))) (hier_x tag a pa (c1 :: n) (c2 :: h) (c3 :: t))
        = hier_x tag a pa (c1 :: n) (c2 :: h) (c3 :: t)).

Definition hier_tags : list str := map hier_name hier_keywords.

Lemma tags_ok : Forall tag_ok hier_tags.
Proof.
  unfold hier_tags.
  let v := eval vm_compute in (map hier_name hier_keywords) in change (map hier_name hier_keywords) with v.
  repeat (constructor; [split; [vm_compute; reflexivity|split; [vm_compute; reflexivity|split; intros; vm_compute; reflexivity]]|]).
  constructor.
Qed.

Lemma normalise_hier tag c1 n c2 h c3 t :
  normalise (S (xsize (hier_x tag [] [] (c1 :: n) (c2 :: h) (c3 :: t)))) (hier_x tag [] [] (c1 :: n) (c2 :: h) (c3 :: t))
  = hier_x tag [] [] (c1 :: n) (c2 :: h) (c3 :: t).
Proof. vm_compute. reflexivity. Qed.

Lemma post_process_hier tag prefix n h t :
  tag_ok tag -> n <> [] -> h <> [] -> t <> [] -> clean_num n <> [] ->
  let cand := candidate prefix tag (clean_num n) in
  post_process prefix (hier_x tag [] [] n h t) = OkR (hier_x tag [(EID, cand)] [(EID, cand ++ DUSCORE ++ P1)] n h t).
Proof.
  intros (Hi & Hm & Hr & Ht) Hn Hh Htt Hcn cand.
  destruct n as [|c1 n']; [contradiction|]. destruct h as [|c2 h']; [contradiction|]. destruct t as [|c3 t']; [contradiction|].
  unfold post_process. rewrite Hr. cbn [bind]. rewrite normalise_hier.
  rewrite (eids_hier tag prefix (c1 :: n') (c2 :: h') (c3 :: t') Hi Hm Hcn). cbn [bind]. fold cand. rewrite Ht. reflexivity.
Qed.

(* ---------- assembled ---------- *)
Definition plain_text (s : str) : Prop :=
  s <> [] /\ Forall okc s /\ Forall (fun c => c <> EscapeLossless.BS) s /\ has_double s = false
  /\ Forall (fun c => c <> TAB) s /\ edge_ok s /\ valid_text s = true.

Lemma keywords_plain :
  forallb (fun kw => match kw with c :: _ => negb (py_isspace c) | [] => false end
                     && forallb (fun c => negb (c =? TAB) && negb (c =? NL)) kw) hier_keywords = true.
Proof. vm_compute. reflexivity. Qed.

Lemma plain_units s : plain_text s -> text_units (map P s) /\ encode (map P s) = s /\ decode (map P s) = s.
Proof.
  intros (Hne & Hok & Hbs & Hd & _). split; [|split; [apply encode_plain|apply decode_plain]].
  split; [apply wf_plain; exact Hbs|]. split; [rewrite decode_plain; exact Hok|]. split; [rewrite ulive_plain; exact Hd|].
  destruct s; [contradiction|discriminate].
Qed.

(* texts given as units: plain characters and backslash escapes *)
Definition written_text (us : list unit_) : Prop :=
  text_units us /\ Forall (fun c => c <> TAB) (encode us) /\ edge_ok (encode us) /\ valid_text (decode us) = true.

Lemma encode_no_nl us : Forall okc (decode us) -> Forall (fun c => c <> NL) (encode us).
Proof.
  induction us as [|[c|c] r IH]; intros H; [constructor| |]; inversion H as [|? ? [_ Hc] Hr]; subst.
  - change (encode (P c :: r)) with (c :: encode r). constructor; [exact Hc|apply IH; exact Hr].
  - change (encode (Esc c :: r)) with (EscapeLossless.BS :: c :: encode r).
    constructor; [unfold EscapeLossless.BS, NL; discriminate|]. constructor; [exact Hc|apply IH; exact Hr].
Qed.

Theorem hier_element_converts_units_b uri prefix kw n uh ut k b root_meta att_meta :
  assoc_str uri meta_templates = Some (root_meta, att_meta) ->
  In kw hier_keywords ->
  num_ok n -> Forall (fun c => c <> TAB) n -> clean_num n <> [] -> valid_text n = true ->
  written_text uh -> written_text ut ->
  let L := encode ut ++ NL :: 15 :: [NL] in
  none_starts block_lits L = true -> p_safe L = true -> starts_with SUBH L = false -> no_ctl_start (encode ut) = true ->
  (1 <= k)%nat ->
  let tag := hier_name kw in
  let cand := candidate prefix tag (clean_num n) in
  convert uri (of_string "hier_element") prefix (kw ++ 32 :: n ++ 32 :: 45 :: 32 :: encode uh ++ NL :: repeat NL b ++ repeat SP k ++ encode ut ++ [NL])
  = OkR (hier_x tag [(EID, cand)] [(EID, cand ++ DUSCORE ++ P1)] n (decode uh) (decode ut)).
Proof.
  intros Hm Hkw Hn Hnt Hcn Hvn (Uh & Hhtab & Hhedge & Hvh) (Ut & Httab & Htedge & Hvt) L HbL HpL HsL Hctl Hk tag cand.
  set (h := encode uh) in *. set (t := encode ut) in *.
  assert (Hhok : Forall okc (decode uh)) by apply Uh. assert (Htok : Forall okc (decode ut)) by apply Ut.
  assert (Hhne : decode uh <> []) by (destruct Uh as (_ & _ & _ & H); destruct uh; [contradiction|discriminate]).
  assert (Htne : decode ut <> []) by (destruct Ut as (_ & _ & _ & H); destruct ut; [contradiction|discriminate]).
  assert (Hhne' : h <> []) by (destruct h; [destruct Hhedge|discriminate]).
  pose proof keywords_plain as KT. rewrite forallb_forall in KT. specialize (KT kw Hkw). apply andb_true_iff in KT as [K1 K2].
  rewrite forallb_forall in K2.
  destruct Hn as [Hnok Hn0].
  assert (Hnnl : Forall (fun c => c <> NL) n) by (eapply Forall_impl; [|exact Hnok]; intros c ((_ & H) & _); exact H).
  assert (Hhnl : Forall (fun c => c <> NL) h) by (apply encode_no_nl; exact Hhok).
  assert (Htnl : Forall (fun c => c <> NL) t) by (apply encode_no_nl; exact Htok).
  set (l1 := kw ++ 32 :: n ++ 32 :: 45 :: 32 :: h).
  assert (Hl1tab : Forall (fun c => c <> TAB) l1).
  { subst l1. apply Forall_app. split.
    - apply Forall_forall. intros c Hc. specialize (K2 c Hc). apply andb_true_iff in K2 as [K _]. apply negb_true_iff in K. apply N.eqb_neq. exact K.
    - constructor; [unfold TAB; discriminate|]. apply Forall_app. split; [exact Hnt|]. repeat (constructor; [unfold TAB; discriminate|]). exact Hhtab. }
  assert (Hl1nl : Forall (fun c => c <> NL) l1).
  { subst l1. apply Forall_app. split.
    - apply Forall_forall. intros c Hc. specialize (K2 c Hc). apply andb_true_iff in K2 as [_ K]. apply negb_true_iff in K. apply N.eqb_neq. exact K.
    - constructor; [unfold NL; discriminate|]. apply Forall_app. split; [exact Hnnl|]. repeat (constructor; [unfold NL; discriminate|]). exact Hhnl. }
  assert (Hl1edge : edge_ok l1).
  { subst l1. destruct kw as [|k0 kr]; [discriminate|]. cbn [app edge_ok]. split; [apply negb_true_iff in K1; exact K1|].
    replace (k0 :: kr ++ 32 :: n ++ 32 :: 45 :: 32 :: h) with (((k0 :: kr) ++ 32 :: n ++ [32; 45; 32]) ++ h) by (cbn [app]; rewrite <- !app_assoc; cbn [app]; rewrite <- !app_assoc; reflexivity).
    rewrite (last_app_ne _ h Hhne'). destruct h as [|h0 hr]; [contradiction|]. cbn [edge_ok] in Hhedge. apply Hhedge. }
  unfold convert, parse_text.
  replace (kw ++ 32 :: n ++ 32 :: 45 :: 32 :: h ++ NL :: repeat NL b ++ repeat SP k ++ t ++ [NL]) with (l1 ++ NL :: repeat NL b ++ repeat SP k ++ t ++ [NL])
    by (subst l1; rewrite <- !app_assoc; cbn [app]; rewrite <- !app_assoc; reflexivity).
  rewrite (pre_parse_two_lines_b default_indent_size l1 t k b Hl1tab Hl1nl Hl1edge Httab Htnl Htedge Hk).
  change (resolve_root (of_string "hier_element")) with (of_string "hier_element").
  change INDENT_C with 14. change DEDENT_C with 15.
  set (pre := l1 ++ NL :: repeat NL b ++ 14 :: NL :: t ++ NL :: 15 :: [NL]).
  assert (Epre : pre = hier_text kw n uh b ut []).
  { subst pre l1 h t. unfold hier_text. rewrite <- !app_assoc. cbn [app]. rewrite <- !app_assoc. reflexivity. }
  unfold parse. replace (default_fuel pre) with (40 + (960 + 16 * length pre))%nat by (unfold default_fuel; lia).
  set (F := (960 + 16 * length pre)%nat).
  set (o5' := len_N [] + len_N kw + 1 + len_N n + 3 + len_N (encode uh) + 1 + N.of_nat b + 2 + len_N (encode ut) + 1).
  destruct (dedent_last (25 + F) o5') as (td & Ed).
  destruct (hier_element_yields_hier_node F (2 * S (length pre) + 47) [] kw n uh b ut [] [] (o5' + 2) td Hkw (conj Hnok Hn0) Uh Ut)
    as (tree & hds & lds & Hrun & Hdict & Hd1 & Hc1 & Hd2 & Hc2 & Hroot).
  - fold h. destruct h as [|h0 hr]; [exact I|]. cbn [edge_ok] in Hhedge. destruct Hhedge as [Hf _]. intros ->. discriminate.
  - exact HbL.
  - exact HpL.
  - exact HsL.
  - exact Hctl.
  - exact Ed.
  - fold o5'. lia.
  - rewrite <- Epre in Hrun, Hdict. change (len_N []) with 0 in Hrun. rewrite Hrun. cbn [bind].
    unfold tree_to_dict. replace (2 * S (length pre) + 50)%nat with (3 + (2 * S (length pre) + 47))%nat by lia.
    cbn [app] in Hdict. rewrite Hdict. cbn [bind].
    unfold xml_from_dict, meta_of. rewrite Hm. cbn [bind]. unfold hier_dnode.
    unfold dsize_fuel. replace (4 * S (length pre) + 100)%nat with (S (S (S (4 * S (length pre) + 97))))%nat by lia.
    rewrite (hier_xml att_meta _ (hier_name kw) n hds lds g0); try assumption.
    + cbn [bind]. rewrite Hroot.
      destruct (fuel_hier (hier_name kw) n hds lds) as (fz & Ef). rewrite Ef.
      rewrite norm_hier; [|destruct n; [contradiction|discriminate]|rewrite Hc1; exact Hhne|rewrite Hc2; exact Htne].
      rewrite Hc1, Hc2.
      pose proof tags_ok as TO. rewrite Forall_forall in TO.
      rewrite (post_process_hier (hier_name kw) prefix n (decode uh) (decode ut) (TO _ (in_map hier_name _ _ Hkw))); try assumption.
      * reflexivity.
      * destruct n; [contradiction|discriminate].
    + destruct n; [contradiction|discriminate].
    + intros ->. cbn in Hc1. apply Hhne. symmetry. exact Hc1.
    + rewrite Hc1. exact Hvh.
    + rewrite Hc2. exact Hvt.
Qed.

Theorem hier_element_converts_units uri prefix kw n uh ut k root_meta att_meta :
  assoc_str uri meta_templates = Some (root_meta, att_meta) ->
  In kw hier_keywords ->
  num_ok n -> Forall (fun c => c <> TAB) n -> clean_num n <> [] -> valid_text n = true ->
  written_text uh -> written_text ut ->
  let L := encode ut ++ NL :: 15 :: [NL] in
  none_starts block_lits L = true -> p_safe L = true -> starts_with SUBH L = false -> no_ctl_start (encode ut) = true ->
  (1 <= k)%nat ->
  let tag := hier_name kw in
  let cand := candidate prefix tag (clean_num n) in
  convert uri (of_string "hier_element") prefix (kw ++ 32 :: n ++ 32 :: 45 :: 32 :: encode uh ++ NL :: repeat SP k ++ encode ut ++ [NL])
  = OkR (hier_x tag [(EID, cand)] [(EID, cand ++ DUSCORE ++ P1)] n (decode uh) (decode ut)).
Proof. intros Hm Hkw Hn Hnt Hcn Hvn Hh Ht. exact (hier_element_converts_units_b uri prefix kw n uh ut k 0 root_meta att_meta Hm Hkw Hn Hnt Hcn Hvn Hh Ht). Qed.

Theorem hier_element_converts uri prefix kw n h t k root_meta att_meta :
  assoc_str uri meta_templates = Some (root_meta, att_meta) ->
  In kw hier_keywords ->
  num_ok n -> Forall (fun c => c <> TAB) n -> clean_num n <> [] -> valid_text n = true ->
  plain_text h -> plain_text t ->
  let L := t ++ NL :: 15 :: [NL] in
  none_starts block_lits L = true -> p_safe L = true -> starts_with SUBH L = false -> no_ctl_start t = true ->
  (1 <= k)%nat ->
  let tag := hier_name kw in
  let cand := candidate prefix tag (clean_num n) in
  convert uri (of_string "hier_element") prefix (kw ++ 32 :: n ++ 32 :: 45 :: 32 :: h ++ NL :: repeat SP k ++ t ++ [NL])
  = OkR (hier_x tag [(EID, cand)] [(EID, cand ++ DUSCORE ++ P1)] n h t).
Proof.
  intros Hm Hkw Hn Hnt Hcn Hvn Hh Ht L HbL HpL HsL Hctl Hk tag cand.
  destruct (plain_units h Hh) as (Uh & Eeh & Edh). destruct (plain_units t Ht) as (Ut & Eet & Edt).
  destruct Hh as (_ & _ & _ & _ & Hhtab & Hhedge & Hvh). destruct Ht as (_ & _ & _ & _ & Httab & Htedge & Hvt).
  pose proof (hier_element_converts_units uri prefix kw n (map P h) (map P t) k root_meta att_meta Hm Hkw Hn Hnt Hcn Hvn) as H.
  rewrite Eeh, Eet, Edh, Edt in H. apply H; try assumption.
  - split; [exact Uh|]. rewrite Eeh, Edh. repeat split; assumption.
  - split; [exact Ut|]. rewrite Eet, Edt. repeat split; assumption.
Qed.

(* the fully escaped heading and line (C13): every character behind a backslash *)
Lemma esc_units s : encode (map Esc s) = esc s /\ decode (map Esc s) = s.
Proof. induction s as [|c r [IH1 IH2]]; [split; reflexivity|]. split; cbn [map]; [change (encode (Esc c :: map Esc r)) with (EscapeLossless.BS :: c :: encode (map Esc r)); rewrite IH1; reflexivity|change (decode (Esc c :: map Esc r)) with (c :: decode (map Esc r)); rewrite IH2; reflexivity]. Qed.

Lemma block_lits_not_bs more : none_starts block_lits (PegEscape.BS :: more) = true.
Proof. vm_compute. reflexivity. Qed.

Definition escapable (s : str) : Prop :=
  s <> [] /\ Forall okc s /\ Forall (fun c => c <> TAB) s /\ py_isspace (last s 0) = false /\ valid_text s = true.

Lemma last_esc s : s <> [] -> last (esc s) 0 = last s 0.
Proof.
  induction s as [|c r IH]; intros Hne; [contradiction|]. destruct r as [|d r']; [reflexivity|].
  change (esc (c :: d :: r')) with (PegEscape.BS :: c :: esc (d :: r')).
  change (last (PegEscape.BS :: c :: esc (d :: r')) 0) with (last (esc (d :: r')) 0). rewrite IH by discriminate. reflexivity.
Qed.

Lemma escaped_written s : escapable s -> written_text (map Esc s) /\ encode (map Esc s) = esc s /\ decode (map Esc s) = s.
Proof.
  intros (Hne & Hok & Htab & Hlast & Hv). destruct (esc_units s) as [Ee Ed]. split; [|split; assumption].
  split; [|rewrite Ee, Ed; split; [|split; [|exact Hv]]].
  - split; [apply Forall_forall; intros u Hu; apply in_map_iff in Hu as (c & <- & _); reflexivity|].
    split; [rewrite Ed; exact Hok|]. split; [|destruct s; [contradiction|discriminate]].
    clear. induction s as [|c r IH]; [reflexivity|]. cbn [map]. destruct r; [reflexivity|exact IH].
  - clear -Htab. induction Htab as [|c r Hc Hr IH]; [constructor|]. cbn [esc].
    constructor; [unfold PegEscape.BS, TAB; discriminate|]. constructor; assumption.
  - destruct s as [|c r]; [contradiction|]. change (esc (c :: r)) with (PegEscape.BS :: c :: esc r). cbn [edge_ok]. split; [reflexivity|].
    change (PegEscape.BS :: c :: esc r) with (esc (c :: r)). rewrite last_esc by discriminate. exact Hlast.
Qed.

(* C13 through the whole pipeline: in a hierarchical element, a heading and a line written with every character escaped come out as
   exactly those characters - whatever they spell *)
Theorem escaped_hier_element_converts uri prefix kw n h t k root_meta att_meta :
  assoc_str uri meta_templates = Some (root_meta, att_meta) ->
  In kw hier_keywords ->
  num_ok n -> Forall (fun c => c <> TAB) n -> clean_num n <> [] -> valid_text n = true ->
  escapable h -> escapable t -> (1 <= k)%nat ->
  let tag := hier_name kw in
  let cand := candidate prefix tag (clean_num n) in
  convert uri (of_string "hier_element") prefix (kw ++ 32 :: n ++ 32 :: 45 :: 32 :: esc h ++ NL :: repeat SP k ++ esc t ++ [NL])
  = OkR (hier_x tag [(EID, cand)] [(EID, cand ++ DUSCORE ++ P1)] n h t).
Proof.
  intros Hm Hkw Hn Hnt Hcn Hvn Hh Ht Hk tag cand.
  destruct (escaped_written h Hh) as (Wh & Eeh & Edh). destruct (escaped_written t Ht) as (Wt & Eet & Edt).
  pose proof (hier_element_converts_units uri prefix kw n (map Esc h) (map Esc t) k root_meta att_meta Hm Hkw Hn Hnt Hcn Hvn Wh Wt) as H.
  rewrite Eeh, Eet, Edh, Edt in H. destruct Ht as (Htne & _). destruct t as [|t0 tr]; [contradiction|].
  change (esc (t0 :: tr)) with (PegEscape.BS :: t0 :: esc tr) in *. apply H; try assumption; try reflexivity.
Qed.
