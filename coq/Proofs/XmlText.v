(* C03 (XML stage): building XML from a dict tree neither loses, duplicates, reorders nor
   invents text: the text nodes of the result, in document order, are exactly the text values
   and nums that the dict tree holds in the places the XML generator reads, in the same order. *)
Require Import BB.Base.Str BB.Base.Xml BB.Base.Dict BB.Model.Types BB.Model.Eid BB.Model.XmlGen.
Open Scope N_scope.

Fixpoint xtexts (x : xml) : list str :=
  match x with Tx s => [s] | El _ _ kids => flat_map xtexts kids end.

(* what the generator reads of a dict node, in the order it emits it *)
Fixpoint dtexts (d : dnode) : list str :=
  match d with
  | DText v => [v]
  | DNode kind name _ _ num h sh fr ch =>
      let pre_t := (match truthy_str num with Some n => [n] | None => [] end)
                   ++ (match h with Some l => flat_map dtexts l | None => [] end)
                   ++ (match sh with Some l => flat_map dtexts l | None => [] end) in
      let kids_t := match ch with Some l => flat_map dtexts l | None => [] end in
      if str_eqb kind (S_ "hier") || str_eqb kind (S_ "block") then pre_t ++ kids_t
      else if str_eqb kind (S_ "speechhier")
           then pre_t ++ (match fr with Some l => flat_map dtexts l | None => [] end) ++ kids_t
      else if str_eqb kind (S_ "content") || str_eqb kind (S_ "inline") then kids_t
      else if str_eqb kind (S_ "marker") then []
      else if str_eqb name (S_ "attachment")
           then (match h with Some l => flat_map dtexts l | None => [] end)
                ++ (match sh with Some l => flat_map dtexts l | None => [] end) ++ kids_t
      else kids_t
  end.

Lemma mk_elem_texts n a k e : mk_elem n a k = OkR e -> xtexts e = flat_map xtexts k.
Proof. unfold mk_elem. destruct (_ && _); intros H; inversion H; subst. reflexivity. Qed.

Lemma truthy_l_texts (o : option (list dnode)) :
  match truthy_l o with Some l => flat_map dtexts l | None => [] end
  = match o with Some l => flat_map dtexts l | None => [] end.
Proof. destruct o as [[|x r]|]; reflexivity. Qed.

Section Cons.
  Variable meta_for : str -> xml.
  Hypothesis meta_no_text : forall n, xtexts (meta_for n) = [].
  Variable rec : dnode -> gstate -> R (xml * gstate).
  Hypothesis Hrec : forall d g x g', rec d g = OkR (x, g') -> xtexts x = dtexts d.

  Lemma items_texts : forall l g xs g', items rec l g = OkR (xs, g') -> flat_map xtexts xs = flat_map dtexts l.
  Proof.
    induction l as [|d r IH]; intros g xs g' H; cbn [items] in H.
    - inversion H. reflexivity.
    - destruct (rec d g) as [[x g1]|] eqn:E; [|discriminate]. cbn [bind] in H.
      destruct (items rec r g1) as [[r' g2]|] eqn:Er; [|discriminate]. cbn [bind] in H. inversion H; subst.
      cbn [flat_map]. rewrite (Hrec _ _ _ _ E), (IH _ _ _ Er). reflexivity.
  Qed.

  Lemma wrapped_texts tag o g xs g' :
    wrapped rec tag o g = OkR (xs, g') ->
    flat_map xtexts xs = match o with Some l => flat_map dtexts l | None => [] end.
  Proof.
    unfold wrapped. destruct o as [l|]; [|intros H; inversion H; reflexivity].
    destruct (items rec l g) as [[k g1]|] eqn:E; [|discriminate]. cbn [bind].
    destruct (mk_elem tag [] k) as [e|] eqn:Em; [|discriminate]. cbn [bind]. intros H. inversion H; subst.
    cbn [flat_map]. rewrite app_nil_r. rewrite (mk_elem_texts _ _ _ _ Em). eapply items_texts. exact E.
  Qed.

  Lemma pre_texts num h sh g xs g' :
    pre rec num h sh g = OkR (xs, g') ->
    flat_map xtexts xs =
      (match truthy_str num with Some n => [n] | None => [] end)
      ++ (match h with Some l => flat_map dtexts l | None => [] end)
      ++ (match sh with Some l => flat_map dtexts l | None => [] end).
  Proof.
    unfold pre. intros H.
    match type of H with bind ?x _ = _ => destruct x as [n|] eqn:En; [|discriminate] end. cbn [bind] in H.
    destruct (wrapped rec (S_ "heading") (truthy_l h) g) as [[hx g1]|] eqn:Eh; [|discriminate]. cbn [bind] in H.
    destruct (wrapped rec (S_ "subheading") (truthy_l sh) g1) as [[sx g2]|] eqn:Es; [|discriminate]. cbn [bind] in H.
    inversion H; subst. rewrite !flat_map_app.
    rewrite (wrapped_texts _ _ _ _ _ Eh), (wrapped_texts _ _ _ _ _ Es), !truthy_l_texts. f_equal.
    destruct (truthy_str num) as [nn|].
    - destruct (mk_elem (S_ "num") [] [Tx nn]) as [e|] eqn:Em; [|discriminate]. cbn [bind] in En. inversion En; subst.
      cbn [flat_map]. rewrite app_nil_r. rewrite (mk_elem_texts _ _ _ _ Em). reflexivity.
    - inversion En. reflexivity.
  Qed.

  Lemma hier_groups_texts n : forall gs i seen g xs g',
    hier_groups rec n gs i seen g = OkR (xs, g') ->
    flat_map xtexts xs = flat_map dtexts (concat (map snd gs)).
  Proof.
    induction gs as [|[b grp] r IH]; intros i seen g xs g' H; cbn [hier_groups] in H.
    - inversion H. reflexivity.
    - destruct (items rec grp g) as [[k g1]|] eqn:Ek; [|discriminate]. cbn [bind] in H.
      match type of H with bind ?x _ = _ => destruct x as [[here seen']|] eqn:Eh; [|discriminate] end. cbn [bind] in H.
      destruct (hier_groups rec n r (S i) seen' g1) as [[rest g2]|] eqn:Er; [|discriminate]. cbn [bind] in H.
      inversion H; subst. cbn [map concat snd]. rewrite !flat_map_app. rewrite (IH _ _ _ _ _ Er). f_equal.
      rewrite <- (items_texts _ _ _ _ Ek).
      destruct b; [inversion Eh; reflexivity|]. destruct seen.
      + destruct (Nat.eqb i (n - 1)).
        * destruct (mk_elem (S_ "wrapUp") [] k) as [e|] eqn:Em; [|discriminate]. cbn [bind] in Eh. inversion Eh; subst.
          cbn [flat_map]. rewrite app_nil_r. apply (mk_elem_texts _ _ _ _ Em).
        * destruct (mk_elem (S_ "content") [] k) as [c|] eqn:Ec; [|discriminate]. cbn [bind] in Eh.
          destruct (mk_elem (S_ "hcontainer") _ [c]) as [e|] eqn:Em; [|discriminate]. cbn [bind] in Eh. inversion Eh; subst.
          cbn [flat_map]. rewrite app_nil_r. rewrite (mk_elem_texts _ _ _ _ Em). cbn [flat_map]. rewrite app_nil_r.
          apply (mk_elem_texts _ _ _ _ Ec).
      + destruct (mk_elem (S_ "intro") [] k) as [e|] eqn:Em; [|discriminate]. cbn [bind] in Eh. inversion Eh; subst.
        cbn [flat_map]. rewrite app_nil_r. apply (mk_elem_texts _ _ _ _ Em).
  Qed.

  Lemma group_flags_concat {A} (l : list (bool * A)) : concat (map snd (group_flags l)) = map snd l.
  Proof.
    induction l as [|[b x] r IH]; [reflexivity|]. cbn [group_flags].
    destruct (group_flags r) as [|[b' grp] rest] eqn:E.
    - destruct r as [|[? ?] ?]; [reflexivity|]. cbn [group_flags] in E. destruct (group_flags r); [discriminate|destruct p; destruct (Bool.eqb _ _); discriminate].
    - cbn [map concat snd] in IH. destruct (Bool.eqb b b'); cbn [map concat snd app]; rewrite <- IH; reflexivity.
  Qed.

  Lemma flags_children children flags :
    mapR (fun k => do b <- is_hier_child k; OkR (b, k)) children = OkR flags -> map snd flags = children.
  Proof.
    revert flags. induction children as [|k r IH]; intros flags H; simpl in H.
    - inversion H. reflexivity.
    - destruct (is_hier_child k) as [b|]; [|discriminate]. cbn [bind] in H.
      destruct (mapR _ r) as [fs|] eqn:E; [|discriminate]. cbn [bind] in H. inversion H; subst.
      simpl. f_equal. apply IH. reflexivity.
  Qed.

  Lemma kids_of_texts ch : flat_map dtexts (kids_of ch) = match ch with Some l => flat_map dtexts l | None => [] end.
  Proof. destruct ch; reflexivity. Qed.

  Theorem item_body_texts d g x g' :
    item_body meta_for rec d g = OkR (x, g') -> xtexts x = dtexts d.
  Proof.
    destruct d as [v|kind name attribs att_attribs num h sh fr ch]; cbn [item_body].
    { intros H. inversion H. reflexivity. }
    cbn [dtexts].
    destruct (str_eqb kind (S_ "hier")) eqn:Kh.
    { (* hier *)
      cbn [orb]. intros H.
      match type of H with bind ?x _ = _ => destruct x as [flags|] eqn:Ef; [|discriminate] end. cbn [bind] in H.
      match type of H with bind ?x _ = _ => destruct x as [[kids g1]|] eqn:Ek; [|discriminate] end. cbn [bind] in H.
      destruct (pre rec num h sh g1) as [[p g2]|] eqn:Ep; [|discriminate]. cbn [bind] in H.
      match type of H with bind ?x _ = _ => destruct x as [e|] eqn:Em; [|discriminate] end. cbn [bind] in H.
      inversion H; subst. rewrite (mk_elem_texts _ _ _ _ Em), flat_map_app, (pre_texts _ _ _ _ _ _ Ep).
      rewrite <- !app_assoc. do 3 f_equal. rewrite <- kids_of_texts.
      destruct (forallb _ flags).
      - destruct (items rec (kids_of ch) g) as [[k g0]|] eqn:Ei; [|discriminate]. cbn [bind] in Ek.
        destruct (mk_elem (S_ "content") [] k) as [c|] eqn:Ec; [|discriminate]. cbn [bind] in Ek. inversion Ek; subst.
        cbn [flat_map]. rewrite app_nil_r, (mk_elem_texts _ _ _ _ Ec). eapply items_texts. exact Ei.
      - rewrite (hier_groups_texts _ _ _ _ _ _ _ Ek), group_flags_concat, (flags_children _ _ Ef). reflexivity. }
    destruct (str_eqb kind (S_ "block")) eqn:Kb.
    { cbn [orb]. intros H.
      destruct (pre rec num h sh g) as [[p g1]|] eqn:Ep; [|discriminate]. cbn [bind] in H.
      destruct (items rec (kids_of ch) g1) as [[k g2]|] eqn:Ei; [|discriminate]. cbn [bind] in H.
      match type of H with bind ?x _ = _ => destruct x as [kids|] eqn:Ekk; [|discriminate] end. cbn [bind] in H.
      match type of H with bind ?x _ = _ => destruct x as [e|] eqn:Em; [|discriminate] end. cbn [bind] in H.
      inversion H; subst. rewrite (mk_elem_texts _ _ _ _ Em).
      assert (flat_map xtexts kids = flat_map xtexts (p ++ k)) as ->.
      { destruct (p ++ k) eqn:Epk.
        - destruct (mk_elem (S_ "p") [] []) as [e0|] eqn:E0; [|discriminate]. cbn [bind] in Ekk. inversion Ekk; subst.
          cbn [flat_map]. rewrite (mk_elem_texts _ _ _ _ E0). reflexivity.
        - inversion Ekk; subst. reflexivity. }
      rewrite flat_map_app, (pre_texts _ _ _ _ _ _ Ep), (items_texts _ _ _ _ Ei), kids_of_texts.
      rewrite <- !app_assoc. reflexivity. }
    cbn [orb].
    destruct (str_eqb kind (S_ "speechhier")) eqn:Ks.
    { intros H.
      destruct (pre rec num h sh g) as [[p g1]|] eqn:Ep; [|discriminate]. cbn [bind] in H.
      destruct (wrapped rec (S_ "from") fr g1) as [[frx g2]|] eqn:Ef; [|discriminate]. cbn [bind] in H.
      destruct (items rec (kids_of ch) g2) as [[k g3]|] eqn:Ei; [|discriminate]. cbn [bind] in H.
      match type of H with bind ?x _ = _ => destruct x as [e|] eqn:Em; [|discriminate] end. cbn [bind] in H.
      inversion H; subst. rewrite (mk_elem_texts _ _ _ _ Em), !flat_map_app.
      rewrite (pre_texts _ _ _ _ _ _ Ep), (wrapped_texts _ _ _ _ _ Ef), (items_texts _ _ _ _ Ei), kids_of_texts.
      rewrite <- !app_assoc. reflexivity. }
    destruct (str_eqb kind (S_ "content") || str_eqb kind (S_ "inline")) eqn:Kc.
    { intros H.
      destruct (items rec (kids_of ch) g) as [[k g1]|] eqn:Ei; [|discriminate]. cbn [bind] in H.
      match type of H with bind ?x _ = _ => destruct x as [e|] eqn:Em; [|discriminate] end. cbn [bind] in H.
      inversion H; subst. rewrite (mk_elem_texts _ _ _ _ Em), (items_texts _ _ _ _ Ei). apply kids_of_texts. }
    destruct (str_eqb kind (S_ "marker")) eqn:Km.
    { intros H.
      match type of H with bind ?x _ = _ => destruct x as [e|] eqn:Em; [|discriminate] end. cbn [bind] in H.
      inversion H; subst. apply (mk_elem_texts _ _ _ _ Em). }
    destruct (str_eqb kind (S_ "element")) eqn:Ke; [|discriminate].
    destruct (str_eqb name (S_ "attachment")) eqn:Na.
    { destruct (attachment_name attribs g) as [aname g0]. intros H.
      destruct (wrapped rec (S_ "heading") (truthy_l h) g0) as [[hx g1]|] eqn:Eh; [|discriminate]. cbn [bind] in H.
      destruct (wrapped rec (S_ "subheading") (truthy_l sh) g1) as [[sx g2]|] eqn:Es; [|discriminate]. cbn [bind] in H.
      destruct ch as [children|]; [|discriminate]. cbn [bind] in H.
      destruct (items rec children _) as [[k g3]|] eqn:Ei; [|discriminate]. cbn [bind] in H.
      match type of H with bind ?x _ = _ => destruct x as [doc|] eqn:Ed; [|discriminate] end. cbn [bind] in H.
      match type of H with bind ?x _ = _ => destruct x as [e|] eqn:Em; [|discriminate] end. cbn [bind] in H.
      inversion H; subst. rewrite (mk_elem_texts _ _ _ _ Em), !flat_map_app.
      rewrite (wrapped_texts _ _ _ _ _ Eh), (wrapped_texts _ _ _ _ _ Es), !truthy_l_texts.
      cbn [flat_map]. rewrite app_nil_r, (mk_elem_texts _ _ _ _ Ed). cbn [flat_map].
      rewrite meta_no_text, (items_texts _ _ _ _ Ei). reflexivity. }
    intros H.
    destruct (items rec (kids_of ch) g) as [[k g1]|] eqn:Ei; [|discriminate]. cbn [bind] in H.
    match type of H with bind ?x _ = _ => destruct x as [e|] eqn:Em; [|discriminate] end. cbn [bind] in H.
    inversion H; subst. rewrite (mk_elem_texts _ _ _ _ Em), (items_texts _ _ _ _ Ei). apply kids_of_texts.
  Qed.
End Cons.

(* for every dict tree (not only those to_dict produces), every fuel and generator state *)
Theorem item_to_xml_texts meta_for :
  (forall n, xtexts (meta_for n) = []) ->
  forall fuel d g x g', item_to_xml meta_for fuel d g = OkR (x, g') -> xtexts x = dtexts d.
Proof.
  intros Hm. induction fuel as [|f IH]; intros d g x g' H; [discriminate|].
  cbn [item_to_xml] in H. eapply item_body_texts; [exact Hm| |exact H]. exact IH.
Qed.

(* ---- post-processing steps that cannot touch text ---- *)
Require Import BB.Model.EidSpec BB.Model.Post BB.Proofs.EidRewrite.

Lemma xtexts_erase x : xtexts (erase_eids x) = xtexts x.
Proof.
  induction x as [tag attrs kids IH|s] using xml_ind2; [|reflexivity].
  cbn [erase_eids]. destruct (str_eqb tag META); [reflexivity|]. cbn [xtexts].
  induction IH as [|k r Hk Hr IHr]; [reflexivity|]. cbn [map flat_map]. rewrite Hk, IHr. reflexivity.
Qed.

(* eId generation leaves every text node where it is *)
Theorem rewrite_texts e p s e' s' : rewrite_eid e p s = Some (e', s') -> xtexts e' = xtexts e.
Proof.
  intros H. apply rewrite_only_eids in H. rewrite <- (xtexts_erase e'), H. apply xtexts_erase.
Qed.

(* normalise drops childless crossHeading/longTitle/content/preface/preamble/conclusions together
   with the text node that follows them (lxml's tail rule): text is conserved exactly when no
   text node directly follows such an element *)
Fixpoint no_tail_after_removable (f : nat) (x : xml) : bool :=
  match f with
  | O => true
  | S f' =>
    match x with
    | Tx _ => true
    | El _ _ kids =>
        (fix go (skip : bool) (l : list xml) : bool :=
           match l with
           | [] => true
           | k :: r =>
               match k with
               | Tx _ => negb skip && go false r
               | El t _ [] => go (mem_str t removable) r
               | El _ _ (_ :: _) => no_tail_after_removable f' k && go false r
               end
           end) false kids
    end
  end.

Theorem normalise_texts : forall f x, no_tail_after_removable f x = true -> xtexts (normalise f x) = xtexts x.
Proof.
  induction f as [|f IH]; intros x H; [reflexivity|].
  destruct x as [tag attrs kids|s]; [|reflexivity]. cbn [normalise no_tail_after_removable xtexts] in *.
  revert H.
  match goal with |- ?G false kids = true -> flat_map xtexts (?F false kids) = _ =>
    assert (HH : forall l skip, G skip l = true -> flat_map xtexts (F skip l) = flat_map xtexts l) end.
  { induction l as [|k r IHk]; intros skip H; [reflexivity|].
    destruct k as [t a [|k0 ks]|s].
    - destruct (mem_str t removable) eqn:Er.
      + rewrite IHk by exact H. reflexivity.
      + cbn [flat_map xtexts app]. rewrite IHk by exact H. reflexivity.
    - apply andb_true_iff in H as [H1 H2]. cbn [flat_map]. rewrite (IH _ H1), (IHk _ H2). reflexivity.
    - apply andb_true_iff in H as [H1 H2]. apply negb_true_iff in H1. subst skip.
      cbn [flat_map]. rewrite (IHk _ H2). reflexivity. }
  apply HH.
Qed.
