(* C12 / C11: a staircase of any height.  Lines with strictly growing indentation - any number of them, any widths - are pre-parsed
   into as many nested blocks: one indent marker line before every line after the first, and all the dedent marker lines at the end.
   There is no depth at which nesting stops and no width beyond which indentation is read differently. *)
Require Import BB.Base.Str BB.Model.PreParse BB.Gen.TablesParser.
Require Import BB.Proofs.StrLemmas BB.Proofs.PreParseInvariance BB.Proofs.PreParseTrailing BB.Proofs.PlainLineConvert BB.Proofs.HierElementConvert.
Open Scope N_scope.

Definition row := (nat * str)%type.
Definition raw_line (r : row) : str := repeat SP (fst r) ++ snd r.
Definition stair_text (rows : list row) : str := join_on NL (map raw_line rows) ++ [NL].

(* strictly growing indentation, starting above `top` *)
Fixpoint growing (top : Z) (rows : list row) : Prop :=
  match rows with
  | [] => True
  | (k, _) :: r => (top < Z.of_nat k)%Z /\ growing (Z.of_nat k) r
  end.

Definition line_ok (l : str) : Prop := Forall (fun c => c <> TAB) l /\ Forall (fun c => c <> NL) l /\ edge_ok l.

Definition body (rows : list row) : str := flat_map (fun r => INDENT_C :: NL :: snd r ++ [NL]) rows.
Definition deds (n : nat) : str := flat_map (fun _ => [DEDENT_C; NL]) (seq 0 n).
Definition stair_out (rows : list row) : str :=
  match rows with
  | (_, l0) :: r => l0 ++ NL :: body r ++ deds (length r)
  | [] => []
  end.

Lemma span_raw (r : row) : line_ok (snd r) -> span_sp (raw_line r) = (fst r, snd r).
Proof.
  intros (_ & _ & He). destruct r as [k l]. unfold raw_line. cbn [fst snd] in *. apply span_sp_repeat.
  destruct l as [|c l']; [exact I|]. cbn [edge_ok] in He. destruct He as [Hf _].
  unfold is_sp. destruct (N.eqb_spec c SP) as [E|]; [|reflexivity]. rewrite E in Hf. discriminate.
Qed.

Lemma snd_nonempty (r : row) : line_ok (snd r) -> exists c l, snd r = c :: l.
Proof. intros (_ & _ & He). destruct (snd r) as [|c l]; [destruct He|eauto]. Qed.

(* the marker pass over the rows and the empty last line *)
Lemma process_stair : forall rows top stack,
  growing top rows -> Forall (fun r => line_ok (snd r)) rows ->
  process (top :: stack) (map raw_line rows ++ [[]])
  = Some (flat_map (fun r => [[INDENT_C]; snd r]) rows ++ [[]], rev (map (fun r => Z.of_nat (fst r)) rows) ++ top :: stack).
Proof.
  induction rows as [|r rows IH]; intros top stack Hg Hl; [reflexivity|].
  inversion Hl as [|? ? Hr Hrs]; subst. destruct r as [k l] eqn:Er. cbn [growing] in Hg. destruct Hg as [Hk Hg].
  cbn [map app process]. rewrite <- Er. rewrite (span_raw r) by (rewrite Er; exact Hr). rewrite Er. cbn [fst snd] in *.
  destruct (snd_nonempty (k, l) Hr) as (c & l' & El). cbn [snd] in El. rewrite El.
  assert (Eh : handle (Z.of_nat k) (top :: stack) = Some ([MInd], Z.of_nat k :: top :: stack)).
  { unfold handle. destruct (Z.eqb_spec (Z.of_nat k) top) as [E|_]; [lia|]. destruct (Z.gtb_spec (Z.of_nat k) top) as [_|E]; [reflexivity|lia]. }
  rewrite Eh. rewrite (IH (Z.of_nat k) (top :: stack) Hg Hrs).
  cbn [map marker_line marker_char app flat_map rev]. rewrite <- app_assoc. reflexivity.
Qed.

Lemma join_cons2 (a b : str) X : join_on NL (a :: b :: X) = a ++ NL :: join_on NL (b :: X).
Proof. reflexivity. Qed.

Lemma join_body : forall rows, rows <> [] ->
  join_on NL (flat_map (fun r : row => [[INDENT_C]; snd r]) rows ++ [[]]) = body rows.
Proof.
  intros rows Hne. rewrite join_on_app_nil by (destruct rows; [contradiction|discriminate]).
  induction rows as [|r rows IH]; [contradiction|]. destruct rows as [|r2 rows].
  - cbn [flat_map app]. rewrite join_cons2. cbn [join_on body flat_map app]. rewrite app_nil_r. reflexivity.
  - specialize (IH ltac:(discriminate)).
    change (flat_map (fun r : row => [[INDENT_C]; snd r]) (r :: r2 :: rows))
      with ([INDENT_C] :: snd r :: [INDENT_C] :: snd r2 :: flat_map (fun r : row => [[INDENT_C]; snd r]) rows).
    rewrite !join_cons2.
    change (flat_map (fun r : row => [[INDENT_C]; snd r]) (r2 :: rows))
      with ([INDENT_C] :: snd r2 :: flat_map (fun r : row => [[INDENT_C]; snd r]) rows) in IH.
    rewrite join_cons2 in IH.
    change (body (r :: r2 :: rows)) with ((INDENT_C :: NL :: snd r ++ [NL]) ++ body (r2 :: rows)). rewrite <- IH.
    cbn [app]. rewrite <- !app_assoc. reflexivity.
Qed.

Lemma raw_line_no_nl (r : row) : line_ok (snd r) -> Forall (fun c => c <> NL) (raw_line r).
Proof. intros (_ & Hn & _). unfold raw_line. apply Forall_app. split; [apply forall_repeat; unfold SP, NL; discriminate|exact Hn]. Qed.
Lemma raw_line_no_tab (r : row) : line_ok (snd r) -> Forall (fun c => c <> TAB) (raw_line r).
Proof. intros (Ht & _ & _). unfold raw_line. apply Forall_app. split; [apply forall_repeat; unfold SP, TAB; discriminate|exact Ht]. Qed.

Lemma raw_line_last (r : row) : line_ok (snd r) -> raw_line r <> [] /\ py_isspace (last (raw_line r) 0) = false.
Proof.
  intros Hl. destruct (snd_nonempty r Hl) as (c & l & El). destruct Hl as (_ & _ & He). unfold raw_line. rewrite El in *. split.
  - intros E. apply app_eq_nil in E as [_ E]. discriminate.
  - rewrite last_app_ne by discriminate. cbn [edge_ok] in He. apply He.
Qed.

Lemma join_no_tab : forall ls, Forall (Forall (fun c => c <> TAB)) ls -> Forall (fun c => c <> TAB) (join_on NL ls).
Proof.
  induction ls as [|l r IH]; intros H; [constructor|]. inversion H as [|? ? Hl Hr]; subst. destruct r as [|l2 r]; [exact Hl|].
  cbn [join_on]. apply Forall_app. split; [exact Hl|]. constructor; [unfold NL, TAB; discriminate|]. apply IH. exact Hr.
Qed.

Lemma last_app_ne_d (a s : str) d : s <> [] -> last (a ++ s) d = last s d.
Proof.
  intros Hne. induction a as [|c r IH]; [reflexivity|]. cbn [app]. destruct (r ++ s) as [|x l] eqn:E.
  - apply app_eq_nil in E as [_ E]. contradiction.
  - change (last (c :: x :: l) d) with (last (x :: l) d). exact IH.
Qed.

Lemma last_cons_ne (c : N) (X : str) d : X <> [] -> last (c :: X) d = last X d.
Proof. destruct X; [contradiction|reflexivity]. Qed.

Lemma join_nil (ls : list str) : join_on NL ls = [] -> last ls [] = [].
Proof.
  destruct ls as [|l [|l2 r]]; [reflexivity|cbn; auto|]. rewrite join_cons2. intros E. apply app_eq_nil in E as [_ E]. discriminate.
Qed.

Lemma join_last : forall ls d, ls <> [] -> last ls [] <> [] -> last (join_on NL ls) d = last (last ls []) d.
Proof.
  induction ls as [|l r IH]; intros d Hne Hl; [contradiction|]. destruct r as [|l2 r]; [reflexivity|].
  rewrite join_cons2. change (last (l :: l2 :: r) []) with (last (l2 :: r) []) in *.
  assert (Hj : join_on NL (l2 :: r) <> []) by (intros E; apply join_nil in E; contradiction).
  rewrite last_app_ne_d by discriminate.
  erewrite last_cons_ne; [|exact Hj]. apply IH; [discriminate|exact Hl].
Qed.

Theorem pre_parse_stair size r0 rows :
  fst r0 = 0%nat -> growing 0 rows -> Forall (fun r => line_ok (snd r)) (r0 :: rows) ->
  pre_parse size (stair_text (r0 :: rows)) = Some (stair_out (r0 :: rows)).
Proof.
  intros H0 Hg Hl. set (all := r0 :: rows). set (ls := map raw_line all).
  assert (Hls : ls <> []) by (subst ls all; discriminate).
  assert (Hnl : Forall (fun l => Forall (fun c => c <> NL) l) ls).
  { subst ls. apply Forall_forall. intros l Hin. apply in_map_iff in Hin as (r & <- & Hr). apply raw_line_no_nl. rewrite Forall_forall in Hl. exact (Hl r Hr). }
  assert (Hlast : last ls [] <> [] /\ py_isspace (last (last ls []) 0) = false).
  { assert (Hall : all <> []) by (subst all; discriminate). destruct (exists_last Hall) as (l' & a & Ea).
    subst ls. rewrite Ea, map_app. cbn [map]. rewrite last_last. apply raw_line_last.
    rewrite Forall_forall in Hl. apply Hl. fold all. rewrite Ea. apply in_or_app. right. left. reflexivity. }
  destruct Hlast as [HlastNe HlastSp].
  set (t := join_on NL ls).
  assert (Ht_ne : t <> []).
  { subst t. intros E. apply join_nil in E. contradiction. }
  assert (Ht_last : py_isspace (last t 0) = false) by (subst t; rewrite (join_last ls 0 Hls HlastNe); exact HlastSp).
  assert (Ht_first : match t with c :: _ => py_isspace c = false | [] => True end).
  { subst t ls all. inversion Hl as [|? ? Hr0 _]; subst. destruct (snd_nonempty r0 Hr0) as (c & l & El). destruct Hr0 as (_ & _ & He).
    cbn [map]. unfold raw_line at 1. rewrite H0, El. cbn [repeat app]. rewrite El in He. cbn [edge_ok] in He.
    destruct (map raw_line rows); cbn [join_on app]; apply He. }
  unfold pre_parse, stair_text. fold all. fold ls. fold t.
  assert (Ex : expand_tabs size (t ++ [NL]) = t ++ [NL]).
  { apply expand_tabs_none. apply Forall_app. split; [|constructor; [unfold NL, TAB; discriminate|constructor]].
    subst t. apply join_no_tab. subst ls. apply Forall_forall. intros l Hin. apply in_map_iff in Hin as (r & <- & Hr). apply raw_line_no_tab. rewrite Forall_forall in Hl. exact (Hl r Hr). }
  rewrite Ex.
  assert (Es : strip py_isspace (t ++ [NL]) = t).
  { unfold strip. replace (lstrip py_isspace (t ++ [NL])) with (t ++ [NL]) by (destruct t as [|c t']; [contradiction|cbn [app lstrip]; rewrite Ht_first; reflexivity]).
    rewrite rstrip_app. change (forallb py_isspace [NL]) with true. cbv iota. apply rstrip_keep; assumption. }
  rewrite Es.
  assert (Hsp_ws : forall c, py_isspace c = false -> is_sp c = false).
  { intros c Hc. unfold is_sp. destruct (N.eqb_spec c SP) as [E|]; [|reflexivity]. rewrite E in Hc. discriminate. }
  assert (Est : strip_trailing t = t).
  { unfold strip_trailing. subst t. rewrite (split_join NL ls Hls Hnl). f_equal. subst ls.
    rewrite map_map. apply map_ext_in. intros r Hr. rewrite Forall_forall in Hl. destruct (raw_line_last r (Hl r Hr)) as [A B].
    apply rstrip_keep; [exact A|apply Hsp_ws; exact B]. }
  rewrite Est.
  assert (Een : ensure_nl t = t ++ [NL]).
  { unfold ensure_nl. rewrite (ends_with_nl_last t Ht_ne); [reflexivity|]. intros E. rewrite E in Ht_last. discriminate. }
  rewrite Een. rewrite split_on_app_sep. subst t. rewrite (split_join NL ls Hls Hnl). subst ls all.
  assert (Hg' : growing (-1) (r0 :: rows)) by (destruct r0 as [k0 l0]; cbn [fst] in H0; subst k0; cbn [growing]; split; [lia|exact Hg]).
  rewrite (process_stair (r0 :: rows) (-1) [] Hg' Hl).
  rewrite join_body by discriminate. rewrite app_length, rev_length, map_length. cbn [length].
  destruct r0 as [k0 l0]. unfold body. cbn [flat_map snd]. fold (body rows).
  match goal with |- Some (slice_both 2 ?X) = _ =>
    replace X with ([INDENT_C; NL] ++ (l0 ++ NL :: body rows ++ deds (length rows)) ++ [DEDENT_C; NL]) end.
  - rewrite slice_both_2. reflexivity.
  - rewrite Nat.add_sub, seq_S, flat_map_app. unfold deds. cbn [flat_map app]. rewrite <- !app_assoc. cbn [app]. rewrite <- !app_assoc. reflexivity.
Qed.
