(* C04 (dict stage): the element a hierarchical / speech keyword becomes.  HierElement.to_dict,
   SpeechContainer.to_dict and SpeechGroup.to_dict give the node the name that the synonym table
   regenerated from types.py assigns to the keyword the grammar matched - for every parse tree. *)
Require Import BB.Base.Str BB.Base.Xml BB.Base.Dict BB.Model.PegSyntax BB.Model.Peg BB.Model.Types.
Require Import BB.Gen.Grammar BB.Gen.TablesTypes BB.Gen.TablesXsl BB.Proofs.Tables.
Open Scope N_scope.

Lemma ca_name_hier t0 : node_type t0 = Some (S_ "HierElement") ->
  class_attr class_name_element t0 = Some (S_ "hier_element_name")
  /\ class_attr class_synonyms t0 = Some (syn_of "HierElement")
  /\ class_attr class_type_attr t0 = Some (S_ "hier").
Proof. intros H. unfold class_attr. rewrite H. vm_compute. auto. Qed.

Lemma ca_name_speech t0 : node_type t0 = Some (S_ "SpeechContainer") ->
  class_attr class_name_element t0 = Some (S_ "speech_container_name")
  /\ class_attr class_synonyms t0 = Some (syn_of "SpeechContainer")
  /\ class_attr class_type_attr t0 = Some (S_ "speechhier").
Proof. intros H. unfold class_attr. rewrite H. vm_compute. auto. Qed.

Lemma ca_name_group t0 : node_type t0 = Some (S_ "SpeechGroup") ->
  class_attr class_name_element t0 = Some (S_ "speech_group_name")
  /\ class_attr class_synonyms t0 = Some (syn_of "SpeechContainer")
  /\ class_attr class_type_attr t0 = Some (S_ "speechhier").
Proof. intros H. unfold class_attr. rewrite H. vm_compute. auto. Qed.

Section K.
  Variable inp : str.
  Variable td : tree -> R dnode.
  Variable fuel : nat.

  Lemma hier_to_dict_name t0 d ne syn ty nm :
    class_attr class_name_element t0 = Some ne ->
    class_attr class_synonyms t0 = Some syn ->
    class_attr class_type_attr t0 = Some ty ->
    label t0 ne = OkR nm ->
    hier_to_dict inp td fuel t0 = OkR d ->
    exists a num h sh kids, d = DNode ty (kw_to_elem syn (text inp nm)) a None num h sh None (Some kids).
  Proof.
    intros Hn Hs Ht Hl. unfold hier_to_dict, class_attrR. rewrite Hn, Hs, Ht. cbn [bind]. rewrite Hl. cbn [bind].
    intros H.
    destruct (label t0 (Types.S_ "body")) as [body|]; [|discriminate]. cbn [bind] in H.
    match type of H with bind ?x _ = _ => destruct x as [kids|]; [|discriminate] end. cbn [bind] in H.
    destruct (label t0 (Types.S_ "heading")) as [hd|]; [|discriminate]. cbn [bind] in H.
    match type of H with bind ?x _ = _ => destruct x as [[num heading]|]; [|discriminate] end. cbn [bind] in H.
    match type of H with bind ?x _ = _ => destruct x as [sub|]; [|discriminate] end. cbn [bind] in H.
    destruct (opt_attrs inp t0) as [attrs|]; [|discriminate]. cbn [bind] in H.
    inversion H; subst. exists attrs, num, heading, sub, kids. reflexivity.
  Qed.

  (* hierarchical keywords *)
  Theorem hier_keyword_element t0 d nm :
    node_type t0 = Some (S_ "HierElement") ->
    label t0 (S_ "hier_element_name") = OkR nm ->
    hier_to_dict inp td fuel t0 = OkR d ->
    exists a num h sh kids,
      d = DNode (S_ "hier") (kw_to_elem (syn_of "HierElement") (text inp nm)) a None num h sh None (Some kids).
  Proof.
    intros Hty Hl H. destruct (ca_name_hier _ Hty) as (H1 & H2 & H3).
    eapply hier_to_dict_name; eauto.
  Qed.

  (* speech containers: same, plus the name attribute the schema requires on debateSection *)
  Theorem speech_keyword_element t0 d nm :
    node_type t0 = Some (S_ "SpeechContainer") ->
    label t0 (S_ "speech_container_name") = OkR nm ->
    speech_container_to_dict inp td fuel t0 = OkR d ->
    exists a num h sh kids,
      d = DNode (S_ "speechhier") (kw_to_elem (syn_of "SpeechContainer") (text inp nm)) a None num h sh None (Some kids).
  Proof.
    intros Hty Hl. unfold speech_container_to_dict.
    destruct (hier_to_dict inp td fuel t0) as [info|] eqn:E; [|discriminate]. cbn [bind].
    destruct (ca_name_speech _ Hty) as (H1 & H2 & H3).
    destruct (hier_to_dict_name _ _ _ _ _ _ H1 H2 H3 Hl E) as (a & num & h & sh & kids & ->).
    cbn [d_name bind]. destruct (str_eqb _ _); intros H; inversion H; subst.
    - unfold set_default_attr. destruct a as [l|]; [destruct (assoc_str _ l)|]; eauto 8.
    - eauto 8.
  Qed.
End K.

(* with the table facts: whatever keyword of the grammar the name node holds, the element is one the
   unparser has a hierarchical template for *)
Corollary hier_keyword_known_element kw :
  In kw hier_kws -> In (kw_to_elem (syn_of "HierElement") kw) xsl_hier_elements.
Proof.
  intros H. pose proof keywords_have_elements as T. apply andb_prop in T. destruct T as [T _].
  rewrite forallb_forall in T. specialize (T _ H). unfold mem_str in T. apply existsb_exists in T.
  destruct T as (x & Hx & He). apply str_eqb_spec in He. subst. exact Hx.
Qed.
