(* C06 (block level): the first text of a paragraph, as the unparser writes it, is never read as the
   start of a keyword block.  On the grammar regenerated from akn.peg, hier_block_element on a line
   whose text went through escape-prefixes falls through every alternative to rule `line`. *)
Require Import BB.Base.Str BB.Base.Xml BB.Model.PegSyntax BB.Model.Peg BB.Model.Unparse BB.Gen.Grammar BB.Gen.TablesXsl.
Require Import BB.Proofs.PegMono BB.Proofs.Totality BB.Proofs.PegSpan BB.Proofs.PegEscape BB.Proofs.PegPlain.
Open Scope N_scope.

(* ---- a static FIRST analysis: Some L = e can only succeed on inputs that start with some l in L ---- *)
Fixpoint first_lits (g : grammar) (n : nat) (e : expr) : option (list str) :=
  match n with
  | O => None
  | S n' =>
      match e with
      | Lit [] => None
      | Lit l => Some [l]
      | Ref r => match lookup g r with Some b => first_lits g n' b | None => Some [] end
      | Seq (e1 :: _) _ => first_lits g n' e1
      | Alt es =>
          fold_right (fun e1 acc => match first_lits g n' e1, acc with
                                    | Some a, Some b => Some (a ++ b)
                                    | _, _ => None end) (Some []) es
      | Typed e1 _ => first_lits g n' e1
      | Plus e1 => first_lits g n' e1
      | _ => None
      end
  end.

Definition none_starts (L : list str) (s : str) : bool := forallb (fun l => negb (starts_with l s)) L.

Lemma first_lits_sound g : forall n e L, first_lits g n e = Some L ->
  forall f s off, none_starts L s = true -> (n <= f)%nat -> run g f e s off = Fail.
Proof.
  induction n as [|n IH]; intros e L H f s off Hs Hf; [discriminate|].
  destruct f as [|f]; [lia|]. assert (Hf' : (n <= f)%nat) by lia.
  destruct e as [l|rs|r|es labels|es|e1|e1|e1|e1|e1|e1 ty]; cbn [first_lits] in H; try discriminate.
  - destruct l as [|x l']; [discriminate|]. inversion H; subst. cbn [none_starts forallb] in Hs.
    rewrite andb_true_r in Hs. rewrite run_Lit. unfold starts_with in Hs.
    destruct (strip_prefix (x :: l') s); [discriminate|reflexivity].
  - rewrite run_Ref. destruct (lookup g r) as [b|]; [|reflexivity]. eapply IH; eassumption.
  - destruct es as [|e1 es']; [discriminate|]. rewrite run_Seq. cbn [seq_loop].
    rewrite (IH _ _ H f s off Hs Hf'). reflexivity.
  - rewrite run_Alt. revert L H Hs. induction es as [|e1 es' IHes]; intros L H Hs; [reflexivity|].
    cbn [fold_right] in H. destruct (first_lits g n e1) as [a|] eqn:E1; [|discriminate].
    destruct (fold_right _ (Some []) es') as [b|] eqn:E2; [|discriminate]. inversion H; subst.
    unfold none_starts in Hs. rewrite forallb_app in Hs. apply andb_prop in Hs. destruct Hs as [Ha Hb].
    cbn [alt_loop]. rewrite (IH _ _ E1 f s off Ha Hf'). apply (IHes b eq_refl Hb).
  - rewrite run_Plus. cbn [rep_loop]. destruct (S (length s)) eqn:Ek; [discriminate|].
    cbn [rep_loop]. rewrite (IH _ _ H f s off Hs Hf'). reflexivity.
  - rewrite run_Typed. rewrite (IH _ _ H f s off Hs Hf'). reflexivity.
Qed.

(* ---- the alternatives that come before `line`, on the regenerated grammar ---- *)
Definition before_line : list expr :=
  [Ref (of_string "hier_element"); Ref (of_string "nested_block_element");
   Ref (of_string "block_list"); Ref (of_string "bullet_list"); Ref (of_string "table"); Ref (of_string "longtitle");
   Ref (of_string "footnote"); Ref (of_string "block_quote"); Ref (of_string "blocks")].

Definition block_lits : list str :=
  match first_lits akn_peg 12 (Alt before_line) with Some L => L | None => [] end.

Lemma block_lits_known : first_lits akn_peg 12 (Alt before_line) = Some block_lits /\ (length block_lits = 44)%nat.
Proof. vm_compute. split; reflexivity. Qed.

(* every one of them is the indent character or has an entry of escape-prefixes as a prefix, and none starts with a backslash *)
Lemma block_lits_covered :
  forallb (fun l => str_eqb l [14] || existsb (fun p => starts_with p l) xsl_escape_starts) block_lits = true
  /\ forallb (fun l => match l with c :: _ => negb (c =? 92) | [] => false end) block_lits = true.
Proof. vm_compute. split; reflexivity. Qed.

Lemma starts_with_trans p l s : starts_with p l = true -> starts_with l s = true -> starts_with p s = true.
Proof.
  unfold starts_with. revert l s. induction p as [|x p IH]; intros l s H1 H2; [reflexivity|].
  destruct l as [|y l]; [discriminate|]. cbn [strip_prefix] in H1. destruct (x =? y) eqn:E; [|discriminate].
  apply N.eqb_eq in E. subst y. destruct s as [|z s]; [discriminate|]. cbn [strip_prefix] in H2 |- *.
  destruct (x =? z); [|discriminate]. apply (IH l s H1 H2).
Qed.

(* the text as written: escape-prefixes applied to something that does not start with the indent character *)
Definition not_indent_start (s : str) : bool := match s with c :: _ => negb (c =? 14) | [] => true end.

Lemma escaped_none_starts y : not_indent_start y = true -> none_starts block_lits (escape_prefixes y) = true.
Proof.
  intros Hy. destruct block_lits_covered as [Hc Hb]. unfold none_starts. apply forallb_forall. intros l Hl.
  rewrite forallb_forall in Hc, Hb. specialize (Hc l Hl). specialize (Hb l Hl).
  unfold escape_prefixes. destruct (needs_prefix_escape y) eqn:En.
  - destruct l as [|c l']; [discriminate|]. unfold starts_with. cbn [strip_prefix]. rewrite negb_true_iff in Hb.
    rewrite Hb. reflexivity.
  - apply negb_true_iff. destruct (starts_with l y) eqn:Es; [|reflexivity]. exfalso.
    apply orb_prop in Hc. destruct Hc as [Hc|Hc].
    + apply str_eqb_spec in Hc. subst l. destruct y as [|c r]; [discriminate|]. unfold starts_with in Es. cbn [strip_prefix] in Es.
      cbn [not_indent_start] in Hy. destruct (14 =? c) eqn:E; [|discriminate]. apply N.eqb_eq in E. subst c. discriminate.
    + apply existsb_exists in Hc. destruct Hc as (p & Hin & Hp).
      assert (Hs : starts_with p y = true) by (eapply starts_with_trans; eassumption).
      unfold needs_prefix_escape in En. apply orb_false_elim in En. destruct En as [_ En].
      assert (existsb (fun p0 => starts_with p0 y) xsl_escape_starts = true) by (apply existsb_exists; eauto).
      congruence.
Qed.

(* ---- rule p: 'P' attrs? space ... needs a space, a class or an attribute list right after the P ---- *)
Lemma rule_p : exists tail labels ty,
  lookup akn_peg (of_string "p") =
  Some (Typed (Seq (Lit [80] :: Opt (Ref (of_string "block_attrs")) :: Ref (of_string "space") :: tail) labels) ty).
Proof. vm_compute. do 3 eexists. reflexivity. Qed.

Lemma rule_block_attrs : exists labels ty,
  lookup akn_peg (of_string "block_attrs") =
  Some (Typed (Seq [Star (Ref (of_string "block_attr_class")); Opt (Ref (of_string "block_attr_pairs"))] labels) ty).
Proof. vm_compute. do 2 eexists. reflexivity. Qed.

Lemma rule_space : lookup akn_peg (of_string "space") = Some (Plus (Lit [32])).
Proof. reflexivity. Qed.

Lemma attr_firsts :
  first_lits akn_peg 4 (Ref (of_string "block_attr_class")) = Some [[46]]
  /\ first_lits akn_peg 4 (Ref (of_string "block_attr_pairs")) = Some [[123]].
Proof. vm_compute. split; reflexivity. Qed.

Lemma run_Star g f e s off :
  run g (S f) (Star e) s off = rep_loop (run g f e) off 0%nat (S (length s)) s off [].
Proof. reflexivity. Qed.
Lemma run_Opt g f e s off :
  run g (S f) (Opt e) s off = match run g f e s off with Fail => Ok s off (leaf off 0) | x => x end.
Proof. reflexivity. Qed.

(* block_attrs on a character that opens neither a class nor an attribute list consumes nothing *)
Lemma block_attrs_nothing f c more off :
  c <> 46 -> c <> 123 ->
  exists t, run akn_peg (8 + f) (Ref (of_string "block_attrs")) (c :: more) off = Ok (c :: more) off t.
Proof.
  intros H1 H2. destruct rule_block_attrs as (labels & ty & Eb). destruct attr_firsts as [Fc Fp].
  assert (Hn1 : none_starts [[46]] (c :: more) = true).
  { cbn. unfold starts_with. cbn [strip_prefix]. replace (46 =? c) with false by (symmetry; apply N.eqb_neq; congruence). reflexivity. }
  assert (Hn2 : none_starts [[123]] (c :: more) = true).
  { cbn. unfold starts_with. cbn [strip_prefix]. replace (123 =? c) with false by (symmetry; apply N.eqb_neq; congruence). reflexivity. }
  change (8 + f)%nat with (S (S (S (S (4 + f))))).
  rewrite run_Ref, Eb, run_Typed, run_Seq. cbn [seq_loop].
  rewrite run_Star. cbn [length rep_loop].
  rewrite (first_lits_sound akn_peg 4 _ _ Fc (4 + f) (c :: more) off Hn1) by lia.
  cbn [Nat.leb length rev_append].
  rewrite run_Opt. rewrite (first_lits_sound akn_peg 4 _ _ Fp (4 + f) (c :: more) off Hn2) by lia.
  eexists. reflexivity.
Qed.

Lemma p_fails_after_P f c more off :
  c <> 32 -> c <> 46 -> c <> 123 ->
  run akn_peg (12 + f) (Ref (of_string "p")) (80 :: c :: more) off = Fail.
Proof.
  intros H0 H1 H2. destruct rule_p as (tail & labels & ty & Ep).
  change (12 + f)%nat with (S (S (S (S (8 + f))))).
  rewrite run_Ref, Ep, run_Typed, run_Seq. cbn [seq_loop]. rewrite run_Lit.
  change (strip_prefix [80] (80 :: c :: more)) with (Some (c :: more)). cbv iota.
  rewrite run_Opt. destruct (block_attrs_nothing f c more (off + len_N [80]) H1 H2) as (t & Et). rewrite Et.
  change (8 + f)%nat with (S (S (6 + f))). rewrite run_Ref, rule_space, run_Plus. cbn [length rep_loop].
  rewrite run_Lit. cbn [strip_prefix]. replace (32 =? c) with false by (symmetry; apply N.eqb_neq; congruence).
  reflexivity.
Qed.

Lemma p_first : first_lits akn_peg 4 (Ref (of_string "p")) = Some [[80]].
Proof. vm_compute. reflexivity. Qed.

(* the text as written never satisfies rule p: escape-prefixes has entries "P ", "P." and "P{" *)
Definition p_safe (s : str) : bool :=
  match s with
  | c0 :: c :: _ => negb ((c0 =? 80) && ((c =? 32) || (c =? 46) || (c =? 123)))
  | [c0] => negb (c0 =? 80)
  | [] => true
  end.

Lemma mem_str_In x l : mem_str x l = true -> In x l.
Proof. unfold mem_str. intros H. apply existsb_exists in H. destruct H as (y & Hy & E). apply str_eqb_spec in E. subst. exact Hy. Qed.
Lemma p_entries : In [80; 32] xsl_escape_starts /\ In [80; 46] xsl_escape_starts /\ In [80; 123] xsl_escape_starts.
Proof. repeat split; apply mem_str_In; vm_compute; reflexivity. Qed.

Lemma escaped_p_safe y rest : p_safe (escape_prefixes y ++ NL :: rest) = true.
Proof.
  unfold escape_prefixes. destruct (needs_prefix_escape y) eqn:En; [destruct y; reflexivity|].
  destruct y as [|c0 [|c r]].
  - destruct rest; reflexivity.
  - cbn [app p_safe]. destruct (c0 =? 80); reflexivity.
  - cbn [app p_safe]. destruct (c0 =? 80) eqn:E0; [|reflexivity].
    apply N.eqb_eq in E0. subst c0. cbn [andb]. apply negb_true_iff.
    destruct ((c =? 32) || (c =? 46) || (c =? 123)) eqn:Ec; [|reflexivity]. exfalso.
    destruct p_entries as (T1 & T2 & T3).
    unfold needs_prefix_escape in En. apply orb_false_elim in En. destruct En as [_ En].
    assert (existsb (fun p0 => starts_with p0 (80 :: c :: r)) xsl_escape_starts = true).
    { apply existsb_exists.
      repeat (apply orb_prop in Ec; destruct Ec as [Ec|Ec]); apply N.eqb_eq in Ec; subst c;
        [exists [80; 32]|exists [80; 46]|exists [80; 123]]; (split; [assumption|reflexivity]). }
    congruence.
Qed.

(* ---- every alternative before `line` fails ---- *)
Lemma before_line_members :
  forallb (fun e => match first_lits akn_peg 11 e with
                    | Some L => forallb (fun l => mem_str l block_lits) L
                    | None => false end) before_line = true.
Proof. vm_compute. reflexivity. Qed.

Lemma none_starts_subset L L' s :
  forallb (fun l => mem_str l L) L' = true -> none_starts L s = true -> none_starts L' s = true.
Proof.
  unfold none_starts. intros Hsub H. apply forallb_forall. intros l Hl.
  rewrite forallb_forall in Hsub, H. apply H. apply mem_str_In. apply Hsub. exact Hl.
Qed.

Lemma member_fails e F s off :
  In e before_line -> none_starts block_lits s = true -> (11 <= F)%nat -> run akn_peg F e s off = Fail.
Proof.
  intros Hin Hs HF. pose proof before_line_members as T. rewrite forallb_forall in T. specialize (T e Hin).
  destruct (first_lits akn_peg 11 e) as [L|] eqn:E; [|discriminate].
  eapply first_lits_sound; [exact E| |exact HF]. eapply none_starts_subset; eassumption.
Qed.

Lemma rule_hbe : lookup akn_peg (of_string "hier_block_element") = Some (Alt [Ref (of_string "hier_element"); Ref (of_string "block_element")]).
Proof. reflexivity. Qed.
Lemma rule_be : lookup akn_peg (of_string "block_element") = Some (Alt [Ref (of_string "nested_block_element"); Ref (of_string "block_elements")]).
Proof. reflexivity. Qed.
Lemma rule_bes : lookup akn_peg (of_string "block_elements") =
  Some (Alt [Ref (of_string "block_list"); Ref (of_string "bullet_list"); Ref (of_string "table"); Ref (of_string "longtitle");
             Ref (of_string "footnote"); Ref (of_string "block_quote"); Ref (of_string "blocks"); Ref (of_string "p"); Ref (of_string "line")]).
Proof. reflexivity. Qed.

(* rule p on a line that starts neither with "P ", "P." nor "P{" *)
Lemma p_fails F s off :
  p_safe s = true -> (12 <= F)%nat -> run akn_peg F (Ref (of_string "p")) s off = Fail.
Proof.
  intros Hp HF. destruct s as [|c0 [|c more]].
  - apply (first_lits_sound akn_peg 4 _ _ p_first); [reflexivity|lia].
  - apply (first_lits_sound akn_peg 4 _ _ p_first); [|lia]. cbn [p_safe] in Hp. apply negb_true_iff in Hp.
    cbn. unfold starts_with. cbn [strip_prefix]. rewrite N.eqb_sym, Hp. reflexivity.
  - cbn [p_safe] in Hp. destruct (c0 =? 80) eqn:E0.
    + apply N.eqb_eq in E0. subst c0. cbn [andb] in Hp. apply negb_true_iff in Hp.
      apply orb_false_elim in Hp. destruct Hp as [Hp H3]. apply orb_false_elim in Hp. destruct Hp as [H1 H2].
      apply N.eqb_neq in H1, H2, H3.
      replace F with (12 + (F - 12))%nat by lia. apply p_fails_after_P; assumption.
    + apply (first_lits_sound akn_peg 4 _ _ p_first); [|lia]. cbn. unfold starts_with. cbn [strip_prefix].
      rewrite N.eqb_sym, E0. reflexivity.
Qed.

(* the dispatch: hier_block_element on such a line is rule line on that line *)
Theorem falls_through_to_line f s off :
  none_starts block_lits s = true -> p_safe s = true ->
  run akn_peg (18 + f) (Ref (of_string "hier_block_element")) s off
  = run akn_peg (12 + f) (Ref (of_string "line")) s off.
Proof.
  intros Hs Hp.
  change (18 + f)%nat with (S (S (16 + f))). rewrite run_Ref, rule_hbe, run_Alt. cbn [alt_loop].
  rewrite (member_fails (Ref (of_string "hier_element")) (16 + f) s off) by (try exact Hs; try lia; cbn; tauto).
  change (16 + f)%nat with (S (S (14 + f))). rewrite run_Ref, rule_be, run_Alt. cbn [alt_loop].
  rewrite (member_fails (Ref (of_string "nested_block_element")) (14 + f) s off) by (try exact Hs; try lia; cbn; tauto).
  change (14 + f)%nat with (S (S (12 + f))). rewrite run_Ref, rule_bes, run_Alt. cbn [alt_loop].
  rewrite (member_fails (Ref (of_string "block_list")) (12 + f) s off) by (try exact Hs; try lia; cbn; tauto).
  rewrite (member_fails (Ref (of_string "bullet_list")) (12 + f) s off) by (try exact Hs; try lia; cbn; tauto).
  rewrite (member_fails (Ref (of_string "table")) (12 + f) s off) by (try exact Hs; try lia; cbn; tauto).
  rewrite (member_fails (Ref (of_string "longtitle")) (12 + f) s off) by (try exact Hs; try lia; cbn; tauto).
  rewrite (member_fails (Ref (of_string "footnote")) (12 + f) s off) by (try exact Hs; try lia; cbn; tauto).
  rewrite (member_fails (Ref (of_string "block_quote")) (12 + f) s off) by (try exact Hs; try lia; cbn; tauto).
  rewrite (member_fails (Ref (of_string "blocks")) (12 + f) s off) by (try exact Hs; try lia; cbn; tauto).
  rewrite (p_fails (12 + f) s off Hp) by lia.
  destruct (run akn_peg (12 + f) (Ref (of_string "line")) s off); reflexivity.
Qed.

Lemma block_lits_no_nl : forallb (fun l => negb (existsb (N.eqb NL) l)) block_lits = true.
Proof. vm_compute. reflexivity. Qed.

Lemma starts_with_before_nl l x rest :
  existsb (N.eqb NL) l = false -> starts_with l (x ++ NL :: rest) = true -> starts_with l x = true.
Proof.
  unfold starts_with. revert x. induction l as [|c l IH]; intros x Hn H; [reflexivity|].
  cbn [existsb] in Hn. apply orb_false_elim in Hn. destruct Hn as [Hc Hl].
  destruct x as [|y x]; cbn [app strip_prefix] in *.
  - rewrite N.eqb_sym in Hc. rewrite Hc in H. discriminate.
  - destruct (c =? y); [|discriminate]. apply IH; assumption.
Qed.

(* C06: for every text y that does not start with the indent character, the line the unparser writes
   for a paragraph whose text starts with y - escape-prefixes(y), up to the line end - is dispatched to
   rule `line` by hier_block_element: none of the keyword blocks can take it *)
Theorem escaped_first_text_is_a_line f y rest off :
  not_indent_start y = true ->
  run akn_peg (18 + f) (Ref (of_string "hier_block_element")) (escape_prefixes y ++ NL :: rest) off
  = run akn_peg (12 + f) (Ref (of_string "line")) (escape_prefixes y ++ NL :: rest) off.
Proof.
  intros Hy. apply falls_through_to_line; [|apply escaped_p_safe].
  pose proof (escaped_none_starts y Hy) as H. pose proof block_lits_no_nl as Hn.
  unfold none_starts in *. apply forallb_forall. intros l Hl.
  rewrite forallb_forall in H, Hn. specialize (H l Hl). specialize (Hn l Hl).
  apply negb_true_iff in H. apply negb_true_iff in Hn. apply negb_true_iff.
  destruct (starts_with l (escape_prefixes y ++ NL :: rest)) eqn:E; [|reflexivity].
  rewrite (starts_with_before_nl l _ rest Hn E) in H. discriminate.
Qed.
