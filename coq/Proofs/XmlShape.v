(* C02 (the part the generator itself is responsible for): structural facts about the XML that
   item_to_xml builds, for EVERY dict tree. *)
Require Import BB.Base.Str BB.Base.Xml BB.Base.Dict BB.Model.Types BB.Model.Eid BB.Model.XmlGen.
Open Scope N_scope.

Lemma mk_elem_inv n a k e : mk_elem n a k = OkR e -> e = El n a k.
Proof. unfold mk_elem. destruct (_ && _); intros H; inversion H. reflexivity. Qed.

Definition kids_x (x : xml) : list xml := match x with El _ _ k => k | Tx _ => [] end.
Definition tag_x (x : xml) : str := match x with El t _ _ => t | Tx _ => [] end.

Section Shape.
  Variable meta_for : str -> xml.
  Variable rec : dnode -> gstate -> R (xml * gstate).

  (* a block element (blockList, item, ul, blockContainer ...) always has at least one child *)
  Theorem block_never_empty name a aa num h sh fr ch g x g' :
    item_body meta_for rec (DNode (S_ "block") name a aa num h sh fr ch) g = OkR (x, g') ->
    tag_x x = name /\ kids_x x <> [].
  Proof.
    cbn [item_body]. change (str_eqb (S_ "block") (S_ "hier")) with false. change (str_eqb (S_ "block") (S_ "block")) with true.
    cbn iota. intros H.
    destruct (pre rec num h sh g) as [[p g1]|]; [|discriminate]. cbn [bind] in H.
    destruct (items rec (kids_of ch) g1) as [[k g2]|]; [|discriminate]. cbn [bind] in H.
    match type of H with bind ?x _ = _ => destruct x as [kids|] eqn:Ek; [|discriminate] end. cbn [bind] in H.
    match type of H with bind ?x _ = _ => destruct x as [e|] eqn:Em; [|discriminate] end. cbn [bind] in H.
    inversion H; subst. apply mk_elem_inv in Em. subst. cbn [tag_x kids_x]. split; [reflexivity|].
    destruct (p ++ k) eqn:E.
    - destruct (mk_elem (S_ "p") [] []); [|discriminate]. cbn [bind] in Ek. inversion Ek. discriminate.
    - inversion Ek. discriminate.
  Qed.

  (* an attachment is heading? subheading? doc, and the nested doc starts with its own meta block *)
  Theorem attachment_shape a aa num h sh fr ch g x g' :
    item_body meta_for rec (DNode (S_ "element") (S_ "attachment") a aa num h sh fr ch) g = OkR (x, g') ->
    exists hx sx attrs k aname,
      x = El (S_ "attachment") (attrs_of aa) (hx ++ sx ++ [El (S_ "doc") attrs (meta_for aname :: k)])
      /\ (hx = [] \/ exists hk, hx = [El (S_ "heading") [] hk])
      /\ (sx = [] \/ exists sk, sx = [El (S_ "subheading") [] sk])
      /\ aname = fst (attachment_name a g).
  Proof.
    cbn [item_body].
    change (str_eqb (S_ "element") (S_ "hier")) with false. change (str_eqb (S_ "element") (S_ "block")) with false.
    change (str_eqb (S_ "element") (S_ "speechhier")) with false.
    change (str_eqb (S_ "element") (S_ "content") || str_eqb (S_ "element") (S_ "inline")) with false.
    change (str_eqb (S_ "element") (S_ "marker")) with false. change (str_eqb (S_ "element") (S_ "element")) with true.
    change (str_eqb (S_ "attachment") (S_ "attachment")) with true. cbn iota.
    destruct (attachment_name a g) as [aname g0]. cbn [fst snd] in *. intros H.
    destruct (wrapped rec (S_ "heading") (truthy_l h) g0) as [[hx g1]|] eqn:Eh; [|discriminate]. cbn [bind] in H.
    destruct (wrapped rec (S_ "subheading") (truthy_l sh) g1) as [[sx g2]|] eqn:Es; [|discriminate]. cbn [bind] in H.
    destruct ch as [children|]; [|discriminate]. cbn [bind] in H.
    destruct (items rec children _) as [[k g3]|]; [|discriminate]. cbn [bind] in H.
    match type of H with bind ?x _ = _ => destruct x as [doc|] eqn:Ed; [|discriminate] end. cbn [bind] in H.
    match type of H with bind ?x _ = _ => destruct x as [e|] eqn:Em; [|discriminate] end. cbn [bind] in H.
    inversion H; subst. apply mk_elem_inv in Ed, Em. subst.
    exists hx, sx, (attrs_of a), k, aname. split; [reflexivity|].
    assert (W : forall tag o g1 xs g2, wrapped rec tag o g1 = OkR (xs, g2) -> (xs = [] \/ exists kk, xs = [El tag [] kk])).
    { intros tag o ga xs gb. unfold wrapped. destruct o as [l|]; [|intros E; inversion E; auto].
      destruct (items rec l ga) as [[kk gc]|]; [|discriminate]. cbn [bind].
      destruct (mk_elem tag [] kk) as [e|] eqn:E; [|discriminate]. cbn [bind]. intros E2. inversion E2; subst.
      apply mk_elem_inv in E. subst. right. eauto. }
    split; [eapply W; exact Eh|]. split; [eapply W; exact Es|]. reflexivity.
  Qed.
End Shape.
