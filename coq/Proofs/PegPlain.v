(* C06 (grammar level): text in which no inline marker pair is live parses as text.
   A string is cut into segments the way rule `inline` reads it: an escaped character, a maximal
   run of ordinary characters (non_inline_start), or a single * / _ { that is not followed by the same
   character.  On such a string inline+ consumes everything up to the line end and builds, for each
   segment, a node that the dict stage reads as text - none of the ten inline markers. *)
Require Import BB.Base.Str BB.Base.Xml BB.Base.Dict BB.Model.PegSyntax BB.Model.Peg BB.Model.Types BB.Gen.Grammar.
Require Import BB.Gen.TablesTypes.
Require Import BB.Proofs.PegMono BB.Proofs.Totality BB.Proofs.PegSpan BB.Proofs.PegEscape.
Open Scope N_scope.

(* ---- a static first-character analysis: e fails on every input c :: d :: _ with d <> c ---- *)
Fixpoint needs_pair (g : grammar) (n : nat) (e : expr) (c : N) : bool :=
  match n with
  | O => false
  | S n' =>
      match e with
      | Lit (x :: y :: _) => negb (x =? c) || (y =? c)
      | Lit [x] => negb (x =? c)
      | Lit [] => false
      | Cls rs => negb (in_ranges c rs)
      | Ref r => match lookup g r with Some b => needs_pair g n' b c | None => true end
      | Seq (e1 :: _) _ => needs_pair g n' e1 c
      | Seq [] _ => false
      | Alt es => forallb (fun e1 => needs_pair g n' e1 c) es
      | Typed e1 _ => needs_pair g n' e1 c
      | Plus e1 => needs_pair g n' e1 c
      | _ => false
      end
  end.

Lemma needs_pair_sound g : forall n e c, needs_pair g n e c = true ->
  forall f d rest off, d <> c -> (n <= f)%nat -> run g f e (c :: d :: rest) off = Fail.
Proof.
  induction n as [|n IH]; intros e c H f d rest off Hd Hf; [discriminate|].
  destruct f as [|f]; [lia|]. assert (Hf' : (n <= f)%nat) by lia.
  destruct e as [l|rs|r|es labels|es|e1|e1|e1|e1|e1|e1 ty]; cbn [needs_pair] in H; try discriminate.
  - (* Lit *)
    rewrite run_Lit. destruct l as [|x [|y l']]; [discriminate| |].
    + cbn [strip_prefix]. destruct (x =? c); [discriminate|reflexivity].
    + cbn [strip_prefix]. destruct (x =? c) eqn:E1; [|reflexivity]. cbn [negb orb] in H.
      apply N.eqb_eq in H. subst y. replace (c =? d) with false; [reflexivity|].
      symmetry. apply N.eqb_neq. congruence.
  - rewrite run_Cls. destruct (in_ranges c rs); [discriminate|reflexivity].
  - rewrite run_Ref. destruct (lookup g r) as [b|]; [|reflexivity]. apply IH; assumption.
  - destruct es as [|e1 es']; [discriminate|]. rewrite run_Seq. cbn [seq_loop].
    rewrite (IH _ _ H f d rest off Hd Hf'). reflexivity.
  - rewrite run_Alt. induction es as [|e1 es' IHes]; [reflexivity|]. cbn [forallb] in H. apply andb_prop in H.
    destruct H as [H1 H2]. cbn [alt_loop]. rewrite (IH _ _ H1 f d rest off Hd Hf'). apply IHes. exact H2.
  - rewrite run_Plus. cbn [length rep_loop]. rewrite (IH _ _ H f d rest off Hd Hf'). reflexivity.
  - rewrite run_Typed. rewrite (IH _ _ H f d rest off Hd Hf'). reflexivity.
Qed.

Definition special (c : N) : bool := (c =? 42) || (c =? 47) || (c =? 95) || (c =? 123).

(* on the regenerated grammar: inline_marker needs a doubled opener *)
Lemma inline_marker_needs_pair :
  forallb (fun c => needs_pair akn_peg 8 (Ref (of_string "inline_marker")) c) [42; 47; 95; 123] = true.
Proof. vm_compute. reflexivity. Qed.

Lemma inline_marker_fails f c d rest off :
  special c = true -> d <> c ->
  run akn_peg (8 + f) (Ref (of_string "inline_marker")) (c :: d :: rest) off = Fail.
Proof.
  intros Hc Hd. apply needs_pair_sound with (n := 8%nat); [|exact Hd|lia].
  pose proof inline_marker_needs_pair as H. cbn [forallb] in H.
  repeat (apply andb_prop in H; destruct H as [?H H]).
  unfold special in Hc. repeat (apply orb_prop in Hc; destruct Hc as [Hc|Hc]); apply N.eqb_eq in Hc; subst c; assumption.
Qed.

(* ---- the character classes of the three rules, on the regenerated grammar ---- *)
Definition ordinary (c : N) : bool := negb (special c || (c =? NL) || (c =? BS)).

Lemma rule_nis_spec : exists cls,
  lookup akn_peg (of_string "non_inline_start") = Some (Plus (Cls cls))
  /\ (forall c, scalar c -> ordinary c = true -> in_ranges c cls = true)
  /\ (forall c, in_ranges c cls = true -> ordinary c = true).
Proof.
  vm_compute lookup. eexists. split; [reflexivity|]. split.
  - intros c Hs Ho. unfold ordinary, special, NL, BS in Ho. unfold scalar in Hs. cbn [in_ranges].
    rewrite negb_true_iff in Ho. repeat rewrite orb_false_iff in Ho. repeat rewrite N.eqb_neq in Ho.
    repeat rewrite orb_true_iff. repeat rewrite andb_true_iff. repeat rewrite N.leb_le. lia.
  - intros c H. cbn [in_ranges] in H. unfold ordinary, special, NL, BS.
    repeat rewrite orb_true_iff in H. repeat rewrite andb_true_iff in H. repeat rewrite N.leb_le in H.
    rewrite negb_true_iff. repeat rewrite orb_false_iff. repeat rewrite N.eqb_neq. lia.
Qed.

Lemma rule_inline_last : exists cls,
  lookup akn_peg (of_string "inline") =
  Some (Alt [Ref (of_string "non_inline_start"); Ref (of_string "escape"); Ref (of_string "inline_marker");
             Typed (Cls cls) (of_string "InlineText")])
  /\ forall c, okc c -> in_ranges c cls = true.
Proof.
  vm_compute lookup. eexists. split; [reflexivity|].
  intros c [Hs Hn]. unfold scalar, NL in *. cbn [in_ranges].
  repeat rewrite orb_true_iff. repeat rewrite andb_true_iff. repeat rewrite N.leb_le. lia.
Qed.

Definition InlineTextTy : str := of_string "InlineText".

Lemma special_not_ordinary c : special c = true -> ordinary c = false.
Proof. intros H. unfold ordinary. rewrite H. reflexivity. Qed.
Lemma special_not_bs c : special c = true -> (BS =? c) = false.
Proof. intros H. destruct (BS =? c) eqn:E; [|reflexivity]. apply N.eqb_eq in E. subst. discriminate. Qed.
Lemma special_okc c : special c = true -> okc c.
Proof.
  unfold special. intros H. repeat (apply orb_prop in H; destruct H as [H|H]); apply N.eqb_eq in H; subst;
    (split; [unfold scalar; lia|discriminate]).
Qed.

(* a single * / _ { not followed by the same character is one character of text *)
Lemma special_step f c d rest off :
  special c = true -> d <> c ->
  run akn_peg (10 + f) (Ref (of_string "inline")) (c :: d :: rest) off
  = Ok (d :: rest) (off + 1) (add_type (leaf off 1) InlineTextTy).
Proof.
  intros Hc Hd. destruct rule_inline_last as (cls4 & Ei & H4). destruct rule_nis_spec as (clsn & En & _ & Hn2).
  destruct rule_escape as (clse & Ee & _).
  change (10 + f)%nat with (S (S (8 + f))). rewrite run_Ref, Ei, run_Alt. cbn [alt_loop].
  (* non_inline_start fails *)
  change (8 + f)%nat with (S (S (S (5 + f)))) at 1. rewrite run_Ref, En, run_Plus. cbn [length rep_loop]. rewrite run_Cls.
  assert (Hn : in_ranges c clsn = false).
  { destruct (in_ranges c clsn) eqn:E; [|reflexivity]. apply Hn2 in E. rewrite (special_not_ordinary _ Hc) in E. discriminate. }
  rewrite Hn. cbn [Nat.leb length].
  (* escape fails *)
  change (8 + f)%nat with (S (S (S (5 + f)))) at 1. rewrite run_Ref, Ee, run_Seq. cbn [seq_loop]. rewrite run_Lit.
  cbn [strip_prefix]. rewrite (special_not_bs _ Hc).
  (* inline_marker fails *)
  rewrite (inline_marker_fails f c d rest off Hc Hd).
  (* [^\n] takes the character *)
  change (8 + f)%nat with (S (S (6 + f))). rewrite run_Typed, run_Cls, (H4 c (special_okc _ Hc)). reflexivity.
Qed.

Fixpoint leaves (off : N) (r : str) : list tree :=
  match r with [] => [] | _ :: r' => leaf off 1 :: leaves (off + 1) r' end.

Lemma cls_loop g f cls off0 : forall r d rest k off acc,
  Forall (fun c => in_ranges c cls = true) r -> in_ranges d cls = false -> (length r < k)%nat ->
  rep_loop (run g (S f) (Cls cls)) off0 1%nat k (r ++ d :: rest) off acc
  = if Nat.leb 1 (length (rev_append (leaves off r) acc))
    then Ok (d :: rest) (off + len_N r) (Node off0 (off + len_N r - off0) [] [] (rev_append (rev_append (leaves off r) acc) []))
    else Fail.
Proof.
  induction r as [|c r IH]; intros d rest k off acc Hr Hd Hk; destruct k as [|k]; try (simpl in Hk; lia).
  - cbn [app rep_loop]. rewrite run_Cls, Hd. cbn [leaves rev_append]. unfold len_N. cbn [length N.of_nat].
    rewrite N.add_0_r. reflexivity.
  - inversion Hr as [|? ? Hc Hr']; subst. cbn [app rep_loop]. rewrite run_Cls, Hc.
    rewrite (IH d rest k (off + 1) (leaf off 1 :: acc) Hr' Hd); [|simpl in Hk; lia].
    cbn [leaves rev_append]. unfold len_N. cbn [length].
    replace (off + 1 + N.of_nat (length r)) with (off + N.of_nat (S (length r))) by lia. reflexivity.
Qed.

(* a maximal run of ordinary characters is one node *)
Lemma run_step f r d rest off :
  r <> [] -> Forall (fun c => scalar c /\ ordinary c = true) r -> ordinary d = false ->
  run akn_peg (5 + f) (Ref (of_string "inline")) (r ++ d :: rest) off
  = Ok (d :: rest) (off + len_N r) (Node off (len_N r) [] [] (leaves off r)).
Proof.
  intros Hne Hr Hd. destruct rule_inline_last as (cls4 & Ei & _). destruct rule_nis_spec as (clsn & En & Hn1 & Hn2).
  change (5 + f)%nat with (S (S (S (S (S f))))). rewrite run_Ref, Ei, run_Alt. cbn [alt_loop].
  rewrite run_Ref, En, run_Plus.
  rewrite (cls_loop akn_peg f clsn off r d rest _ off []).
  - destruct r as [|c r']; [contradiction|].
    set (n := length (rev_append (leaves off (c :: r')) [])).
    assert (Hn : Nat.leb 1 n = true).
    { subst n. cbn [leaves]. rewrite rev_append_rev, app_length. cbn [rev length]. rewrite app_length. cbn [length].
      apply Nat.leb_le. lia. }
    rewrite Hn. cbv iota.
    rewrite !rev_append_rev, !app_nil_r, rev_involutive. f_equal. f_equal. lia.
  - eapply Forall_impl; [|exact Hr]. intros c [Hs Ho]. apply Hn1; assumption.
  - destruct (in_ranges d clsn) eqn:E; [|reflexivity]. apply Hn2 in E. congruence.
  - rewrite app_length. cbn [length]. lia.
Qed.

(* ---- segments ---- *)
Inductive seg := SEsc (c : N) | SRun (r : str) | SSpec (c : N).
Definition seg_raw (sg : seg) : str := match sg with SEsc c => [BS; c] | SRun r => r | SSpec c => [c] end.
Definition raw (sgs : list seg) : str := flat_map seg_raw sgs.
Definition seg_node (off : N) (sg : seg) : tree :=
  match sg with
  | SEsc _ => esc_node off
  | SRun r => Node off (len_N r) [] [] (leaves off r)
  | SSpec _ => add_type (leaf off 1) InlineTextTy
  end.
Fixpoint seg_nodes (off : N) (sgs : list seg) : list tree :=
  match sgs with [] => [] | sg :: r => seg_node off sg :: seg_nodes (off + len_N (seg_raw sg)) r end.

(* the character after a segment: the first raw character of what follows, or the line end *)
Definition next_of (tl : list seg) : N := match raw tl with c :: _ => c | [] => NL end.

Fixpoint wf_segs (sgs : list seg) : Prop :=
  match sgs with
  | [] => True
  | sg :: tl =>
      (match sg with
       | SEsc c => okc c
       | SRun r => r <> [] /\ Forall (fun c => scalar c /\ ordinary c = true) r /\ ordinary (next_of tl) = false
       | SSpec c => special c = true /\ next_of tl <> c
       end) /\ wf_segs tl
  end.

Lemma next_exposed tl rest : exists tail, raw tl ++ NL :: rest = next_of tl :: tail.
Proof. unfold next_of. destruct (raw tl) as [|c r]; cbn [app]; eauto. Qed.

Lemma len_N_app' (a b : str) : len_N (a ++ b) = len_N a + len_N b.
Proof. unfold len_N. rewrite app_length. lia. Qed.

(* the loop of inline+ over a segmented string stops at the line end with one node per segment *)
Lemma plain_loop f off0 : forall sgs rest k off acc,
  wf_segs sgs -> (length (raw sgs) < k)%nat -> (sgs <> [] \/ acc <> []) ->
  rep_loop (run akn_peg (12 + f) (Ref (of_string "inline"))) off0 1%nat k (raw sgs ++ NL :: rest) off acc
  = Ok (NL :: rest) (off + len_N (raw sgs))
       (Node off0 (off + len_N (raw sgs) - off0) [] [] (rev_append (rev_append (seg_nodes off sgs) acc) [])).
Proof.
  induction sgs as [|sg tl IH]; intros rest k off acc Hw Hk Hne; destruct k as [|k]; try (simpl in Hk; lia).
  - cbn [raw flat_map app rep_loop]. rewrite inline_at_newline.
    destruct acc as [|a acc']; [destruct Hne as [H|H]; contradiction|]. cbn [length Nat.leb].
    unfold len_N. cbn [length N.of_nat seg_nodes rev_append]. rewrite N.add_0_r. reflexivity.
  - destruct Hw as [Hsg Htl].
    change (raw (sg :: tl)) with (seg_raw sg ++ raw tl) in *. rewrite <- app_assoc.
    destruct (next_exposed tl rest) as (tail & Enext).
    assert (Hk' : (length (raw tl) < k)%nat).
    { rewrite app_length in Hk. destruct sg as [c|r|c]; cbn [seg_raw length] in Hk; try lia.
      destruct Hsg as (Hr & _). destruct r; [contradiction|]. cbn [length] in Hk. lia. }
    cbn [rep_loop].
    assert (Hstep : run akn_peg (12 + f) (Ref (of_string "inline")) (seg_raw sg ++ raw tl ++ NL :: rest) off
                    = Ok (raw tl ++ NL :: rest) (off + len_N (seg_raw sg)) (seg_node off sg)).
    { destruct sg as [c|r|c]; cbn [seg_raw seg_node app].
      - change (12 + f)%nat with (S (S (S (S (S (S (6 + f))))))). rewrite escape_step by exact Hsg. reflexivity.
      - destruct Hsg as (Hr & Hall & Hnext). rewrite Enext. change (12 + f)%nat with (5 + (7 + f))%nat.
        rewrite (run_step (7 + f) r (next_of tl) tail off Hr Hall Hnext). reflexivity.
      - destruct Hsg as (Hc & Hnext). rewrite Enext. change (12 + f)%nat with (10 + (2 + f))%nat.
        rewrite (special_step (2 + f) c (next_of tl) tail off Hc Hnext). reflexivity. }
    rewrite Hstep.
    rewrite (IH rest k (off + len_N (seg_raw sg)) (seg_node off sg :: acc) Htl Hk'); [|right; discriminate].
    cbn [seg_nodes rev_append]. rewrite len_N_app'. rewrite N.add_assoc. reflexivity.
Qed.

Theorem plain_inlines_parse f sgs rest off :
  wf_segs sgs -> sgs <> [] ->
  run akn_peg (13 + f) (Plus (Ref (of_string "inline"))) (raw sgs ++ NL :: rest) off
  = Ok (NL :: rest) (off + len_N (raw sgs)) (Node off (len_N (raw sgs)) [] [] (seg_nodes off sgs)).
Proof.
  intros Hw Hne. change (13 + f)%nat with (S (12 + f)). rewrite run_Plus.
  rewrite (plain_loop f off sgs rest _ off [] Hw); [| |left; exact Hne].
  - rewrite !rev_append_rev, !app_nil_r, rev_involutive. f_equal. f_equal. lia.
  - rewrite app_length. cbn [length]. lia.
Qed.

(* ---- the dict stage reads those nodes as text ---- *)
Definition seg_dec (sg : seg) : str := match sg with SEsc c => [c] | SRun r => r | SSpec c => [c] end.
Definition dval (d : dnode) : str := match d with DText v => v | DNode _ _ _ _ _ _ _ _ _ => [] end.
Definition is_dtext (d : dnode) : Prop := exists v, d = DText v.

Lemma text_at pre x post tys labels kids :
  text (pre ++ x ++ post) (Node (len_N pre) (len_N x) tys labels kids) = x.
Proof.
  unfold text. cbn [t_off t_len]. unfold len_N. rewrite !Nat2N.id.
  rewrite skipn_app, skipn_all, Nat.sub_diag. cbn [skipn app].
  rewrite firstn_app, firstn_all, Nat.sub_diag. cbn [firstn]. apply app_nil_r.
Qed.

Lemma text_seg_node pre sg post : text (pre ++ seg_raw sg ++ post) (seg_node (len_N pre) sg) = seg_raw sg.
Proof.
  destruct sg as [c|r|c]; cbn [seg_node seg_raw].
  - unfold esc_node. change 2 with (len_N [BS; c]). apply text_at.
  - apply text_at.
  - unfold add_type, leaf. change 1 with (len_N [c]). apply text_at.
Qed.

Lemma spec_node_method off : has_method (add_type (leaf off 1) InlineTextTy) has_to_dict = true.
Proof. vm_compute. reflexivity. Qed.
Lemma run_node_method off r : has_method (Node off (len_N r) [] [] (leaves off r)) has_to_dict = false.
Proof. reflexivity. Qed.

Lemma td_spec_node inp f off :
  to_dict inp (S f) (add_type (leaf off 1) InlineTextTy)
  = OkR (DText (text inp (add_type (leaf off 1) InlineTextTy))).
Proof.
  cbn [to_dict]. unfold dispatch.
  set (t0 := add_type (leaf off 1) InlineTextTy).
  repeat match goal with
         | |- context [is_a t0 ?c] =>
             let b := eval vm_compute in (is_a t0 c) in
             replace (is_a t0 c) with b by (vm_compute; reflexivity)
         end.
  cbv iota. unfold inline_text_to_dict. replace (has_label t0 (Types.S_ "inline_marker")) with false by reflexivity.
  reflexivity.
Qed.

Lemma concat_rev_cons (x : str) (txt : list str) : concat (rev (x :: txt)) = concat (rev txt) ++ x.
Proof. cbn [rev]. rewrite concat_app. cbn [concat]. rewrite app_nil_r. reflexivity. Qed.

Lemma inline_go_plain f inp : forall sgs pre post txt,
  inp = pre ++ raw sgs ++ post -> wf_segs sgs ->
  exists ds, inline_go inp (to_dict inp (S f)) (seg_nodes (len_N pre) sgs) txt = OkR ds
             /\ Forall is_dtext ds
             /\ concat (map dval ds) = concat (rev txt) ++ flat_map seg_dec sgs.
Proof.
  induction sgs as [|sg tl IH]; intros pre post txt Hinp Hw.
  - cbn [seg_nodes inline_go flat_map]. rewrite app_nil_r. destruct txt as [|t0 txt'].
    + exists []. repeat split; constructor.
    + exists [DText (concat (rev (t0 :: txt')))]. repeat split; [constructor; [eexists; reflexivity|constructor]|].
      cbn [map dval concat]. apply app_nil_r.
  - destruct Hw as [Hsg Htl].
    assert (Hinp' : inp = (pre ++ seg_raw sg) ++ raw tl ++ post).
    { rewrite Hinp. change (raw (sg :: tl)) with (seg_raw sg ++ raw tl). rewrite <- !app_assoc. reflexivity. }
    assert (Htext : text inp (seg_node (len_N pre) sg) = seg_raw sg).
    { rewrite Hinp. change (raw (sg :: tl)) with (seg_raw sg ++ raw tl). rewrite <- app_assoc. apply text_seg_node. }
    cbn [seg_nodes inline_go].
    replace (len_N pre + len_N (seg_raw sg)) with (len_N (pre ++ seg_raw sg)) by apply len_N_app'.
    destruct sg as [c|r|c].
    + (* escaped character *)
      cbn [seg_node] in *. rewrite esc_node_no_method, Htext. cbn [seg_raw]. change (BS =? 92) with true. cbv iota.
      destruct (IH (pre ++ [BS; c]) post ([c] :: txt) Hinp' Htl) as (ds & E & Hd & Hc).
      exists ds. split; [exact E|]. split; [exact Hd|]. rewrite Hc, concat_rev_cons. cbn [flat_map seg_dec].
      rewrite <- app_assoc. reflexivity.
    + (* run of ordinary characters *)
      cbn [seg_node] in *. rewrite run_node_method, Htext. cbn [seg_raw].
      destruct Hsg as (Hr & Hall & _). destruct r as [|c0 r']; [contradiction|].
      inversion Hall as [|? ? [_ Ho] _]; subst.
      assert (E0 : (c0 =? 92) = false).
      { unfold ordinary in Ho. rewrite negb_true_iff in Ho. apply orb_false_elim in Ho. destruct Ho as [_ Ho]. exact Ho. }
      rewrite E0.
      destruct (IH (pre ++ c0 :: r') post ((c0 :: r') :: txt) Hinp' Htl) as (ds & E & Hd & Hc).
      exists ds. split; [exact E|]. split; [exact Hd|]. rewrite Hc, concat_rev_cons. cbn [flat_map seg_dec].
      rewrite <- app_assoc. reflexivity.
    + (* a single special character: InlineText.to_dict gives a text node of its own *)
      cbn [seg_node] in *. rewrite spec_node_method, td_spec_node, Htext. cbn [seg_raw bind].
      destruct (IH (pre ++ [c]) post [] Hinp' Htl) as (ds & E & Hd & Hc).
      rewrite E. cbn [bind].
      eexists. split; [reflexivity|]. split.
      * apply Forall_app. split; [destruct txt; [constructor|constructor; [eexists; reflexivity|constructor]]|].
        constructor; [eexists; reflexivity|exact Hd].
      * rewrite map_app, concat_app. cbn [map dval concat]. rewrite Hc. cbn [rev concat app flat_map seg_dec].
        destruct txt as [|t0 txt']; cbn [map dval concat]; [reflexivity|]. rewrite app_nil_r. reflexivity.
Qed.

(* C06: the run of inlines of a segmented string is text nodes only, and their values spell the
   decoded string: nothing was read as markup *)
Theorem plain_inlines_text f sgs pre post :
  wf_segs sgs ->
  exists ds, inline_many (pre ++ raw sgs ++ post) (to_dict (pre ++ raw sgs ++ post) (S f)) (seg_nodes (len_N pre) sgs) = OkR ds
             /\ Forall is_dtext ds /\ concat (map dval ds) = flat_map seg_dec sgs.
Proof. intros Hw. unfold inline_many. apply (inline_go_plain f _ sgs pre post [] eq_refl Hw). Qed.
