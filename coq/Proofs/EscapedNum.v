(* C13: a fully escaped num.  After the keyword's space, the character-by-character escaped string up to the line end
   is read by rule hier_element_heading_num as one escape node per character, and the num of the dict - the
   unescaped text of the content node - is the string itself. *)
Require Import BB.Base.Str BB.Base.Xml BB.Base.Dict BB.Model.PegSyntax BB.Model.Peg BB.Model.Types.
Require Import BB.Gen.Grammar BB.Gen.TablesTypes.
Require Import BB.Proofs.PegSpan BB.Proofs.Totality BB.Proofs.PegEscape BB.Proofs.EscapedHeading.
Open Scope N_scope.

Definition HHH : str := of_string "hier_element_heading_heading".
Definition NUMC : str := of_string "num_content".

Lemma rule_hnum : lookup akn_peg (of_string "hier_element_heading_num") =
  Some (Seq [Not (Ref HHH); Ref (of_string "space");
             Plus (Seq [Not (Ref HHH); Ref NUMC] [(NUMC, 1%nat)])]
            [(of_string "space", 1%nat); (of_string "content", 2%nat)]).
Proof. reflexivity. Qed.
Lemma rule_numc : exists cls, lookup akn_peg NUMC = Some (Alt [Ref (of_string "escape"); Cls cls]) /\ in_ranges NL cls = false.
Proof. vm_compute. eexists. split; reflexivity. Qed.

(* the heading separator needs a space first *)
Lemma hhh_fails_not_space f c rest off : c <> 32 ->
  run akn_peg (5 + f) (Ref HHH) (c :: rest) off = Fail.
Proof.
  intros Hc. change (5 + f)%nat with (S (S (S (S (S f))))). unfold HHH. rewrite run_Ref, rule_hhh, run_Seq. cbn [seq_loop].
  rewrite run_Ref, rule_space', run_Plus. cbn [rep_loop length]. rewrite run_Lit. cbn [strip_prefix].
  destruct (N.eqb_spec 32 c) as [E|_]; [congruence|]. reflexivity.
Qed.
(* ... and a dash after it *)
Lemma hhh_fails_no_dash f c rest off : c <> 32 -> c <> 45 ->
  run akn_peg (5 + f) (Ref HHH) (32 :: c :: rest) off = Fail.
Proof.
  intros Hc Hd. change (5 + f)%nat with (S (S (3 + f))). unfold HHH. rewrite run_Ref, rule_hhh, run_Seq. cbn [seq_loop].
  rewrite space_one by exact Hc. change (3 + f)%nat with (S (2 + f)). rewrite run_Lit. cbn [strip_prefix].
  destruct (N.eqb_spec 45 c) as [E|_]; [congruence|]. reflexivity.
Qed.

Definition num_step_node (off : N) : tree := Node off 2 [] [(NUMC, 1%nat)] [leaf off 0; esc_node off].

(* one escaped character of a num *)
Lemma num_step f c rest off : okc c ->
  run akn_peg (8 + f) (Seq [Not (Ref HHH); Ref NUMC] [(NUMC, 1%nat)]) (PegEscape.BS :: c :: rest) off
  = Ok rest (off + 2) (num_step_node off).
Proof.
  intros Hc. destruct rule_numc as (cls & En & _). destruct rule_escape as (clse & Ee & Hcls).
  change (8 + f)%nat with (S (S (6 + f))). rewrite run_Seq. cbn [seq_loop].
  assert (HN : run akn_peg (S (6 + f)) (Not (Ref HHH)) (PegEscape.BS :: c :: rest) off = Ok (PegEscape.BS :: c :: rest) off (leaf off 0)).
  { change (S (6 + f)) with (S (5 + (1 + f))). cbn [run]. fold (run akn_peg). rewrite hhh_fails_not_space by (unfold PegEscape.BS; discriminate). reflexivity. }
  rewrite HN.
  change (S (6 + f)) with (S (S (S (S (S (2 + f)))))). rewrite run_Ref, En, run_Alt. cbn [alt_loop].
  rewrite run_Ref, Ee, run_Seq. cbn [seq_loop]. rewrite run_Lit.
  change (strip_prefix [PegEscape.BS] (PegEscape.BS :: c :: rest)) with (Some (c :: rest)). cbn iota.
  rewrite run_Cls, (Hcls c Hc). cbn [rev_append]. unfold num_step_node, esc_node.
  change (len_N [PegEscape.BS]) with 1.
  replace (off + 1 + 1 - off) with 2 by lia. replace (off + 1 + 1) with (off + 2) by lia. reflexivity.
Qed.

Lemma num_step_at_newline f rest off :
  run akn_peg (8 + f) (Seq [Not (Ref HHH); Ref NUMC] [(NUMC, 1%nat)]) (NL :: rest) off = Fail.
Proof.
  destruct rule_numc as (cls & En & Hnl). destruct rule_escape as (clse & Ee & _).
  change (8 + f)%nat with (S (S (6 + f))). rewrite run_Seq. cbn [seq_loop].
  assert (HN : run akn_peg (S (6 + f)) (Not (Ref HHH)) (NL :: rest) off = Ok (NL :: rest) off (leaf off 0)).
  { change (S (6 + f)) with (S (5 + (1 + f))). cbn [run]. fold (run akn_peg). rewrite hhh_fails_not_space by (unfold NL; discriminate). reflexivity. }
  rewrite HN.
  change (S (6 + f)) with (S (S (S (S (S (2 + f)))))). rewrite run_Ref, En, run_Alt. cbn [alt_loop].
  rewrite run_Ref, Ee, run_Seq. cbn [seq_loop]. rewrite run_Lit.
  change (strip_prefix [PegEscape.BS] (NL :: rest)) with (@None str). cbn iota.
  rewrite run_Cls, Hnl. reflexivity.
Qed.

Fixpoint num_nodes (off : N) (s : str) : list tree :=
  match s with [] => [] | _ :: r => num_step_node off :: num_nodes (off + 2) r end.

Lemma num_loop f off0 : forall s rest k off acc,
  Forall okc s -> (2 * length s < k)%nat -> (s <> [] \/ acc <> []) ->
  rep_loop (run akn_peg (8 + f) (Seq [Not (Ref HHH); Ref NUMC] [(NUMC, 1%nat)])) off0 1%nat k (esc s ++ NL :: rest) off acc
  = Ok (NL :: rest) (off + 2 * len_N s)
       (Node off0 (off + 2 * len_N s - off0) [] [] (rev_append (rev_append (num_nodes off s) acc) [])).
Proof.
  induction s as [|c r IH]; intros rest k off acc Hs Hk Hne; destruct k as [|k]; try (simpl in Hk; lia).
  - cbn [esc app rep_loop]. rewrite num_step_at_newline.
    destruct acc as [|a acc']; [destruct Hne as [H|H]; contradiction|]. cbn [length Nat.leb].
    unfold len_N. cbn [length N.of_nat num_nodes rev_append]. rewrite N.mul_0_r, N.add_0_r. reflexivity.
  - inversion Hs as [|? ? Hc Hr]; subst. cbn [esc app rep_loop]. rewrite num_step by exact Hc.
    rewrite IH; [|exact Hr|cbn [length] in Hk; lia|right; discriminate].
    cbn [num_nodes rev_append]. replace (off + 2 + 2 * len_N r) with (off + 2 * len_N (c :: r)).
    + reflexivity.
    + unfold len_N. cbn [length]. lia.
Qed.

Definition num_content_node (off : N) (s : str) : tree := Node off (2 * len_N s) [] [] (num_nodes off s).
Definition num_node (off : N) (s : str) : tree :=
  Node off (1 + 2 * len_N s) [] [(of_string "space", 1%nat); (of_string "content", 2%nat)]
       [leaf off 0; space_node off; num_content_node (off + 1) s].

Theorem escaped_num_parses f s rest off :
  Forall okc s -> s <> [] ->
  run akn_peg (11 + f) (Ref (of_string "hier_element_heading_num")) (32 :: esc s ++ NL :: rest) off
  = Ok (NL :: rest) (off + 1 + 2 * len_N s) (num_node off s).
Proof.
  intros Hs Hne. destruct s as [|c0 r0] eqn:Es; [contradiction|]. rewrite <- Es in *.
  assert (Hesc : exists tl, esc s = PegEscape.BS :: tl) by (rewrite Es; cbn [esc]; eauto). destruct Hesc as (tl & Hesc).
  change (11 + f)%nat with (S (S (9 + f))). rewrite run_Ref, rule_hnum, run_Seq. cbn [seq_loop].
  assert (HN : run akn_peg (9 + f) (Not (Ref HHH)) (32 :: esc s ++ NL :: rest) off = Ok (32 :: esc s ++ NL :: rest) off (leaf off 0)).
  { rewrite Hesc. cbn [app]. change (9 + f)%nat with (S (5 + (3 + f))). cbn [run]. fold (run akn_peg).
    rewrite hhh_fails_no_dash by (unfold PegEscape.BS; discriminate). reflexivity. }
  rewrite HN. rewrite Hesc. cbn [app]. change (9 + f)%nat with (3 + (6 + f))%nat. rewrite space_one by (unfold PegEscape.BS; discriminate).
  change (PegEscape.BS :: tl ++ NL :: rest) with ((PegEscape.BS :: tl) ++ NL :: rest). rewrite <- Hesc.
  change (3 + (6 + f))%nat with (S (8 + f)). rewrite run_Plus.
  rewrite (num_loop f (off + 1) s rest _ (off + 1) [] Hs); [| |left; exact Hne].
  - rewrite !rev_append_rev, !app_nil_r, rev_involutive. cbn [rev_append]. unfold num_node, num_content_node.
    replace (off + 1 + 2 * len_N s - (off + 1)) with (2 * len_N s) by lia.
    replace (off + 1 + 2 * len_N s - off) with (1 + 2 * len_N s) by lia. reflexivity.
  - rewrite app_length. assert (length (esc s) = (2 * length s)%nat) as ->.
    { clear. induction s; simpl; lia. } simpl. lia.
Qed.

(* ---- the dict stage: the num is the unescaped text of the content node ---- *)
Lemma unescape_esc s : Forall okc s -> unescape (esc s) = s.
Proof.
  induction 1 as [|c r Hc Hr IH]; [reflexivity|]. cbn [esc unescape]. change (PegEscape.BS =? 92) with true. cbn iota.
  destruct Hc as [_ Hn]. destruct (N.eqb_spec c NL) as [E|_]; [contradiction|]. rewrite IH. reflexivity.
Qed.

Theorem escaped_num_literal s pre post :
  Forall okc s ->
  unescape (text (pre ++ 32 :: esc s ++ post) (num_content_node (len_N pre + 1) s)) = s.
Proof.
  intros Hs. unfold text, num_content_node. cbn [t_off t_len].
  replace (pre ++ 32 :: esc s ++ post) with ((pre ++ [32]) ++ esc s ++ post) by (rewrite <- app_assoc; reflexivity).
  replace (N.to_nat (len_N pre + 1)) with (length (pre ++ [32])) by (unfold len_N; rewrite app_length; cbn [length]; lia).
  rewrite skipn_app, skipn_all, Nat.sub_diag. cbn [skipn app].
  replace (N.to_nat (2 * len_N s)) with (length (esc s)).
  - rewrite firstn_app, firstn_all, Nat.sub_diag. cbn [firstn]. rewrite app_nil_r. apply unescape_esc. exact Hs.
  - unfold len_N. clear. induction s; simpl; lia.
Qed.
