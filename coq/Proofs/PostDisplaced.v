(* C14: no internal placeholder element survives; a used block is gone from the tree. *)
Require Import BB.Base.Str BB.Base.Xml BB.Base.Dict BB.Model.Types BB.Model.Eid BB.Model.XmlGen BB.Model.Post.
Open Scope N_scope.

(* no element of the (id-annotated) tree is tagged displaced *)
Fixpoint no_displaced_i (f : nat) (x : ixml) : bool :=
  match f with
  | O => true
  | S f' =>
    match x with
    | ITx _ => true
    | IEl _ tag _ kids => negb (str_eqb tag DISPLACED) && forallb (no_displaced_i f') kids
    end
  end.

Fixpoint idepth (x : ixml) : nat :=
  match x with
  | ITx _ => 1%nat
  | IEl _ _ _ kids => S (fold_right (fun k m => Nat.max (idepth k) m) 0%nat kids)
  end.

Lemma drop_leading_text_forall (P : ixml -> bool) l :
  forallb P l = true -> forallb P (drop_leading_text l) = true.
Proof.
  induction l as [|k r IH]; simpl; intros H; [reflexivity|].
  apply andb_true_iff in H as [H1 H2]. destruct k; [simpl; rewrite H1, H2; reflexivity|]. apply IH. exact H2.
Qed.

(* every tree that splice_displaced returns is free of displaced elements, whatever the input *)
Theorem splice_no_displaced : forall f g x l,
  splice_displaced f x = OkR l -> forallb (no_displaced_i g) l = true.
Proof.
  induction f as [|f IH]; intros g x l H; [discriminate|].
  destruct x as [i tag attrs kids|s]; cbn [splice_displaced] in H.
  2:{ inversion H; subst. destruct g; reflexivity. }
  destruct (if str_eqb tag DISPLACED then _ else _) as [u|e] in H; [|discriminate]. cbn [bind] in H.
  match type of H with context [bind ?K _] => destruct K as [kids'|e] eqn:EK end; [|discriminate].
  cbn [bind] in H.
  assert (HK : forall g0, forallb (no_displaced_i g0) kids' = true).
  { clear H.
    match type of EK with ?F false kids = OkR kids' =>
      assert (HG : forall ls skip out, F skip ls = OkR out -> forall g0, forallb (no_displaced_i g0) out = true)
    end.
    { induction ls as [|k r IHk]; intros skip out EK' g0.
      - inversion EK'; subst. reflexivity.
      - destruct k as [j kt ka kk|ks].
        + destruct (splice_displaced f (IEl j kt ka kk)) as [k'|e] eqn:Ek; [|discriminate]. cbn [bind] in EK'.
          pose proof (IH g0 _ _ Ek) as Hk'.
          match type of EK' with context [bind ?K _] => destruct K as [r'|e] eqn:Er end; [|discriminate].
          cbn [bind] in EK'. inversion EK'; subst. rewrite forallb_app, Hk'. apply (IHk _ _ Er).
        + match type of EK' with context [bind ?K _] => destruct K as [r'|e] eqn:Er end; [|discriminate].
          cbn [bind] in EK'. inversion EK'; subst. pose proof (IHk _ _ Er g0) as Hr.
          destruct skip; [exact Hr|]. cbn [forallb]. rewrite Hr. destruct g0; reflexivity. }
    exact (HG _ _ _ EK). }
  destruct (str_eqb tag DISPLACED) eqn:Et.
  - destruct (get_attr NAME attrs); [|discriminate]. destruct (get_attr MARKER attrs); [|discriminate].
    inversion H; subst. cbn [forallb]. rewrite drop_leading_text_forall by apply HK.
    destruct g as [|g']; [reflexivity|]. cbn [no_displaced_i forallb]. destruct g'; reflexivity.
  - inversion H; subst. cbn [forallb]. destruct g as [|g']; [reflexivity|].
    cbn [no_displaced_i]. rewrite Et, HK. reflexivity.
Qed.

(* the same on plain trees *)
Fixpoint no_displaced_x (f : nat) (x : xml) : bool :=
  match f with
  | O => true
  | S f' =>
    match x with
    | Tx _ => true
    | El tag _ kids => negb (str_eqb tag DISPLACED) && forallb (no_displaced_x f') kids
    end
  end.

Lemma forget_no_displaced : forall g f x,
  no_displaced_i g x = true -> no_displaced_x g (forget f x) = true.
Proof.
  induction g as [|g IH]; intros f x H; [reflexivity|].
  destruct f as [|f]; [reflexivity|]. destruct x as [i tag attrs kids|s]; [|reflexivity].
  cbn [no_displaced_i forget no_displaced_x] in *. apply andb_true_iff in H as [H1 H2]. rewrite H1. simpl.
  clear H1. induction kids as [|k r IHk]; [reflexivity|]. cbn [forallb map] in *.
  apply andb_true_iff in H2 as [Hk Hr]. rewrite (IH f k Hk). apply IHk. exact Hr.
Qed.

Lemma normalise_text_no_displaced : forall g f x,
  no_displaced_x g x = true -> no_displaced_x g (normalise_text f x) = true.
Proof.
  induction g as [|g IH]; intros f x H; [reflexivity|].
  destruct f as [|f]; [exact H|]. destruct x as [tag attrs kids|s]; [|exact H].
  cbn [no_displaced_x normalise_text] in *. apply andb_true_iff in H as [H1 H2]. rewrite H1. simpl. clear H1.
  induction kids as [|k r IHk]; [reflexivity|]. cbn [forallb] in H2. apply andb_true_iff in H2 as [Hk Hr].
  specialize (IHk Hr). destruct k as [kt ka kk|[|c s']].
  - cbn [forallb]. rewrite (IH f _ Hk). exact IHk.
  - exact IHk.
  - match goal with |- forallb _ (match ?G with _ => _ end) = true => destruct G as [|[|] ?] eqn:EG end;
      cbn [forallb] in *; try (destruct g; exact IHk); try (destruct g; simpl in *; exact IHk).
Qed.

(* C14: whatever the tree, if resolve_displaced_content returns, no displaced element is left *)
Theorem no_displaced_survives x y :
  resolve_displaced_content x = OkR y -> forall g, no_displaced_x g y = true.
Proof.
  unfold resolve_displaced_content. destruct (number (displaced_fuel x) x 0) as [ix next].
  match goal with |- context [bind ?K _] => destruct K as [[ix1 n1]|e] end; [|discriminate]. cbn [bind].
  destruct (splice_displaced (displaced_fuel x) ix1) as [l|e] eqn:E; [|discriminate]. cbn [bind].
  destruct l as [|r [|? ?]]; try discriminate. intros H g. injection H as <-.
  apply (normalise_text_no_displaced g (displaced_fuel x)).
  change (no_displaced_x g (forget (displaced_fuel x) r) = true). apply forget_no_displaced.
  pose proof (splice_no_displaced _ g _ _ E) as P. cbn [forallb] in P.
  apply andb_true_iff in P as [P _]. exact P.
Qed.
