(* C11 core: the stack algorithm of pre_parse emits balanced, never-negative markers,
   never opens an empty block, and every emitted line is clean. *)
Require Import BB.Base.Str BB.Gen.TablesParser BB.Model.PreParse BB.Model.PreParseSpec.
Open Scope N_scope.

(* facts about the generated tables, re-checked by computation on every run *)
Lemma markers_distinct : (INDENT_C =? DEDENT_C) = false. Proof. reflexivity. Qed.
Lemma ind_line_ok : line_ok [INDENT_C] = true. Proof. reflexivity. Qed.
Lemma ded_line_ok : line_ok [DEDENT_C] = true. Proof. reflexivity. Qed.
Lemma ind_not_ded : is_ded_line [INDENT_C] = false. Proof. reflexivity. Qed.
Lemma ded_not_ind : is_ind_line [DEDENT_C] = false. Proof. reflexivity. Qed.
Lemma ind_is_ind : is_ind_line [INDENT_C] = true. Proof. reflexivity. Qed.
Lemma ded_is_ded : is_ded_line [DEDENT_C] = true. Proof. reflexivity. Qed.

Arguments is_ind_line : simpl never.
Arguments is_ded_line : simpl never.
Arguments is_marker_line : simpl never.
Arguments line_ok : simpl never.

Definition pos_all (us : list Z) : Prop := Forall (fun u => (0 < u)%Z) us.
Definition base : list Z := [0; -1]%Z.

Lemma dedent_loop_good level us acc :
  (0 <= level)%Z -> pos_all us ->
  exists k us', dedent_loop level (us ++ base) acc = Some ((acc + k)%nat, us' ++ base)
                /\ pos_all us' /\ (1 <= k)%nat /\ length us = (length us' + (k - 1))%nat.
Proof.
  intros Hl. revert acc. induction us as [|u us IH]; intros acc Hp.
  - simpl. destruct (Z.geb_spec level 0); [|lia].
    exists 1%nat, []. simpl. replace (acc + 1)%nat with (S acc) by lia.
    repeat split; auto.
  - inversion Hp as [|? ? Hu Hp']; subst. simpl.
    destruct (Z.geb_spec level u).
    + exists 1%nat, (u :: us). simpl. replace (acc + 1)%nat with (S acc) by lia.
      repeat split; auto; lia.
    + destruct (IH (S acc) Hp') as (k & us' & E & P & K & Len).
      exists (S k), us'. rewrite E. replace (S acc + k)%nat with (acc + S k)%nat by lia.
      repeat split; auto; simpl; lia.
Qed.

Inductive step_kind (n n' : nat) : list marker -> Prop :=
| SameK : n' = n -> step_kind n n' []
| IndK : n' = S n -> step_kind n n' [MInd]
| DedK k : (1 <= k)%nat -> n = (n' + k)%nat -> step_kind n n' (repeat MDed k).

Lemma handle_good level us :
  (0 <= level)%Z -> pos_all us ->
  exists ms us', handle level (us ++ base) = Some (ms, us' ++ base)
                 /\ pos_all us' /\ step_kind (length us) (length us') ms.
Proof.
  intros Hl Hp. destruct us as [|top rest].
  - (* top of stack is level 0 *)
    simpl. destruct (Z.eqb_spec level 0).
    + exists [], []. repeat split; auto. constructor. reflexivity.
    + destruct (Z.gtb_spec level 0); [|lia].
      exists [MInd], [level]. repeat split.
      * repeat constructor. lia.
      * constructor. reflexivity.
  - inversion Hp as [|? ? Ht Hp']; subst.
    cbn [app handle].
    destruct (Z.eqb_spec level top).
    + exists [], (top :: rest). repeat split; auto. constructor. reflexivity.
    + destruct (Z.gtb_spec level top).
      * exists [MInd], (level :: top :: rest). repeat split.
        -- constructor; [lia|auto].
        -- constructor. reflexivity.
      * (* pop *)
        assert (exists top2 tl, rest ++ base = top2 :: tl /\ (0 <= top2)%Z) as (top2 & tl & E2 & H2).
        { destruct rest as [|r rest'].
          - exists 0%Z, [(-1)%Z]. split; [reflexivity|lia].
          - inversion Hp'; subst. exists r, (rest' ++ base). split; [reflexivity|lia]. }
        rewrite E2. destruct (Z.gtb_spec level top2).
        -- exists [], (level :: rest). rewrite <- E2. repeat split.
           ++ constructor; [lia|auto].
           ++ constructor. reflexivity.
        -- rewrite <- E2.
           destruct (dedent_loop_good level rest 0 Hl Hp') as (k & us' & E & P & K & Len).
           rewrite E. exists (repeat MDed k), us'. repeat split; auto.
           apply DedK; [exact K|]. simpl. lia.
Qed.

(* lines of the cleaned text *)
Definition clean_line (l : str) : bool :=
  negb (mem_c TAB l) && negb (mem_c NL l) && negb (mem_c INDENT_C l) && negb (mem_c DEDENT_C l)
  && match last_c l with Some c => negb (c =? SP) | None => true end.

Arguments clean_line : simpl never.

Lemma span_sp_spec l : forall n b, span_sp l = (n, b) ->
  l = repeat SP n ++ b /\ match b with c :: _ => (c =? SP) = false | [] => True end.
Proof.
  induction l as [|c r IH]; intros n b H; simpl in H.
  - inversion H; subst. split; [reflexivity|exact I].
  - unfold is_sp in H. destruct (N.eqb_spec c SP).
    + destruct (span_sp r) as [n' b'] eqn:E. inversion H; subst.
      destruct (IH _ _ eq_refl) as [E1 E2]. split; [|exact E2]. simpl. f_equal. exact E1.
    + inversion H; subst. split; [reflexivity|]. apply N.eqb_neq. exact n0.
Qed.

Lemma mem_c_app c a b : mem_c c (a ++ b) = mem_c c a || mem_c c b.
Proof. unfold mem_c. apply existsb_app. Qed.

Lemma last_c_app_nonempty a b : b <> [] -> last_c (a ++ b) = last_c b.
Proof.
  intros Hb. unfold last_c. rewrite rev_app_distr.
  destruct (rev b) eqn:E.
  - apply (f_equal (@rev N)) in E. rewrite rev_involutive in E. simpl in E. contradiction.
  - reflexivity.
Qed.

Lemma last_c_repeat_sp n : last_c (repeat SP (S n)) = Some SP.
Proof.
  unfold last_c. replace (repeat SP (S n)) with (repeat SP n ++ [SP]).
  - rewrite rev_app_distr. reflexivity.
  - induction n; simpl; [reflexivity|]. f_equal. exact IHn.
Qed.

Lemma orb_false_elim2 a b : a || b = false -> a = false /\ b = false.
Proof. destruct a, b; simpl; auto. Qed.

Lemma clean_body l n c b :
  clean_line l = true -> span_sp l = (n, c :: b) -> 
  line_ok (c :: b) = true /\ is_ind_line (c :: b) = false /\ is_ded_line (c :: b) = false.
Proof.
  intros Hc Hs. apply span_sp_spec in Hs as [El Hd]. subst l.
  unfold clean_line in Hc. repeat rewrite andb_true_iff in Hc.
  destruct Hc as ((((H1 & H2) & H3) & H4) & H5).
  rewrite mem_c_app in H1, H2, H3, H4.
  rewrite negb_true_iff in H1, H2, H3, H4.
  apply orb_false_elim2 in H1 as [_ H1]. apply orb_false_elim2 in H2 as [_ H2].
  apply orb_false_elim2 in H3 as [_ H3]. apply orb_false_elim2 in H4 as [_ H4].
  rewrite last_c_app_nonempty in H5 by discriminate.
  assert (Hi : is_ind_line (c :: b) = false).
  { unfold is_ind_line. destruct (str_eqb (c :: b) [INDENT_C]) eqn:E; [|reflexivity].
    apply str_eqb_spec in E. rewrite E in H3. unfold mem_c in H3. cbn [existsb] in H3. rewrite N.eqb_refl in H3. discriminate. }
  assert (Hdd : is_ded_line (c :: b) = false).
  { unfold is_ded_line. destruct (str_eqb (c :: b) [DEDENT_C]) eqn:E; [|reflexivity].
    apply str_eqb_spec in E. rewrite E in H4. unfold mem_c in H4. cbn [existsb] in H4. rewrite N.eqb_refl in H4. discriminate. }
  split; [|split; assumption].
  unfold line_ok. rewrite H1, H2, H3, H4, Hd, H5. simpl.
  unfold is_marker_line. rewrite Hi, Hdd. reflexivity.
Qed.

Lemma clean_blank l n : clean_line l = true -> span_sp l = (n, []) -> l = [].
Proof.
  intros Hc Hs. apply span_sp_spec in Hs as [El _]. rewrite app_nil_r in El. subst l.
  destruct n; [reflexivity|]. unfold clean_line in Hc. rewrite last_c_repeat_sp in Hc.
  rewrite N.eqb_refl in Hc. repeat rewrite andb_true_iff in Hc. destruct Hc as [_ Hc]. discriminate.
Qed.

Lemma wf_markers_deds n tail :
  forall d, wf_markers d false tail = true ->
  wf_markers (d + n) false (repeat [DEDENT_C] n ++ tail) = true.
Proof.
  induction n as [|n IH]; intros d H; simpl.
  - rewrite Nat.add_0_r. exact H.
  - replace (d + S n)%nat with (S (d + n)) by lia. simpl. apply IH. exact H.
Qed.

Lemma map_marker_line_deds k : map marker_line (repeat MDed k) = repeat [DEDENT_C] k.
Proof. induction k; simpl; [reflexivity|]. f_equal. exact IHk. Qed.

Lemma forallb_repeat {A} (f : A -> bool) x n : f x = true -> forallb f (repeat x n) = true.
Proof. intros H. induction n; simpl; [reflexivity|]. rewrite H. exact IHn. Qed.

Lemma span_sp_lstrip l : snd (span_sp l) = lstrip is_sp l.
Proof.
  induction l as [|c r IH]; simpl; [reflexivity|].
  destruct (is_sp c); [|reflexivity]. destruct (span_sp r). simpl in *. exact IH.
Qed.

Lemma content_lines_app a b : content_lines (a ++ b) = content_lines a ++ content_lines b.
Proof. unfold content_lines. apply filter_app. Qed.

Lemma content_lines_markers ms : content_lines (map marker_line ms) = [].
Proof. induction ms as [|m r IH]; [reflexivity|]. destruct m; simpl; exact IH. Qed.

Lemma content_lines_cons_keep l r :
  is_marker_line l = false -> content_lines (l :: r) = l :: content_lines r.
Proof. intros H. unfold content_lines. cbn [filter]. rewrite H. reflexivity. Qed.

Lemma nil_not_marker : is_marker_line [] = false. Proof. reflexivity. Qed.

(* the main invariant, in continuation style *)
Lemma process_good ls : forall us,
  forallb clean_line ls = true -> pos_all us ->
  exists out us', process (us ++ base) ls = Some (out, us' ++ base)
    /\ pos_all us'
    /\ forallb line_ok out = true
    /\ (forall tail, wf_markers (length us') false tail = true ->
                     wf_markers (length us) false (out ++ tail) = true)
    /\ content_lines out = map (lstrip is_sp) ls.
Proof.
  induction ls as [|l r IH]; intros us Hc Hp.
  - exists [], us. simpl. repeat split; auto.
  - simpl in Hc. apply andb_true_iff in Hc as [Hl Hr].
    cbn [process]. destruct (span_sp l) as [n body] eqn:Es.
    pose proof (span_sp_lstrip l) as Hls. rewrite Es in Hls. simpl in Hls.
    destruct body as [|c b].
    + (* blank line *)
      pose proof (clean_blank _ _ Hl Es) as ->.
      destruct (IH us Hr Hp) as (out & us' & E & P & LO & W & CL).
      rewrite E. exists ([] :: out), us'. repeat split; auto.
      cbn [map]. rewrite <- Hls. rewrite content_lines_cons_keep by apply nil_not_marker.
      rewrite CL. reflexivity.
    + destruct (clean_body _ _ _ _ Hl Es) as (LOb & NI & ND).
      destruct (handle_good (Z.of_nat n) us ltac:(lia) Hp) as (ms & us1 & Eh & P1 & K).
      rewrite Eh.
      destruct (IH us1 Hr P1) as (out & us' & E & P & LO & W & CL).
      rewrite E. exists (map marker_line ms ++ (c :: b) :: out), us'.
      split; [reflexivity|]. split; [exact P|]. split; [|split].
      * rewrite forallb_app. simpl. rewrite LOb, LO. rewrite andb_true_r.
        destruct K as [_|_|k _ _].
        -- reflexivity.
        -- reflexivity.
        -- rewrite map_marker_line_deds. apply forallb_repeat. apply ded_line_ok.
      * intros tail Ht. specialize (W tail Ht).
        destruct K as [Hn|Hn|k Hk Hn].
        -- simpl. rewrite NI, ND. rewrite <- Hn. exact W.
        -- simpl. rewrite NI, ND. rewrite <- Hn. exact W.
        -- rewrite map_marker_line_deds. rewrite <- app_assoc. rewrite Hn.
           apply wf_markers_deds. simpl. rewrite NI, ND. exact W.
      * rewrite content_lines_app, content_lines_markers. cbn [app map].
        rewrite content_lines_cons_keep by (unfold is_marker_line; rewrite NI, ND; reflexivity).
        rewrite CL, Hls. reflexivity.
Qed.
